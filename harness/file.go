package main

import (
	"bytes"
	"fmt"
	"net"
	"os"
	"os/exec"
	"path/filepath"
	"reflect"
	"strings"
	"time"

	"github.com/coredhcp/coredhcp/handler"
	"github.com/coredhcp/coredhcp/plugins/file"
	"github.com/insomniacslk/dhcp/dhcpv4"
	"github.com/insomniacslk/dhcp/dhcpv6"
	"github.com/insomniacslk/dhcp/iana"
)

func init() {
	engines["file"] = &engine{gen: genFile, replay: replayFile}
}

type fileState struct {
	dir     string
	name    [2]string // per protocol (0 = v4, 1 = v6)
	h4      handler.Handler4
	h6      handler.Handler6
	auto    [2]bool
	watched [2]string // the file the serving instance of each protocol was set up on
	nfile   int
	wedged  bool // a lookup never returned: every further call into the plugin would block
}

func (s *fileState) close() {
	if s.dir != "" {
		os.RemoveAll(s.dir)
	}
}

// lineOracle: what LoadDHCPvNRecords sees of each line, with the stdlib parsers' answers
func lineOracle(content []byte) string {
	var out []string
	for _, lb := range bytes.Split(content, []byte{'\n'}) {
		line := string(lb)
		if len(line) == 0 {
			out = append(out, "E")
			continue
		}
		if strings.HasPrefix(line, "#") {
			out = append(out, "H")
			continue
		}
		toks := strings.Fields(line)
		if len(toks) != 2 {
			out = append(out, fmt.Sprintf("T%d", len(toks)))
			continue
		}
		mac := "-"
		if hw, err := net.ParseMAC(toks[0]); err == nil {
			mac = "x" + hx(hw) // hwaddr.String() is injective on the bytes
		}
		ip := "-"
		if p := net.ParseIP(toks[1]); p != nil {
			if p4 := p.To4(); p4 != nil {
				ip = "4." + hx(p4)
			} else {
				ip = "6." + hx(p)
			}
		}
		out = append(out, fmt.Sprintf("T2:%s:%s", mac, ip))
	}
	return strings.Join(out, ",")
}

func tablePtr(v6 bool) uintptr {
	if v6 {
		return reflect.ValueOf(file.DHCPv6Records).Pointer()
	}
	return reflect.ValueOf(file.DHCPv4Records).Pointer()
}

func (s *fileState) exec(c *ctx, op string) string {
	f := strings.Fields(op)
	if s.wedged && f[0] != "freset" {
		return "" // a lookup never returned: every further call into the plugin would block too
	}
	switch f[0] {
	case "freset": // a fresh process: nothing is set up
		c.emit(op, "ok")
		return "ok"
	case "fsetup": // fsetup <4|6> <auto 0|1> <contenthex>
		v6 := f[1] == "6"
		pi := b2i(v6)
		content := unhx(f[3])
		if s.dir == "" {
			d, err := os.MkdirTemp(".", "file")
			if err != nil {
				panic(err)
			}
			s.dir = d
		}
		s.nfile++
		s.name[pi] = filepath.Join(s.dir, fmt.Sprintf("leases%d-%d.txt", 4+2*pi, s.nfile))
		if err := os.WriteFile(s.name[pi], content, 0o644); err != nil {
			panic(err)
		}
		// the name given to the plugin: the file itself, or (fsetup … <how>) a symbolic link to it — relative, in the same
		// directory ("l"), or absolute from another directory ("L") —, or a spelling with ./ and // in it ("d").
		// Rewrites always go to the real file, in place.
		given := s.name[pi]
		if len(f) > 4 {
			switch f[4] {
			case "l":
				given = filepath.Join(s.dir, fmt.Sprintf("link%d", s.nfile))
				if err := os.Symlink(filepath.Base(s.name[pi]), given); err != nil {
					panic(err)
				}
			case "L":
				sub := filepath.Join(s.dir, fmt.Sprintf("etc%d", s.nfile))
				os.MkdirAll(sub, 0o755)
				abs, err := filepath.Abs(s.name[pi])
				if err != nil {
					panic(err)
				}
				given = filepath.Join(sub, "leases")
				if err := os.Symlink(abs, given); err != nil {
					panic(err)
				}
			case "d":
				given = "./" + filepath.Dir(s.name[pi]) + "//" + filepath.Base(s.name[pi])
			}
		}
		args := []string{given}
		if f[2] == "1" {
			args = append(args, "autorefresh")
		}
		res := guard(func() string {
			if v6 {
				h, err := file.Plugin.Setup6(args...)
				if err != nil || h == nil {
					return "err"
				}
				s.h6 = h
			} else {
				h, err := file.Plugin.Setup4(args...)
				if err != nil || h == nil {
					return "err"
				}
				s.h4 = h
			}
			s.auto[pi] = f[2] == "1"
			s.watched[pi] = s.name[pi]
			return "ok"
		})
		if res != "ok" {
			// start-up would have been aborted: the instance that keeps serving is the previous one,
			// still watching (if at all) the previous file
			s.name[pi] = s.watched[pi]
		}
		c.emit(op, lineOracle(content)+" ; "+res)
		return res
	case "fwrite", "fmove": // fwrite <4|6> <contenthex> : rewrite the watched file in place, wait for the refresh; fmove: the new version is written under another name and moved into place (rename), as editors and configuration tools do
		v6 := f[1] == "6"
		pi := b2i(v6)
		if s.name[pi] == "" || !s.auto[pi] {
			return ""
		}
		content := unhx(f[2])
		// One write() and no truncation, so that the watcher sees exactly one change and never an
		// intermediate (empty or half-written) file: pad the new content with comment lines up to the
		// length of the current file and overwrite in place.
		if st, err := os.Stat(s.name[pi]); err == nil {
			content = padTo(content, st.Size())
		}
		// how long to wait: ask the loader itself (on a private copy) whether this file is acceptable
		probe := s.name[pi] + ".probe"
		os.WriteFile(probe, content, 0o644)
		var perr error
		if v6 {
			_, perr = file.LoadDHCPv6Records(probe)
		} else {
			_, perr = file.LoadDHCPv4Records(probe)
		}
		os.Remove(probe)
		before := tablePtr(v6)
		if f[0] == "fmove" {
			tmp := s.name[pi] + ".new"
			if err := os.WriteFile(tmp, content, 0o644); err != nil {
				panic(err)
			}
			if err := os.Rename(tmp, s.name[pi]); err != nil {
				panic(err)
			}
		} else {
			fh, err := os.OpenFile(s.name[pi], os.O_WRONLY, 0o644)
			if err != nil {
				panic(err)
			}
			if _, err := fh.WriteAt(content, 0); err != nil {
				panic(err)
			}
			fh.Close()
		}
		// fsnotify delivery is asynchronous ("eventually"): a file the loader accepts must replace the
		// served table within 10 s; one it rejects must not have replaced it after 300 ms
		seen := "unchanged"
		wait := 300 * time.Millisecond
		if perr == nil {
			wait = 10 * time.Second
		}
		deadline := time.Now().Add(wait)
		for time.Now().Before(deadline) {
			time.Sleep(5 * time.Millisecond)
			if tablePtr(v6) != before {
				seen = "replaced"
				break
			}
		}
		if seen == "replaced" {
			time.Sleep(20 * time.Millisecond) // let a second event for the same write settle
		}
		c.emit(op, lineOracle(content)+" ; "+seen)
		return seen
	case "fq4": // fq4 <machex>
		if s.h4 == nil {
			return ""
		}
		res := guard(func() string { return s.q4(unhx(f[1])) })
		c.emit(op, res)
		return res
	case "fq6": // fq6 <machex|-> <hasIANA 0|1> <relaydepth>
		if s.h6 == nil {
			return ""
		}
		relay := "-"
		if len(f) > 4 {
			relay = f[4]
		}
		res := guard(func() string { return s.q6r(f[1], f[2] == "1", atoi(f[3]), byte(c.count), relay) })
		c.emit(op, res)
		return res
	case "fhammer", "fpair":
		return s.hammer(c, op, f)
	}
	panic("bad op " + op)
}

func (s *fileState) q4(mac []byte) string {
	req, _ := dhcpv4.New(dhcpv4.WithMessageType(dhcpv4.MessageTypeDiscover), dhcpv4.WithHwAddr(net.HardwareAddr(mac)))
	req, _ = dhcpv4.FromBytes(req.ToBytes())
	resp := stubResp4(req)
	out, stop := s.h4(req, resp)
	if out == nil {
		return "nil"
	}
	// what HandleMsg4 does next is to serialise the reply (a panic there is the caller's `guard`'s to report)
	_ = out.ToBytes()
	if stop {
		return fmt.Sprintf("yiaddr %s stop", hx(out.YourIPAddr.To4()))
	}
	if !out.YourIPAddr.Equal(net.IPv4zero) {
		return "yiaddr-without-stop"
	}
	return "pass"
}

func (s *fileState) q6(machex string, hasIANA bool, depth int, tag byte) string {
	r := s.q6r(machex, hasIANA, depth, tag, "-")
	if i := strings.Index(r, " ; "); i >= 0 && strings.HasPrefix(r, "xm ") {
		return r[i+3:]
	}
	return r
}

// q6r: as q6, with what the innermost relay says about the client's hardware address
// ("-": nothing; "L<mac>": a Client Link-Layer Address option, RFC 6939; "E<mac>": the peer address
// is the EUI-64 link-local address of <mac>). The result starts with the library's answer to
// dhcpv6.ExtractMAC on the whole datagram ("xm <hex|-> ; "), which is what the plugin must key on.
func (s *fileState) q6r(machex string, hasIANA bool, depth int, tag byte, relay string) string {
	{
		{
			f := []string{"fq6", machex, "0", fmt.Sprint(depth)}
			if hasIANA {
				f[2] = "1"
			}
			m, _ := dhcpv6.NewMessage()
			m.MessageType = dhcpv6.MessageTypeSolicit
			mac := unhx(f[1])
			if f[1] != "-" {
				m.AddOption(dhcpv6.OptClientID(&dhcpv6.DUIDLL{HWType: iana.HWTypeEthernet, LinkLayerAddr: net.HardwareAddr(mac)}))
			} else {
				m.AddOption(dhcpv6.OptClientID(&dhcpv6.DUIDEN{EnterpriseNumber: 7, EnterpriseIdentifier: []byte{1, 2, 3, 4}}))
			}
			iaid := [4]byte{0xaa, 0xbb, tag, 1}
			if f[2] == "1" {
				m.AddOption(&dhcpv6.OptIANA{IaId: iaid})
			}
			var d dhcpv6.DHCPv6 = m
			for i := 0; i < atoi(f[3]); i++ {
				peer := net.ParseIP("2001:db8::2")
				if i == 0 && strings.HasPrefix(relay, "E") {
					hw := unhx(relay[1:])
					if len(hw) == 6 {
						peer = net.IP{0xfe, 0x80, 0, 0, 0, 0, 0, 0, hw[0] ^ 2, hw[1], hw[2], 0xff, 0xfe, hw[3], hw[4], hw[5]}
					}
				}
				rr, _ := dhcpv6.EncapsulateRelay(d, dhcpv6.MessageTypeRelayForward, net.ParseIP("2001:db8::1"), peer)
				if i == 0 && strings.HasPrefix(relay, "L") {
					rr.AddOption(dhcpv6.OptClientLinkLayerAddress(iana.HWTypeEthernet, net.HardwareAddr(unhx(relay[1:]))))
				}
				d = rr
			}
			d, err := dhcpv6.FromBytes(d.ToBytes())
			if err != nil {
				return "unbuildable"
			}
			xm := "xm -"
			if hw, err := dhcpv6.ExtractMAC(d); err == nil {
				xm = "xm " + hx(hw)
			}
			resp, _ := dhcpv6.NewAdvertiseFromSolicit(m)
			out, stop := s.h6(d, resp)
			if out == nil {
				return xm + " ; nil"
			}
			if stop {
				return xm + " ; stop"
			}
			ias := out.(*dhcpv6.Message).Options.IANA()
			if len(ias) == 0 {
				return xm + " ; pass"
			}
			if len(ias) > 1 || len(ias[0].Options.Addresses()) != 1 {
				return xm + " ; malformed-iana"
			}
			a := ias[0].Options.Addresses()[0]
			ok := "iaid-ok"
			if ias[0].IaId != iaid {
				ok = "iaid-wrong"
			}
			return xm + " ; " + fmt.Sprintf("iana %s %s %d %d", hx(a.IPv6Addr.To16()), ok, int64(a.PreferredLifetime/time.Second), int64(a.ValidLifetime/time.Second))
		}
	}
}

// padTo pads a lease file with comment lines up to the given length
func padTo(content []byte, size int64) []byte {
	if int64(len(content)) >= size {
		return content
	}
	if len(content) > 0 && content[len(content)-1] != '\n' {
		content = append(content, '\n')
	}
	for int64(len(content)) < size {
		pad := size - int64(len(content))
		if pad == 1 {
			content = append(content, '\n')
		} else {
			line := "#" + strings.Repeat("p", int(pad)-2) + "\n"
			content = append(content, line...)
		}
	}
	return content
}

func replayFile(c *ctx, ops []string) {
	s := &fileState{}
	defer s.close()
	for _, op := range ops {
		s.exec(c, op)
	}
}

func genFile(c *ctx) {
	macForms := func(m []byte) string {
		switch c.rng.Intn(4) {
		case 0:
			return net.HardwareAddr(m).String()
		case 1:
			return strings.ToUpper(net.HardwareAddr(m).String())
		case 2:
			return strings.ReplaceAll(net.HardwareAddr(m).String(), ":", "-")
		default:
			if len(m) == 6 {
				return fmt.Sprintf("%02x%02x.%02x%02x.%02x%02x", m[0], m[1], m[2], m[3], m[4], m[5])
			}
			return net.HardwareAddr(m).String()
		}
	}
	var pending []string
	npending, planned := 0, 0
	for planned < c.n {
		// a small population of hardware addresses so that duplicates and lookups hit
		var macs [][]byte
		for i := 0; i < 5; i++ {
			m := make([]byte, 6)
			c.rng.Read(m)
			if c.rng.Intn(8) == 0 {
				m = append(m, 1, 2) // EUI-64
			}
			macs = append(macs, m)
		}
		mkFile := func(v6 bool, bad bool) []byte {
			var sb strings.Builder
			n := c.rng.Intn(7)
			badAt := -1
			if bad {
				badAt = c.rng.Intn(n + 1)
			}
			for i := 0; i <= n; i++ {
				if i == badAt {
					switch c.rng.Intn(7) {
					case 0:
						sb.WriteString("00:11:22:33:44:55\n") // missing field
					case 1:
						sb.WriteString("00:11:22:33:44:55 10.0.0.1 extra\n")
					case 2:
						sb.WriteString("not-a-mac 10.0.0.1\n")
					case 3:
						sb.WriteString("00:11:22:33:44:55 not-an-ip\n")
					case 4: // wrong family
						if v6 {
							sb.WriteString("00:11:22:33:44:55 10.0.0.9\n")
						} else {
							sb.WriteString("00:11:22:33:44:55 2001:db8::9\n")
						}
					case 5:
						sb.WriteString("   \n") // whitespace only: zero fields
					default:
						sb.WriteString(" # indented comment is not a comment\n")
					}
					continue
				}
				switch c.rng.Intn(9) {
				case 0:
					sb.WriteString("\n")
				case 1:
					sb.WriteString("# a comment 00:11:22:33:44:55 1.2.3.4\n")
					if c.rng.Intn(12) == 0 {
						// a very long (legal) comment line, beyond any line-buffer default
						sb.WriteString("#" + strings.Repeat("x", 66000+c.rng.Intn(4000)) + "\n")
					}
				default:
					m := macs[c.rng.Intn(len(macs))]
					ip := fmt.Sprintf("10.0.%d.%d", c.rng.Intn(3), 1+c.rng.Intn(250))
					if v6 {
						ip = fmt.Sprintf("2001:db8::%x:%x", c.rng.Intn(3), 1+c.rng.Intn(250))
						if c.rng.Intn(6) == 0 {
							ip = strings.ToUpper(ip)
						}
					} else if c.rng.Intn(8) == 0 {
						ip = "::ffff:" + ip
					}
					sep := []string{" ", "\t", "  ", " \t "}[c.rng.Intn(4)]
					tail := []string{"", "", " ", "\r"}[c.rng.Intn(4)]
					lead := []string{"", "", " "}[c.rng.Intn(3)]
					sb.WriteString(lead + macForms(m) + sep + ip + tail + "\n")
				}
			}
			out := sb.String()
			if c.rng.Intn(4) == 0 {
				out = strings.TrimSuffix(out, "\n") // no final newline
			}
			return []byte(out)
		}
		kinds := []string{"4", "6", "46", "64"}[c.rng.Intn(4)]
		var hist []string
		for _, k := range kinds {
			v6 := k == '6'
			auto := c.rng.Intn(2)
			how := ""
			if c.rng.Intn(3) == 0 {
				how = " " + pick(c, []string{"l", "L", "d"})
			}
			hist = append(hist, fmt.Sprintf("fsetup %c %d %s%s", k, auto, hx(mkFile(v6, c.rng.Intn(6) == 0)), how))
		}
		steps := 6 + c.rng.Intn(14)
		for i := 0; i < steps; i++ {
			switch c.rng.Intn(8) {
			case 0:
				k := kinds[c.rng.Intn(len(kinds))]
				how := "fwrite"
				if c.rng.Intn(3) == 0 {
					how = "fmove" // the new version moved into place
				}
				hist = append(hist, fmt.Sprintf("%s %c %s", how, k, hx(mkFile(k == '6', c.rng.Intn(3) == 0))))
			case 1, 2, 3:
				m := macs[c.rng.Intn(len(macs))]
				if c.rng.Intn(6) == 0 {
					m = []byte{9, 9, 9, 9, 9, 9}
				}
				hist = append(hist, "fq4 "+hx(m))
			default:
				m := hx(macs[c.rng.Intn(len(macs))])
				if c.rng.Intn(8) == 0 {
					m = "-"
				}
				depth := c.rng.Intn(3) / 2
				relay := "-"
				if c.rng.Intn(3) == 0 {
					// a relay that reports the client's hardware address itself: the same as, or another than, the one in the client id
					depth = 1 + c.rng.Intn(2)
					relay = []string{"L", "E"}[c.rng.Intn(2)] + hx(macs[c.rng.Intn(len(macs))][:6])
				}
				hist = append(hist, fmt.Sprintf("fq6 %s %d %d %s", m, b2i(c.rng.Intn(5) != 0), depth, relay))
			}
		}
		pending = append(pending, hist...)
		npending++
		planned += len(hist)
		if npending >= 8 || planned >= c.n {
			runFileGroup(c, pending)
			pending, npending = nil, 0
		}
	}
	if len(pending) > 0 {
		runFileGroup(c, pending)
	}
}

// runFileGroup executes a few histories in a fresh worker process: every autorefresh set-up
// creates an inotify instance that the plugin never closes, and the per-user limit is 128
func runFileGroup(c *ctx, ops []string) {
	cmd := exec.Command(os.Args[0], "file", "-replay", "/dev/stdin")
	ops = append([]string{"freset"}, ops...)
	cmd.Stdin = strings.NewReader(strings.Join(ops, "\n") + "\n")
	var ob bytes.Buffer
	cmd.Stdout = &ob
	done := make(chan error, 1)
	go func() { done <- cmd.Run() }()
	select {
	case <-done:
	case <-time.After(300 * time.Second):
		cmd.Process.Kill()
	}
	got := 0
	for _, l := range strings.Split(strings.TrimRight(ob.String(), "\n"), "\n") {
		if i := strings.Index(l, " => "); i >= 0 {
			c.emit(l[:i], l[i+4:])
			got++
		}
	}
	if got == 0 {
		c.emit(ops[0], "CRASH")
	}
}
