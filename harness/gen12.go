// gen12.go — `harness gen -unit handlers6`: the DHCPv6 request handlers of the option plugins,
// regenerated as Lean definitions (namespace CoreDhcp.GenH6, file CoreDhcp/Generated/Handlers6.lean)
// from the go/ast of
//
//	plugins/dns/plugin.go            Handler6                  ↦ GenH6.dnsOn,           GenH6.dns
//	plugins/searchdomains/plugin.go  domainSearchListHandler6  ↦ GenH6.searchdomainsOn, GenH6.searchdomains
//	plugins/nbp/nbp.go               nbpHandler6               ↦ GenH6.nbpOn,           GenH6.nbp
//	plugins/sleep/plugin.go          makeSleepHandler6 (the function literal it returns) ↦ GenH6.sleepOn, GenH6.sleep
//	plugins/serverid/plugin.go       Handler6                  ↦ GenH6.serveridOn,      GenH6.serverid
//
// Props/GenHandlers6.lean proves every generated `GenH6.<plugin>` equal to the hand-written model
// (Model/OptPlug.lean, `Plug.<plugin>.handle…`).  `-src plugin=file.go[,plugin=file.go…]` reads the named
// plugins from other files (negative tests).  The scheme and the vocabulary style are those of unit
// handlers4 (gen5.go); the free helper functions of gen2.go / gen5.go are reused, nothing of them is changed.
//
// Every handler yields two definitions:
//
//	def GenH6.<plugin>On (<configuration>) (pkt : GenH6.Pkt) (pre : Plug.Resp6) : Plug.Out6     -- the translation
//	def GenH6.<plugin>   (<configuration>) (req : Plug.ReqView6) (pre : Plug.Resp6) : Plug.Out6 := <plugin>On … (served req) pre
//
// `GenH6.Pkt` is the first parameter of the Go handler — the datagram as parsed, possibly a relay message —
// of which a handler may use one thing only, `req.GetInnerMessage()`: `pkt.inner : Option Plug.ReqView6`,
// `none` = the call returns an error.  The model has no such input: `Plug.ReqView6` IS the inner message,
// because HandleMsg6 calls GetInnerMessage itself and drops the datagram on an error before any handler
// runs (server/handle.go; unit dispatch6).  `GenH6.served m = ⟨some m⟩` is what the server hands over, and
// `<plugin>` is `<plugin>On` on it; the outcome for `⟨none⟩` is explicit in `<plugin>On` and pinned by the
// theorems `GEN_h6_<plugin>_undecap`.
//
// DERIVED FROM THE AST
//   - the control flow: `if` / `else if` / `else`, early `return`, `if x := …; cond`, `switch` with or without
//     tag (translated as the if-chain it abbreviates; no fallthrough / break), the loop over the requested
//     options; an `if` that contains a return is translated with the rest of the block as its continuation
//     (duplicated into every path that falls through), one without becomes `let rK := if c then … else …`
//   - the conditions: `!` `&&` `||` `==` `!=` `<` `<=` `>` `>=`, their operands and their order
//   - which condition guards which effect, the order of the effects, on WHICH response value an effect acts
//   - UPDATE versus ADD: `resp.UpdateOption(o)` ↦ `r.update` (Plug.upd6: replace the first, else append),
//     `resp.AddOption(o)` ↦ `r.add` (append)
//   - every option code, message type and the ORO code as a number: `dhcpv6.OptionX` / `dhcpv6.MessageTypeX`
//     are looked up in dhcpv6/types.go; for `dhcpv6.OptX(arg)` the library function is parsed
//     (`return &optT{arg}`), then `func (…optT) Code() OptionCode { return OptionX }` gives the code and the
//     library type optT selects the encoder; for `dhcpv6.WithX(arg)(resp)` dhcpv6/modifiers.go is parsed:
//     `WithX(p) = WithOption(OptY(p))` and `WithOption(o) = func(d DHCPv6) { d.UpdateOption(o) }`, hence
//     `resp.UpdateOption(dhcpv6.OptY(arg))`; for `msg.Options.ServerID()` the code is read from the body of
//     `MessageOptions.ServerID` (`mo.GetOne(OptionServerID)`)
//   - which configured value goes into which option constructor
//   - the loop `for _, c := range msg.Options.RequestedOptions() { … }` ↦ a left fold of its (translated)
//     body over `Plug.oro6 m`, starting from the current response
//   - the returned pair: `resp` ↦ `some <current response>`, `nil` ↦ `none`, `true` / `false`
//   - the Lean type of every configuration variable, from its declaration
//   - for nbp: constructor (code and encoder) of `opt59` / `opt60`, from what `setup6` assigns to them; the
//     parameter `o59` / `o60` is the ARGUMENT setup6 gives the constructor (`none` = the variable is nil)
//
// FIXED VOCABULARY (the meaning of a recognised Go expression in the model)
//
//	Go                                               Lean
//	-----------------------------------------------  -------------------------------------------------
//	first parameter (any name)                       pkt : GenH6.Pkt; nothing but pkt.GetInnerMessage() is accepted
//	                                                 (`req.Type()`, `req.IsRelay()`, … speak about the outer datagram:
//	                                                 rejected)
//	second parameter (any name)                      the response: pre, r1, r2, …
//	m, err := req.GetInnerMessage()                  match pkt.inner with | none => <A> | some mK => <rest>
//	if err != nil { log…; return … }  (directly after, top level only)       <A> = the return of the guard
//	m.IsOptionRequested(c)                           (Plug.oro6 mK).contains c     (library: RequestedOptions().Contains)
//	m.Options.RequestedOptions()                     Plug.oro6 mK   — only as the range of a `for`; code 6 checked
//	                                                 against dhcpv6.OptionORO of the library
//	x := m.Options.ServerID()                        let sK := Plug.lookup 2 mK.opts    (Option Bytes; GetOne = the first)
//	   x != nil ↦ sK.isSome; x as a DUID ↦ GenH6.deref sK, accepted only where a test `x != nil` dominates
//	m.MessageType, m.Type()                          mK.mt       compared with dhcpv6.MessageTypeX / integer literals
//	a.Equal(b), a b DUIDs                            a = b       (the model keeps a DUID as its bytes; the parser's
//	                                                 DUIDFromBytes and ToBytes are inverse on what it accepts)
//	c, the variable of the loop                      cK : Nat    compared with dhcpv6.OptionX / integer literals
//	resp.UpdateOption(o)                             let rK := r.update <code of o> <value of o>
//	resp.AddOption(o)                                let rK := r.add <code of o> <value of o>
//	dhcpv6.WithX(a)(resp)                            as resp.UpdateOption(dhcpv6.OptY(a)), read from modifiers.go
//	v := resp.(*dhcpv6.Message), v, ok := …          v is the response (same object), ok ↦ True: in the model every
//	                                                 response IS a message — HandleMsg6 builds it with
//	                                                 NewReplyFromMessage / NewAdvertiseFromSolicit and handlers pass
//	                                                 it on; a relay reply is only made after the chain
//	dhcpv6.OptDNS(v...)                  optDNS               code 23, Plug.encIPs v        (v: To16 bytes each)
//	dhcpv6.OptDomainSearchList(&rfc1035label.Labels{Labels: v | copySlice(v)})
//	                                     optDomainSearchList  code 24, Plug.encLabels v
//	dhcpv6.OptBootFileURL(s)             optBootFileURL       code 59, s                    ([]byte(url))
//	dhcpv6.OptBootFileParam(s, …)        optBootFileParam     code 60, Plug.encBootParams [s, …]
//	dhcpv6.OptServerID(d)                optServerID          code 2,  d                    (the DUID's bytes)
//	   (the codes are READ, see above; the encoder is chosen by the library type)
//	p == nil / p != nil, p a configured dhcpv6.Option     ¬(p.isSome) / p.isSome      (parameter : Option Bytes)
//	p as an option                                   code and encoder of the constructor setup6 stores in p, applied to
//	                                                 GenH6.deref p; accepted only where `p != nil` is known
//	package-level configuration variable             parameter of the generated function, Lean type from the Go type:
//	   []net.IP / []string ↦ List Plug.Bytes, string / dhcpv6.DUID ↦ Plug.Bytes, dhcpv6.Option ↦ Option Plug.Bytes,
//	   time.Duration ↦ Int (ns)
//	sleep: the parameter of makeSleepHandler6        cfg : Int
//	time.Sleep(cfg)   (sleep only)                   nothing: the model has no time
//	log.<Level>(…), log.WithFields(logrus.Fields{…}).<Level>(…)      nothing — only as a statement, only on the
//	   package's `log = logger.GetLogger(…)`, Level ∈ Print Info Warning Warn Error Debug (+f), and only if every
//	   argument is free of side effects: literals, variables, fields, x.String(), fmt.Sprintf(…), logrus.Fields{…}
//	if v == nil { log.Fatal(…); return nil, true }   nothing, `v` the configured DUID, first statement only: ASSUMED not
//	   to fire (the plugin was set up); recorded in the generated file
//
// Go names never reach the generated text (pkt, req, pre, rK, mK, sK, aK, cK and the parameter names of the
// table `h6specs`): renaming a variable, reformatting, or moving a log statement regenerates the same file.
package main

import (
	"fmt"
	"go/ast"
	"go/parser"
	"go/token"
	"os"
	"path/filepath"
	"sort"
	"strconv"
	"strings"
)

type h6spec struct {
	name, src, fn string
	closure       bool    // fn returns the handler as a function literal; its parameter is the configuration
	cfg           []h4cfg // configuration variables, in the order of the Lean parameters
	sleep         bool    // time.Sleep(cfg) is a no-op
	model         string
}

var h6specs = []h6spec{
	{"dns", "/repo/plugins/dns/plugin.go", "Handler6", false, []h4cfg{{"dnsServers6", "cfg"}}, false, "Plug.dns6.handle"},
	{"searchdomains", "/repo/plugins/searchdomains/plugin.go", "domainSearchListHandler6", false, []h4cfg{{"v6SearchList", "cfg"}}, false, "Plug.search.handle6"},
	{"nbp", "/repo/plugins/nbp/nbp.go", "nbpHandler6", false, []h4cfg{{"opt59", "o59"}, {"opt60", "o60"}}, false, "Plug.nbp6.handle"},
	{"sleep", "/repo/plugins/sleep/plugin.go", "makeSleepHandler6", true, []h4cfg{{"", "cfg"}}, true, "Plug.sleep.handle6"},
	{"serverid", "/repo/plugins/serverid/plugin.go", "Handler6", false, []h4cfg{{"v6ServerID", "cfg"}}, false, "Plug.serverid6.handle"},
}

// Go type of a configuration variable ↦ kind, Lean type
var h6kinds = map[string][2]string{
	"[]net.IP":      {"ips", "List Plug.Bytes"},
	"[]string":      {"strs", "List Plug.Bytes"},
	"string":        {"str", "Plug.Bytes"},
	"dhcpv6.DUID":   {"duid", "Plug.Bytes"},
	"dhcpv6.Option": {"opt6", "Option Plug.Bytes"},
	"time.Duration": {"dur", "Int"},
}

// library option type ↦ kind of the constructor's argument, parameter type the library must declare, bytes in the model
type h6wire struct{ kind, ptype, lean string }

var h6wires = map[string]h6wire{
	"optDNS":              {"ips", "...net.IP", "Plug.encIPs %s"},
	"optDomainSearchList": {"labels", "*rfc1035label.Labels", "Plug.encLabels %s"},
	"optBootFileURL":      {"str", "string", "%s"},
	"optBootFileParam":    {"strlist", "...string", "Plug.encBootParams %s"},
	"optServerID":         {"duid", "DUID", "%s"},
}

var h6pkgs = map[string]string{
	"dhcpv6":       "github.com/insomniacslk/dhcp/dhcpv6",
	"rfc1035label": "github.com/insomniacslk/dhcp/rfc1035label",
	"logger":       "github.com/coredhcp/coredhcp/logger",
	"logrus":       "github.com/sirupsen/logrus",
	"time":         "time",
	"fmt":          "fmt",
}

type h6ctor struct {
	typ      string // the library type the constructor builds (optDNS, …)
	ptype    string // its parameter type as written (`...net.IP`)
	variadic bool
}

type h6var struct {
	lean, kind string
	ctor       string // opt6: the constructor setup6 stores
}

type h6 struct {
	*gen
	spec               h6spec
	consts             map[string]int
	ctors              map[string]h6ctor
	codeOf             map[string]string // library option type ↦ dhcpv6.OptionX
	mods               map[string]string // WithX ↦ OptY
	sidCode            int               // the code MessageOptions.ServerID() looks up
	imports            map[string]string
	pkgVars            map[string]*ast.ValueSpec
	funcs              map[string]*ast.FuncDecl
	cfg                map[string]*h6var
	nr, nm, ns, na, nc int
	assumed            []string
	copyOK             bool
	top                []ast.Stmt
	usesInner          bool
}

// ------------------------------------------------------------ the library

func (u *h6) parse(path string) *ast.File {
	file, err := parser.ParseFile(u.fset, path, nil, parser.SkipObjectResolution)
	if err != nil {
		fmt.Fprintln(os.Stderr, "gen: parse:", err)
		os.Exit(2)
	}
	return file
}

// readOptFile: `func OptX(p T) Option { return &optT{p} | &optT{F: p} }` and
// `func (… optT | *optT) Code() OptionCode { return OptionX }` of one library file.
func (u *h6) readOptFile(path string) {
	file := u.parse(path)
	for _, d := range file.Decls {
		f, ok := d.(*ast.FuncDecl)
		if !ok || f.Body == nil || len(f.Body.List) != 1 {
			continue
		}
		r, ok := f.Body.List[0].(*ast.ReturnStmt)
		if !ok || len(r.Results) != 1 {
			continue
		}
		if f.Recv != nil { // Code()
			if f.Name.Name != "Code" || len(f.Recv.List) != 1 || len(f.Type.Params.List) != 0 || f.Type.Results == nil ||
				len(f.Type.Results.List) != 1 || u.src(f.Type.Results.List[0].Type) != "OptionCode" {
				continue
			}
			t := f.Recv.List[0].Type
			if s, ok := t.(*ast.StarExpr); ok {
				t = s.X
			}
			tn, ok1 := t.(*ast.Ident)
			c, ok2 := r.Results[0].(*ast.Ident)
			if ok1 && ok2 {
				u.codeOf[tn.Name] = "dhcpv6." + c.Name
			}
			continue
		}
		if !strings.HasPrefix(f.Name.Name, "Opt") || f.Type.Results == nil || len(f.Type.Results.List) != 1 ||
			u.src(f.Type.Results.List[0].Type) != "Option" || len(f.Type.Params.List) != 1 || len(f.Type.Params.List[0].Names) != 1 {
			continue
		}
		un, ok := r.Results[0].(*ast.UnaryExpr)
		if !ok || un.Op != token.AND {
			continue
		}
		cl, ok := un.X.(*ast.CompositeLit)
		if !ok || cl.Type == nil || len(cl.Elts) != 1 {
			continue
		}
		tn, ok := cl.Type.(*ast.Ident)
		if !ok {
			continue
		}
		p := f.Type.Params.List[0]
		el := cl.Elts[0]
		if kv, ok := el.(*ast.KeyValueExpr); ok {
			el = kv.Value
		}
		if id, ok := el.(*ast.Ident); !ok || id.Name != p.Names[0].Name {
			continue
		}
		_, variadic := p.Type.(*ast.Ellipsis)
		u.ctors[f.Name.Name] = h6ctor{typ: tn.Name, ptype: u.src(p.Type), variadic: variadic}
	}
}

// readModifiers: WithOption must be `return func(d DHCPv6) { d.UpdateOption(o) }`; `WithX(p T) Modifier { return WithOption(OptY(p)) }`.
func (u *h6) readModifiers(path string) {
	file := u.parse(path)
	okWithOption := false
	for _, d := range file.Decls {
		f, ok := d.(*ast.FuncDecl)
		if !ok || f.Recv != nil || f.Body == nil || len(f.Body.List) != 1 || len(f.Type.Params.List) != 1 || len(f.Type.Params.List[0].Names) != 1 ||
			f.Type.Results == nil || len(f.Type.Results.List) != 1 || u.src(f.Type.Results.List[0].Type) != "Modifier" {
			continue
		}
		r, ok := f.Body.List[0].(*ast.ReturnStmt)
		if !ok || len(r.Results) != 1 {
			continue
		}
		p := f.Type.Params.List[0].Names[0].Name
		if f.Name.Name == "WithOption" {
			lit, ok := r.Results[0].(*ast.FuncLit)
			if ok && len(lit.Type.Params.List) == 1 && len(lit.Type.Params.List[0].Names) == 1 && u.src(lit.Type.Params.List[0].Type) == "DHCPv6" &&
				lit.Type.Results == nil && len(lit.Body.List) == 1 && p != lit.Type.Params.List[0].Names[0].Name &&
				u.src(lit.Body.List[0]) == lit.Type.Params.List[0].Names[0].Name+".UpdateOption("+p+")" {
				okWithOption = true
			}
			continue
		}
		c, ok := r.Results[0].(*ast.CallExpr)
		if !ok || u.src(c.Fun) != "WithOption" || len(c.Args) != 1 || c.Ellipsis.IsValid() {
			continue
		}
		in, ok := c.Args[0].(*ast.CallExpr)
		if !ok || len(in.Args) != 1 || in.Ellipsis.IsValid() || u.src(in.Args[0]) != p {
			continue
		}
		if id, ok := in.Fun.(*ast.Ident); ok && strings.HasPrefix(id.Name, "Opt") {
			u.mods[f.Name.Name] = id.Name
		}
	}
	if !okWithOption { // no modifier has a meaning then
		u.mods = map[string]string{}
	}
}

// readMessage: the code MessageOptions.ServerID() looks up, and the shapes the vocabulary relies on.
func (u *h6) readMessage(path string, die func(...interface{})) {
	file := u.parse(path)
	seen := map[string]bool{}
	for _, d := range file.Decls {
		f, ok := d.(*ast.FuncDecl)
		if !ok || f.Recv == nil || len(f.Recv.List) != 1 || f.Body == nil {
			continue
		}
		recv := u.src(f.Recv.List[0].Type)
		var rn string
		if len(f.Recv.List[0].Names) == 1 {
			rn = f.Recv.List[0].Names[0].Name
		}
		body := u.src(f.Body)
		norm := strings.Join(strings.Fields(body), " ")
		switch recv + "." + f.Name.Name {
		case "MessageOptions.ServerID":
			want := "{ opt := " + rn + ".GetOne(OptionServerID) if opt == nil { return nil } return opt.(*optServerID).DUID }"
			if norm != want {
				die(path+": MessageOptions.ServerID is not `GetOne(OptionServerID)` + nil test + `.DUID`:", norm)
			}
			v, ok := u.consts["dhcpv6.OptionServerID"]
			if !ok {
				die("constant dhcpv6.OptionServerID not found in dhcpv6/types.go")
			}
			u.sidCode = v
			seen["ServerID"] = true
		case "*Message.IsOptionRequested":
			if len(f.Type.Params.List) != 1 || len(f.Type.Params.List[0].Names) != 1 ||
				norm != "{ return "+rn+".Options.RequestedOptions().Contains("+f.Type.Params.List[0].Names[0].Name+") }" {
				die(path+": Message.IsOptionRequested is not RequestedOptions().Contains(c):", norm)
			}
			seen["IsOptionRequested"] = true
		case "MessageOptions.RequestedOptions":
			if !strings.Contains(norm, rn+".Options.Get(OptionORO)") {
				die(path+": MessageOptions.RequestedOptions does not read OptionORO:", norm)
			}
			seen["RequestedOptions"] = true
		case "*Message.UpdateOption":
			if !strings.HasSuffix(norm, ".Options.Update(option) }") {
				die(path+": Message.UpdateOption is not Options.Update:", norm)
			}
			seen["UpdateOption"] = true
		case "*Message.AddOption":
			if !strings.HasSuffix(norm, ".Options.Add(option) }") {
				die(path+": Message.AddOption is not Options.Add:", norm)
			}
			seen["AddOption"] = true
		case "Message.Type":
			if norm != "{ return "+rn+".MessageType }" {
				die(path+": Message.Type is not the field MessageType:", norm)
			}
			seen["Type"] = true
		}
	}
	for _, n := range []string{"ServerID", "IsOptionRequested", "RequestedOptions", "UpdateOption", "AddOption", "Type"} {
		if !seen[n] {
			die(path+": method", n, "not found")
		}
	}
	if u.consts["dhcpv6.OptionORO"] != 6 {
		die("dhcpv6.OptionORO is not 6: Plug.oro6 of the model reads option 6")
	}
}

// ------------------------------------------------------------------ helpers

func (u *h6) unparen(x ast.Expr) ast.Expr {
	for {
		p, ok := x.(*ast.ParenExpr)
		if !ok {
			return x
		}
		x = p.X
	}
}

func (u *h6) named(name string, st hstate) bool { // name has a meaning of its own in the file or the handler
	_, isLocal := st.vars[name]
	return isLocal || u.cfg[name] != nil || u.pkgVars[name] != nil || u.funcs[name] != nil
}

// pkgSel: x is `pkg.Name` with pkg an imported package of the vocabulary, not shadowed.
func (u *h6) pkgSel(x ast.Expr, pkg string, st hstate) (string, bool) {
	s, ok := u.unparen(x).(*ast.SelectorExpr)
	if !ok {
		return "", false
	}
	id, ok := s.X.(*ast.Ident)
	if !ok || id.Name != pkg || u.named(pkg, st) {
		return "", false
	}
	if u.imports[pkg] != h6pkgs[pkg] {
		u.fail(x, "`%s` is not the package %s here", pkg, h6pkgs[pkg])
	}
	return s.Sel.Name, true
}

func (u *h6) local(x ast.Expr, st hstate, role string) (hlocal, string, bool) {
	id, ok := u.unparen(x).(*ast.Ident)
	if !ok {
		return hlocal{}, "", false
	}
	l, ok := st.vars[id.Name]
	return l, id.Name, ok && l.role == role
}

func (u *h6) method(x ast.Expr) (recv ast.Expr, name string, call *ast.CallExpr, ok bool) {
	c, ok := u.unparen(x).(*ast.CallExpr)
	if !ok {
		return nil, "", nil, false
	}
	s, ok := c.Fun.(*ast.SelectorExpr)
	if !ok {
		return nil, "", nil, false
	}
	return s.X, s.Sel.Name, c, true
}

// msgOptions: x is `m.Options` with m an inner message; returns its Lean name.
func (u *h6) msgOptions(x ast.Expr, st hstate) (string, bool) {
	s, ok := u.unparen(x).(*ast.SelectorExpr)
	if !ok || s.Sel.Name != "Options" {
		return "", false
	}
	l, _, ok := u.local(s.X, st, "msg")
	return l.lean, ok
}

func (u *h6) cfgVar(x ast.Expr, st hstate) (*h6var, string, bool) {
	id, ok := u.unparen(x).(*ast.Ident)
	if !ok {
		return nil, "", false
	}
	if _, shadow := st.vars[id.Name]; shadow {
		return nil, "", false
	}
	v, ok := u.cfg[id.Name]
	return v, id.Name, ok
}

func (u *h6) isNil(x ast.Expr, st hstate) bool {
	id, ok := u.unparen(x).(*ast.Ident)
	return ok && id.Name == "nil" && !u.named("nil", st)
}

func (u *h6) boolLit(x ast.Expr, st hstate) (string, bool) {
	id, ok := u.unparen(x).(*ast.Ident)
	if !ok || (id.Name != "true" && id.Name != "false") {
		return "", false
	}
	return id.Name, !u.named(id.Name, st)
}

func (u *h6) noArgs(c *ast.CallExpr) bool { return len(c.Args) == 0 }
func (u *h6) oneArg(c *ast.CallExpr) bool { return len(c.Args) == 1 && !c.Ellipsis.IsValid() }

// outer: a use of the first parameter other than GetInnerMessage gets a message of its own.
func (u *h6) outer(x ast.Expr, st hstate) {
	ast.Inspect(x, func(n ast.Node) bool {
		if id, ok := n.(*ast.Ident); ok {
			if l, ok := st.vars[id.Name]; ok && l.role == "req" {
				u.fail(x, "use of the first parameter (the datagram as received, possibly a relay message) other than `%s.GetInnerMessage()`: "+
					"the model's request is the inner message", id.Name)
			}
		}
		return true
	})
}

// ------------------------------------------------------------------ values

func (u *h6) constant(x ast.Expr, st hstate) (name string, v int, ok bool) {
	n, ok := u.pkgSel(x, "dhcpv6", st)
	if !ok {
		return "", 0, false
	}
	v, ok = u.consts["dhcpv6."+n]
	u.must(ok, x, "constant dhcpv6.%s not found in dhcpv6/types.go", n)
	return n, v, true
}

func (u *h6) optCode(x ast.Expr, st hstate) int {
	x = u.unparen(x)
	if c, ok := x.(*ast.CallExpr); ok && u.oneArg(c) {
		if n, ok := u.pkgSel(c.Fun, "dhcpv6", st); ok && n == "OptionCode" {
			if l, ok := u.unparen(c.Args[0]).(*ast.BasicLit); ok && l.Kind == token.INT {
				v, err := strconv.ParseUint(l.Value, 0, 16)
				u.must(err == nil, x, "unsupported literal")
				return int(v)
			}
			return u.optCode(c.Args[0], st)
		}
	}
	n, v, ok := u.constant(x, st)
	u.must(ok && strings.HasPrefix(n, "Option"), x, "not an option code of the library (dhcpv6.OptionX)")
	return v
}

// ctorInfo: constructor name ↦ code (a number), encoder.
func (u *h6) ctorInfo(at ast.Node, name string) (int, h6wire, h6ctor) {
	ct, ok := u.ctors[name]
	u.must(ok, at, "unknown call: dhcpv6.%s is not a function of the library of the form `return &optT{p}`", name)
	cn, ok := u.codeOf[ct.typ]
	u.must(ok, at, "no `func (…%s) Code() OptionCode { return OptionX }` found in the library", ct.typ)
	code, ok := u.consts[cn]
	u.must(ok, at, "constant %s not found in dhcpv6/types.go", cn)
	w, ok := h6wires[ct.typ]
	u.must(ok, at, "dhcpv6.%s builds a %s, whose encoding is not in the vocabulary", name, ct.typ)
	u.must(w.ptype == ct.ptype, at, "dhcpv6.%s takes a `%s` in the library, the vocabulary expects `%s`", name, ct.ptype, w.ptype)
	return code, w, ct
}

func h6value(w h6wire, arg string) string {
	s := fmt.Sprintf(w.lean, arg)
	if strings.Contains(s, " ") && !strings.HasPrefix(s, "[") && !strings.HasPrefix(s, "(") {
		s = "(" + s + ")"
	}
	return s
}

// checkCopySlice: the package's copySlice is make + copy + return (as in gen5.go).
func (u *h6) checkCopySlice(at ast.Node) {
	if u.copyOK {
		return
	}
	f := u.funcs["copySlice"]
	u.must(f != nil && f.Recv == nil && f.Body != nil && len(f.Type.Params.List) == 1 && len(f.Type.Params.List[0].Names) == 1 &&
		u.src(f.Type.Params.List[0].Type) == "[]string" && f.Type.Results != nil && len(f.Type.Results.List) == 1 &&
		u.src(f.Type.Results.List[0].Type) == "[]string" && len(f.Body.List) == 3, at, "copySlice is not `func(p []string) []string` with three statements")
	p := f.Type.Params.List[0].Names[0].Name
	a, ok := f.Body.List[0].(*ast.AssignStmt)
	u.must(ok && a.Tok == token.DEFINE && len(a.Lhs) == 1 && len(a.Rhs) == 1, f.Body.List[0], "copySlice: expected `c := make([]string, len(p))`")
	c := u.src(a.Lhs[0])
	u.must(c != p && c != "_" && u.src(a.Rhs[0]) == "make([]string, len("+p+"))", f.Body.List[0], "copySlice: expected `c := make([]string, len(p))`")
	u.must(u.src(f.Body.List[1]) == "copy("+c+", "+p+")", f.Body.List[1], "copySlice: expected `copy(c, p)`")
	u.must(u.src(f.Body.List[2]) == "return "+c, f.Body.List[2], "copySlice: expected `return c`")
	for _, n := range []string{"make", "len", "copy", "string"} {
		u.must(u.pkgVars[n] == nil && u.funcs[n] == nil && p != n && c != n, f.Name, "copySlice: the builtin `%s` is redefined", n)
	}
	u.copyOK = true
}

// cfgOf: x is a configuration variable of the given kind.
func (u *h6) cfgOf(x ast.Expr, kind string, st hstate) string {
	v, name, ok := u.cfgVar(x, st)
	u.must(ok, x, "expected a configuration variable (%s)", kind)
	u.must(v.kind == kind, x, "configuration variable %s is a %s, a %s is needed here", name, v.kind, kind)
	return v.lean
}

// ctorArg: the argument list of `dhcpv6.OptX(…)` ↦ the Lean value the encoder is applied to.
func (u *h6) ctorArg(c *ast.CallExpr, w h6wire, st hstate) string {
	switch w.kind {
	case "ips":
		u.must(len(c.Args) == 1 && c.Ellipsis.IsValid(), c, "only a whole configured list is supported for the variadic parameter (v...)")
		return u.cfgOf(c.Args[0], "ips", st)
	case "strlist":
		if c.Ellipsis.IsValid() {
			u.must(len(c.Args) == 1, c, "expected v...")
			return u.cfgOf(c.Args[0], "strs", st)
		}
		u.must(len(c.Args) > 0, c, "expected at least one argument")
		var as []string
		for _, a := range c.Args {
			as = append(as, u.cfgOf(a, "str", st))
		}
		return "[" + strings.Join(as, ", ") + "]"
	case "str", "duid":
		u.must(u.oneArg(c), c, "expected one argument")
		return u.cfgOf(c.Args[0], w.kind, st)
	case "labels": // &rfc1035label.Labels{Labels: v | copySlice(v)}
		shape := "expected &rfc1035label.Labels{Labels: <configured []string> | copySlice(<configured []string>)}"
		u.must(u.oneArg(c), c, "expected one argument")
		un, ok := u.unparen(c.Args[0]).(*ast.UnaryExpr)
		u.must(ok && un.Op == token.AND, c.Args[0], shape)
		cl, ok := un.X.(*ast.CompositeLit)
		u.must(ok && cl.Type != nil && len(cl.Elts) == 1, c.Args[0], shape)
		tn, ok := u.pkgSel(cl.Type, "rfc1035label", st)
		u.must(ok && tn == "Labels", c.Args[0], shape)
		kv, ok := cl.Elts[0].(*ast.KeyValueExpr)
		u.must(ok && u.src(kv.Key) == "Labels", c.Args[0], shape)
		v := u.unparen(kv.Value)
		if cp, ok := v.(*ast.CallExpr); ok {
			id, ok := cp.Fun.(*ast.Ident)
			u.must(ok && id.Name == "copySlice" && u.funcs["copySlice"] != nil && u.oneArg(cp), v, "unknown call (only copySlice(v))")
			_, shadow := st.vars["copySlice"]
			u.must(!shadow, v, "copySlice is shadowed")
			u.checkCopySlice(cp)
			v = cp.Args[0]
		}
		return u.cfgOf(v, "strs", st)
	}
	u.fail(c, "internal: argument kind %s", w.kind)
	return ""
}

// option: a dhcpv6.Option value ↦ (code, Lean text of its bytes).
func (u *h6) option(x ast.Expr, st hstate) (int, string) {
	x = u.unparen(x)
	if v, name, ok := u.cfgVar(x, st); ok { // opt59
		u.must(v.kind == "opt6", x, "configuration variable %s (%s) is not an option", name, v.kind)
		u.must(st.nonnil[name], x, "use of %s is not dominated by a test `%s != nil`", name, name)
		code, w, _ := u.ctorInfo(x, v.ctor)
		switch w.kind {
		case "str":
			return code, h6value(w, "(deref "+v.lean+")")
		case "strlist":
			return code, h6value(w, "[deref "+v.lean+"]")
		}
		u.fail(x, "setup6 stores a dhcpv6.%s in %s: its argument is not a single string", v.ctor, name)
	}
	if c, ok := x.(*ast.CallExpr); ok {
		n, ok := u.pkgSel(c.Fun, "dhcpv6", st)
		u.must(ok, x, "unknown call (not an option constructor of the library)")
		code, w, _ := u.ctorInfo(x, n)
		return code, h6value(w, u.ctorArg(c, w, st))
	}
	u.fail(x, "not a recognised dhcpv6.Option value")
	return 0, ""
}

// duid: a DUID-valued expression ↦ Lean text; maybeNil = the Go variable that may be nil.
func (u *h6) duid(x ast.Expr, st hstate) (lean, maybeNil string, ok bool) {
	if l, name, ok := u.local(x, st, "optduid"); ok {
		return "deref " + l.lean, name, true
	}
	if v, _, ok := u.cfgVar(x, st); ok && v.kind == "duid" {
		return v.lean, "", true
	}
	return "", "", false
}

func (u *h6) useDuid(x ast.Expr, st hstate) string {
	a, mn, ok := u.duid(x, st)
	u.must(ok, x, "not a recognised DUID (the result of msg.Options.ServerID(), the configured DUID)")
	if mn != "" {
		u.must(st.nonnil[mn], x, "use of %s is not dominated by a test `%s != nil`", mn, mn)
	}
	return a
}

// num: a number ↦ (Lean text, sort, constant?).
func (u *h6) num(x ast.Expr, st hstate) (lean, sort string, isConst bool) {
	x = u.unparen(x)
	if l, ok := x.(*ast.BasicLit); ok && l.Kind == token.INT {
		v, err := strconv.ParseUint(l.Value, 0, 31)
		u.must(err == nil, x, "unsupported literal")
		return strconv.FormatUint(v, 10), "lit", true
	}
	if s, ok := x.(*ast.SelectorExpr); ok && s.Sel.Name == "MessageType" {
		if l, _, ok := u.local(s.X, st, "msg"); ok {
			return l.lean + ".mt", "MessageType", false
		}
	}
	if recv, name, c, ok := u.method(x); ok && name == "Type" && u.noArgs(c) {
		if l, _, ok := u.local(recv, st, "msg"); ok {
			return l.lean + ".mt", "MessageType", false
		}
		if _, _, ok := u.local(recv, st, "req"); ok {
			u.fail(x, "the message type of the first parameter is that of the datagram as received (RELAY-FORW for a relayed request), "+
				"not of the inner message the model speaks about: not in the vocabulary")
		}
	}
	if l, _, ok := u.local(x, st, "elem"); ok {
		return l.lean, "Option", false
	}
	if n, v, ok := u.constant(x, st); ok {
		switch {
		case strings.HasPrefix(n, "MessageType"):
			return strconv.Itoa(v), "MessageType", true
		case strings.HasPrefix(n, "Option"):
			return strconv.Itoa(v), "Option", true
		}
		u.fail(x, "constant dhcpv6.%s is neither a message type nor an option code", n)
	}
	u.outer(x, st)
	u.fail(x, "not a recognised number (msg.MessageType, msg.Type(), the loop variable, a dhcpv6 constant, an integer literal)")
	return
}

// ------------------------------------------------------------- conditions

// facts: the variables known to be non-nil when the condition evaluates to `positive`.
func (u *h6) facts(x ast.Expr, st hstate, positive bool) map[string]bool {
	out := map[string]bool{}
	add := func(m map[string]bool) {
		for k := range m {
			out[k] = true
		}
	}
	switch x := u.unparen(x).(type) {
	case *ast.UnaryExpr:
		if x.Op == token.NOT {
			return u.facts(x.X, st, !positive)
		}
	case *ast.BinaryExpr:
		switch {
		case x.Op == token.LAND && positive, x.Op == token.LOR && !positive:
			add(u.facts(x.X, st, positive))
			add(u.facts(x.Y, st, positive))
		case (x.Op == token.NEQ && positive || x.Op == token.EQL && !positive) && u.isNil(x.Y, st):
			if _, name, ok := u.local(x.X, st, "optduid"); ok {
				out[name] = true
			} else if v, name, ok := u.cfgVar(x.X, st); ok && v.kind == "opt6" {
				out[name] = true
			}
		}
	}
	return out
}

func (u *h6) cond(x ast.Expr, st hstate) cex {
	x = u.unparen(x)
	switch x := x.(type) {
	case *ast.UnaryExpr:
		u.must(x.Op == token.NOT, x, "unsupported unary operator %s in a condition", x.Op)
		return hnot(u.cond(x.X, st))
	case *ast.BinaryExpr:
		switch x.Op {
		case token.LAND:
			a := u.cond(x.X, st)
			b := u.cond(x.Y, st.withNonNil(u.facts(x.X, st, true)))
			return cex{hwrap(a, hAnd+1) + " ∧ " + hwrap(b, hAnd+1), hAnd}
		case token.LOR:
			a := u.cond(x.X, st)
			b := u.cond(x.Y, st.withNonNil(u.facts(x.X, st, false)))
			return cex{hwrap(a, hOr+1) + " ∨ " + hwrap(b, hOr+1), hOr}
		case token.EQL, token.NEQ:
			if u.isNil(x.Y, st) {
				var c cex
				if l, _, ok := u.local(x.X, st, "optduid"); ok {
					c = cex{l.lean + ".isSome", hAtom}
				} else if v, name, ok := u.cfgVar(x.X, st); ok {
					switch v.kind {
					case "opt6":
						c = cex{v.lean + ".isSome", hAtom}
					case "duid":
						u.fail(x, "nil test of the configured DUID (only as the first statement `if %s == nil { log.Fatal(…); return nil, true }`)", name)
					default:
						u.fail(x, "nil test of configuration variable %s (%s) is not in the vocabulary", name, v.kind)
					}
				} else if _, _, ok := u.local(x.X, st, "err"); ok {
					u.fail(x, "the error of GetInnerMessage may only be tested in `if err != nil { log…; return … }` directly after the call")
				} else {
					u.outer(x.X, st)
					u.fail(x, "unrecognised nil test")
				}
				if x.Op == token.EQL {
					return hnot(c)
				}
				return c
			}
			fallthrough
		case token.LSS, token.LEQ, token.GTR, token.GEQ:
			a, sa, ca := u.num(x.X, st)
			b, sb, cb := u.num(x.Y, st)
			u.must(!(ca && cb), x, "comparison of two constants")
			u.must(sa == sb || sa == "lit" || sb == "lit", x, "comparison of a %s with a %s", sa, sb)
			return cex{a + " " + cmpOps[x.Op] + " " + b, hCmp}
		}
		u.fail(x, "unsupported operator %s in a condition", x.Op)
	case *ast.Ident:
		if l, _, ok := u.local(x, st, "bool"); ok {
			return cex{l.lean, hAtom}
		}
		u.fail(x, "not a boolean variable of the handler")
	case *ast.CallExpr:
		recv, name, c, ok := u.method(x)
		u.must(ok, x, "unknown call in a condition")
		switch name {
		case "IsOptionRequested":
			if l, _, ok := u.local(recv, st, "msg"); ok && u.oneArg(c) {
				return cex{"(Plug.oro6 " + l.lean + ").contains " + strconv.Itoa(u.optCode(c.Args[0], st)), hAtom - 1}
			}
		case "Equal":
			if _, _, ok := u.duid(recv, st); ok && u.oneArg(c) {
				return cex{u.useDuid(recv, st) + " = " + u.useDuid(c.Args[0], st), hCmp}
			}
		}
		u.outer(x, st)
		u.fail(x, "unknown call in a condition")
	}
	u.fail(x, "unsupported condition")
	return cex{}
}

// ------------------------------------------------------------------ logging

func (u *h6) pure(x ast.Expr, st hstate) {
	switch x := x.(type) {
	case *ast.ParenExpr:
		u.pure(x.X, st)
	case *ast.BasicLit, *ast.Ident:
	case *ast.SelectorExpr:
		u.pure(x.X, st)
	case *ast.StarExpr:
		u.pure(x.X, st)
	case *ast.CompositeLit:
		n, ok := u.pkgSel(x.Type, "logrus", st)
		u.must(x.Type != nil && ok && n == "Fields", x, "unsupported composite literal in the arguments of a log call (only logrus.Fields{…})")
		for _, e := range x.Elts {
			kv, ok := e.(*ast.KeyValueExpr)
			u.must(ok, e, "expected key: value")
			u.pure(kv.Key, st)
			u.pure(kv.Value, st)
		}
	case *ast.CallExpr:
		if n, ok := u.pkgSel(x.Fun, "fmt", st); ok && n == "Sprintf" {
		} else if recv, name, _, ok := u.method(x); ok && name == "String" && len(x.Args) == 0 {
			u.pure(recv, st)
		} else {
			u.fail(x, "call in the arguments of a log call that is not known to be free of side effects (only fmt.Sprintf, x.String())")
		}
		for _, a := range x.Args {
			u.pure(a, st)
		}
	default:
		u.fail(x, "unsupported expression in the arguments of a log call")
	}
}

func (u *h6) isLogger(x ast.Expr, st hstate) bool {
	id, ok := x.(*ast.Ident)
	if !ok || id.Name != "log" {
		return false
	}
	if _, shadow := st.vars["log"]; shadow || u.cfg["log"] != nil {
		return false
	}
	v := u.pkgVars["log"]
	if v == nil || len(v.Names) != len(v.Values) {
		return false
	}
	for i, n := range v.Names {
		if n.Name == "log" {
			c, ok := v.Values[i].(*ast.CallExpr)
			if !ok {
				return false
			}
			fn, ok := u.pkgSel(c.Fun, "logger", st)
			return ok && fn == "GetLogger"
		}
	}
	return false
}

func (u *h6) logCall(s ast.Stmt, st hstate) (level string, ok bool) {
	e, ok := s.(*ast.ExprStmt)
	if !ok {
		return "", false
	}
	recv, name, c, ok := u.method(e.X)
	if !ok {
		return "", false
	}
	if u.isLogger(recv, st) {
		for _, a := range c.Args {
			u.pure(a, st)
		}
		return name, true
	}
	if r2, n2, c2, ok := u.method(recv); ok && n2 == "WithFields" && u.isLogger(r2, st) {
		for _, a := range append(append([]ast.Expr{}, c2.Args...), c.Args...) {
			u.pure(a, st)
		}
		return name, true
	}
	return "", false
}

func (u *h6) isLog(s ast.Stmt, st hstate) bool {
	level, ok := u.logCall(s, st)
	if !ok {
		return false
	}
	u.must(h4logLevels[level], s, "log.%s is not a plain log statement", level)
	return true
}

// ---------------------------------------------------------------- statements

func (u *h6) freshName(id *ast.Ident, st hstate) {
	u.must(id.Name != "_", id, "blank identifier unsupported here")
	_, isPkg := u.imports[id.Name]
	u.must(!isPkg && !u.named(id.Name, st) &&
		!set("nil", "true", "false", "len", "make", "copy", "append", "new")[id.Name], id,
		"variable name clashes with a name that already has a meaning (package, package-level name, local, builtin)")
}

// innerCall: x is `<first parameter>.GetInnerMessage()`.
func (u *h6) innerCall(x ast.Expr, st hstate) bool {
	recv, name, c, ok := u.method(x)
	if !ok || name != "GetInnerMessage" {
		return false
	}
	_, _, isReq := u.local(recv, st, "req")
	u.must(isReq && u.noArgs(c), x, "GetInnerMessage of something that is not the first parameter of the handler")
	return true
}

// define: `x := e` / `x, y := e` for the defining expressions of the vocabulary (GetInnerMessage: see block).
func (u *h6) define(a *ast.AssignStmt, st hstate) ([]string, hstate, bool) {
	if a.Tok != token.DEFINE || len(a.Rhs) != 1 {
		return nil, st, false
	}
	var ids []*ast.Ident
	for _, l := range a.Lhs {
		id, ok := l.(*ast.Ident)
		if !ok {
			return nil, st, false
		}
		ids = append(ids, id)
	}
	rhs := u.unparen(a.Rhs[0])
	if u.innerCall(rhs, st) {
		u.fail(a, "`m, err := req.GetInnerMessage()` is only in the vocabulary as a statement at the top level of the handler, "+
			"directly followed by `if err != nil { log…; return … }`")
	}
	if ta, ok := rhs.(*ast.TypeAssertExpr); ok { // v[, ok] := resp.(*dhcpv6.Message)
		_, _, isResp := u.local(ta.X, st, "resp")
		u.must(isResp && ta.Type != nil, a, "type assertion on something that is not the response")
		star, ok := ta.Type.(*ast.StarExpr)
		u.must(ok, ta.Type, "only the assertion resp.(*dhcpv6.Message) is in the vocabulary")
		tn, ok := u.pkgSel(star.X, "dhcpv6", st)
		u.must(ok && tn == "Message", ta.Type, "only the assertion resp.(*dhcpv6.Message) is in the vocabulary")
		u.must(len(ids) <= 2, a, "too many variables")
		if ids[0].Name != "_" {
			u.freshName(ids[0], st)
			st = st.withVar(ids[0].Name, hlocal{"resp", ""})
		}
		if len(ids) == 2 && ids[1].Name != "_" {
			u.freshName(ids[1], st)
			st = st.withVar(ids[1].Name, hlocal{"bool", "True"})
		}
		return nil, st, true
	}
	recv, name, c, ok := u.method(rhs)
	if !ok {
		return nil, st, false
	}
	if m, ok := u.msgOptions(recv, st); ok && name == "ServerID" && u.noArgs(c) && len(ids) == 1 {
		u.freshName(ids[0], st)
		u.ns++
		n := "s" + strconv.Itoa(u.ns)
		return []string{"let " + n + " := Plug.lookup " + strconv.Itoa(u.sidCode) + " " + m + ".opts"}, st.withVar(ids[0].Name, hlocal{"optduid", n}), true
	}
	return nil, st, false
}

// effect: resp.UpdateOption(o) / resp.AddOption(o) / dhcpv6.WithX(a)(resp)
func (u *h6) effect(s ast.Stmt, st hstate) ([]string, hstate, bool) {
	e, ok := s.(*ast.ExprStmt)
	if !ok {
		return nil, st, false
	}
	call, ok := u.unparen(e.X).(*ast.CallExpr)
	if !ok {
		return nil, st, false
	}
	op, code, val := "", 0, ""
	if recv, name, c, ok := u.method(call); ok && (name == "UpdateOption" || name == "AddOption") {
		if _, _, isResp := u.local(recv, st, "resp"); !isResp {
			u.outer(recv, st)
			u.fail(s, "%s on something that is not the response", name)
		}
		u.must(u.oneArg(c), c, "expected one argument")
		op = map[string]string{"UpdateOption": "update", "AddOption": "add"}[name]
		code, val = u.option(c.Args[0], st)
	} else if in, ok := u.unparen(call.Fun).(*ast.CallExpr); ok { // dhcpv6.WithX(a)(resp)
		n, ok := u.pkgSel(in.Fun, "dhcpv6", st)
		if !ok {
			return nil, st, false
		}
		ctor, ok := u.mods[n]
		u.must(ok, s, "dhcpv6.%s is not a modifier of the library of the form `return WithOption(OptY(p))` (dhcpv6/modifiers.go)", n)
		u.must(u.oneArg(call), s, "a modifier is applied to one message")
		_, _, isResp := u.local(call.Args[0], st, "resp")
		u.must(isResp, call.Args[0], "a modifier applied to something that is not the response")
		c, w, _ := u.ctorInfo(s, ctor)
		op, code, val = "update", c, h6value(w, u.ctorArg(in, w, st))
	} else {
		return nil, st, false
	}
	u.nr++
	n := "r" + strconv.Itoa(u.nr)
	line := "let " + n + " := " + st.resp + "." + op + " " + strconv.Itoa(code) + " " + val
	st.resp = n
	return []string{line}, st, true
}

// loop: for _, c := range m.Options.RequestedOptions() { <effects> }  ↦  a left fold over Plug.oro6 m
func (u *h6) loop(r *ast.RangeStmt, st hstate, depth int) ([]string, hstate) {
	shape := "expected `for _, c := range msg.Options.RequestedOptions() { … }`"
	c, ok := r.Value.(*ast.Ident)
	u.must(ok && r.Tok == token.DEFINE && (r.Key == nil || u.src(r.Key) == "_"), r, shape)
	u.freshName(c, st)
	recv, name, call, ok := u.method(r.X)
	u.must(ok && name == "RequestedOptions" && u.noArgs(call), r.X, shape)
	m, ok := u.msgOptions(recv, st)
	if !ok {
		u.outer(recv, st)
		u.fail(r.X, shape)
	}
	ast.Inspect(r.Body, func(n ast.Node) bool {
		switch n := n.(type) {
		case *ast.ReturnStmt:
			u.fail(n, "return inside the loop over the requested options unsupported")
		case *ast.BranchStmt:
			u.fail(n, "%s inside the loop over the requested options unsupported", n.Tok)
		}
		return true
	})
	u.na++
	u.nc++
	acc, elem := "a"+strconv.Itoa(u.na), "c"+strconv.Itoa(u.nc)
	in := st.withVar(c.Name, hlocal{"elem", elem})
	in.resp = acc
	body := u.branchExpr(r.Body.List, in, depth+1)
	u.nr++
	n := "r" + strconv.Itoa(u.nr)
	line := "let " + n + " := (Plug.oro6 " + m + ").foldl (fun " + acc + " " + elem + " =>\n" + indent(indent(body)) + ") " + st.resp
	st.resp = n
	return []string{line}, st
}

// switchToIf: the if-chain a switch abbreviates (no init, no fallthrough / break; `default` anywhere).
func (u *h6) switchToIf(s *ast.SwitchStmt) *ast.IfStmt {
	u.must(s.Init == nil, s, "switch with an init statement unsupported")
	ast.Inspect(s.Body, func(n ast.Node) bool {
		if b, ok := n.(*ast.BranchStmt); ok {
			u.fail(b, "%s inside a switch unsupported", b.Tok)
		}
		return true
	})
	var clauses []*ast.CaseClause
	var deflt *ast.CaseClause
	for _, c := range s.Body.List {
		cc := c.(*ast.CaseClause)
		if cc.List == nil {
			deflt = cc
		} else {
			clauses = append(clauses, cc)
		}
	}
	u.must(len(clauses) > 0, s, "switch without a case clause")
	var first, last *ast.IfStmt
	for _, cc := range clauses {
		var cond ast.Expr
		for _, e := range cc.List {
			t := e
			if s.Tag != nil {
				t = &ast.BinaryExpr{X: s.Tag, OpPos: e.Pos(), Op: token.EQL, Y: e}
			}
			if cond == nil {
				cond = t
			} else {
				cond = &ast.BinaryExpr{X: cond, OpPos: e.Pos(), Op: token.LOR, Y: t}
			}
		}
		i := &ast.IfStmt{If: cc.Pos(), Cond: cond, Body: &ast.BlockStmt{Lbrace: cc.Colon, List: cc.Body, Rbrace: cc.End()}}
		if first == nil {
			first = i
		} else {
			last.Else = i
		}
		last = i
	}
	if deflt != nil {
		last.Else = &ast.BlockStmt{Lbrace: deflt.Colon, List: deflt.Body, Rbrace: deflt.End()}
	}
	return first
}

func (u *h6) ret(r *ast.ReturnStmt, st hstate) string {
	u.must(len(r.Results) == 2, r, "return must have two results")
	var first string
	if u.isNil(r.Results[0], st) {
		first = "none"
	} else if _, _, ok := u.local(r.Results[0], st, "resp"); ok {
		first = "some " + st.resp
	} else {
		u.outer(r.Results[0], st)
		u.fail(r.Results[0], "the first result must be the response parameter or nil")
	}
	b, ok := u.boolLit(r.Results[1], st)
	u.must(ok, r.Results[1], "the second result must be true or false")
	return "(" + first + ", " + b + ")"
}

func (u *h6) straight(list []ast.Stmt, st hstate, depth int) ([]string, hstate) {
	var out []string
	for _, s := range list {
		lines, st2 := u.simple(s, st, depth)
		out, st = append(out, lines...), st2
	}
	return out, st
}

// branchExpr: the response after a block without return, as one Lean term.
func (u *h6) branchExpr(list []ast.Stmt, st hstate, depth int) string {
	lines, st2 := u.straight(list, st, depth)
	if len(lines) == 1 && strings.HasPrefix(lines[0], "let "+st2.resp+" := ") {
		return strings.TrimPrefix(lines[0], "let "+st2.resp+" := ")
	}
	return joinLines(lines, st2.resp)
}

func (u *h6) initOf(i *ast.IfStmt, st hstate) ([]string, hstate) {
	if i.Init == nil {
		return nil, st
	}
	a, ok := i.Init.(*ast.AssignStmt)
	u.must(ok, i.Init, "unsupported init statement")
	lines, st2, ok := u.define(a, st)
	if !ok {
		u.outer(a.Rhs[0], st)
		u.fail(i.Init, "unsupported init statement (not a defining expression of the vocabulary)")
	}
	return lines, st2
}

// simple: one statement that is not a return and contains none.
func (u *h6) simple(s ast.Stmt, st hstate, depth int) ([]string, hstate) {
	if lines, st2, ok := u.effect(s, st); ok {
		return lines, st2
	}
	if u.isLog(s, st) {
		return nil, st
	}
	if sw, ok := s.(*ast.SwitchStmt); ok {
		s = u.switchToIf(sw)
	}
	switch s := s.(type) {
	case *ast.ExprStmt: // time.Sleep(cfg)
		if c, ok := s.X.(*ast.CallExpr); ok && u.spec.sleep {
			if n, ok := u.pkgSel(c.Fun, "time", st); ok && n == "Sleep" && u.oneArg(c) {
				u.cfgOf(c.Args[0], "dur", st)
				return nil, st
			}
		}
		u.outer(s.X, st)
	case *ast.AssignStmt:
		if lines, st2, ok := u.define(s, st); ok {
			u.must(depth == 0, s, "variable declaration inside a nested block unsupported")
			return lines, st2
		}
		for _, r := range s.Rhs {
			u.outer(r, st)
		}
	case *ast.RangeStmt:
		return u.loop(s, st, depth)
	case *ast.IfStmt:
		u.must(!hasReturn(s), s, "internal: if with a return in straight-line code")
		lines, in := u.initOf(s, st)
		c := u.cond(s.Cond, in)
		then := u.branchExpr(s.Body.List, in.withNonNil(u.facts(s.Cond, in, true)), depth+1)
		inElse := in.withNonNil(u.facts(s.Cond, in, false))
		var els string
		switch b := s.Else.(type) {
		case nil:
			els = in.resp
		case *ast.BlockStmt:
			els = u.branchExpr(b.List, inElse, depth+1)
		case *ast.IfStmt:
			els = u.branchExpr([]ast.Stmt{b}, inElse, depth+1)
		default:
			u.fail(s.Else, "unsupported else")
		}
		u.nr++
		n := "r" + strconv.Itoa(u.nr)
		var line string
		if strings.Contains(then, "\n") || strings.Contains(els, "\n") {
			line = "let " + n + " :=\n" + indent("if "+c.s+" then\n"+indent(then)+"\nelse\n"+indent(els))
		} else {
			if strings.HasPrefix(then, "if ") {
				then = "(" + then + ")"
			}
			line = "let " + n + " := if " + c.s + " then " + then + " else " + els
		}
		st.resp = n
		return append(lines, line), st
	}
	u.fail(s, "unsupported statement in a handler of unit handlers6")
	return nil, st
}

// assumedGuard: `if v == nil { log.Fatal(…); return nil, true }`, v the configured DUID, first statement.
func (u *h6) assumedGuard(s ast.Stmt, st hstate) bool {
	i, ok := s.(*ast.IfStmt)
	if !ok || i.Init != nil || i.Else != nil || len(i.Body.List) != 2 {
		return false
	}
	c, ok := u.unparen(i.Cond).(*ast.BinaryExpr)
	if !ok || c.Op != token.EQL || !u.isNil(c.Y, st) {
		return false
	}
	v, name, ok := u.cfgVar(c.X, st)
	if !ok || v.kind != "duid" {
		return false
	}
	level, ok := u.logCall(i.Body.List[0], st)
	if !ok || level != "Fatal" {
		return false
	}
	r, ok := i.Body.List[1].(*ast.ReturnStmt)
	if !ok || u.ret(r, st) != "(none, true)" {
		return false
	}
	u.must(len(u.top) > 0 && u.top[0] == s, s, "the guard `if %s == nil { log.Fatal(…) … }` must be the first statement of the handler", name)
	u.assumed = append(u.assumed, name+" != nil (the plugin was set up; otherwise log.Fatal ends the process)")
	return true
}

// decap: `m, err := req.GetInnerMessage()` + `if err != nil { log…; return … }` ↦ the two arms of a match.
func (u *h6) decap(s ast.Stmt, rest []ast.Stmt, st hstate, depth int, k func(hstate) string) (string, bool) {
	a, ok := s.(*ast.AssignStmt)
	if !ok || len(a.Rhs) != 1 || !u.innerCall(a.Rhs[0], st) {
		return "", false
	}
	shape := "expected `m, err := req.GetInnerMessage()` directly followed by `if err != nil { log…; return … }`"
	u.must(a.Tok == token.DEFINE && len(a.Lhs) == 2, a, shape)
	u.must(depth == 0, a, "GetInnerMessage inside a nested block unsupported")
	mID, ok1 := a.Lhs[0].(*ast.Ident)
	eID, ok2 := a.Lhs[1].(*ast.Ident)
	u.must(ok1 && ok2 && eID.Name != "_", a, shape)
	u.must(len(rest) > 0, a, shape)
	g, ok := rest[0].(*ast.IfStmt)
	u.must(ok && g.Init == nil && g.Else == nil && len(g.Body.List) > 0, rest[0], shape)
	c, ok := u.unparen(g.Cond).(*ast.BinaryExpr)
	u.must(ok && c.Op == token.NEQ && u.isNil(c.Y, st), g.Cond, shape)
	cx, ok := u.unparen(c.X).(*ast.Ident)
	u.must(ok && cx.Name == eID.Name, g.Cond, shape)
	u.freshName(eID, st)
	failed := st.withVar(eID.Name, hlocal{"err", ""})
	okSt := failed
	if mID.Name != "_" {
		u.freshName(mID, failed)
		u.nm++
		failed = failed.withVar(mID.Name, hlocal{"nilmsg", ""})
		okSt = okSt.withVar(mID.Name, hlocal{"msg", "m" + strconv.Itoa(u.nm)})
	} else {
		u.nm++
	}
	name := "m" + strconv.Itoa(u.nm)
	for _, b := range g.Body.List[:len(g.Body.List)-1] {
		u.must(u.isLog(b, failed), b, "only log statements and a return are supported in the guard of GetInnerMessage")
	}
	r, ok := g.Body.List[len(g.Body.List)-1].(*ast.ReturnStmt)
	u.must(ok, g.Body.List[len(g.Body.List)-1], "the guard of GetInnerMessage must end with a return")
	u.usesInner = true
	return "match pkt.inner with\n| none =>\n" + indent(u.ret(r, failed)) + "\n| some " + name + " =>\n" + indent(u.block(rest[1:], okSt, depth, k)), true
}

// block translates a statement list; k yields the translation of what follows it.
func (u *h6) block(list []ast.Stmt, st hstate, depth int, k func(hstate) string) string {
	for i := 0; i < len(list); i++ {
		s := list[i]
		rest := list[i+1:]
		if r, ok := s.(*ast.ReturnStmt); ok {
			u.must(len(rest) == 0, s, "unreachable statement after return")
			return u.ret(r, st)
		}
		if u.assumedGuard(s, st) {
			continue
		}
		if text, ok := u.decap(s, rest, st, depth, k); ok {
			return text
		}
		if sw, ok := s.(*ast.SwitchStmt); ok {
			s = u.switchToIf(sw)
		}
		ifs, isIf := s.(*ast.IfStmt)
		if !isIf || !hasReturn(ifs) {
			u.must(!hasReturn(s), s, "return inside a statement that is not an if or a switch")
			lines, st2 := u.simple(s, st, depth)
			return joinLines(lines, u.block(rest, st2, depth, k))
		}
		outer := st
		lines, in := u.initOf(ifs, st)
		var chain func(i *ast.IfStmt, in hstate) string
		chain = func(i *ast.IfStmt, in hstate) string {
			c := u.cond(i.Cond, in)
			after := func(extra map[string]bool) func(hstate) string {
				return func(end hstate) string {
					known := map[string]bool{} // facts about variables that outlive the if
					for n := range extra {
						if _, ok := outer.vars[n]; ok || u.cfg[n] != nil {
							known[n] = true
						}
					}
					next := outer.withNonNil(known)
					next.resp = end.resp
					return u.block(rest, next, depth, k)
				}
			}
			then := u.block(i.Body.List, in.withNonNil(u.facts(i.Cond, in, true)), depth+1, after(nil))
			neg := u.facts(i.Cond, in, false)
			inElse := in.withNonNil(neg)
			var els string
			switch b := i.Else.(type) {
			case nil:
				els = after(neg)(inElse)
			case *ast.BlockStmt:
				els = u.block(b.List, inElse, depth+1, after(nil))
			case *ast.IfStmt:
				u.must(b.Init == nil, b, "init statement in an else-if unsupported")
				els = chain(b, inElse)
			default:
				u.fail(i.Else, "unsupported else")
			}
			return ite(c.s, then, els)
		}
		return joinLines(lines, chain(ifs, in))
	}
	return k(st)
}

// -------------------------------------------------------------- one plugin

// optVarCtor: the constructor `setup6` stores in the configured dhcpv6.Option `name`: every assignment to it in
// the file is `name = dhcpv6.OptX(<one argument>)` inside setup6, with one and the same X.
func (u *h6) optVarCtor(file *ast.File, name string) string {
	setup := u.funcs["setup6"]
	u.must(setup != nil && setup.Body != nil, file.Name, "function setup6 not found (needed for the constructor of %s)", name)
	inSetup := func(n ast.Node) bool { return n.Pos() >= setup.Body.Pos() && n.End() <= setup.Body.End() }
	ctor := ""
	ast.Inspect(file, func(n ast.Node) bool {
		switch n := n.(type) {
		case *ast.AssignStmt:
			for i, l := range n.Lhs {
				id, ok := l.(*ast.Ident)
				if !ok || id.Name != name {
					continue
				}
				u.must(inSetup(n) && n.Tok == token.ASSIGN && len(n.Lhs) == len(n.Rhs), n, "assignment to %s outside setup6, or of an unsupported form", name)
				c, ok := n.Rhs[i].(*ast.CallExpr)
				u.must(ok, n, "expected %s = dhcpv6.OptX(…)", name)
				fn, ok := u.pkgSel(c.Fun, "dhcpv6", hstate{})
				u.must(ok, n, "expected %s = dhcpv6.OptX(…)", name)
				u.ctorInfo(n, fn)
				u.must(u.oneArg(c), n, "dhcpv6.%s must be given exactly one argument (the generated parameter stands for it)", fn)
				u.must(ctor == "" || ctor == fn, n, "%s is given options of different constructors (%s, %s)", name, ctor, fn)
				ctor = fn
			}
		case *ast.UnaryExpr:
			if id, ok := n.X.(*ast.Ident); ok && n.Op == token.AND && id.Name == name {
				u.fail(n, "the address of %s is taken", name)
			}
		case *ast.IncDecStmt:
			if id, ok := n.X.(*ast.Ident); ok && id.Name == name {
				u.fail(n, "unsupported statement on %s", name)
			}
		}
		return true
	})
	u.must(ctor != "", setup.Name, "setup6 never assigns %s", name)
	return ctor
}

func (u *h6) plugin(path string) string {
	file := u.parse(path)
	u.imports, u.pkgVars, u.funcs, u.cfg = map[string]string{}, map[string]*ast.ValueSpec{}, map[string]*ast.FuncDecl{}, map[string]*h6var{}
	u.nr, u.nm, u.ns, u.na, u.nc, u.assumed, u.copyOK, u.usesInner = 0, 0, 0, 0, 0, nil, false, false
	for _, im := range file.Imports {
		p, _ := strconv.Unquote(im.Path.Value)
		name := filepath.Base(p)
		if im.Name != nil {
			name = im.Name.Name
		}
		u.imports[name] = p
		if want, ok := h6pkgs[name]; ok {
			u.must(p == want, im, "package name %s stands for %s in the vocabulary", name, want)
		}
	}
	for _, d := range file.Decls {
		switch d := d.(type) {
		case *ast.FuncDecl:
			if d.Recv == nil {
				u.must(u.funcs[d.Name.Name] == nil, d.Name, "function declared twice")
				u.funcs[d.Name.Name] = d
			}
		case *ast.GenDecl:
			if d.Tok != token.VAR && d.Tok != token.CONST {
				continue
			}
			for _, sp := range d.Specs {
				v := sp.(*ast.ValueSpec)
				for _, n := range v.Names {
					u.pkgVars[n.Name] = v
				}
			}
		}
	}
	f := u.funcs[u.spec.fn]
	u.must(f != nil && f.Body != nil, file.Name, "function %s not found in %s", u.spec.fn, path)
	ft, body := f.Type, f.Body
	sigShape := "expected func(req, resp dhcpv6.DHCPv6) (dhcpv6.DHCPv6, bool)"
	var params, args []string
	if u.spec.closure {
		u.must(len(ft.Params.List) == 1 && len(ft.Params.List[0].Names) == 1 && len(body.List) == 1, f.Name, "expected a function with one parameter and a single return statement")
		p := ft.Params.List[0]
		k, ok := h6kinds[u.src(p.Type)]
		u.must(ok, p.Type, "unsupported type of the configuration parameter")
		u.must(p.Names[0].Name != "_", p, "unnamed configuration parameter")
		u.cfg[p.Names[0].Name] = &h6var{lean: u.spec.cfg[0].lean, kind: k[0]}
		params = append(params, "("+u.spec.cfg[0].lean+" : "+k[1]+")")
		args = append(args, u.spec.cfg[0].lean)
		r, ok := body.List[0].(*ast.ReturnStmt)
		u.must(ok && len(r.Results) == 1, body.List[0], "expected `return func(req, resp dhcpv6.DHCPv6) (dhcpv6.DHCPv6, bool) { … }`")
		lit, ok := r.Results[0].(*ast.FuncLit)
		u.must(ok, r.Results[0], "expected `return func(req, resp dhcpv6.DHCPv6) (dhcpv6.DHCPv6, bool) { … }`")
		ft, body = lit.Type, lit.Body
	} else {
		for _, c := range u.spec.cfg {
			v := u.pkgVars[c.goName]
			u.must(v != nil && v.Type != nil, f.Name, "package-level variable %s with an explicit type not found", c.goName)
			k, ok := h6kinds[u.src(v.Type)]
			u.must(ok, v.Type, "unsupported type of configuration variable %s", c.goName)
			u.must(len(v.Values) == 0, v, "configuration variable %s has an initial value", c.goName)
			u.cfg[c.goName] = &h6var{lean: c.lean, kind: k[0]}
			params = append(params, "("+c.lean+" : "+k[1]+")")
			args = append(args, c.lean)
		}
		for _, c := range u.spec.cfg {
			if u.cfg[c.goName].kind == "opt6" {
				u.cfg[c.goName].ctor = u.optVarCtor(file, c.goName)
			}
		}
	}
	var names []*ast.Ident
	for _, p := range ft.Params.List {
		u.must(u.src(p.Type) == "dhcpv6.DHCPv6", p.Type, "parameter type must be dhcpv6.DHCPv6")
		names = append(names, p.Names...)
	}
	u.must(f.Recv == nil && ft.TypeParams == nil && len(names) == 2 && ft.Results != nil && len(ft.Results.List) == 2 &&
		len(ft.Results.List[0].Names) == 0 && len(ft.Results.List[1].Names) == 0 &&
		u.src(ft.Results.List[0].Type) == "dhcpv6.DHCPv6" && u.src(ft.Results.List[1].Type) == "bool", f.Name, sigShape)
	u.must(u.imports["dhcpv6"] == h6pkgs["dhcpv6"], f.Name, "the file does not import %s as dhcpv6", h6pkgs["dhcpv6"])
	st := hstate{resp: "pre", vars: map[string]hlocal{}, nonnil: map[string]bool{}}
	for i, role := range []string{"req", "resp"} {
		if names[i].Name != "_" {
			u.freshName(names[i], st)
			st = st.withVar(names[i].Name, hlocal{role, ""})
		}
	}
	u.top = body.List
	text := u.block(body.List, st, 0, func(hstate) string {
		u.fail(f.Name, "control reaches the end of the handler without a return")
		return ""
	})
	rel := strings.TrimPrefix(path, "/repo/")
	var cfgDoc []string
	for _, c := range u.spec.cfg {
		switch {
		case c.goName == "":
			cfgDoc = append(cfgDoc, "`"+c.lean+"` = the parameter of "+u.spec.fn)
		case u.cfg[c.goName].kind == "opt6":
			cfgDoc = append(cfgDoc, "`"+c.lean+"` = the argument of the `dhcpv6."+u.cfg[c.goName].ctor+"(…)` that setup6 stores in `"+c.goName+"` (`none` = nil)")
		default:
			cfgDoc = append(cfgDoc, "`"+c.lean+"` = `"+c.goName+"`")
		}
	}
	doc := "`" + u.spec.fn + "` (" + rel + "), translated from its go/ast; " + strings.Join(cfgDoc, ", ") + ";\n`pkt` = its first parameter, "
	if u.usesInner {
		doc += "used for `GetInnerMessage()` only."
	} else {
		doc += "not used."
	}
	for _, a := range u.assumed {
		doc += "\nAssumed (guard of the source not translated): " + a + "."
	}
	ps := strings.Join(params, " ")
	out := def(doc, u.spec.name+"On "+ps+" (pkt : Pkt) (pre : Plug.Resp6) : Plug.Out6", text)
	out += def("`"+u.spec.fn+"` on what the server hands to a handler: `"+u.spec.name+"On` at `served req`.\nModel: `"+u.spec.model+"`.",
		u.spec.name+" "+ps+" (req : Plug.ReqView6) (pre : Plug.Resp6) : Plug.Out6",
		u.spec.name+"On "+strings.Join(args, " ")+" (served req) pre")
	return out
}

const gen12Header = `-- GENERATED by harness gen -unit handlers6 — do not edit
-- Regenerated on every run from the go/ast of the Handler6 functions of the option plugins below
-- /repo/plugins (two definitions per plugin, see the doc comments for the file); Props/GenHandlers6.lean
-- proves every ` + "`GenH6.<plugin>`" + ` equal to the hand-written model in Model/OptPlug.lean.
-- Option codes and message types are numbers read from the library source (dhcpv6/types.go); for
-- dhcpv6.OptX(v) the code comes from the Code() method of the type the library function builds, for
-- dhcpv6.WithX(v)(resp) the constructor comes from dhcpv6/modifiers.go, for msg.Options.ServerID() the code
-- comes from the body of that method.
import CoreDhcp.Model.OptPlug
set_option linter.unusedVariables false
namespace CoreDhcp.GenH6

/-! Fixed vocabulary (not derived from the source; the table is in the header of gen12.go):
req.GetInnerMessage() ↦ pkt.inner (none = error) · m.IsOptionRequested(c) ↦ (Plug.oro6 m).contains c ·
m.Options.RequestedOptions() ↦ Plug.oro6 m (range of the loop, a left fold) · m.Options.ServerID() ↦ Plug.lookup <its code> m.opts ·
m.MessageType / m.Type() ↦ m.mt · a.Equal(b) on DUIDs ↦ a = b · resp.UpdateOption(o) ↦ r.update code value ·
resp.AddOption(o) ↦ r.add code value (a new rK each time) · dhcpv6.WithX(a)(resp) ↦ resp.UpdateOption(dhcpv6.OptY(a)) ·
resp.(*dhcpv6.Message) ↦ the response itself, ok ↦ True · library types optDNS / optDomainSearchList / optBootFileURL /
optBootFileParam / optServerID ↦ Plug.encIPs / Plug.encLabels / the bytes / Plug.encBootParams / the bytes ·
log statements and time.Sleep ↦ nothing. -/

/-- The first parameter of a Go handler: the datagram as parsed, a message or a relay message around one.  All a
handler may do with it is ` + "`req.GetInnerMessage()`" + `: ` + "`inner`" + ` is its result, ` + "`none`" + ` = it returns an error. -/
structure Pkt where
  inner : Option Plug.ReqView6

/-- What the server hands to a handler: HandleMsg6 has called ` + "`GetInnerMessage`" + ` itself and dropped the datagram on
an error (server/handle.go), so the call succeeds; the model's ` + "`ReqView6`" + ` is that inner message. -/
def served (m : Plug.ReqView6) : Pkt := ⟨some m⟩

/-- the DUID in a ` + "`dhcpv6.DUID`" + ` that may be nil, and the constructor argument of a configured ` + "`dhcpv6.Option`" + ` that
may be nil: the translator accepts the use only where a test ` + "`!= nil`" + ` dominates it, so the value for ` + "`none`" + ` is
never looked at. -/
def deref (o : Option Plug.Bytes) : Plug.Bytes := o.getD []

`

func runGen12(srcArg, outPath, lib string) {
	die := func(a ...interface{}) {
		fmt.Fprintln(os.Stderr, append([]interface{}{"gen:"}, a...)...)
		os.Exit(2)
	}
	var known []string
	for _, s := range h6specs {
		known = append(known, s.name)
	}
	override := map[string]string{}
	if srcArg != "" { // plugin=file.go[,plugin=file.go…]
		for _, kv := range strings.Split(srcArg, ",") {
			p := strings.SplitN(kv, "=", 2)
			if len(p) != 2 || !set(known...)[p[0]] || override[p[0]] != "" {
				die("-src for unit handlers6 is plugin=file.go[,plugin=file.go…]; plugins:", strings.Join(known, " "))
			}
			override[p[0]] = p[1]
		}
	}
	u := &h6{gen: &gen{fset: token.NewFileSet()}, consts: map[string]int{}, ctors: map[string]h6ctor{}, codeOf: map[string]string{}, mods: map[string]string{}}
	d := &dunit{gen: u.gen, consts: u.consts}
	d.readConsts(filepath.Join(lib, "dhcpv6/types.go"), "dhcpv6")
	libFiles, err := filepath.Glob(filepath.Join(lib, "dhcpv6", "option_*.go"))
	if err != nil || len(libFiles) == 0 {
		die("no dhcpv6/option_*.go below", lib)
	}
	sort.Strings(libFiles)
	for _, f := range libFiles {
		if !strings.HasSuffix(f, "_test.go") {
			u.readOptFile(f)
		}
	}
	u.readModifiers(filepath.Join(lib, "dhcpv6/modifiers.go"))
	u.readMessage(filepath.Join(lib, "dhcpv6/dhcpv6message.go"), die)
	out := gen12Header
	n := 0
	for _, spec := range h6specs {
		u.spec = spec
		path := spec.src
		if o := override[spec.name]; o != "" {
			path = o
		}
		out += u.plugin(path)
		n++
	}
	out += "end CoreDhcp.GenH6\n"
	if err := os.WriteFile(outPath, []byte(out), 0o644); err != nil {
		die(err)
	}
	fmt.Printf("gen: wrote %s (%d bytes) from %d plugin files\n", outPath, len(out), n)
	for _, name := range known {
		if p := override[name]; p != "" {
			fmt.Printf("gen: %s read from %s\n", name, p)
		}
	}
}
