// gen18.go — `harness gen -unit rangesetup`: the argument and start-up part of the set-up of the range plugin,
// regenerated as Lean definitions (namespace CoreDhcp.GenRangeSetup, file CoreDhcp/Generated/RangeSetup.lean) from the
// go/ast of plugins/range/plugin.go:
//
//	var Plugin = plugins.Plugin{Name: …, Setup6: …, Setup4: F}   ↦ plugin : PluginDecl
//	F (the function registered as Setup4: `setupRange`)          ↦ setupRange : Out — the tests in their order, which
//	                                                               argument goes to which library call, what the plugin
//	                                                               state is filled with, what is returned on every path
//
// Props/GenRangeSetup.lean proves both equal to the hand-written model (Model/RangeSetup.lean).  What the re-marking
// loop and Handler4 DO is unit `range4` (gen8.go), storage.go is unit `storage` (gen14.go), the allocator is unit
// `alloc4` (gen3.go); here the loop is one answer (`remarkOk`) and `p.Handler4` a name.
//
// The translator runs the function symbolically, statement by statement, knows ONLY what is listed below and fails
// loudly (source position, exit code 2) on everything else.  Go names never reach the generated text: a local is
// replaced by the value it stands for, an error is named after the TEST that failed (not after its text).
//
// INPUTS of the generated definition (`w : RangeSetup.World`; every answer a function of the call's arguments):
//
//	w.ip4 s          net.ParseIP(s).To4() as a big-endian number; none: To4() is nil
//	w.newAlloc a b   bitmap.NewIPv4Allocator(a, b) returned no error (a, b seen through To4())
//	w.duration s     time.ParseDuration(s): ns; none: an error
//	w.register f     p.registerBackingDB(f) returned nil
//	w.loadOk         loadRecords(p.leasedb) returned no error
//	w.remarkOk       the loop over p.Recordsv4 ran through without returning
//
// VOCABULARY
//
//	Go                                                  Lean
//	--------------------------------------------------  ----------------------------------------------------------
//	var ( err error; p PluginState )                    nothing: err is nil, p is THE state, all its fields unset
//	len(args) <op> K                                    args.length <op> K                  failure: .arity
//	args[K]                                             args.getD K ""    only where the tests passed imply len(args) > K
//	x := args[K]                                        nothing: x stands for that value
//	s == ""                                             s = ""                              failure: .emptyFileName
//	x := net.ParseIP(args[K])                           nothing: x stands for `w.ip4 (args.getD K "")`
//	x.To4() == nil                                      <x> = none                          failure: .notIPv4 K
//	binary.BigEndian.Uint32(x.To4())                    (<x>).getD 0#32    only where x.To4() != nil is established
//	u <op> v (two such numbers)                         u.toNat <op> v.toNat                failure: .badRange
//	p.allocator, err = bitmap.NewIPv4Allocator(x, y)    the call `w.newAlloc <x> <y>`; p's allocator is made of x, y
//	p.LeaseTime, err = time.ParseDuration(args[K])      the call `w.duration (args.getD K "")`; p's lease is its answer
//	p.LeaseTime = p.LeaseTime.Round(time.Second)        p's lease is `goRoundSecond <lease>`  (only after the parse)
//	p.LeaseTime <op> C [|| p.LeaseTime <op> C]          <lease> <op> <value of C> [∨ …]     failure: .leaseOutOfRange
//	                                                    <lease> = the value p's lease has AT THIS PLACE; C: integer
//	                                                    literals, time.Nanosecond … time.Hour, math.MaxUint32
//	                                                    (= 4294967295), products — evaluated here, in ns
//	err [:]= p.registerBackingDB(s)                     the call `w.register s`; p's database is the one of s
//	p.Recordsv4, err = loadRecords(p.leasedb)           the call `w.loadOk` (only after a successful registerBackingDB)
//	err != nil                                          <call> = false / = none; failure: .allocator / .badDuration /
//	                                                    .storage / .load by the call err comes from.  The error of a
//	                                                    call must be tested by the NEXT statement (or in the same `if`)
//	if c { logs; return … }                             if c then … else <what follows>.  No else, the body returns
//	for … := range p.Recordsv4 { … }                    if w.remarkOk = false then ⟨none, some .remark⟩ else …
//	                                                    (only after records and allocator exist; every return inside
//	                                                    must be `nil, <not nil>`; nothing of the function is assigned)
//	return nil, <error>   inside a failed test          ⟨none, some <failure of that test>⟩; <error>: errors.New(text),
//	                                                    fmt.Errorf(text, side-effect free…), or the error that was tested
//	return p.Handler4, nil                              ⟨some ⟨file, start, stop, lease⟩, none⟩ from p's fields, all of
//	                                                    which must be set; Handler4 must have the receiver *PluginState
//	return nil, nil · return p.Handler4, <error>        ⟨none, none⟩ · ⟨some …, some …⟩ (the proofs then fail)
//	log.<Level>(…) (not Fatal/Panic)                    nothing — the package's logger, arguments free of side effects
//	verifSeen(&p)                                       nothing (verification hook, a no-op in normal builds)
//
// ALSO CHECKED: the imports the vocabulary names; no local has the name of a package, a package-level name or a
// builtin; nothing assigns to the parameter or to a variable that stands for a value; a field of p is set once.
package main

import (
	"fmt"
	"go/ast"
	"go/parser"
	"go/token"
	"math/big"
	"os"
	"path/filepath"
	"strconv"
)

const rangeSetupSrc = "/repo/plugins/range/plugin.go"

var p18pkgs = map[string]string{
	"errors": "errors", "fmt": "fmt", "net": "net", "time": "time", "binary": "encoding/binary", "math": "math",
	"bitmap":  "github.com/coredhcp/coredhcp/plugins/allocators/bitmap",
	"handler": "github.com/coredhcp/coredhcp/handler",
	"plugins": "github.com/coredhcp/coredhcp/plugins",
	"logger":  "github.com/coredhcp/coredhcp/logger",
}

// names of the package (other files) and builtins the vocabulary mentions: no local may take them
var p18reserved = set("loadRecords", "verifSeen", "PluginState", "Record", "len", "nil", "true", "false", "string", "error",
	"append", "cap", "make", "new", "panic", "copy", "delete", "int", "uint32", "int64", "uint64")

var p18logLevels = set("Print", "Printf", "Println", "Info", "Infof", "Infoln", "Debug", "Debugf", "Debugln", "Warn", "Warnf",
	"Warning", "Warningf", "Error", "Errorf", "Trace", "Tracef")

var e18ctor = map[string]string{"alloc": ".allocator", "dur": ".badDuration", "reg": ".storage", "load": ".load"}

type v18 struct {
	role string // args | err | state | str | ip
	lean string // str, ip: the Lean expression of the value
	arg  int    // ip: the index of the argument that was parsed
	call int    // err: index into calls of the call whose error this is; -1 = nil
}

type c18 struct {
	kind  string // alloc | dur | reg | load
	fails string // Lean Prop: the call returned an error
	known int    // 0 = not tested on this path, 1 = returned nil, 2 = returned an error
	pos   token.Pos
}

// f18: a field of the state: the Lean text(s) of what it was set from, and the call that must have succeeded for it.
type f18 struct {
	a, b string
	call int
}

type s18 struct {
	vars     map[string]v18
	lb       int             // len(args) >= lb on this path
	isSome   map[string]bool // Lean texts of `w.ip4 …` known not to be none on this path
	calls    []c18
	fields   map[string]f18
	why      string // the failure of the innermost test that holds on this path ("" = none)
	pending  int    // the call whose error the next statement must test; -1 = none
	remarked bool
}

func (st s18) clone() s18 {
	n := st
	n.vars = map[string]v18{}
	for k, v := range st.vars {
		n.vars[k] = v
	}
	n.isSome = map[string]bool{}
	for k, v := range st.isSome {
		n.isSome[k] = v
	}
	n.fields = map[string]f18{}
	for k, v := range st.fields {
		n.fields[k] = v
	}
	n.calls = append([]c18{}, st.calls...)
	return n
}

type g18 struct {
	*gen
	imports  map[string]string
	pkgNames map[string]bool // package-level names of this file
	state    string          // the name of the PluginState variable ("" = not declared yet)
	hasH4    bool            // (*PluginState).Handler4 is declared
}

func (g *g18) unparen(x ast.Expr) ast.Expr {
	for {
		p, ok := x.(*ast.ParenExpr)
		if !ok {
			return x
		}
		x = p.X
	}
}

// pkgSel: x is `<pkg>.<name>`, pkg a package of the vocabulary that is not shadowed.
func (g *g18) pkgSel(x ast.Expr, st s18) (pkg, name string, ok bool) {
	s, ok := g.unparen(x).(*ast.SelectorExpr)
	if !ok {
		return "", "", false
	}
	id, ok := s.X.(*ast.Ident)
	if !ok || p18pkgs[id.Name] == "" {
		return "", "", false
	}
	if _, local := st.vars[id.Name]; local {
		return "", "", false
	}
	g.must(g.imports[id.Name] == p18pkgs[id.Name], x, "`%s` is not the package %s here", id.Name, p18pkgs[id.Name])
	return id.Name, s.Sel.Name, true
}

func (g *g18) variable(x ast.Expr, st s18, role string) (v18, string, bool) {
	id, ok := g.unparen(x).(*ast.Ident)
	if !ok {
		return v18{}, "", false
	}
	v, ok := st.vars[id.Name]
	return v, id.Name, ok && v.role == role
}

// field: x is `<state>.<f>` ↦ f.
func (g *g18) field(x ast.Expr, st s18) (string, bool) {
	s, ok := g.unparen(x).(*ast.SelectorExpr)
	if !ok {
		return "", false
	}
	if _, _, ok := g.variable(s.X, st, "state"); !ok {
		return "", false
	}
	return s.Sel.Name, true
}

func (g *g18) declare(id *ast.Ident, v v18, st s18) s18 {
	g.must(id.Name != "_", id, "blank identifier unsupported here")
	_, isPkg := g.imports[id.Name]
	g.must(!isPkg && !g.pkgNames[id.Name] && !p18reserved[id.Name] && p18pkgs[id.Name] == "", id,
		"variable name clashes with a name that already has a meaning (package, package-level name, builtin)")
	old, exists := st.vars[id.Name]
	g.must(!exists || (old.role == "err" && v.role == "err"), id, "a variable in scope is shadowed or redeclared (only an error variable may be, by the error variable of an `if`)")
	st = st.clone()
	st.vars[id.Name] = v
	return st
}

func (g *g18) isNil(x ast.Expr, st s18) bool {
	id, ok := g.unparen(x).(*ast.Ident)
	if !ok || id.Name != "nil" {
		return false
	}
	_, local := st.vars["nil"]
	return !local
}

func (g *g18) intLit(x ast.Expr) (int, bool) {
	b, ok := g.unparen(x).(*ast.BasicLit)
	if !ok || b.Kind != token.INT {
		return 0, false
	}
	k, err := strconv.Atoi(b.Value)
	return k, err == nil && k >= 0
}

func (g *g18) strLit(x ast.Expr) (string, bool) {
	b, ok := g.unparen(x).(*ast.BasicLit)
	if !ok || b.Kind != token.STRING {
		return "", false
	}
	s, err := strconv.Unquote(b.Value)
	return s, err == nil
}

func (g *g18) isLen(x ast.Expr, st s18) (ast.Expr, bool) {
	c, ok := g.unparen(x).(*ast.CallExpr)
	if !ok || !isIdent(c.Fun, "len") || len(c.Args) != 1 || c.Ellipsis.IsValid() {
		return nil, false
	}
	return c.Args[0], true
}

// ------------------------------------------------------------------ values

// argIndex: x is `args[K]`, allowed only where len(args) > K is implied.
func (g *g18) argIndex(x ast.Expr, st s18) (int, bool) {
	ix, ok := g.unparen(x).(*ast.IndexExpr)
	if !ok {
		return 0, false
	}
	if _, _, ok := g.variable(ix.X, st, "args"); !ok {
		return 0, false
	}
	k, ok := g.intLit(ix.Index)
	g.must(ok, ix.Index, "the index of an argument must be an integer literal")
	g.must(st.lb > k, x, "argument %d may not exist here: the tests passed on this path only imply %d argument(s); Go would panic, the model has no panic", k, st.lb)
	return k, true
}

// str: an expression that stands for one of the arguments ↦ (Lean text, index).
func (g *g18) str(x ast.Expr, st s18) (string, int, bool) {
	if k, ok := g.argIndex(x, st); ok {
		return "args.getD " + strconv.Itoa(k) + ` ""`, k, true
	}
	if v, _, ok := g.variable(x, st, "str"); ok {
		return v.lean, v.arg, true
	}
	return "", 0, false
}

// ip: x is a variable that holds the answer of net.ParseIP, or its `.To4()` ↦ the Lean text of its IPv4 form.
func (g *g18) ip(x ast.Expr, st s18) (v18, bool) {
	x = g.unparen(x)
	if v, _, ok := g.variable(x, st, "ip"); ok {
		return v, true
	}
	return g.to4(x, st)
}

// to4: x is `<ip variable>.To4()`.
func (g *g18) to4(x ast.Expr, st s18) (v18, bool) {
	c, ok := g.unparen(x).(*ast.CallExpr)
	if !ok || len(c.Args) != 0 {
		return v18{}, false
	}
	s, ok := c.Fun.(*ast.SelectorExpr)
	if !ok || s.Sel.Name != "To4" {
		return v18{}, false
	}
	v, _, ok := g.variable(s.X, st, "ip")
	return v, ok
}

// u32: x is `binary.BigEndian.Uint32(<ip>.To4())` ↦ Lean BitVec 32.
func (g *g18) u32(x ast.Expr, st s18) (string, bool) {
	c, ok := g.unparen(x).(*ast.CallExpr)
	if !ok || len(c.Args) != 1 || c.Ellipsis.IsValid() {
		return "", false
	}
	s, ok := c.Fun.(*ast.SelectorExpr)
	if !ok || s.Sel.Name != "Uint32" {
		return "", false
	}
	p, n, ok := g.pkgSel(s.X, st)
	if !ok || p != "binary" {
		return "", false
	}
	g.must(n == "BigEndian", s.X, "an address is a number in network byte order: only binary.BigEndian is known")
	v, ok := g.to4(c.Args[0], st)
	g.must(ok, c.Args[0], "the bytes given to Uint32 must be `<address>.To4()` (the 16-byte form starts with zeros)")
	g.must(st.isSome[v.lean], c.Args[0], "To4() may be nil here (it has not been tested, and returned on, before this use): Uint32 would panic, the model has no panic")
	return "(" + v.lean + ").getD 0#32", true
}

// pure: x has no side effect and cannot panic (arguments of log statements and of error texts).
func (g *g18) pure(x ast.Expr, st s18) {
	x = g.unparen(x)
	switch x := x.(type) {
	case *ast.BasicLit:
		return
	case *ast.Ident:
		if v, ok := st.vars[x.Name]; ok && v.role != "state" {
			return
		}
		if g.isNil(x, st) {
			return
		}
	case *ast.IndexExpr:
		if _, ok := g.argIndex(x, st); ok {
			return
		}
	case *ast.SelectorExpr:
		if _, ok := g.field(x, st); ok {
			return
		}
		if _, ok := g.durConst(x, st); ok {
			return
		}
	case *ast.CallExpr:
		if a, ok := g.isLen(x, st); ok {
			g.pure(a, st)
			return
		}
		if id, ok := x.Fun.(*ast.Ident); ok && len(x.Args) == 1 && !x.Ellipsis.IsValid() && set("uint32", "uint64", "int", "int64")[id.Name] {
			_, local := st.vars[id.Name]
			g.must(!local && !g.pkgNames[id.Name], id, "`%s` is not the builtin type here", id.Name)
			g.pure(x.Args[0], st)
			return
		}
		if _, ok := g.to4(x, st); ok {
			return
		}
		if s, ok := x.Fun.(*ast.SelectorExpr); ok && len(x.Args) == 0 && (s.Sel.Name == "String" || s.Sel.Name == "Error") {
			if v, _, ok := g.variable(s.X, st, "ip"); ok && s.Sel.Name == "String" {
				_ = v
				return
			}
			if v, _, ok := g.variable(s.X, st, "err"); ok && s.Sel.Name == "Error" {
				g.must(v.call >= 0 && st.calls[v.call].known == 2, x, "err.Error() on an error that may be nil: a panic")
				return
			}
		}
	}
	g.fail(x, "not known to be free of side effects (known: literals, variables, arguments that exist, fields of the state, len, To4(), String() of an address)")
}

func (g *g18) isLog(s ast.Stmt, st s18) bool {
	e, ok := s.(*ast.ExprStmt)
	if !ok {
		return false
	}
	c, ok := e.X.(*ast.CallExpr)
	if !ok {
		return false
	}
	sel, ok := c.Fun.(*ast.SelectorExpr)
	if !ok || !isIdent(sel.X, "log") {
		return false
	}
	_, local := st.vars["log"]
	g.must(!local && g.pkgNames["log"] && g.imports["log"] == "", sel.X, "`log` is not the package's logger here")
	g.must(p18logLevels[sel.Sel.Name], sel.Sel, "only the plain levels of the logger are skipped (Fatal / Panic end the process)")
	g.must(!c.Ellipsis.IsValid(), c, "unsupported call form")
	for _, a := range c.Args {
		g.pure(a, st)
	}
	return true
}

// ------------------------------------------------------------------ calls

// tested: the error variable `to` may be overwritten.
func (g *g18) errTarget(x ast.Expr, st s18, define bool) (string, s18) {
	id, ok := g.unparen(x).(*ast.Ident)
	g.must(ok, x, "the error of the call must go to an error variable")
	if define {
		return id.Name, g.declare(id, v18{role: "err", call: -1}, st)
	}
	v, ok := st.vars[id.Name]
	g.must(ok && v.role == "err", x, "the error of the call must go to an error variable")
	if v.call >= 0 {
		g.must(st.calls[v.call].known != 0, x, "the error of the previous call (%s) is overwritten before it is tested", g.fset.Position(st.calls[v.call].pos))
	}
	return id.Name, st
}

func (g *g18) record(at ast.Node, c c18, errName string, st s18) (s18, int) {
	g.must(st.pending < 0, at, "a call is made before the error of the previous one is tested")
	st = st.clone()
	c.pos = at.Pos()
	st.calls = append(st.calls, c)
	idx := len(st.calls) - 1
	v := st.vars[errName]
	v.call = idx
	st.vars[errName] = v
	st.pending = idx
	return st, idx
}

func (g *g18) setField(at ast.Node, st s18, name string, f f18) s18 {
	_, set := st.fields[name]
	g.must(!set, at, "the field %s of the state is set a second time", name)
	st = st.clone()
	st.fields[name] = f
	return st
}

// fieldOK: the field was set by a call that is known to have succeeded on this path.
func (g *g18) fieldOK(at ast.Node, st s18, name string) f18 {
	f, ok := st.fields[name]
	g.must(ok, at, "the field %s of the state has not been set on this path", name)
	g.must(st.calls[f.call].known == 1, at, "the field %s of the state comes from a call whose error has not been tested (and returned on)", name)
	return f
}

// simple: the assignments and definitions of the vocabulary.
func (g *g18) simple(s ast.Stmt, st s18) (s18, bool) {
	a, ok := s.(*ast.AssignStmt)
	if !ok || (a.Tok != token.DEFINE && a.Tok != token.ASSIGN) || len(a.Rhs) != 1 {
		return st, false
	}
	define := a.Tok == token.DEFINE
	rhs := g.unparen(a.Rhs[0])
	call, isCall := rhs.(*ast.CallExpr)
	if len(a.Lhs) == 2 {
		g.must(isCall && !define && !call.Ellipsis.IsValid(), s, "unknown two-valued assignment (known: `p.<field>, err = <call>`)")
		fl, ok := g.field(a.Lhs[0], st)
		g.must(ok, a.Lhs[0], "the first value of the call must go to a field of the state")
		if p, n, ok := g.pkgSel(call.Fun, st); ok && p == "bitmap" {
			g.must(n == "NewIPv4Allocator" && len(call.Args) == 2, call, "only bitmap.NewIPv4Allocator(start, end) is known")
			g.must(fl == "allocator", a.Lhs[0], "the allocator must go to the field `allocator` (Handler4 and the re-marking loop use that one)")
			x, ok1 := g.ip(call.Args[0], st)
			y, ok2 := g.ip(call.Args[1], st)
			g.must(ok1, call.Args[0], "the addresses given to the allocator must be answers of net.ParseIP")
			g.must(ok2, call.Args[1], "the addresses given to the allocator must be answers of net.ParseIP")
			name, st := g.errTarget(a.Lhs[1], st, false)
			st, idx := g.record(s, c18{kind: "alloc", fails: "w.newAlloc (" + x.lean + ") (" + y.lean + ") = false"}, name, st)
			return g.setField(s, st, "allocator", f18{a: x.lean, b: y.lean, call: idx}), true
		}
		if p, n, ok := g.pkgSel(call.Fun, st); ok && p == "time" {
			g.must(n == "ParseDuration" && len(call.Args) == 1, call, "only time.ParseDuration(text) is known")
			g.must(fl == "LeaseTime", a.Lhs[0], "the duration must go to the field `LeaseTime`")
			t, _, ok := g.str(call.Args[0], st)
			g.must(ok, call.Args[0], "the text given to time.ParseDuration must be an argument of the plugin")
			name, st := g.errTarget(a.Lhs[1], st, false)
			st, idx := g.record(s, c18{kind: "dur", fails: "w.duration (" + t + ") = none"}, name, st)
			return g.setField(s, st, "LeaseTime", f18{a: "(w.duration (" + t + ")).getD 0", call: idx}), true
		}
		if isIdent(call.Fun, "loadRecords") {
			_, local := st.vars["loadRecords"]
			g.must(!local && len(call.Args) == 1, call, "loadRecords(db) expected")
			g.must(fl == "Recordsv4", a.Lhs[0], "the records must go to the field `Recordsv4`")
			df, ok := g.field(call.Args[0], st)
			g.must(ok && df == "leasedb", call.Args[0], "the records must be loaded from the database of THIS state (its field `leasedb`)")
			g.fieldOK(call.Args[0], st, "leasedb")
			name, st := g.errTarget(a.Lhs[1], st, false)
			st, idx := g.record(s, c18{kind: "load", fails: "w.loadOk = false"}, name, st)
			return g.setField(s, st, "Recordsv4", f18{call: idx}), true
		}
		g.fail(call, "unknown call")
	}
	if len(a.Lhs) != 1 {
		return st, false
	}
	// p.LeaseTime = p.LeaseTime.Round(time.Second)
	if fl, ok := g.field(a.Lhs[0], st); ok {
		g.must(fl == "LeaseTime" && !define && isCall && len(call.Args) == 1 && !call.Ellipsis.IsValid(), s, "the only plain assignment to a field that is known is `p.LeaseTime = p.LeaseTime.Round(time.Second)`")
		sel, ok := call.Fun.(*ast.SelectorExpr)
		g.must(ok && sel.Sel.Name == "Round", call, "the only plain assignment to a field that is known is `p.LeaseTime = p.LeaseTime.Round(time.Second)`")
		rf, ok := g.field(sel.X, st)
		g.must(ok && rf == "LeaseTime", sel.X, "the value rounded must be the lease time of the state")
		p, n, ok := g.pkgSel(call.Args[0], st)
		g.must(ok && p == "time" && n == "Second", call.Args[0], "the lease time goes onto the wire in whole seconds: the unit of the rounding must be time.Second")
		g.must(st.pending < 0, s, "the error of the previous call must be tested by the next statement")
		f := g.fieldOK(s, st, "LeaseTime")
		st = st.clone()
		st.fields["LeaseTime"] = f18{a: "goRoundSecond (" + f.a + ")", call: f.call}
		return st, true
	}
	to, ok := a.Lhs[0].(*ast.Ident)
	g.must(ok, a.Lhs[0], "the target of an assignment must be a plain variable or a field of the state")
	// err [:]= p.registerBackingDB(s)
	if isCall {
		if sel, ok := call.Fun.(*ast.SelectorExpr); ok {
			if _, _, isState := g.variable(sel.X, st, "state"); isState {
				g.must(sel.Sel.Name == "registerBackingDB" && len(call.Args) == 1 && !call.Ellipsis.IsValid(), call, "the only method of the state that is called is registerBackingDB(file name)")
				t, _, ok := g.str(call.Args[0], st)
				g.must(ok, call.Args[0], "the file name given to registerBackingDB must be an argument of the plugin")
				name, st := g.errTarget(to, st, define)
				st, idx := g.record(s, c18{kind: "reg", fails: "w.register (" + t + ") = false"}, name, st)
				return g.setField(s, st, "leasedb", f18{a: t, call: idx}), true
			}
		}
		if p, n, ok := g.pkgSel(call.Fun, st); ok && p == "net" {
			g.must(n == "ParseIP" && len(call.Args) == 1 && !call.Ellipsis.IsValid() && define, s, "only `x := net.ParseIP(argument)` is known")
			t, k, ok := g.str(call.Args[0], st)
			g.must(ok, call.Args[0], "the text given to net.ParseIP must be an argument of the plugin")
			g.must(st.pending < 0, s, "the error of the previous call must be tested by the next statement")
			return g.declare(to, v18{role: "ip", lean: "w.ip4 (" + t + ")", arg: k}, st), true
		}
	}
	if t, k, ok := g.str(rhs, st); ok && define {
		g.must(st.pending < 0, s, "the error of the previous call must be tested by the next statement")
		return g.declare(to, v18{role: "str", lean: t, arg: k}, st), true
	}
	return st, false
}

// ------------------------------------------------------------------ conditions

// cond: the condition of an `if` ↦ (Lean Prop, the state where it holds, the state where it does not).
func (g *g18) cond(x ast.Expr, st s18) (string, s18, s18) {
	b, ok := g.unparen(x).(*ast.BinaryExpr)
	g.must(ok, x, "unsupported condition (known: len(args) <op> K, s == \"\", x.To4() == nil, a comparison of two addresses as numbers, err != nil, the lease time against constants)")
	pos, neg := st.clone(), st.clone()
	pos.pending, neg.pending = -1, -1
	// the lease time against constant durations: one comparison, or two joined by ||
	if b.Op == token.LOR {
		g.must(st.pending < 0, x, "the error of the call just made must be tested by the next statement")
		l, ok1 := g.leaseCmp(b.X, st)
		r, ok2 := g.leaseCmp(b.Y, st)
		g.must(ok1 && ok2, b, "the only compound condition known is `p.LeaseTime <op> C || p.LeaseTime <op> C`, C constant durations")
		pos.why = ".leaseOutOfRange"
		return l + " ∨ " + r, pos, neg
	}
	if l, ok := g.leaseCmp(b, st); ok {
		g.must(st.pending < 0, x, "the error of the call just made must be tested by the next statement")
		pos.why = ".leaseOutOfRange"
		return l, pos, neg
	}
	op, okOp := cmpOps[b.Op]
	g.must(okOp, b, "unsupported operator %s in a condition", b.Op)
	// err != nil
	if v, _, ok := g.variable(b.X, st, "err"); ok && g.isNil(b.Y, st) {
		g.must(b.Op == token.NEQ, b, "an error is tested with `!= nil`")
		g.must(v.call >= 0, b, "this error variable is nil here (no call has assigned it): the condition is constant")
		c := st.calls[v.call]
		g.must(c.known == 0, b, "the error of this call has already been tested on this path: the condition is constant")
		g.must(st.pending < 0 || st.pending == v.call, b, "the error of the call just made must be tested first")
		pos.calls[v.call].known, neg.calls[v.call].known = 2, 1
		pos.why = e18ctor[c.kind]
		return c.fails, pos, neg
	}
	g.must(st.pending < 0, x, "the error of the call just made must be tested by the next statement")
	// len(args) <op> K
	if a, ok := g.isLen(b.X, st); ok {
		_, _, isArgs := g.variable(a, st, "args")
		g.must(isArgs, a, "len of something that is not the argument list")
		k, ok := g.intLit(b.Y)
		g.must(ok, b.Y, "len(args) must be compared with an integer literal")
		lbPos, lbNeg := 0, 0
		switch b.Op {
		case token.LSS:
			lbNeg = k
		case token.LEQ:
			lbNeg = k + 1
		case token.GEQ, token.EQL:
			lbPos = k
		case token.GTR:
			lbPos = k + 1
		}
		if lbPos > pos.lb {
			pos.lb = lbPos
		}
		if lbNeg > neg.lb {
			neg.lb = lbNeg
		}
		pos.why = ".arity"
		return "args.length " + op + " " + strconv.Itoa(k), pos, neg
	}
	// x.To4() == nil
	if v, ok := g.to4(b.X, st); ok && g.isNil(b.Y, st) {
		g.must(b.Op == token.EQL, b, "To4() is tested with `== nil`")
		g.must(!st.isSome[v.lean], b, "To4() of this address has already been tested on this path: the condition is constant")
		neg.isSome[v.lean] = true
		pos.why = "(.notIPv4 " + strconv.Itoa(v.arg) + ")"
		return v.lean + " = none", pos, neg
	}
	// s == ""
	if t, _, ok := g.str(b.X, st); ok {
		lit, isLit := g.strLit(b.Y)
		g.must(isLit && lit == "" && b.Op == token.EQL, b, "an argument is only compared with the empty string, by ==")
		pos.why = ".emptyFileName"
		return t + ` = ""`, pos, neg
	}
	// two addresses as numbers
	if u, ok := g.u32(b.X, st); ok {
		v, ok := g.u32(b.Y, st)
		g.must(ok, b.Y, "an address as a number is compared with another address as a number")
		pos.why = ".badRange"
		return "(" + u + ").toNat " + op + " (" + v + ").toNat", pos, neg
	}
	g.fail(x, "unsupported condition (known: len(args) <op> K, s == \"\", x.To4() == nil, a comparison of two addresses as numbers, err != nil)")
	return "", st, st
}

// durConst: x is a constant duration / integer ↦ its value (ns for a duration).  Known: integer literals, the unit
// constants of package time, math.MaxUint32, products of these.
func (g *g18) durConst(x ast.Expr, st s18) (*big.Int, bool) {
	x = g.unparen(x)
	switch x := x.(type) {
	case *ast.BasicLit:
		if x.Kind != token.INT {
			return nil, false
		}
		v, ok := new(big.Int).SetString(x.Value, 0)
		return v, ok
	case *ast.SelectorExpr:
		p, n, ok := g.pkgSel(x, st)
		if !ok {
			return nil, false
		}
		if p == "time" {
			v, known := map[string]int64{"Nanosecond": 1, "Microsecond": 1000, "Millisecond": 1000000, "Second": 1000000000,
				"Minute": 60000000000, "Hour": 3600000000000}[n]
			g.must(known, x, "not a unit constant of package time")
			return big.NewInt(v), true
		}
		if p == "math" {
			g.must(n == "MaxUint32", x, "the only constant of package math that is known is MaxUint32 (= 4294967295)")
			return big.NewInt(4294967295), true
		}
	case *ast.BinaryExpr:
		if x.Op != token.MUL {
			return nil, false
		}
		a, ok1 := g.durConst(x.X, st)
		b, ok2 := g.durConst(x.Y, st)
		if !ok1 || !ok2 {
			return nil, false
		}
		v := new(big.Int).Mul(a, b)
		g.must(v.IsInt64(), x, "the constant does not fit a time.Duration")
		return v, true
	}
	return nil, false
}

// leaseCmp: x is `p.LeaseTime <op> <constant duration>` ↦ Lean Prop over the CURRENT value of the lease time.
func (g *g18) leaseCmp(x ast.Expr, st s18) (string, bool) {
	b, ok := g.unparen(x).(*ast.BinaryExpr)
	if !ok {
		return "", false
	}
	fl, ok := g.field(b.X, st)
	if !ok || fl != "LeaseTime" {
		return "", false
	}
	op, okOp := cmpOps[b.Op]
	g.must(okOp, b, "unsupported operator %s in a condition", b.Op)
	c, ok := g.durConst(b.Y, st)
	g.must(ok, b.Y, "the lease time is compared with a constant duration (integer literals, the units of package time, math.MaxUint32, products)")
	f := g.fieldOK(b.X, st, "LeaseTime")
	return f.a + " " + op + " " + c.String(), true
}

// ------------------------------------------------------------------ results

func (g *g18) handlerOf(x ast.Expr, st s18) string {
	if g.isNil(x, st) {
		return "none"
	}
	sel, ok := g.unparen(x).(*ast.SelectorExpr)
	g.must(ok && sel.Sel.Name == "Handler4", x, "the handler returned must be nil or `p.Handler4`, p the state this function filled in")
	recv := g.unparen(sel.X)
	if u, ok := recv.(*ast.UnaryExpr); ok && u.Op == token.AND {
		recv = g.unparen(u.X)
	}
	_, _, isState := g.variable(recv, st, "state")
	g.must(isState, sel.X, "the handler returned must be the method value of the state this function filled in")
	g.must(g.hasH4, x, "no method `func (p *PluginState) Handler4` in this file (a value receiver would serve a COPY of the state)")
	al := g.fieldOK(x, st, "allocator")
	lt := g.fieldOK(x, st, "LeaseTime")
	db := g.fieldOK(x, st, "leasedb")
	g.fieldOK(x, st, "Recordsv4")
	g.must(st.isSome[al.a] && st.isSome[al.b], x, "the allocator was made of an address whose To4() may be nil")
	return "some ⟨" + db.a + ", (" + al.a + ").getD 0#32, (" + al.b + ").getD 0#32, " + lt.a + "⟩"
}

func (g *g18) errorOf(x ast.Expr, st s18) string {
	if g.isNil(x, st) {
		return "none"
	}
	g.must(st.why != "", x, "an error is returned outside a failed test: the model names an error after the test that failed")
	if v, _, ok := g.variable(x, st, "err"); ok {
		g.must(v.call >= 0 && st.calls[v.call].known == 2, x, "the error returned is not known to be non-nil here (it must be returned inside the test `err != nil`)")
		return "some " + st.why
	}
	c, ok := g.unparen(x).(*ast.CallExpr)
	g.must(ok && !c.Ellipsis.IsValid() && len(c.Args) >= 1, x, "unknown error value (known: errors.New(text), fmt.Errorf(text, …), the error that was tested)")
	_, isLit := g.strLit(c.Args[0])
	g.must(isLit, c.Args[0], "the text of an error must be a string literal")
	p, n, _ := g.pkgSel(c.Fun, st)
	switch p + "." + n {
	case "errors.New":
		g.must(len(c.Args) == 1, c, "errors.New takes the text")
	case "fmt.Errorf":
		for _, a := range c.Args[1:] {
			g.pure(a, st)
		}
	default:
		g.fail(x, "unknown error value (known: errors.New(text), fmt.Errorf(text, …), the error that was tested)")
	}
	return "some " + st.why
}

func (g *g18) ret(r *ast.ReturnStmt, st s18) string {
	g.must(len(r.Results) == 2, r, "the set-up function returns (handler, error)")
	g.must(st.pending < 0, r, "the error of the call just made is never tested")
	for _, c := range st.calls {
		g.must(c.known != 0, r, "the error of the call at %s is never tested on this path", g.fset.Position(c.pos))
	}
	return "⟨" + g.handlerOf(r.Results[0], st) + ", " + g.errorOf(r.Results[1], st) + "⟩"
}

// ------------------------------------------------------------------ statements

func (g *g18) block(list []ast.Stmt, st s18, end ast.Node) string {
	if len(list) == 0 {
		g.fail(end, "control reaches the end of the function without a return")
	}
	s, rest := list[0], list[1:]
	switch s := s.(type) {
	case *ast.ReturnStmt:
		g.must(len(rest) == 0, s, "unreachable statement after return")
		return g.ret(s, st)
	case *ast.DeclStmt:
		d, ok := s.Decl.(*ast.GenDecl)
		g.must(ok && d.Tok == token.VAR, s, "unsupported declaration")
		g.must(st.pending < 0, s, "the error of the previous call must be tested by the next statement")
		for _, sp := range d.Specs {
			v := sp.(*ast.ValueSpec)
			g.must(len(v.Values) == 0 && v.Type != nil, v, "only `var err error` and `var p PluginState` are known")
			for _, n := range v.Names {
				switch {
				case isIdent(v.Type, "error"):
					st = g.declare(n, v18{role: "err", call: -1}, st)
				case isIdent(v.Type, "PluginState"):
					g.must(g.state == "", n, "a second plugin state")
					g.state = n.Name
					st = g.declare(n, v18{role: "state"}, st)
				default:
					g.fail(v, "only `var err error` and `var p PluginState` are known")
				}
			}
		}
		return g.block(rest, st, end)
	case *ast.IfStmt:
		g.must(s.Else == nil, s, "an `if` with an else: unsupported (the tests of this function return or fall through)")
		st1 := st
		var scoped string
		if s.Init != nil {
			a, isA := s.Init.(*ast.AssignStmt)
			var ok bool
			st1, ok = g.simple(s.Init, st)
			g.must(ok, s.Init, "unsupported init statement of an if")
			if isA && a.Tok == token.DEFINE {
				g.must(len(a.Lhs) == 1, a, "unsupported init statement of an if")
				id, isID := a.Lhs[0].(*ast.Ident)
				g.must(isID && st1.vars[id.Name].role == "err", a, "an `if` may declare only the error of the call it makes")
				scoped = id.Name
			}
		}
		c, pos, neg := g.cond(s.Cond, st1)
		var body []ast.Stmt
		for _, b := range s.Body.List {
			if !g.isLog(b, pos) {
				body = append(body, b)
			}
		}
		g.must(len(body) == 1, s.Body, "the body of a test must be log statements and one return")
		r, ok := body[0].(*ast.ReturnStmt)
		g.must(ok && s.Body.List[len(s.Body.List)-1] == ast.Stmt(r), s.Body, "the body of a test must end with its return")
		thenS := g.ret(r, pos)
		if scoped != "" { // the variable of the `if` is gone, the one it shadowed is back
			delete(neg.vars, scoped)
			if outer, had := st.vars[scoped]; had {
				neg.vars[scoped] = outer
			}
		}
		neg.why = st.why
		return ite(c, thenS, g.block(rest, neg, end))
	case *ast.RangeStmt:
		fl, ok := g.field(s.X, st)
		g.must(ok && fl == "Recordsv4", s.X, "the only loop known is the re-marking loop `for _, v := range p.Recordsv4` (unit range4)")
		g.must(st.pending < 0, s, "the error of the previous call must be tested by the next statement")
		g.must(!st.remarked, s, "a second loop over the records")
		g.fieldOK(s, st, "Recordsv4")
		g.fieldOK(s, st, "allocator")
		ast.Inspect(s.Body, func(n ast.Node) bool {
			switch n := n.(type) {
			case *ast.ReturnStmt:
				g.must(len(n.Results) == 2 && g.isNil(n.Results[0], st) && !g.isNil(n.Results[1], st), n, "a return in the re-marking loop must be `nil, <an error>`")
			case *ast.AssignStmt:
				if n.Tok != token.DEFINE {
					for _, l := range n.Lhs {
						root := l
						for {
							switch r := root.(type) {
							case *ast.SelectorExpr:
								root = r.X
								continue
							case *ast.IndexExpr:
								root = r.X
								continue
							case *ast.StarExpr:
								root = r.X
								continue
							case *ast.ParenExpr:
								root = r.X
								continue
							}
							break
						}
						id, ok := root.(*ast.Ident)
						_, outer := st.vars[id.Name]
						g.must(ok && !outer, n, "the re-marking loop assigns to a variable of the set-up function")
					}
				}
			case *ast.IncDecStmt, *ast.GoStmt, *ast.DeferStmt, *ast.FuncLit:
				g.fail(n, "unsupported in the re-marking loop")
			}
			return true
		})
		st = st.clone()
		st.remarked = true
		return ite("w.remarkOk = false", "⟨none, some .remark⟩", g.block(rest, st, end))
	case *ast.ExprStmt:
		if c, ok := s.X.(*ast.CallExpr); ok && isIdent(c.Fun, "verifSeen") {
			_, local := st.vars["verifSeen"]
			g.must(!local && len(c.Args) == 1 && st.pending < 0, s, "verifSeen(&p) expected")
			u, ok := c.Args[0].(*ast.UnaryExpr)
			g.must(ok && u.Op == token.AND, c.Args[0], "verifSeen(&p) expected")
			_, _, isState := g.variable(u.X, st, "state")
			g.must(isState, c.Args[0], "verifSeen(&p) expected")
			return g.block(rest, st, end)
		}
	}
	if g.isLog(s, st) {
		g.must(st.pending < 0, s, "the error of the previous call must be tested by the next statement")
		return g.block(rest, st, end)
	}
	if st2, ok := g.simple(s, st); ok {
		return g.block(rest, st2, end)
	}
	g.fail(s, "unsupported statement in unit rangesetup")
	return ""
}

// ------------------------------------------------------------------ the registration

// pluginDecl: `var Plugin = plugins.Plugin{Name: "…", Setup6: …, Setup4: F}` ↦ (Lean text, F).
func (g *g18) pluginDecl(file *ast.File) (string, string) {
	var lit *ast.CompositeLit
	for _, d := range file.Decls {
		gd, ok := d.(*ast.GenDecl)
		if !ok || gd.Tok != token.VAR {
			continue
		}
		for _, sp := range gd.Specs {
			v := sp.(*ast.ValueSpec)
			for i, n := range v.Names {
				if n.Name != "Plugin" {
					continue
				}
				g.must(lit == nil && len(v.Names) == 1 && len(v.Values) == 1 && i == 0, v, "`var Plugin = plugins.Plugin{…}` expected, once")
				cl, ok := v.Values[0].(*ast.CompositeLit)
				g.must(ok && cl.Type != nil, v, "`var Plugin = plugins.Plugin{…}` expected")
				p, t, ok := g.pkgSel(cl.Type, s18{})
				g.must(ok && p == "plugins" && t == "Plugin", cl.Type, "`var Plugin = plugins.Plugin{…}` expected")
				g.must(v.Type == nil || g.src(v.Type) == "plugins.Plugin", v, "`var Plugin = plugins.Plugin{…}` expected")
				lit = cl
			}
		}
	}
	g.must(lit != nil, file.Name, "`var Plugin = plugins.Plugin{…}` not found")
	vals := map[string]ast.Expr{}
	for _, e := range lit.Elts {
		kv, ok := e.(*ast.KeyValueExpr)
		g.must(ok, e, "the fields of Plugin must be given by name")
		k, ok := kv.Key.(*ast.Ident)
		g.must(ok && (k.Name == "Name" || k.Name == "Setup6" || k.Name == "Setup4") && vals[k.Name] == nil, kv, "unknown or repeated field of plugins.Plugin")
		vals[k.Name] = kv.Value
	}
	g.must(vals["Name"] != nil, lit, "the plugin has no name")
	name, ok := g.strLit(vals["Name"])
	g.must(ok, vals["Name"], "the name of the plugin must be a string literal")
	for _, r := range name {
		g.must(r >= 0x20 && r < 0x7f && r != '"' && r != '\\', vals["Name"], "name with a character outside plain ASCII: not translated")
	}
	f4 := ""
	fn := func(key string) string {
		x := vals[key]
		if x == nil || g.isNil(x, s18{}) {
			return "none"
		}
		id, ok := g.unparen(x).(*ast.Ident)
		g.must(ok, x, "%s must be nil or a function of this file", key)
		if key == "Setup4" {
			f4 = id.Name
			return "(some .setupRange)"
		}
		if id.Name == f4 {
			return "(some .setupRange)"
		}
		return "(some .other)"
	}
	s4 := fn("Setup4")
	s6 := fn("Setup6")
	g.must(f4 != "", lit, "the plugin registers no DHCPv4 set-up: nothing to translate")
	return "⟨\"" + name + "\", " + s6 + ", " + s4 + "⟩", f4
}

// ------------------------------------------------------------------ the unit

const gen18Header = `-- GENERATED by harness gen -unit rangesetup from plugins/range/plugin.go (the set-up of the range plugin) — do not edit
-- Regenerated from the Go source on every run; Props/GenRangeSetup.lean proves these definitions
-- equal to the hand-written model in Model/RangeSetup.lean.
import CoreDhcp.Model.RangeSetup
set_option linter.unusedVariables false
namespace CoreDhcp.GenRangeSetup
open RangeSetup

/-! Fixed vocabulary (not derived from the source; the table is in the header of gen18.go).  Out-of-repository calls and the
calls into the units alloc4, storage and range4 are inputs, each a function of ITS ARGUMENTS: ` + "`w.ip4 s`" + ` = ` + "`net.ParseIP(s).To4()`" + `
as a big-endian number (none: nil); ` + "`w.newAlloc a b`" + ` = ` + "`bitmap.NewIPv4Allocator(a, b)`" + ` returned no error; ` + "`w.duration s`" + ` =
` + "`time.ParseDuration(s)`" + ` in ns (none: an error); ` + "`w.register f`" + ` = ` + "`p.registerBackingDB(f)`" + ` returned nil; ` + "`w.loadOk`" + ` =
` + "`loadRecords(p.leasedb)`" + ` returned no error; ` + "`w.remarkOk`" + ` = the loop over ` + "`p.Recordsv4`" + ` ran through.
` + "`args.getD k \"\"`" + ` = ` + "`args[k]`" + `, emitted only where the tests passed imply ` + "`len(args) > k`" + `; ` + "`(x).getD 0#32`" + ` =
` + "`binary.BigEndian.Uint32(x.To4())`" + `, emitted only where ` + "`x.To4() != nil`" + ` is established; ` + "`goRoundSecond d`" + ` = ` + "`d.Round(time.Second)`" + `.
` + "`⟨h, e⟩`" + ` = the pair returned: h = none for nil, ` + "`some ⟨file, start, stop, lease⟩`" + ` for ` + "`p.Handler4`" + ` of the state whose database,
allocator and lease time were set from these values; e = none for nil, ` + "`some <the test that failed>`" + ` for an error.
Log statements ↦ nothing (arguments checked). -/

`

func runGen18(srcPath, outPath string) {
	die := func(a ...interface{}) {
		fmt.Fprintln(os.Stderr, append([]interface{}{"gen:"}, a...)...)
		os.Exit(2)
	}
	if srcPath == "" {
		srcPath = rangeSetupSrc
	}
	g := &g18{gen: &gen{fset: token.NewFileSet()}, imports: map[string]string{}, pkgNames: map[string]bool{}}
	file, err := parser.ParseFile(g.fset, srcPath, nil, parser.SkipObjectResolution)
	if err != nil {
		die("parse:", err)
	}
	for _, im := range file.Imports {
		p, _ := strconv.Unquote(im.Path.Value)
		name := filepath.Base(p)
		if im.Name != nil {
			name = im.Name.Name
		}
		g.must(name != "." && name != "_", im, "dot and blank imports unsupported")
		g.imports[name] = p
		if want, ok := p18pkgs[name]; ok {
			g.must(p == want, im, "package name %s stands for %s in the vocabulary", name, want)
		}
	}
	funcs := map[string]*ast.FuncDecl{}
	for _, d := range file.Decls {
		switch d := d.(type) {
		case *ast.FuncDecl:
			if d.Recv == nil {
				g.must(funcs[d.Name.Name] == nil, d.Name, "function declared twice")
				funcs[d.Name.Name] = d
				g.pkgNames[d.Name.Name] = true
			} else if d.Name.Name == "Handler4" && len(d.Recv.List) == 1 && g.src(d.Recv.List[0].Type) == "*PluginState" {
				g.hasH4 = true
			}
		case *ast.GenDecl:
			for _, sp := range d.Specs {
				switch sp := sp.(type) {
				case *ast.ValueSpec:
					for _, n := range sp.Names {
						g.pkgNames[n.Name] = true
					}
				case *ast.TypeSpec:
					g.pkgNames[sp.Name.Name] = true
				}
			}
		}
	}
	for r := range p18reserved {
		g.must(!g.pkgNames[r] || r == "PluginState" || r == "Record", file.Name, "`%s` is redefined in this file", r)
	}
	g.must(g.pkgNames["PluginState"], file.Name, "type PluginState not found")
	// `log` must be the package's logger
	for _, d := range file.Decls {
		if gd, ok := d.(*ast.GenDecl); ok && gd.Tok == token.VAR {
			for _, sp := range gd.Specs {
				v := sp.(*ast.ValueSpec)
				if len(v.Names) == 1 && v.Names[0].Name == "log" {
					g.must(len(v.Values) == 1, v, "`var log = logger.GetLogger(…)` expected")
					c, ok := v.Values[0].(*ast.CallExpr)
					g.must(ok, v, "`var log = logger.GetLogger(…)` expected")
					p, n, ok := g.pkgSel(c.Fun, s18{})
					g.must(ok && p == "logger" && n == "GetLogger", v, "`var log = logger.GetLogger(…)` expected")
				}
			}
		}
	}

	plugin, fname := g.pluginDecl(file)
	f := funcs[fname]
	g.must(f != nil && f.Body != nil, file.Name, "the function registered as Setup4 (%s) is not in this file", fname)
	shape := "expected `func " + fname + "(args ...string) (handler.Handler4, error)`"
	g.must(f.Type.TypeParams == nil && f.Type.Params != nil && len(f.Type.Params.List) == 1 && len(f.Type.Params.List[0].Names) == 1 &&
		g.src(f.Type.Params.List[0].Type) == "...string", f.Type, shape)
	g.must(f.Type.Results != nil && len(f.Type.Results.List) == 2 && len(f.Type.Results.List[0].Names) == 0 && len(f.Type.Results.List[1].Names) == 0 &&
		g.src(f.Type.Results.List[0].Type) == "handler.Handler4" && g.src(f.Type.Results.List[1].Type) == "error" &&
		g.imports["handler"] == p18pkgs["handler"], f.Type, shape)
	st := s18{vars: map[string]v18{}, isSome: map[string]bool{}, fields: map[string]f18{}, pending: -1}
	st = g.declare(f.Type.Params.List[0].Names[0], v18{role: "args"}, st)
	body := g.block(f.Body.List, st, f.Body)

	out := gen18Header
	out += def("the function registered as `Setup4` of plugins/range/plugin.go (`setupRange`), translated from its go/ast",
		"setupRange (args : List String) (w : World) : Out", body)
	out += def("`var Plugin = plugins.Plugin{…}`: the name, the DHCPv6 set-up, the DHCPv4 set-up (`.setupRange` = the function above)",
		"plugin : PluginDecl", plugin)
	out += "end CoreDhcp.GenRangeSetup\n"
	if err := os.WriteFile(outPath, []byte(out), 0o644); err != nil {
		die(err)
	}
	fmt.Printf("gen: wrote %s (%d bytes) from %s\n", outPath, len(out), srcPath)
}
