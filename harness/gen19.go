// gen19.go — `harness gen -unit mainreg`: how the server program wires things together, regenerated as Lean
// definitions (namespace CoreDhcp.GenMainReg, file CoreDhcp/Generated/MainReg.lean) from the go/ast of
//
//	cmds/coredhcp/main.go     the flag declarations, `logLevels`, `desiredPlugins`, `main`
//	plugins/plugin.go         `RegisteredPlugins`, `RegisterPlugin`
//	the package of EVERY element `&pl_x.Plugin` of desiredPlugins: its `var Plugin = plugins.Plugin{…}`
//
// Props/GenMainReg.lean proves the generated definitions equal to the hand-written model (Model/MainReg.lean).
// `-src main.go[,plugin.go]`; the repository root is two directories above the directory of main.go
// (…/cmds/coredhcp/main.go), the module path is read from <root>/go.mod, plugin.go defaults to <root>/plugins/plugin.go,
// an import path <module>/<rest> is the directory <root>/<rest>.
//
// Like the other units the translator goes through the functions statement by statement, knows ONLY what is listed
// below and fails loudly (source position, exit code 2) on everything else.  Packages are identified by their import
// PATH (whatever they are called locally), variables by the role of the expression that defines them; Go names of
// locals never reach the generated text.
//
// GENERATED DEFINITIONS (in this order)
//
//	flagDecls : List FlagDecl         every `v = pflag.StringP/BoolP(long, short, default, usage)` at package level, in order
//	logLevelNames : List String       the keys of the map literal `logLevels`, in order
//	desired : List PluginDecl         per element `&pl_x.Plugin` of desiredPlugins: import path of pl_x, Name, has Setup4, has Setup6
//	registry0 : Reg                   `var RegisteredPlugins = make(map[string]*Plugin)` ↦ []
//	register plugin reg : Out         `RegisterPlugin`
//	printBody/printLoop               the loop over desiredPlugins that registers nothing (the --plugins branch)
//	regBody/regLoop                   the loop over desiredPlugins that calls RegisterPlugin
//	main f w : Trace                  `main`
//
// VOCABULARY — RegisterPlugin(p *Plugin) error
//
//	Go                                                   Lean
//	---------------------------------------------------  ---------------------------------------------------------
//	if p == nil { …; return <error> }                    match plugin with | none => … | some pl => …
//	if _, ok := RegisteredPlugins[p.Name]; ok { … }      match Reg.get reg pl.name with | some _ => … | none => …   (the body must end)
//	RegisteredPlugins[p.Name] = p                        let regN := Reg.set reg pl.name pl
//	return errors.New("…") · fmt.Errorf("…")             .error
//	return nil                                           .ok <the registry now>
//	log.Panic / Panicf / Panicln (…)                     .panic   (log: the package's logrus entry `logger.GetLogger(…)`; it panics)
//	log.Print… / Info… / Warn… / Debug… / Error… (…)     nothing — arguments literals, variables, p.Name
//	p.Name (anywhere)                                    only where `p == nil` was excluded on this path (Go would panic)
//
// VOCABULARY — main()      (f : the flag values after Parse, w : the World, tK : the trace so far)
//
//	pflag.Parse()                                        tK ++ [.parseFlags]; a flag read before it is refused
//	*flagB · !*flagB (in an `if`)                        f.<long> = true · f.<long> = false      flagB declared with BoolP
//	*flagS != "" · *flagS == ""                          f.<long> ≠ "" · f.<long> = ""           flagS declared with StringP
//	                                                     <long> ∈ logfile nostdout loglevel conf plugins (the fields of Flags)
//	if c { … ends the process }                          if c then … else <what follows>
//	if c { … goes on }                                   let tN := if c then … else tK      (the body may only add steps)
//	for _, x := range desiredPlugins { B }               printLoop / regLoop (B with a RegisterPlugin call); x ↦ p
//	fmt.Println(x.Name)                                  ++ [.print p.name]
//	os.Exit(N)                                           ++ [.exit N]          ends the process
//	l := logger.GetLogger("n")                           ++ [.getLogger "n"]   l is THE logger
//	fn, ok := logLevels[*flagS]                          nothing yet; ok ↦ logLevelNames.contains f.<long>
//	if !ok { … ends the process }                        match logLevelNames.contains f.<long> with | false => … | true => …
//	fn(l.Logger)                                         ++ [.setLevel f.<long>]   only where ok is known to hold (fn is nil otherwise)
//	logger.WithFile(l, *flagS)                           ++ [.withFile f.<long>]
//	logger.WithNoStdOutErr(l)                            ++ [.withNoStdout]
//	c, err := config.Load(*flagS)                        ++ [.load f.<long>]; the answer is w.load f.<long>
//	if err != nil { … ends the process }  (err of Load)  match w.load f.<long> with | none => … | some cN => …
//	err := plugins.RegisterPlugin(x)  (x the loop var)   match register (some p) reg with | .panic => .stop (t ++ [.panic])
//	  with `err != nil { … ends the process }`             | .error => … | .ok regN => t ++ [.registered p.name] …
//	s, err := server.Start(c)                            ++ [.start cN]; only where the error of Load was excluded; the answer is w.start cN
//	if err != nil { … ends the process }  (err of Start) match w.start cN with | false => … | true => …
//	if err := s.Wait(); err != nil { logs }              ++ [.wait]; only where the error of Start was excluded
//	l.Fatal / Fatalf / Fatalln (…)                       ++ [.fatal <cause>]   ends the process; the cause is the failed test it is
//	                                                     under: .logLevel · .load · .register p.name · .start
//	l.Info… / Warn… / Error… / Debug… / Print… (…)       nothing — arguments literals, variables, *flag, x.Name, calls of a
//	                                                     package-level function that is checked to be pure
//	the end of main                                      ++ [.ret]
//
// ALSO CHECKED: an error that is overwritten or never tested is refused; no statement after one that ends the process;
// the plugin packages, the other files of package main and of package plugins do not mention RegisterPlugin /
// RegisteredPlugins (nobody else registers), nothing outside `main` assigns to desiredPlugins, logLevels or a flag
// variable, package main has no `init`, every imported plugin package is listed in desiredPlugins, no `Plugin`
// variable is assigned to anywhere in its package.
package main

import (
	"fmt"
	"go/ast"
	"go/parser"
	"go/token"
	"os"
	"path/filepath"
	"sort"
	"strconv"
	"strings"
)

const mainregSrc = "/repo/cmds/coredhcp/main.go"

var m19flagFields = map[string]string{"logfile": "str", "nostdout": "bool", "loglevel": "str", "conf": "str", "plugins": "bool"}

var m19plainLog = set("Print", "Printf", "Println", "Info", "Infof", "Infoln", "Warning", "Warningf", "Warningln", "Warn", "Warnf",
	"Warnln", "Error", "Errorf", "Errorln", "Debug", "Debugf", "Debugln", "Trace", "Tracef")
var m19fatalLog = set("Fatal", "Fatalf", "Fatalln")
var m19panicLog = set("Panic", "Panicf", "Panicln")

type flag19 struct {
	long, short, kind, dflt string
}

type v19 struct {
	role string // logger | levelFn | levelOk | cfg | err | srv | elem
	lean string // levelFn, levelOk: the key; cfg: its Lean name; elem: "p"
	call int    // err, cfg, srv, levelOk, levelFn: index of the call it came from (-1: none)
}

type c19 struct {
	kind  string // level | load | register | start | wait
	arg   string // Lean text of the argument
	known int    // 0 = not tested on this path, 1 = succeeded, 2 = failed
	pos   token.Pos
}

type s19 struct {
	vars   map[string]v19
	calls  []c19
	t      string // the trace so far
	reg    string // reg loop: the registry now
	parsed bool
	cause  string // the failed test this path is under ("" = none)
}

func (st s19) with(name string, v v19) s19 {
	n := map[string]v19{name: v}
	for k, x := range st.vars {
		if k != name {
			n[k] = x
		}
	}
	st.vars = n
	return st
}

func (st s19) without(name string, old v19, had bool) s19 {
	n := map[string]v19{}
	for k, x := range st.vars {
		if k != name {
			n[k] = x
		}
	}
	if had {
		n[name] = old
	}
	st.vars = n
	return st
}

func (st s19) withCall(c c19) (s19, int) {
	st.calls = append(append([]c19{}, st.calls...), c)
	return st, len(st.calls) - 1
}

func (st s19) know(i, k int) s19 {
	cs := append([]c19{}, st.calls...)
	cs[i].known = k
	st.calls = cs
	return st
}

type g19 struct {
	*gen
	root, module string
	file         *ast.File         // main.go
	imports      map[string]string // main.go: local name ↦ import path
	pkgLevel     map[string]bool   // main.go: package-level names
	funcs        map[string]*ast.FuncDecl
	flags        map[string]flag19 // variable ↦ flag
	flagOrder    []string
	levels       []string
	count        map[string]int
	loopDefs     map[string]string // print | reg ↦ text
	loopKind     string            // "" | print | reg
	terms        int               // statements that end the process, emitted so far
	pure         map[string]bool
}

func (g *g19) fresh(p string) string {
	g.count[p]++
	return p + strconv.Itoa(g.count[p])
}

func (g *g19) unparen(x ast.Expr) ast.Expr {
	for {
		p, ok := x.(*ast.ParenExpr)
		if !ok {
			return x
		}
		x = p.X
	}
}

func (g *g19) strLit(x ast.Expr) (string, bool) {
	l, ok := g.unparen(x).(*ast.BasicLit)
	if !ok || l.Kind != token.STRING {
		return "", false
	}
	s, err := strconv.Unquote(l.Value)
	return s, err == nil
}

func (g *g19) leanStr(at ast.Node, s string) string {
	for _, r := range s {
		g.must(r >= 0x20 && r < 0x7f && r != '"' && r != '\\', at, "string with a character outside plain ASCII (or a quote / backslash): not translated")
	}
	return `"` + s + `"`
}

// importsOf: local name ↦ import path of one file.
func (g *g19) importsOf(f *ast.File) map[string]string {
	m := map[string]string{}
	for _, im := range f.Imports {
		path, _ := strconv.Unquote(im.Path.Value)
		name := filepath.Base(path)
		if im.Name != nil {
			name = im.Name.Name
		}
		g.must(name != "." && name != "_", im, "dot / blank import unsupported (a blank import runs the package's init, which might register)")
		m[name] = path
	}
	return m
}

// pkgCall: x is `pkg.Name` with pkg an import of main.go that no local shadows ↦ (import path, Name).
func (g *g19) pkgSel(x ast.Expr, st s19) (path, name string, ok bool) {
	s, ok := g.unparen(x).(*ast.SelectorExpr)
	if !ok {
		return "", "", false
	}
	id, ok := s.X.(*ast.Ident)
	if !ok {
		return "", "", false
	}
	if _, local := st.vars[id.Name]; local {
		return "", "", false
	}
	p, ok := g.imports[id.Name]
	if !ok || g.pkgLevel[id.Name] {
		return "", "", false
	}
	return p, s.Sel.Name, true
}

func (g *g19) variable(x ast.Expr, st s19, role string) (v19, bool) {
	id, ok := g.unparen(x).(*ast.Ident)
	if !ok {
		return v19{}, false
	}
	v, ok := st.vars[id.Name]
	return v, ok && v.role == role
}

func (g *g19) declare(id *ast.Ident, v v19, st s19) s19 {
	g.must(id.Name != "_", id, "blank identifier unsupported here")
	if old, ok := st.vars[id.Name]; ok {
		g.must(old.role == "err" && v.role == "err", id, "a variable in scope is shadowed or redeclared (only an error variable may be, by another error variable)")
	}
	g.must(!g.pkgLevel[id.Name] || g.imports[id.Name] != "", id, "variable name clashes with a package-level name")
	g.must(!stBuiltins[id.Name], id, "variable name clashes with a builtin")
	return st.with(id.Name, v)
}

// flagRead: `*flagX` ↦ (Lean expression f.<long>, kind).
func (g *g19) flagRead(x ast.Expr, st s19) (string, string, bool) {
	s, ok := g.unparen(x).(*ast.StarExpr)
	if !ok {
		return "", "", false
	}
	id, ok := g.unparen(s.X).(*ast.Ident)
	if !ok {
		return "", "", false
	}
	if _, local := st.vars[id.Name]; local {
		return "", "", false
	}
	fl, ok := g.flags[id.Name]
	if !ok {
		return "", "", false
	}
	g.must(st.parsed, x, "a flag is read before pflag.Parse() was called (it would have its default value)")
	g.must(m19flagFields[fl.long] == fl.kind, x, "flag --%s is not one the model knows with this type (logfile, loglevel, conf: strings; nostdout, plugins: booleans)", fl.long)
	return "f." + fl.long, fl.kind, true
}

// ------------------------------------------------------------------ log statements

// pureFunc: a package-level function of main.go without parameters whose body cannot have an effect: only
// declarations of locals, `for … range` over a package-level variable, assignments to locals, append/len, return.
func (g *g19) pureFunc(name string, at ast.Node) {
	if g.pure[name] {
		return
	}
	f := g.funcs[name]
	g.must(f != nil && f.Recv == nil && f.Type.Params.NumFields() == 0, at, "call in the arguments of a log statement: not a package-level function without parameters")
	locals := map[string]bool{}
	var walk func(list []ast.Stmt)
	pureExpr := func(x ast.Expr) {
		ast.Inspect(x, func(n ast.Node) bool {
			switch n := n.(type) {
			case *ast.CallExpr:
				id, ok := n.Fun.(*ast.Ident)
				g.must(ok && (id.Name == "append" || id.Name == "len") && !locals[id.Name], n, "in a function called from a log statement: call other than append / len")
			case *ast.FuncLit, *ast.UnaryExpr:
				if u, ok := n.(*ast.UnaryExpr); ok && u.Op != token.ARROW {
					return true
				}
				g.fail(n, "in a function called from a log statement: unsupported expression")
			}
			return true
		})
	}
	walk = func(list []ast.Stmt) {
		for _, s := range list {
			switch s := s.(type) {
			case *ast.DeclStmt:
				d := s.Decl.(*ast.GenDecl)
				g.must(d.Tok == token.VAR, s, "in a function called from a log statement: unsupported declaration")
				for _, sp := range d.Specs {
					vs := sp.(*ast.ValueSpec)
					for _, v := range vs.Values {
						pureExpr(v)
					}
					for _, n := range vs.Names {
						locals[n.Name] = true
					}
				}
			case *ast.RangeStmt:
				g.must(s.Tok == token.DEFINE || s.Key == nil, s, "in a function called from a log statement: range assigning to existing variables")
				pureExpr(s.X)
				for _, k := range []ast.Expr{s.Key, s.Value} {
					if id, ok := k.(*ast.Ident); ok {
						locals[id.Name] = true
					}
				}
				walk(s.Body.List)
			case *ast.AssignStmt:
				for _, l := range s.Lhs {
					id, ok := l.(*ast.Ident)
					g.must(ok && (locals[id.Name] || s.Tok == token.DEFINE), l, "in a function called from a log statement: assignment to something that is not a local")
					if s.Tok == token.DEFINE {
						locals[id.Name] = true
					}
				}
				for _, r := range s.Rhs {
					pureExpr(r)
				}
			case *ast.ReturnStmt:
				for _, r := range s.Results {
					pureExpr(r)
				}
			default:
				g.fail(s, "in a function called from a log statement: unsupported statement")
			}
		}
	}
	walk(f.Body.List)
	g.pure[name] = true
}

// logArgs: the arguments of a log statement are free of side effects.
func (g *g19) logArgs(c *ast.CallExpr, st s19) {
	g.must(!c.Ellipsis.IsValid(), c, "log call with a spread argument")
	for _, a := range c.Args {
		a = g.unparen(a)
		switch a := a.(type) {
		case *ast.BasicLit:
			continue
		case *ast.Ident:
			_, ok := st.vars[a.Name]
			g.must(ok || a.Name == "nil" || a.Name == "true" || a.Name == "false", a, "in the arguments of a log statement: not a literal or a local variable")
			continue
		case *ast.StarExpr:
			if _, _, ok := g.flagRead(a, st); ok {
				continue
			}
		case *ast.SelectorExpr:
			if _, ok := g.variable(a.X, st, "elem"); ok && a.Sel.Name == "Name" {
				continue
			}
		case *ast.CallExpr:
			if id, ok := a.Fun.(*ast.Ident); ok && len(a.Args) == 0 {
				_, local := st.vars[id.Name]
				g.must(!local, a, "in the arguments of a log statement: call of a local")
				g.pureFunc(id.Name, a)
				continue
			}
		}
		g.fail(a, "in the arguments of a log statement: not known to be free of side effects")
	}
}

// ------------------------------------------------------------------ main: statements

func (g *g19) step(st s19, what string, out *[]string) s19 {
	n := g.fresh("t")
	*out = append(*out, "let "+n+" := "+st.t+" ++ ["+what+"]")
	st.t = n
	return st
}

// end: the text of a statement that ends the process.
func (g *g19) end(st s19, what string) string {
	g.terms++
	s := st.t + " ++ [" + what + "]"
	if g.loopKind == "reg" {
		return ".stop (" + s + ")"
	}
	return s
}

// endsProcess: the last statement of the block is os.Exit / a Fatal log.
func (g *g19) endsProcess(list []ast.Stmt, st s19) bool {
	if len(list) == 0 {
		return false
	}
	e, ok := list[len(list)-1].(*ast.ExprStmt)
	if !ok {
		return false
	}
	c, ok := e.X.(*ast.CallExpr)
	if !ok {
		return false
	}
	if p, n, ok := g.pkgSel(c.Fun, st); ok && p == "os" && n == "Exit" {
		return true
	}
	if sel, ok := c.Fun.(*ast.SelectorExpr); ok {
		if _, isLog := g.variable(sel.X, st, "logger"); isLog && m19fatalLog[sel.Sel.Name] {
			return true
		}
	}
	return false
}

// block translates a statement list; k gives the text of what follows it (not called when the list ends the process).
func (g *g19) block(list []ast.Stmt, st s19, k func(s19) string) string {
	if len(list) == 0 {
		return k(st)
	}
	s, rest := list[0], list[1:]
	cont := func(out []string, st2 s19) string {
		return strings.Join(append(out, g.block(rest, st2, k)), "\n")
	}
	switch s := s.(type) {
	case *ast.ExprStmt:
		c, ok := s.X.(*ast.CallExpr)
		g.must(ok, s, "unsupported statement")
		var out []string
		if p, n, ok := g.pkgSel(c.Fun, st); ok {
			switch {
			case p == "github.com/spf13/pflag" && n == "Parse":
				g.must(len(c.Args) == 0 && !st.parsed, c, "pflag.Parse() takes no arguments and is called once")
				st.parsed = true
				return cont(out, g.step(st, ".parseFlags", &out))
			case p == "os" && n == "Exit":
				g.must(len(c.Args) == 1, c, "os.Exit takes the exit code")
				l, ok := g.unparen(c.Args[0]).(*ast.BasicLit)
				g.must(ok && l.Kind == token.INT, c.Args[0], "the exit code must be an integer literal")
				v, err := strconv.ParseUint(l.Value, 0, 8)
				g.must(err == nil, l, "the exit code must be 0…255")
				g.must(len(rest) == 0, s, "unreachable statement after os.Exit")
				return g.end(st, ".exit "+strconv.FormatUint(v, 10))
			case p == "fmt" && n == "Println":
				g.must(len(c.Args) == 1, c, "only fmt.Println(x.Name) is known")
				sel, ok := g.unparen(c.Args[0]).(*ast.SelectorExpr)
				g.must(ok && sel.Sel.Name == "Name", c.Args[0], "only fmt.Println(x.Name), x the variable of the loop over desiredPlugins, is known")
				v, ok := g.variable(sel.X, st, "elem")
				g.must(ok, sel.X, "only fmt.Println(x.Name), x the variable of the loop over desiredPlugins, is known")
				return cont(out, g.step(st, ".print "+v.lean+".name", &out))
			case p == g.module+"/logger" && n == "WithFile":
				g.must(len(c.Args) == 2, c, "logger.WithFile takes the logger and the file name")
				_, ok := g.variable(c.Args[0], st, "logger")
				g.must(ok, c.Args[0], "the first argument must be the logger made by logger.GetLogger")
				e, kind, ok := g.flagRead(c.Args[1], st)
				g.must(ok && kind == "str", c.Args[1], "the file name must be the value of a string flag")
				return cont(out, g.step(st, ".withFile "+e, &out))
			case p == g.module+"/logger" && n == "WithNoStdOutErr":
				g.must(len(c.Args) == 1, c, "logger.WithNoStdOutErr takes the logger")
				_, ok := g.variable(c.Args[0], st, "logger")
				g.must(ok, c.Args[0], "the argument must be the logger made by logger.GetLogger")
				return cont(out, g.step(st, ".withNoStdout", &out))
			}
			g.fail(c, "unknown call")
		}
		if v, ok := g.variable(c.Fun, st, "levelFn"); ok { // fn(log.Logger)
			g.must(st.calls[v.call].known == 1, c, "the level function is called on a path where the look-up is not known to have found it (it is nil: Go would panic)")
			g.must(len(c.Args) == 1 && !c.Ellipsis.IsValid(), c, "the level function takes the logger")
			sel, ok := g.unparen(c.Args[0]).(*ast.SelectorExpr)
			g.must(ok && sel.Sel.Name == "Logger", c.Args[0], "the argument must be <logger>.Logger")
			_, ok = g.variable(sel.X, st, "logger")
			g.must(ok, sel.X, "the argument must be <logger>.Logger of the logger made by logger.GetLogger")
			return cont(out, g.step(st, ".setLevel "+v.lean, &out))
		}
		if sel, ok := c.Fun.(*ast.SelectorExpr); ok {
			if _, isLog := g.variable(sel.X, st, "logger"); isLog {
				g.logArgs(c, st)
				switch {
				case m19plainLog[sel.Sel.Name]:
					return cont(nil, st)
				case m19fatalLog[sel.Sel.Name]:
					g.must(st.cause != "", s, "a Fatal log that is not under a failed test: the model has no cause for it")
					g.must(len(rest) == 0, s, "unreachable statement after a Fatal log")
					return g.end(st, ".fatal "+st.cause)
				}
				g.fail(sel, "unknown method of the logger")
			}
		}
		g.fail(s, "unknown call")
	case *ast.AssignStmt:
		out, st2 := g.assign(s, st)
		return cont(out, st2)
	case *ast.IfStmt:
		return g.ifStmt(s, st, func(st2 s19) string { return g.block(rest, st2, k) })
	case *ast.RangeStmt:
		out, st2, stopped := g.loop(s, st)
		if stopped != "" { // a reg loop: what follows it is under its `.next` arm
			return strings.Join(append(out, stopped+indent(g.block(rest, st2, k))), "\n")
		}
		return cont(out, st2)
	}
	g.fail(s, "unsupported statement")
	return ""
}

// assign: the declarations and calls of main.
func (g *g19) assign(a *ast.AssignStmt, st s19) ([]string, s19) {
	var out []string
	g.must(a.Tok == token.DEFINE && len(a.Rhs) == 1, a, "unsupported assignment (only `x[, y] := <call or look-up>`)")
	var ids []*ast.Ident
	for _, l := range a.Lhs {
		id, ok := l.(*ast.Ident)
		g.must(ok, l, "assignment target must be a plain variable")
		ids = append(ids, id)
	}
	rhs := g.unparen(a.Rhs[0])
	pending := func() {
		for i, c := range st.calls {
			if c.known == 0 && c.kind != "wait" {
				for _, v := range st.vars {
					if v.role == "err" && v.call == i {
						g.fail(a, "the error of the previous call (%s) is overwritten before it is looked at", c.kind)
					}
				}
			}
		}
	}
	if ix, ok := rhs.(*ast.IndexExpr); ok { // fn, ok := logLevels[*flagS]
		g.must(len(ids) == 2, a, "only `fn, ok := logLevels[*flag]` is known")
		id, isID := g.unparen(ix.X).(*ast.Ident)
		_, local := st.vars["logLevels"]
		g.must(isID && id.Name == "logLevels" && !local && g.levels != nil, ix.X, "only a look-up in the package-level map `logLevels` is known")
		key, kind, ok := g.flagRead(ix.Index, st)
		g.must(ok && kind == "str", ix.Index, "the key must be the value of a string flag")
		var i int
		st, i = st.withCall(c19{kind: "level", arg: key, pos: a.Pos()})
		st = g.declare(ids[0], v19{role: "levelFn", lean: key, call: i}, st)
		st = g.declare(ids[1], v19{role: "levelOk", lean: key, call: i}, st)
		return out, st
	}
	c, ok := rhs.(*ast.CallExpr)
	g.must(ok && !c.Ellipsis.IsValid(), a, "unsupported assignment")
	if p, n, ok := g.pkgSel(c.Fun, st); ok {
		switch {
		case p == g.module+"/logger" && n == "GetLogger":
			g.must(len(ids) == 1 && len(c.Args) == 1, a, "only `l := logger.GetLogger(\"name\")` is known")
			name, ok := g.strLit(c.Args[0])
			g.must(ok, c.Args[0], "the logger's name must be a string literal")
			for _, v := range st.vars {
				g.must(v.role != "logger", a, "a second logger is unsupported")
			}
			st = g.step(st, ".getLogger "+g.leanStr(c.Args[0], name), &out)
			return out, g.declare(ids[0], v19{role: "logger"}, st)
		case p == g.module+"/config" && n == "Load":
			g.must(len(ids) == 2 && len(c.Args) == 1, a, "only `c, err := config.Load(*flag)` is known")
			path, kind, ok := g.flagRead(c.Args[0], st)
			g.must(ok && kind == "str", c.Args[0], "the path given to config.Load must be the value of a string flag")
			for _, cl := range st.calls {
				g.must(cl.kind != "load", a, "a second config.Load is unsupported")
			}
			pending()
			st = g.step(st, ".load "+path, &out)
			var i int
			st, i = st.withCall(c19{kind: "load", arg: path, pos: a.Pos()})
			st = g.declare(ids[0], v19{role: "cfg", call: i}, st)
			return out, g.declare(ids[1], v19{role: "err", call: i}, st)
		case p == g.module+"/server" && n == "Start":
			g.must(len(ids) == 2 && len(c.Args) == 1, a, "only `s, err := server.Start(c)` is known")
			cfg, ok := g.variable(c.Args[0], st, "cfg")
			g.must(ok, c.Args[0], "the argument of server.Start must be the configuration config.Load returned")
			g.must(st.calls[cfg.call].known == 1, c.Args[0], "the configuration is used on a path where the error of config.Load is not known to be nil")
			for _, cl := range st.calls {
				g.must(cl.kind != "start", a, "a second server.Start is unsupported")
			}
			g.must(g.loopKind == "", a, "server.Start inside a loop is unsupported")
			pending()
			st = g.step(st, ".start "+cfg.lean, &out)
			var i int
			st, i = st.withCall(c19{kind: "start", arg: cfg.lean, pos: a.Pos()})
			st = g.declare(ids[0], v19{role: "srv", call: i}, st)
			return out, g.declare(ids[1], v19{role: "err", call: i}, st)
		case p == g.module+"/plugins" && n == "RegisterPlugin":
			g.must(len(ids) == 1 && len(c.Args) == 1, a, "only `err := plugins.RegisterPlugin(x)` is known")
			g.must(g.loopKind == "reg", a, "plugins.RegisterPlugin outside the loop over desiredPlugins is unsupported")
			el, ok := g.variable(c.Args[0], st, "elem")
			g.must(ok, c.Args[0], "the argument of RegisterPlugin must be the variable of the loop over desiredPlugins")
			for _, cl := range st.calls {
				g.must(cl.kind != "register", a, "a second RegisterPlugin in one round of the loop is unsupported")
			}
			pending()
			var i int
			st, i = st.withCall(c19{kind: "register", arg: el.lean, pos: a.Pos()})
			return out, g.declare(ids[0], v19{role: "err", call: i}, st)
		}
		g.fail(c.Fun, "unknown call")
	}
	if sel, ok := c.Fun.(*ast.SelectorExpr); ok { // err := srv.Wait()
		if srv, isSrv := g.variable(sel.X, st, "srv"); isSrv {
			g.must(sel.Sel.Name == "Wait" && len(c.Args) == 0 && len(ids) == 1, a, "only `err := s.Wait()` is known")
			g.must(st.calls[srv.call].known == 1, sel.X, "the server is used on a path where the error of server.Start is not known to be nil")
			pending()
			st = g.step(st, ".wait", &out)
			var i int
			st, i = st.withCall(c19{kind: "wait", pos: a.Pos()})
			return out, g.declare(ids[0], v19{role: "err", call: i}, st)
		}
	}
	g.fail(a, "unknown call")
	return nil, st
}

// cond19: what an `if` tests.
type cond19 struct {
	kind string // flag | call
	lean string // flag: the Lean proposition
	call int    // call: index of the call whose failure is tested
}

func (g *g19) cond(x ast.Expr, st s19) cond19 {
	x = g.unparen(x)
	if e, kind, ok := g.flagRead(x, st); ok {
		g.must(kind == "bool", x, "a string flag is not a condition")
		return cond19{kind: "flag", lean: e + " = true"}
	}
	if u, ok := x.(*ast.UnaryExpr); ok && u.Op == token.NOT {
		if e, kind, ok := g.flagRead(u.X, st); ok {
			g.must(kind == "bool", x, "a string flag is not a condition")
			return cond19{kind: "flag", lean: e + " = false"}
		}
		if v, ok := g.variable(u.X, st, "levelOk"); ok {
			g.must(st.calls[v.call].known == 0, x, "the look-up is tested a second time on this path")
			return cond19{kind: "call", call: v.call}
		}
	}
	if b, ok := x.(*ast.BinaryExpr); ok && (b.Op == token.NEQ || b.Op == token.EQL) {
		if e, kind, ok := g.flagRead(b.X, st); ok {
			s, isLit := g.strLit(b.Y)
			g.must(kind == "str" && isLit, x, "a string flag can only be compared with a string literal")
			op := map[token.Token]string{token.NEQ: " ≠ ", token.EQL: " = "}[b.Op]
			return cond19{kind: "flag", lean: e + op + g.leanStr(b.Y, s)}
		}
		if v, ok := g.variable(b.X, st, "err"); ok && isIdent(g.unparen(b.Y), "nil") && b.Op == token.NEQ {
			g.must(v.call >= 0 && st.calls[v.call].known == 0, x, "this error was already tested on this path")
			return cond19{kind: "call", call: v.call}
		}
	}
	g.fail(x, "unknown condition (only *boolFlag, !*boolFlag, *stringFlag ==/!= \"literal\", !ok of the level look-up, err != nil)")
	return cond19{}
}

func (g *g19) sameState(a, b s19, at ast.Node) {
	g.must(len(a.calls) == len(b.calls) && a.parsed == b.parsed && a.reg == b.reg, at, "a branch that goes on may only add steps (it makes a call whose answer matters, or parses the flags)")
	for i := range a.calls {
		g.must(a.calls[i].known == b.calls[i].known, at, "a branch that goes on may only add steps (it tests an error)")
	}
}

func (g *g19) ifStmt(s *ast.IfStmt, st s19, k func(s19) string) string {
	g.must(s.Else == nil, s, "if with else unsupported")
	var out []string
	inner := st
	var initName string
	var shadowed v19
	var had bool
	if s.Init != nil {
		a, ok := s.Init.(*ast.AssignStmt)
		g.must(ok && len(a.Lhs) == 1, s.Init, "unsupported init statement (only `err := <call>`)")
		id, ok := a.Lhs[0].(*ast.Ident)
		g.must(ok, a.Lhs[0], "unsupported init statement")
		initName = id.Name
		shadowed, had = st.vars[id.Name]
		out, inner = g.assign(a, st)
		g.must(inner.vars[initName].role == "err", s.Init, "unsupported init statement (only `err := <call>`)")
	}
	leave := func(st2 s19) s19 {
		if initName != "" {
			return st2.without(initName, shadowed, had)
		}
		return st2
	}
	c := g.cond(s.Cond, inner)
	ends := g.endsProcess(s.Body.List, inner)
	unreachable := func(s19) string {
		g.fail(s.Body, "internal: a block that ends the process fell through")
		return ""
	}
	join := func(parts ...string) string { return strings.Join(append(out, parts...), "\n") }
	if c.kind == "flag" {
		if ends {
			body := g.block(s.Body.List, inner, unreachable)
			return join("if "+c.lean+" then", indent(body), "else", indent(k(leave(inner))))
		}
		before := g.terms
		var after s19
		body := g.block(s.Body.List, inner, func(st2 s19) string { after = st2; return st2.t })
		g.must(g.terms == before, s.Body, "the process may end inside a block that also goes on: unsupported")
		g.sameState(inner, after, s.Body)
		for name, v := range inner.vars {
			g.must(after.vars[name] == v, s.Body, "a branch that goes on may only add steps")
		}
		n := g.fresh("t")
		text := "let " + n + " :=\n  if " + c.lean + " then\n" + indent(indent(body)) + "\n  else\n    " + inner.t
		inner.t = n
		return join(text, k(leave(inner)))
	}
	// the failure of a call
	call := inner.calls[c.call]
	if call.kind == "wait" { // nothing depends on the answer: the body may only log
		before := g.terms
		body := g.block(s.Body.List, inner.know(c.call, 2), func(st2 s19) string { return st2.t })
		g.must(g.terms == before && body == inner.t, s.Body, "after a failed Wait only log statements are known")
		return join(k(leave(inner.know(c.call, 1))))
	}
	g.must(ends, s.Body, "the body of a test for a failed %s must end the process (os.Exit, a Fatal log)", call.kind)
	failed := inner.know(c.call, 2)
	okSt := inner.know(c.call, 1)
	switch call.kind {
	case "level":
		failed.cause = ".logLevel"
		body := g.block(s.Body.List, failed, unreachable)
		return join("match logLevelNames.contains "+call.arg+" with", "| false => "+body, "| true =>", indent(k(leave(okSt))))
	case "load":
		failed.cause = ".load"
		body := g.block(s.Body.List, failed, unreachable)
		cn := g.fresh("c")
		for name, v := range okSt.vars {
			if v.role == "cfg" && v.call == c.call {
				v.lean = cn
				okSt = okSt.with(name, v)
			}
		}
		return join("match w.load "+call.arg+" with", "| none => "+body, "| some "+cn+" =>", indent(k(leave(okSt))))
	case "start":
		failed.cause = ".start"
		body := g.block(s.Body.List, failed, unreachable)
		return join("match w.start "+call.arg+" with", "| false => "+body, "| true =>", indent(k(leave(okSt))))
	case "register":
		failed.cause = "(.register " + call.arg + ".name)"
		body := g.block(s.Body.List, failed, unreachable)
		rn := g.fresh("reg")
		var o2 []string
		okSt.reg = rn
		okSt = g.step(okSt, ".registered "+call.arg+".name", &o2)
		g.terms++
		return join("match register (some "+call.arg+") "+inner.reg+" with", "| .panic => .stop ("+inner.t+" ++ [.panic])", "| .error => "+body,
			"| .ok "+rn+" =>", indent(strings.Join(append(o2, k(leave(okSt))), "\n")))
	}
	g.fail(s, "internal: unknown call kind")
	return ""
}

// loop: `for _, x := range desiredPlugins { … }`.  Returns the lines before what follows, the state after, and
// for a reg loop the head of the match whose `.next` arm what follows goes under.
func (g *g19) loop(r *ast.RangeStmt, st s19) ([]string, s19, string) {
	g.must(r.Tok == token.DEFINE && r.Value != nil && (r.Key == nil || isIdent(r.Key, "_")), r, "only `for _, x := range desiredPlugins` is known")
	id, ok := g.unparen(r.X).(*ast.Ident)
	_, local := st.vars["desiredPlugins"]
	g.must(ok && id.Name == "desiredPlugins" && !local, r.X, "only a loop over the package-level `desiredPlugins` is known")
	g.must(g.loopKind == "", r, "nested loop unsupported")
	for _, c := range st.calls {
		if c.known == 0 {
			for _, v := range st.vars {
				g.must(!(v.role == "err" && v.call >= 0 && st.calls[v.call].pos == c.pos), r, "a loop begins while the error of %s was not looked at", c.kind)
			}
		}
	}
	x, ok := r.Value.(*ast.Ident)
	g.must(ok, r.Value, "the loop variable must be a plain variable")
	kind := "print"
	ast.Inspect(r.Body, func(n ast.Node) bool {
		if s, ok := n.(*ast.SelectorExpr); ok && s.Sel.Name == "RegisterPlugin" {
			kind = "reg"
		}
		return true
	})
	g.must(g.loopDefs[kind] == "", r, "a second loop of this kind over desiredPlugins is unsupported")
	saved := g.count
	g.count = map[string]int{}
	g.loopKind = kind
	body := st
	body.t, body.reg = "t", ""
	if kind == "reg" {
		body.reg = "reg"
	}
	body = g.declare(x, v19{role: "elem", lean: "p", call: -1}, body)
	before := g.terms
	text := g.block(r.Body.List, body, func(st2 s19) string {
		g.sameStateLoop(body, st2, r.Body)
		if kind == "reg" {
			g.must(st2.reg != "reg", r.Body, "a round of the loop can end without a successful RegisterPlugin")
			return ".next " + st2.reg + " " + st2.t
		}
		return st2.t
	})
	g.loopKind = ""
	g.count = saved
	file := "cmds/coredhcp/main.go"
	if kind == "print" {
		g.must(g.terms == before, r.Body, "a loop that registers nothing may not end the process")
		g.loopDefs[kind] = "/-- One round of the loop over `desiredPlugins` in `main` (" + file + ") that registers nothing, translated from its\ngo/ast: `t` = the trace so far, `p` = the loop variable. -/\n" +
			"def printBody (t : Trace) (p : PluginDecl) : Trace :=\n" + indent(text) + "\n\n" +
			"/-- That loop over a list of plugins. -/\ndef printLoop : Trace → List PluginDecl → Trace\n  | t, [] => t\n  | t, p :: rest => printLoop (printBody t p) rest\n\n"
		n := g.fresh("t")
		st2 := st
		st2.t = n
		return []string{"let " + n + " := printLoop " + st.t + " desired"}, st2, ""
	}
	g.loopDefs[kind] = "/-- One round of the loop over `desiredPlugins` in `main` (" + file + ") that calls `plugins.RegisterPlugin`, translated\nfrom its go/ast: `reg` = the registry, `t` = the trace so far, `p` = the loop variable; `.next` = the loop goes on,\n`.stop` = the process has ended. -/\n" +
		"def regBody (reg : Reg) (t : Trace) (p : PluginDecl) : LoopOut :=\n" + indent(text) + "\n\n" +
		"/-- That loop over a list of plugins: the registry and the trace of one round are those of the next. -/\ndef regLoop : Reg → Trace → List PluginDecl → LoopOut\n  | reg, t, [] => .next reg t\n  | reg, t, p :: rest =>\n    match regBody reg t p with\n    | .stop t' => .stop t'\n    | .next reg' t' => regLoop reg' t' rest\n\n"
	tn, rn := g.fresh("t"), g.fresh("reg")
	st2 := st
	head := "match regLoop registry0 " + st.t + " desired with\n| .stop " + tn + " => " + tn + "\n| .next " + rn + " " + tn + " =>\n"
	st2.t = tn
	return nil, st2, head
}

// sameStateLoop: at the end of a round nothing of the enclosing function has changed.
func (g *g19) sameStateLoop(a, b s19, at ast.Node) {
	g.must(a.parsed == b.parsed, at, "the flags are parsed inside a loop")
	for i, c := range b.calls {
		if i < len(a.calls) {
			g.must(a.calls[i].known == c.known, at, "an error of the enclosing function is tested inside the loop")
		} else {
			g.must(c.known != 0, at, "a round of the loop ends with the error of %s not looked at", c.kind)
		}
	}
}

func (g *g19) mainFunc(f *ast.FuncDecl) string {
	g.must(f.Recv == nil && f.Type.Params.NumFields() == 0 && f.Type.Results.NumFields() == 0 && f.Body != nil, f.Name, "unsupported form of main")
	g.count = map[string]int{}
	st := s19{vars: map[string]v19{}, t: "t0"}
	body := g.block(f.Body.List, st, func(st2 s19) string {
		for _, c := range st2.calls {
			g.must(c.known != 0 || c.kind == "wait", f.Body, "main returns on a path where the error of %s was not looked at", c.kind)
		}
		return st2.t + " ++ [.ret]"
	})
	return "/-- `main` (cmds/coredhcp/main.go), translated from its go/ast: `f` = the values of the flags after `pflag.Parse()`,\n`w` = the answers of `config.Load` and `server.Start`; the result is the list of the observable steps, in order. -/\n" +
		"def main (f : Flags) (w : World) : Trace :=\n  let t0 : Trace := []\n" + indent(body) + "\n\n"
}

// ------------------------------------------------------------------ RegisterPlugin

type r19 struct {
	param  string
	nonNil bool
	reg    string
}

func (g *g19) regFunc(f *ast.FuncDecl, plugImports map[string]string, pkgNames map[string]bool) string {
	g.must(f.Recv == nil && f.Type.TypeParams == nil && f.Body != nil && f.Type.Params.NumFields() == 1 && len(f.Type.Params.List[0].Names) == 1,
		f.Name, "RegisterPlugin must be a plain function of one parameter")
	g.must(g.src(f.Type.Params.List[0].Type) == "*Plugin", f.Type.Params, "the parameter of RegisterPlugin must be a *Plugin")
	g.must(f.Type.Results.NumFields() == 1 && g.src(f.Type.Results.List[0].Type) == "error" && len(f.Type.Results.List[0].Names) == 0, f.Type, "RegisterPlugin must return an unnamed error")
	param := f.Type.Params.List[0].Names[0].Name
	g.must(!pkgNames[param] && plugImports[param] == "" && !stBuiltins[param], f.Type.Params, "the parameter's name clashes with a name that already has a meaning")
	g.count = map[string]int{}
	isParam := func(x ast.Expr) bool { return isIdent(g.unparen(x), param) }
	key := func(x ast.Expr, st r19) bool { // p.Name
		s, ok := g.unparen(x).(*ast.SelectorExpr)
		if !ok || !isParam(s.X) || s.Sel.Name != "Name" {
			return false
		}
		g.must(st.nonNil, x, "the plugin is dereferenced on a path where it is not known to be non-nil (Go would panic)")
		return true
	}
	isRegistry := func(x ast.Expr) bool {
		return isIdent(g.unparen(x), "RegisteredPlugins") && param != "RegisteredPlugins"
	}
	logCall := func(s ast.Stmt, st r19) (level string, ok bool) {
		e, ok := s.(*ast.ExprStmt)
		if !ok {
			return "", false
		}
		c, ok := e.X.(*ast.CallExpr)
		if !ok {
			return "", false
		}
		sel, ok := c.Fun.(*ast.SelectorExpr)
		if !ok || !isIdent(sel.X, "log") {
			return "", false
		}
		g.must(param != "log" && pkgNames["log"] && plugImports["log"] == "", s, "`log` is not the package-level logger here")
		g.must(!c.Ellipsis.IsValid(), s, "log call with a spread argument")
		for _, a := range c.Args {
			a = g.unparen(a)
			if _, isLit := a.(*ast.BasicLit); isLit || key(a, st) {
				continue
			}
			g.must(isParam(a), a, "in the arguments of a log statement: not a literal, the parameter, or its Name")
		}
		return sel.Sel.Name, true
	}
	var block func(list []ast.Stmt, st r19) string
	block = func(list []ast.Stmt, st r19) string {
		g.must(len(list) > 0, f.Body, "control reaches the end of a block without return or panic")
		s, rest := list[0], list[1:]
		if level, ok := logCall(s, st); ok {
			switch {
			case m19plainLog[level]:
				return block(rest, st)
			case m19panicLog[level]:
				g.must(len(rest) == 0, s, "unreachable statement after a panic")
				return ".panic"
			}
			g.fail(s, "log.%s is not a plain log statement or a panic", level)
		}
		switch s := s.(type) {
		case *ast.ReturnStmt:
			g.must(len(s.Results) == 1 && len(rest) == 0, s, "return must have one result and be the last statement of its block")
			r := g.unparen(s.Results[0])
			if isIdent(r, "nil") {
				return ".ok " + st.reg
			}
			c, ok := r.(*ast.CallExpr)
			g.must(ok && (g.src(c.Fun) == "errors.New" && plugImports["errors"] == "errors" || g.src(c.Fun) == "fmt.Errorf" && plugImports["fmt"] == "fmt") && len(c.Args) == 1,
				s, "the returned value must be nil or errors.New / fmt.Errorf of a literal")
			_, ok = g.strLit(c.Args[0])
			g.must(ok, c.Args[0], "the error text must be a string literal")
			return ".error"
		case *ast.AssignStmt: // RegisteredPlugins[p.Name] = p
			g.must(s.Tok == token.ASSIGN && len(s.Lhs) == 1 && len(s.Rhs) == 1, s, "unsupported assignment")
			ix, ok := s.Lhs[0].(*ast.IndexExpr)
			g.must(ok && isRegistry(ix.X), s, "only `RegisteredPlugins[p.Name] = p` is known")
			g.must(key(ix.Index, st), ix.Index, "the map is keyed by the Name of the plugin that is registered")
			g.must(isParam(s.Rhs[0]), s.Rhs[0], "the value stored must be the plugin that is registered")
			n := g.fresh("reg")
			line := "let " + n + " := Reg.set " + st.reg + " pl.name pl"
			st.reg = n
			return line + "\n" + block(rest, st)
		case *ast.IfStmt:
			g.must(s.Else == nil, s, "if with else unsupported")
			if s.Init == nil { // if p == nil { … }
				b, ok := g.unparen(s.Cond).(*ast.BinaryExpr)
				g.must(ok && b.Op == token.EQL && isParam(b.X) && isIdent(g.unparen(b.Y), "nil"), s.Cond, "unknown condition (only `p == nil`)")
				g.must(!st.nonNil, s.Cond, "the nil test is made a second time")
				body := block(s.Body.List, st)
				st.nonNil = true
				return "match plugin with\n| none => " + body + "\n| some pl =>\n" + indent(block(rest, st))
			}
			a, ok := s.Init.(*ast.AssignStmt) // if _, ok := RegisteredPlugins[p.Name]; ok { … }
			g.must(ok && a.Tok == token.DEFINE && len(a.Lhs) == 2 && len(a.Rhs) == 1 && isIdent(a.Lhs[0], "_"), s.Init, "only `_, ok := RegisteredPlugins[p.Name]` is known")
			okID, isID := a.Lhs[1].(*ast.Ident)
			g.must(isID && okID.Name != "_" && okID.Name != param, a.Lhs[1], "unsupported init statement")
			ix, ok := g.unparen(a.Rhs[0]).(*ast.IndexExpr)
			g.must(ok && isRegistry(ix.X), a.Rhs[0], "only a look-up in RegisteredPlugins is known")
			g.must(key(ix.Index, st), ix.Index, "the look-up must be by the Name of the plugin that is registered")
			g.must(isIdent(g.unparen(s.Cond), okID.Name), s.Cond, "unknown condition (only the `ok` of the look-up)")
			body := block(s.Body.List, st)
			return "match Reg.get " + st.reg + " pl.name with\n| some _ => " + body + "\n| none =>\n" + indent(block(rest, st))
		}
		g.fail(s, "unsupported statement")
		return ""
	}
	text := block(f.Body.List, r19{param: param, reg: "reg"})
	return "/-- `RegisterPlugin` (plugins/plugin.go), translated from its go/ast: `plugin` = the argument (none = nil), `reg` =\n`RegisteredPlugins` before the call. -/\n" +
		"def register (plugin : Option PluginDecl) (reg : Reg) : Out :=\n" + indent(text) + "\n\n"
}

// ------------------------------------------------------------------ declarations

func goFiles(dir string) []string {
	ents, err := os.ReadDir(dir)
	if err != nil {
		fmt.Fprintln(os.Stderr, "gen:", err)
		os.Exit(2)
	}
	var out []string
	for _, e := range ents {
		if !e.IsDir() && strings.HasSuffix(e.Name(), ".go") && !strings.HasSuffix(e.Name(), "_test.go") {
			out = append(out, filepath.Join(dir, e.Name()))
		}
	}
	sort.Strings(out)
	return out
}

// noMention: the file does not mention any of the names (as an identifier or a selected name).
func (g *g19) noMention(f *ast.File, what string, names ...string) {
	ast.Inspect(f, func(n ast.Node) bool {
		if id, ok := n.(*ast.Ident); ok {
			for _, w := range names {
				g.must(id.Name != w, id, "%s mentions %s: somebody else may register plugins or change the registry", what, w)
			}
		}
		return true
	})
}

// pluginDecl reads `var Plugin = plugins.Plugin{…}` of the package in dir.
func (g *g19) pluginDecl(dir, importPath string, at ast.Node) string {
	files := goFiles(dir)
	g.must(len(files) > 0, at, "no Go files in %s", dir)
	var parsed []*ast.File
	for _, p := range files {
		f, err := parser.ParseFile(g.fset, p, nil, parser.SkipObjectResolution)
		if err != nil {
			fmt.Fprintln(os.Stderr, "gen: parse:", err)
			os.Exit(2)
		}
		parsed = append(parsed, f)
	}
	var spec *ast.ValueSpec
	var specFile *ast.File
	consts := map[string]*ast.ValueSpec{}
	funcs := map[string]bool{}
	for _, f := range parsed {
		g.noMention(f, "the plugin package "+importPath, "RegisterPlugin", "RegisteredPlugins")
		for _, d := range f.Decls {
			switch d := d.(type) {
			case *ast.FuncDecl:
				if d.Recv == nil {
					funcs[d.Name.Name] = true
				}
			case *ast.GenDecl:
				for _, sp := range d.Specs {
					vs, ok := sp.(*ast.ValueSpec)
					if !ok {
						continue
					}
					for _, n := range vs.Names {
						if d.Tok == token.CONST || d.Tok == token.VAR {
							// a package-level variable too: `Plugin` is initialised after the variables its initialiser mentions,
							// so it gets the value of THEIR initialiser, whatever is assigned to them later
							consts[n.Name] = vs
						}
						if n.Name == "Plugin" {
							g.must(d.Tok == token.VAR && spec == nil && len(vs.Names) == 1 && len(vs.Values) == 1, vs, "`Plugin` must be declared once, as `var Plugin = plugins.Plugin{…}`")
							spec, specFile = vs, f
						}
					}
				}
			}
		}
		// nothing assigns to Plugin or one of its fields, or takes its address
		ast.Inspect(f, func(n ast.Node) bool {
			check := func(x ast.Expr, what string) {
				x = g.unparen(x)
				if s, ok := x.(*ast.SelectorExpr); ok {
					x = g.unparen(s.X)
				}
				g.must(!isIdent(x, "Plugin"), x, "%s: the declaration is not the whole story", what)
			}
			switch n := n.(type) {
			case *ast.AssignStmt:
				for _, l := range n.Lhs {
					check(l, "`Plugin` is assigned to")
				}
			case *ast.IncDecStmt:
				check(n.X, "`Plugin` is assigned to")
			case *ast.UnaryExpr:
				if n.Op == token.AND {
					check(n.X, "the address of `Plugin` is taken")
				}
			}
			return true
		})
	}
	g.must(spec != nil, at, "package %s (%s) does not declare `var Plugin`", importPath, dir)
	cl, ok := g.unparen(spec.Values[0]).(*ast.CompositeLit)
	g.must(ok && cl.Type != nil, spec.Values[0], "`Plugin` must be a composite literal `plugins.Plugin{…}`")
	ts, ok := cl.Type.(*ast.SelectorExpr)
	g.must(ok && ts.Sel.Name == "Plugin", cl.Type, "`Plugin` must be of type plugins.Plugin")
	pid, ok := ts.X.(*ast.Ident)
	g.must(ok && g.importsOf(specFile)[pid.Name] == g.module+"/plugins", cl.Type, "`Plugin` must be of type plugins.Plugin (package %s/plugins)", g.module)
	g.must(spec.Type == nil || g.src(spec.Type) == g.src(cl.Type), spec, "`Plugin` must be of type plugins.Plugin")
	name, has := "", map[string]bool{}
	seen := map[string]bool{}
	for _, e := range cl.Elts {
		kv, ok := e.(*ast.KeyValueExpr)
		g.must(ok, e, "the fields of `Plugin` must be given by name")
		k, ok := kv.Key.(*ast.Ident)
		g.must(ok && !seen[k.Name], kv.Key, "unknown or repeated field")
		seen[k.Name] = true
		v := g.unparen(kv.Value)
		switch k.Name {
		case "Name":
			if s, ok := g.strLit(v); ok {
				name = g.leanStr(v, s)
				break
			}
			id, ok := v.(*ast.Ident)
			g.must(ok && consts[id.Name] != nil, v, "Name must be a string literal or a package-level constant / variable initialised with one")
			c := consts[id.Name]
			g.must(len(c.Names) == 1 && len(c.Values) == 1 && (c.Type == nil || isIdent(c.Type, "string")), c, "the name must be declared on its own, with a string literal")
			s, ok := g.strLit(c.Values[0])
			g.must(ok, c.Values[0], "the name must be initialised with a string literal")
			name = g.leanStr(c.Values[0], s)
		case "Setup4", "Setup6":
			if isIdent(v, "nil") {
				break
			}
			id, ok := v.(*ast.Ident)
			g.must(ok && funcs[id.Name], v, "a set-up field must be nil or a package-level function of the package")
			has[k.Name] = true
		default:
			g.fail(kv.Key, "unknown field of plugins.Plugin")
		}
	}
	g.must(seen["Name"], cl, "`Plugin` has no Name")
	return fmt.Sprintf("⟨%s, %s, %v, %v⟩", g.leanStr(at, importPath), name, has["Setup4"], has["Setup6"])
}

const gen19Header = `-- GENERATED by harness gen -unit mainreg from cmds/coredhcp/main.go, plugins/plugin.go (RegisterPlugin) and the
-- ` + "`var Plugin`" + ` declaration of every plugin package main.go lists — do not edit
-- Regenerated from the Go source on every run; Props/GenMainReg.lean proves these definitions
-- equal to the hand-written model in Model/MainReg.lean.
import CoreDhcp.Model.MainReg
set_option linter.unusedVariables false
namespace CoreDhcp.GenMainReg
open MainReg

/-! Fixed vocabulary (not derived from the source; the table is in the header of gen19.go).  ` + "`f`" + ` = the values of the
flags after ` + "`pflag.Parse()`" + `, by long name · ` + "`w.load p`" + ` = what ` + "`config.Load(p)`" + ` answers (none = an error) · ` + "`w.start c`" + ` =
` + "`server.Start(c)`" + ` returns no error · every call whose effect is outside this unit is a step appended to the trace, WITH
its argument · ` + "`log.Fatal…`" + ` ↦ ` + "`.fatal <the failed test it is under>`" + `, the process ends · ` + "`log.Panic…`" + ` ↦ ` + "`.panic`" + ` ·
` + "`RegisteredPlugins`" + ` ↦ an association list ` + "`Reg`" + ` (` + "`m[k]`" + ` with ok ↦ ` + "`Reg.get`" + `, ` + "`m[k] = v`" + ` ↦ ` + "`Reg.set`" + `) · a ` + "`*Plugin`" + ` ↦
` + "`Option PluginDecl`" + ` (nil ↦ none); the elements ` + "`&pl_x.Plugin`" + ` of desiredPlugins are non-nil · other log statements ↦
nothing (their arguments are checked to be free of side effects). -/

/-- how one round of the registration loop, or the loop, ends: it goes on with this registry and trace, or the
process has ended with this trace -/
inductive LoopOut
  | next (reg : Reg) (t : Trace)
  | stop (t : Trace)

`

func runGen19(srcArg, outPath string) {
	die := func(a ...interface{}) {
		fmt.Fprintln(os.Stderr, append([]interface{}{"gen:"}, a...)...)
		os.Exit(2)
	}
	if srcArg == "" {
		srcArg = mainregSrc
	}
	p := strings.Split(srcArg, ",")
	if len(p) > 2 {
		die("-src for unit mainreg is main.go[,plugin.go]")
	}
	mainPath, err := filepath.Abs(p[0])
	if err != nil {
		die(err)
	}
	root := filepath.Dir(filepath.Dir(filepath.Dir(mainPath)))
	plugPath := filepath.Join(root, "plugins", "plugin.go")
	if len(p) > 1 {
		plugPath = p[1]
	}
	g := &g19{gen: &gen{fset: token.NewFileSet()}, root: root, pkgLevel: map[string]bool{}, funcs: map[string]*ast.FuncDecl{},
		flags: map[string]flag19{}, count: map[string]int{}, loopDefs: map[string]string{}, pure: map[string]bool{}}
	mod, err := os.ReadFile(filepath.Join(root, "go.mod"))
	if err != nil {
		die("the repository root is taken to be two directories above the directory of main.go:", err)
	}
	for _, line := range strings.Split(string(mod), "\n") {
		if f := strings.Fields(line); len(f) == 2 && f[0] == "module" {
			g.module = strings.Trim(f[1], `"`)
			break
		}
	}
	if g.module == "" {
		die(filepath.Join(root, "go.mod") + ": no module line")
	}
	parse := func(path string) *ast.File {
		f, err := parser.ParseFile(g.fset, path, nil, parser.SkipObjectResolution)
		if err != nil {
			die("parse:", err)
		}
		return f
	}
	file := parse(mainPath)
	g.file = file
	g.must(file.Name.Name == "main", file.Name, "not package main")
	g.imports = g.importsOf(file)

	// ---- the other files of package main: nobody else registers, no init
	for _, other := range goFiles(filepath.Dir(mainPath)) {
		if a, _ := filepath.Abs(other); a == mainPath {
			continue
		}
		of := parse(other)
		g.noMention(of, "another file of package main", "RegisterPlugin", "RegisteredPlugins", "desiredPlugins", "logLevels", "init")
	}

	// ---- package-level declarations of main.go
	var mainFn *ast.FuncDecl
	var desiredSpec, levelSpec *ast.ValueSpec
	for _, d := range file.Decls {
		switch d := d.(type) {
		case *ast.FuncDecl:
			g.must(d.Type.TypeParams == nil, d.Name, "unsupported function form")
			if d.Recv != nil {
				continue
			}
			g.must(d.Name.Name != "init", d.Name, "package main has an init function: it runs before main and is not translated")
			g.must(!g.pkgLevel[d.Name.Name], d.Name, "declared twice")
			g.pkgLevel[d.Name.Name] = true
			g.funcs[d.Name.Name] = d
			if d.Name.Name == "main" {
				mainFn = d
			}
		case *ast.GenDecl:
			for _, sp := range d.Specs {
				switch sp := sp.(type) {
				case *ast.TypeSpec:
					g.pkgLevel[sp.Name.Name] = true
				case *ast.ValueSpec:
					for _, n := range sp.Names {
						g.must(!g.pkgLevel[n.Name], n, "declared twice")
						g.pkgLevel[n.Name] = true
					}
					if d.Tok != token.VAR || len(sp.Names) != 1 || len(sp.Values) != 1 {
						continue
					}
					switch sp.Names[0].Name {
					case "desiredPlugins":
						desiredSpec = sp
						continue
					case "logLevels":
						levelSpec = sp
						continue
					}
					// v = pflag.StringP / BoolP(long, short, default, usage)
					c, ok := g.unparen(sp.Values[0]).(*ast.CallExpr)
					if !ok {
						continue
					}
					path, fn, ok := g.pkgSel(c.Fun, s19{})
					if !ok || path != "github.com/spf13/pflag" {
						continue
					}
					g.must((fn == "StringP" || fn == "BoolP") && len(c.Args) == 4, c, "only pflag.StringP / BoolP(long, short, default, usage) are known")
					long, ok1 := g.strLit(c.Args[0])
					short, ok2 := g.strLit(c.Args[1])
					g.must(ok1 && ok2 && long != "" && len(short) == 1, c, "the names of a flag must be string literals (a one-letter short name)")
					g.leanStr(c.Args[0], long)
					fl := flag19{long: long, short: g.leanStr(c.Args[1], short)}
					dv := g.unparen(c.Args[2])
					if fn == "StringP" {
						s, ok := g.strLit(dv)
						g.must(ok, dv, "the default of a string flag must be a string literal")
						fl.kind, fl.dflt = "str", ".str "+g.leanStr(dv, s)
					} else {
						g.must(isIdent(dv, "true") || isIdent(dv, "false"), dv, "the default of a boolean flag must be true or false")
						fl.kind, fl.dflt = "bool", ".bool "+dv.(*ast.Ident).Name
					}
					for _, o := range g.flags {
						g.must(o.long != fl.long && o.short != fl.short, c, "flag name declared twice")
					}
					g.flags[sp.Names[0].Name] = fl
					g.flagOrder = append(g.flagOrder, sp.Names[0].Name)
				}
			}
		}
	}
	if mainFn == nil || desiredSpec == nil || levelSpec == nil {
		die(mainPath + ": `func main`, `var desiredPlugins` or `var logLevels` not found")
	}

	// ---- nothing outside main assigns to the variables main reads
	watched := map[string]bool{"desiredPlugins": true, "logLevels": true}
	for v := range g.flags {
		watched[v] = true
	}
	for _, d := range file.Decls {
		fd, ok := d.(*ast.FuncDecl)
		if ok && fd == mainFn {
			continue
		}
		ast.Inspect(d, func(n ast.Node) bool {
			rootOf := func(x ast.Expr) ast.Expr {
				for {
					switch y := g.unparen(x).(type) {
					case *ast.IndexExpr:
						x = y.X
					case *ast.StarExpr:
						x = y.X
					case *ast.SelectorExpr:
						x = y.X
					default:
						return g.unparen(x)
					}
				}
			}
			check := func(x ast.Expr) {
				if id, ok := rootOf(x).(*ast.Ident); ok {
					g.must(!watched[id.Name], x, "a variable that main reads is assigned to (or its address taken) outside main")
				}
			}
			switch n := n.(type) {
			case *ast.AssignStmt:
				for _, l := range n.Lhs {
					check(l)
				}
			case *ast.IncDecStmt:
				check(n.X)
			case *ast.UnaryExpr:
				if n.Op == token.AND {
					check(n.X)
				}
			case *ast.CallExpr:
				if isIdent(n.Fun, "delete") && len(n.Args) > 0 {
					check(n.Args[0])
				}
			case *ast.SelectorExpr:
				g.must(n.Sel.Name != "RegisterPlugin" && n.Sel.Name != "RegisteredPlugins", n, "plugins are registered (or the registry is used) outside main")
			}
			return true
		})
	}

	// ---- logLevels
	{
		cl, ok := g.unparen(levelSpec.Values[0]).(*ast.CompositeLit)
		g.must(ok, levelSpec.Values[0], "`logLevels` must be a map literal")
		mt, ok := cl.Type.(*ast.MapType)
		g.must(ok && isIdent(mt.Key, "string"), cl, "`logLevels` must be a map literal with string keys")
		_, isFn := mt.Value.(*ast.FuncType)
		g.must(isFn, mt.Value, "the values of `logLevels` must be functions")
		seen := map[string]bool{}
		g.levels = []string{}
		for _, e := range cl.Elts {
			kv, ok := e.(*ast.KeyValueExpr)
			g.must(ok, e, "unsupported element of `logLevels`")
			k, ok := g.strLit(kv.Key)
			g.must(ok && !seen[k], kv.Key, "the keys of `logLevels` must be distinct string literals")
			seen[k] = true
			_, isLit := g.unparen(kv.Value).(*ast.FuncLit)
			g.must(isLit, kv.Value, "the values of `logLevels` must be function literals (a nil entry would make main panic)")
			g.levels = append(g.levels, g.leanStr(kv.Key, k))
		}
	}

	// ---- desiredPlugins and the plugin packages
	var desired []string
	usedPkgs := map[string]bool{}
	{
		cl, ok := g.unparen(desiredSpec.Values[0]).(*ast.CompositeLit)
		g.must(ok && cl.Type != nil, desiredSpec.Values[0], "`desiredPlugins` must be a slice literal")
		at, ok := cl.Type.(*ast.ArrayType)
		g.must(ok && at.Len == nil, cl.Type, "`desiredPlugins` must be a slice literal")
		st, ok := at.Elt.(*ast.StarExpr)
		g.must(ok, at.Elt, "`desiredPlugins` must be a []*plugins.Plugin")
		pp, pn, ok := g.pkgSel(st.X, s19{})
		g.must(ok && pp == g.module+"/plugins" && pn == "Plugin", at.Elt, "`desiredPlugins` must be a []*plugins.Plugin")
		g.must(desiredSpec.Type == nil || g.src(desiredSpec.Type) == g.src(cl.Type), desiredSpec, "`desiredPlugins` must be a []*plugins.Plugin")
		for _, e := range cl.Elts {
			u, ok := g.unparen(e).(*ast.UnaryExpr)
			g.must(ok && u.Op == token.AND, e, "an element of desiredPlugins must be `&pkg.Plugin`")
			path, name, ok := g.pkgSel(u.X, s19{})
			g.must(ok && name == "Plugin", e, "an element of desiredPlugins must be `&pkg.Plugin`, pkg an imported package")
			g.must(strings.HasPrefix(path, g.module+"/"), e, "the plugin package %s is not part of this repository (module %s): its declaration cannot be read", path, g.module)
			usedPkgs[path] = true
			dir := filepath.Join(root, filepath.FromSlash(strings.TrimPrefix(path, g.module+"/")))
			desired = append(desired, g.pluginDecl(dir, path, e))
		}
	}
	for _, im := range file.Imports {
		path, _ := strconv.Unquote(im.Path.Value)
		if strings.HasPrefix(path, g.module+"/plugins/") {
			g.must(usedPkgs[path], im, "a plugin package is imported but not listed in desiredPlugins")
		}
	}

	// ---- plugins/plugin.go
	plug := parse(plugPath)
	plugImports := g.importsOf(plug)
	plugNames := map[string]bool{}
	var regFn *ast.FuncDecl
	var registry, logSpec *ast.ValueSpec
	var pluginType *ast.TypeSpec
	for _, d := range plug.Decls {
		switch d := d.(type) {
		case *ast.FuncDecl:
			if d.Recv == nil {
				plugNames[d.Name.Name] = true
				if d.Name.Name == "RegisterPlugin" {
					regFn = d
				}
				g.must(d.Name.Name != "init", d.Name, "package plugins has an init function: it may register")
			}
		case *ast.GenDecl:
			for _, sp := range d.Specs {
				switch sp := sp.(type) {
				case *ast.TypeSpec:
					plugNames[sp.Name.Name] = true
					if sp.Name.Name == "Plugin" {
						pluginType = sp
					}
				case *ast.ValueSpec:
					for _, n := range sp.Names {
						plugNames[n.Name] = true
						if n.Name == "RegisteredPlugins" {
							g.must(d.Tok == token.VAR && len(sp.Names) == 1 && len(sp.Values) == 1, sp, "`RegisteredPlugins` must be declared on its own, with its initial value")
							registry = sp
						}
						if n.Name == "log" {
							g.must(d.Tok == token.VAR && len(sp.Names) == 1 && len(sp.Values) == 1, sp, "`log` must be declared on its own")
							logSpec = sp
						}
					}
				}
			}
		}
	}
	if regFn == nil || registry == nil || pluginType == nil || logSpec == nil {
		die(plugPath + ": `func RegisterPlugin`, `var RegisteredPlugins`, `var log` or `type Plugin` not found")
	}
	{ // var log = logger.GetLogger("…")
		c, ok := g.unparen(logSpec.Values[0]).(*ast.CallExpr)
		g.must(ok && g.src(c.Fun) == "logger.GetLogger" && plugImports["logger"] == g.module+"/logger", logSpec, "`log` must be `logger.GetLogger(…)`: its Panicf is taken to panic")
	}
	{ // type Plugin struct { Name string; Setup6 SetupFunc6; Setup4 SetupFunc4 }
		st, ok := pluginType.Type.(*ast.StructType)
		g.must(ok, pluginType, "`Plugin` must be a struct")
		fields := map[string]string{}
		for _, f := range st.Fields.List {
			g.must(len(f.Names) > 0, f, "embedded field in `Plugin`")
			for _, n := range f.Names {
				fields[n.Name] = g.src(f.Type)
			}
		}
		g.must(len(fields) == 3 && fields["Name"] == "string" && fields["Setup6"] == "SetupFunc6" && fields["Setup4"] == "SetupFunc4", pluginType,
			"`Plugin` must have exactly the fields Name string, Setup6 SetupFunc6, Setup4 SetupFunc4")
	}
	{ // var RegisteredPlugins = make(map[string]*Plugin)
		c, ok := g.unparen(registry.Values[0]).(*ast.CallExpr)
		g.must(ok && isIdent(c.Fun, "make") && len(c.Args) >= 1 && g.src(c.Args[0]) == "map[string]*Plugin", registry, "`RegisteredPlugins` must start as `make(map[string]*Plugin)`: an empty map")
	}
	// RegisteredPlugins is written by RegisterPlugin only: elsewhere in plugin.go it is only looked up, in the
	// other files of the package it is not mentioned
	for _, d := range plug.Decls {
		if fd, ok := d.(*ast.FuncDecl); ok && fd == regFn {
			continue
		}
		var parents []ast.Node
		ast.Inspect(d, func(n ast.Node) bool {
			if n == nil {
				parents = parents[:len(parents)-1]
				return true
			}
			if id, ok := n.(*ast.Ident); ok && id.Name == "RegisteredPlugins" {
				par := parents[len(parents)-1]
				switch par := par.(type) {
				case *ast.ValueSpec: // its declaration
				case *ast.IndexExpr:
					g.must(par.X == n, id, "RegisteredPlugins used outside RegisterPlugin other than in a look-up")
					gp := parents[len(parents)-2]
					as, ok := gp.(*ast.AssignStmt)
					g.must(ok, id, "RegisteredPlugins used outside RegisterPlugin other than in a look-up `x, ok := RegisteredPlugins[k]`")
					for _, r := range as.Rhs {
						if r == ast.Expr(par) {
							ok = false
						}
					}
					g.must(!ok, id, "RegisteredPlugins is written outside RegisterPlugin")
				default:
					g.fail(id, "RegisteredPlugins used outside RegisterPlugin other than in a look-up")
				}
			}
			if c, ok := n.(*ast.CallExpr); ok && isIdent(c.Fun, "RegisterPlugin") {
				g.fail(c, "RegisterPlugin is called inside package plugins")
			}
			parents = append(parents, n)
			return true
		})
	}
	for _, other := range goFiles(filepath.Dir(plugPath)) {
		a, _ := filepath.Abs(other)
		b, _ := filepath.Abs(plugPath)
		if a == b {
			continue
		}
		g.noMention(parse(other), "another file of package plugins", "RegisterPlugin", "RegisteredPlugins")
	}

	// ---- emit
	out := gen19Header
	out += "/-- the flags declared with `pflag.StringP` / `pflag.BoolP` in cmds/coredhcp/main.go: long name, one-letter name, default -/\ndef flagDecls : List FlagDecl := [\n"
	for i, v := range g.flagOrder {
		fl := g.flags[v]
		sep := ","
		if i == len(g.flagOrder)-1 {
			sep = "]"
		}
		out += "  ⟨" + g.leanStr(file, fl.long) + ", " + fl.short + ", " + fl.dflt + "⟩" + sep + "\n"
	}
	if len(g.flagOrder) == 0 {
		out += "  ]\n"
	}
	out += "\n/-- the keys of the map literal `logLevels` -/\ndef logLevelNames : List String := [" + strings.Join(g.levels, ", ") + "]\n\n"
	out += "/-- `desiredPlugins`: for every element `&pl_x.Plugin` the import path of `pl_x` and, of the `var Plugin = plugins.Plugin{…}`\nin that package, the Name, whether Setup4 is a function, whether Setup6 is a function -/\ndef desired : List PluginDecl := [\n"
	for i, d := range desired {
		sep := ","
		if i == len(desired)-1 {
			sep = "]"
		}
		out += "  " + d + sep + "\n"
	}
	if len(desired) == 0 {
		out += "  ]\n"
	}
	out += "\n/-- `var RegisteredPlugins = make(map[string]*Plugin)`: the registry a process starts with -/\ndef registry0 : Reg := []\n\n"
	out += g.regFunc(regFn, plugImports, plugNames)
	mainText := g.mainFunc(mainFn)
	out += g.loopDefs["print"] + g.loopDefs["reg"] + mainText
	out += "end CoreDhcp.GenMainReg\n"
	if err := os.WriteFile(outPath, []byte(out), 0o644); err != nil {
		die(err)
	}
	fmt.Printf("gen: wrote %s (%d bytes) from %s, %s and %d plugin packages\n", outPath, len(out), mainPath, plugPath, len(desired))
}
