// gen7.go — `harness gen -unit fileplugin`: the static-lease plugin, regenerated as Lean definitions
// (namespace CoreDhcp.GenFile, file CoreDhcp/Generated/FilePlugin.lean) from the go/ast of
//
//	plugins/file/plugin.go   LoadDHCPv4Records  ↦ GenFile.body4, loop4, loadDHCPv4Records
//	                         LoadDHCPv6Records  ↦ GenFile.body6, loop6, loadDHCPv6Records
//	                         handle4, handle6   ↦ GenFile.handle4, handle6
//	                         loadFromFile       ↦ GenFile.loadFromFile
//	                         Handler4, Handler6, and the closures setupFile returns (which table each
//	                         handler is given) ↦ GenFile.handler4/6, served4/6
//
// Props/GenFilePlugin.lean proves the generated definitions equal to the hand-written model
// (Model/File.lean: loadFile, FState.load, FState.query4, FState.query6).  `-src file.go` reads another file
// (negative tests).
//
// Like the other units the translator knows ONLY what these functions use and fails loudly (source
// position, exit code 2) on everything else.
//
// DERIVED FROM THE AST
//   - the statements of the line loop in their order: which test comes first, what each test looks at,
//     whether it `continue`s or returns, with which error; what is stored under which key
//   - the conditions: `!` `&&` `||` `==` `!=` `<` `<=` `>` `>=`, their operands and their order; the
//     number the field count is compared with
//   - what the loaders return next to an error and at the end of the loop (the `[]` case of the generated
//     recursion is the translation of the statements AFTER the loop)
//   - in the handlers: the order of the tests, what each returns (`nil` / `resp`, `true` / `false`), the key
//     of the look-up, what is put into the response, the two lifetimes (numbers read from `N * time.Second`)
//   - in loadFromFile: which loader runs for which protocol, the protocol number in the error, that the error
//     test comes before the assignments, which global is assigned what under which condition
//   - which table Handler4 / Handler6 and the closures of setupFile hand to handle4 / handle6
//
// FIXED VOCABULARY (the meaning of a recognised Go expression in the model)
//
//	Go                                               Lean
//	-----------------------------------------------  -------------------------------------------------
//	data, err := os.ReadFile(filename)               match file with | none => … | some lines => …
//	if err != nil { … }                                 file : Option (List Line); `err` there ↦ .readFile
//	bytes.Split(data, []byte{'\n'})                  lines
//	for _, x := range <that> { body }                loopN lines records, structural recursion; body ↦ bodyN l records : Flow
//	   continue / end of the body ↦ .next records · return a, b ↦ .ret (a, b)
//	string(x), x the range variable                  the line l
//	len(line) == 0                                   l.len0 = true                (FLine.empty)
//	strings.HasPrefix(line, "#")                     l.hash = true                (FLine.comment)
//	tokens := strings.Fields(line); len(tokens)      let n := l.nfields; n        (the n of FLine.fields n …)
//	hw, err := net.ParseMAC(tokens[0])               match l.mac with | none => … | some hw => …
//	if err != nil { … }
//	ip := net.ParseIP(tokens[1])                     let ip := l.ip               (: IPKind)
//	   tokens[i] is accepted only where the tests passed so far imply len(tokens) > i (Go would panic)
//	ip.To4() == nil / != nil                         to4Nil ip = true / false     (ip is not .v4)
//	ip.To16() == nil / != nil                        to16Nil ip = true / false    (ip is .none)
//	make(map[string]net.IP) · a nil map              [] · []   (a nil map reads like an empty one; the only writes
//	                                                 are in the loaders, on the map they made)
//	records[hw.String()] = ip                        let records := records.put hw ip      (FTable.put)
//	v, ok := (*records)[k]; if !ok { … }             match records.get k with | none => … | some ip => …   (FTable.get)
//	x.String(), x a hardware address                 the bytes of x   (the rendering is injective; loader and
//	                                                 handlers use the same one)
//	req.ClientHWAddr  (handle4)                      req.chaddr
//	m, err := req.GetInnerMessage()                  match req.inner with | none => … | some m => …
//	m.Options.OneIANA() == nil / != nil              m.hasIANA = false / true
//	mac, err := dhcpv6.ExtractMAC(req)               match req.mac with | none => … | some mac => …
//	   the argument must be the REQUEST parameter (not the inner message: the relay's options count)
//	resp.YourIPAddr = ip                             the effect .yiaddr ip
//	resp.AddOption(&dhcpv6.OptIANA{IaId: m.Options.OneIANA().IaId, Options: dhcpv6.IdentityOptions{Options:
//	  []dhcpv6.Option{&dhcpv6.OptIAAddress{IPv6Addr: ip, PreferredLifetime: P * time.Second,
//	  ValidLifetime: V * time.Second}}}})            the effect .iana ip P V   (IaId: accepted only after the test
//	                                                 that an IA_NA is there)
//	return resp, b / return nil, b                   (some <effect so far>, b) / (none, b)
//	fmt.Errorf("<text>", …)                          a constructor of the generated type LoadErr (table f7errs);
//	                                                 the arguments are only shown and must be free of side effects;
//	                                                 `%w` of loadFromFile ↦ the cause
//	recLock.RLock(); defer recLock.RUnlock()         nothing — but checked: the two statements together, at the top
//	                                                 level of handle4 / handle6, once, and BEFORE the look-up
//	recLock.Lock(); defer recLock.Unlock()           nothing — but checked: in loadFromFile the loaders are called
//	                                                 BEFORE it, DHCPv4Records / DHCPv6Records / StaticRecords are
//	                                                 assigned AFTER it; recLock is mentioned nowhere else
//	DHCPv4Records, DHCPv6Records, StaticRecords      fields t4, t6, static of the state s
//	log.<Level>(…)                                   nothing — only as a statement, only on the package's
//	   `log = logger.GetLogger(…)`, and only if every argument is free of side effects
//
// Go names never reach the generated text: renaming a variable, reformatting, or moving a log statement
// regenerates the same file.
package main

import (
	"fmt"
	"go/ast"
	"go/parser"
	"go/token"
	"os"
	"path/filepath"
	"strconv"
	"strings"
)

const filePluginSrc = "/repo/plugins/file/plugin.go"

// packages the vocabulary mentions, and the import path each must have
var f7pkgs = map[string]string{
	"bytes": "bytes", "fmt": "fmt", "net": "net", "os": "os", "strings": "strings", "sync": "sync", "time": "time",
	"logger": "github.com/coredhcp/coredhcp/logger",
	"dhcpv4": "github.com/insomniacslk/dhcp/dhcpv4",
	"dhcpv6": "github.com/insomniacslk/dhcp/dhcpv6",
}

// the error texts of the file ↦ constructors of the generated type LoadErr
var f7errs = []struct{ text, ctor, sig string }{
	{"malformed line, want 2 fields, got %d: %s", "fieldCount", ""},
	{"malformed hardware address: %s", "badMAC", ""},
	{"expected an IPv4 address, got: %v", "notIPv4", ""},
	{"expected an IPv6 address, got: %v", "notIPv6", ""},
	{"failed to load DHCPv%d records: %w", "wrapped", " (protver : Nat) (cause : LoadErr)"},
}

// the package-level tables ↦ fields of the generated State
var f7tables = map[string]string{"DHCPv4Records": "t4", "DHCPv6Records": "t6", "StaticRecords": "static"}

var f7logLevels = set("Print", "Printf", "Info", "Infof", "Warning", "Warningf", "Warn", "Warnf", "Error", "Errorf", "Debug", "Debugf")

var f7builtins = set("nil", "true", "false", "len", "make", "string", "byte", "copy", "append", "new", "panic", "error", "bool", "int")

type f7local struct{ role, lean string }

// f7st: the symbolic state along one path
type f7st struct {
	vars    map[string]f7local
	rlocked bool   // handlers: recLock.RLock() is held
	locked  bool   // loadFromFile: recLock.Lock() is held
	lb      int    // line loop: len(tokens) >= lb is known
	iana    bool   // handle6: m.Options.OneIANA() != nil is known
	eff     string // handlers: what has been done to the response ("" = nothing)
}

func (st f7st) with(name string, l f7local) f7st {
	n := map[string]f7local{name: l}
	for k, v := range st.vars {
		if k != name {
			n[k] = v
		}
	}
	st.vars = n
	return st
}

type f7 struct {
	*gen
	imports  map[string]string
	pkgVars  map[string]*ast.ValueSpec
	funcs    map[string]*ast.FuncDecl
	kind     string // loader | body | handle4 | handle6 | lff
	suffix   string // loader: "4" / "6"
	used     map[string]int
	errsSeen map[string]bool
	loopDefs string
	loaders  map[string]string // Go name of a translated loader ↦ Lean name
}

// ------------------------------------------------------------------ helpers

func (u *f7) unparen(x ast.Expr) ast.Expr {
	for {
		p, ok := x.(*ast.ParenExpr)
		if !ok {
			return x
		}
		x = p.X
	}
}

func (u *f7) shadowed(name string, st f7st) bool {
	_, l := st.vars[name]
	return l || u.pkgVars[name] != nil || u.funcs[name] != nil
}

// pkgSel: x is `pkg.Name`, pkg an imported package of the vocabulary that nothing shadows.
func (u *f7) pkgSel(x ast.Expr, pkg string, st f7st) (string, bool) {
	s, ok := u.unparen(x).(*ast.SelectorExpr)
	if !ok {
		return "", false
	}
	id, ok := s.X.(*ast.Ident)
	if !ok || id.Name != pkg || u.shadowed(pkg, st) {
		return "", false
	}
	if u.imports[pkg] != f7pkgs[pkg] {
		u.fail(x, "`%s` is not the package %s here", pkg, f7pkgs[pkg])
	}
	return s.Sel.Name, true
}

// builtin: x is the builtin `name`, not redefined.
func (u *f7) builtin(x ast.Expr, name string, st f7st) bool {
	id, ok := u.unparen(x).(*ast.Ident)
	return ok && id.Name == name && !u.shadowed(name, st) && u.imports[name] == ""
}

func (u *f7) local(x ast.Expr, st f7st, role string) (f7local, bool) {
	id, ok := u.unparen(x).(*ast.Ident)
	if !ok {
		return f7local{}, false
	}
	l, ok := st.vars[id.Name]
	return l, ok && l.role == role
}

// method: x is the call `recv.Name(args)`.
func (u *f7) method(x ast.Expr) (recv ast.Expr, name string, call *ast.CallExpr, ok bool) {
	c, ok := u.unparen(x).(*ast.CallExpr)
	if !ok {
		return nil, "", nil, false
	}
	s, ok := c.Fun.(*ast.SelectorExpr)
	if !ok {
		return nil, "", nil, false
	}
	return s.X, s.Sel.Name, c, true
}

// pkgCall: x is the call `pkg.Name(args)` without `...`.
func (u *f7) pkgCall(x ast.Expr, pkg, name string, nargs int, st f7st) (*ast.CallExpr, bool) {
	c, ok := u.unparen(x).(*ast.CallExpr)
	if !ok {
		return nil, false
	}
	n, ok := u.pkgSel(c.Fun, pkg, st)
	if !ok || n != name {
		return nil, false
	}
	u.must(len(c.Args) == nargs && !c.Ellipsis.IsValid(), c, "%s.%s takes %d argument(s)", pkg, name, nargs)
	return c, true
}

func (u *f7) isNil(x ast.Expr, st f7st) bool { return u.builtin(x, "nil", st) }

func (u *f7) boolLit(x ast.Expr, st f7st) (string, bool) {
	for _, b := range []string{"true", "false"} {
		if u.builtin(x, b, st) {
			return b, true
		}
	}
	return "", false
}

func (u *f7) intLit(x ast.Expr) (int, bool) {
	l, ok := u.unparen(x).(*ast.BasicLit)
	if !ok || l.Kind != token.INT {
		return 0, false
	}
	v, err := strconv.ParseUint(l.Value, 0, 31)
	return int(v), err == nil
}

func (u *f7) strLit(x ast.Expr) (string, bool) {
	l, ok := u.unparen(x).(*ast.BasicLit)
	if !ok || l.Kind != token.STRING {
		return "", false
	}
	s, err := strconv.Unquote(l.Value)
	return s, err == nil
}

func (u *f7) freshName(id *ast.Ident, st f7st) {
	u.must(id.Name != "_", id, "blank identifier unsupported here")
	_, isPkg := u.imports[id.Name]
	u.must(!isPkg && !u.shadowed(id.Name, st) && !f7builtins[id.Name], id,
		"variable name clashes with a name that already has a meaning (package, package-level name, local, builtin)")
}

// binder: a Lean name for a new bound variable; a second one of the same kind gets a number.
func (u *f7) binder(base string) string {
	u.used[base]++
	if u.used[base] == 1 {
		return base
	}
	return base + strconv.Itoa(u.used[base])
}

// tableLean: the Lean name of the map the loader is filling.
func (u *f7) tableLean(at ast.Node, st f7st) string {
	for _, l := range st.vars {
		if l.role == "table" {
			return l.lean
		}
	}
	u.fail(at, "no map has been made yet (`records := make(map[string]net.IP)`)")
	return ""
}

// ---------------------------------------------------------------- token access

// token: x is `tokens[i]`; the tests passed so far must imply len(tokens) > i.
func (u *f7) token(x ast.Expr, st f7st) (int, bool) {
	ix, ok := u.unparen(x).(*ast.IndexExpr)
	if !ok {
		return 0, false
	}
	if _, ok := u.local(ix.X, st, "tokens"); !ok {
		return 0, false
	}
	i, ok := u.intLit(ix.Index)
	u.must(ok, x, "the index of a field must be an integer literal")
	u.must(st.lb > i, x, "field %d may not exist here: the tests passed so far only imply %d field(s); Go would panic, the model has no panic", i, st.lb)
	return i, true
}

// hwBytes: `h.String()` of a hardware address (or, in handle4, of req.ClientHWAddr) ↦ its bytes.
func (u *f7) hwBytes(x ast.Expr, st f7st) string {
	recv, name, c, ok := u.method(x)
	u.must(ok && name == "String" && len(c.Args) == 0, x, "a table key must be `<hardware address>.String()`")
	if l, ok := u.local(recv, st, "hw"); ok {
		return l.lean
	}
	if s, ok := u.unparen(recv).(*ast.SelectorExpr); ok && u.kind == "handle4" && s.Sel.Name == "ClientHWAddr" {
		if _, ok := u.local(s.X, st, "req"); ok {
			return "req.chaddr"
		}
	}
	u.fail(x, "a table key must be `<hardware address>.String()` (a parsed or extracted address; in handle4 req.ClientHWAddr)")
	return ""
}

// ------------------------------------------------------------------ conditions

func (u *f7) boolTest(acc string, eq bool) cex {
	return cex{acc + " = " + strconv.FormatBool(eq), hCmp}
}

// nilTest: `<e> == nil` / `<e> != nil` for the expressions of the vocabulary.
func (u *f7) nilTest(x ast.Expr, isNil bool, st f7st) (cex, bool) {
	recv, name, c, ok := u.method(x)
	if !ok || len(c.Args) != 0 {
		return cex{}, false
	}
	switch {
	case u.kind == "body" && (name == "To4" || name == "To16"):
		if l, ok := u.local(recv, st, "ip"); ok {
			return u.boolTest("to"+strings.TrimPrefix(name, "To")+"Nil "+l.lean, isNil), true
		}
	case u.kind == "handle6" && name == "OneIANA":
		if u.isInnerOptions(recv, st) {
			return u.boolTest("m.hasIANA", !isNil), true
		}
	}
	return cex{}, false
}

// isInnerOptions: x is `m.Options`, m the inner message.
func (u *f7) isInnerOptions(x ast.Expr, st f7st) bool {
	s, ok := u.unparen(x).(*ast.SelectorExpr)
	if !ok || s.Sel.Name != "Options" {
		return false
	}
	_, ok = u.local(s.X, st, "inner")
	return ok
}

// lenOf: x is `len(v)`, v a local of the given role.
func (u *f7) lenOf(x ast.Expr, st f7st, role string) (f7local, bool) {
	c, ok := u.unparen(x).(*ast.CallExpr)
	if !ok || !u.builtin(c.Fun, "len", st) || len(c.Args) != 1 || c.Ellipsis.IsValid() {
		return f7local{}, false
	}
	return u.local(c.Args[0], st, role)
}

func (u *f7) cond(x ast.Expr, st f7st) cex {
	x = u.unparen(x)
	switch x := x.(type) {
	case *ast.UnaryExpr:
		u.must(x.Op == token.NOT, x, "unsupported unary operator %s in a condition", x.Op)
		return cex{"¬(" + u.cond(x.X, st).s + ")", hAtom}
	case *ast.BinaryExpr:
		switch x.Op {
		case token.LAND:
			a := u.cond(x.X, st)
			b := u.cond(x.Y, u.after(x.X, st, true))
			return cex{hwrap(a, hAnd+1) + " ∧ " + hwrap(b, hAnd+1), hAnd}
		case token.LOR:
			a := u.cond(x.X, st)
			b := u.cond(x.Y, u.after(x.X, st, false))
			return cex{hwrap(a, hOr+1) + " ∨ " + hwrap(b, hOr+1), hOr}
		case token.EQL, token.NEQ, token.LSS, token.LEQ, token.GTR, token.GEQ:
			if u.isNil(x.Y, st) {
				u.must(x.Op == token.EQL || x.Op == token.NEQ, x, "ordered comparison with nil")
				if c, ok := u.nilTest(x.X, x.Op == token.EQL, st); ok {
					return c
				}
				u.fail(x, "unrecognised nil test")
			}
			k, ok := u.intLit(x.Y)
			u.must(ok, x, "unrecognised comparison (the right operand must be an integer literal or nil)")
			if _, ok := u.lenOf(x.X, st, "line"); ok && u.kind == "body" {
				u.must(k == 0 && (x.Op == token.EQL || x.Op == token.NEQ), x, "the length of the line may only be compared with 0 (== or !=)")
				return u.boolTest("l.len0", x.Op == token.EQL)
			}
			if t, ok := u.lenOf(x.X, st, "tokens"); ok && u.kind == "body" {
				return cex{t.lean + " " + cmpOps[x.Op] + " " + strconv.Itoa(k), hCmp}
			}
			u.fail(x, "unrecognised comparison")
		}
		u.fail(x, "unsupported operator %s in a condition", x.Op)
	case *ast.Ident:
		if l, ok := u.local(x, st, "v6"); ok && u.kind == "lff" {
			return u.boolTest(l.lean, true)
		}
		u.fail(x, "not a boolean of the vocabulary")
	case *ast.CallExpr:
		if c, ok := u.pkgCall(x, "strings", "HasPrefix", 2, st); ok && u.kind == "body" {
			_, isLine := u.local(c.Args[0], st, "line")
			u.must(isLine, c.Args[0], "strings.HasPrefix of something that is not the line")
			p, ok := u.strLit(c.Args[1])
			u.must(ok && p == "#", c.Args[1], "the comment prefix must be the literal \"#\"")
			return u.boolTest("l.hash", true)
		}
		u.fail(x, "unknown call in a condition")
	}
	u.fail(x, "unsupported condition")
	return cex{}
}

// after: what is known once the condition evaluated to `positive`.
func (u *f7) after(x ast.Expr, st f7st, positive bool) f7st {
	switch x := u.unparen(x).(type) {
	case *ast.UnaryExpr:
		if x.Op == token.NOT {
			return u.after(x.X, st, !positive)
		}
	case *ast.BinaryExpr:
		switch {
		case x.Op == token.LAND && positive, x.Op == token.LOR && !positive:
			return u.after(x.Y, u.after(x.X, st, positive), positive)
		case u.isNil(x.Y, st) && (x.Op == token.EQL || x.Op == token.NEQ):
			if recv, name, _, ok := u.method(x.X); ok && name == "OneIANA" && u.kind == "handle6" && u.isInnerOptions(recv, st) {
				if (x.Op == token.NEQ) == positive {
					st.iana = true
				}
			}
		case u.kind == "body":
			if _, isLen := u.lenOf(x.X, st, "tokens"); !isLen {
				break
			}
			if k, ok := u.intLit(x.Y); ok {
				op := x.Op
				if !positive {
					op = map[token.Token]token.Token{token.EQL: token.NEQ, token.NEQ: token.EQL, token.LSS: token.GEQ,
						token.GEQ: token.LSS, token.GTR: token.LEQ, token.LEQ: token.GTR}[op]
				}
				lb := 0
				switch op {
				case token.EQL, token.GEQ:
					lb = k
				case token.GTR:
					lb = k + 1
				}
				if lb > st.lb {
					st.lb = lb
				}
			}
		}
	}
	return st
}

// ------------------------------------------------------------------ logging

// pure: an argument of a log call or of fmt.Errorf (only shown) that has no side effect and cannot panic.
func (u *f7) pure(x ast.Expr, st f7st) {
	switch x := x.(type) {
	case *ast.ParenExpr:
		u.pure(x.X, st)
	case *ast.BasicLit, *ast.Ident:
	case *ast.SelectorExpr:
		u.pure(x.X, st)
	case *ast.IndexExpr:
		_, ok := u.token(x, st)
		u.must(ok, x, "unsupported index expression in the arguments of a log or error message (only a field of the line)")
	case *ast.CallExpr:
		if n, ok := u.pkgSel(x.Fun, "fmt", st); ok && n == "Sprintf" {
		} else if u.builtin(x.Fun, "len", st) && len(x.Args) == 1 {
		} else if recv, name, _, ok := u.method(x); ok && name == "String" && len(x.Args) == 0 {
			u.pure(recv, st)
		} else {
			u.fail(x, "call in the arguments of a log or error message that is not known to be free of side effects (only fmt.Sprintf, len, x.String())")
		}
		for _, a := range x.Args {
			u.pure(a, st)
		}
	default:
		u.fail(x, "unsupported expression in the arguments of a log or error message")
	}
}

// isLogger: x is the package-level `log = logger.GetLogger(…)`.
func (u *f7) isLogger(x ast.Expr, st f7st) bool {
	id, ok := x.(*ast.Ident)
	if !ok || id.Name != "log" {
		return false
	}
	if _, shadow := st.vars["log"]; shadow {
		return false
	}
	v := u.pkgVars["log"]
	if v == nil || len(v.Names) != len(v.Values) {
		return false
	}
	for i, n := range v.Names {
		if n.Name == "log" {
			c, ok := v.Values[i].(*ast.CallExpr)
			if !ok {
				return false
			}
			fn, ok := u.pkgSel(c.Fun, "logger", f7st{})
			return ok && fn == "GetLogger"
		}
	}
	return false
}

func (u *f7) isLog(s ast.Stmt, st f7st) bool {
	e, ok := s.(*ast.ExprStmt)
	if !ok {
		return false
	}
	recv, name, c, ok := u.method(e.X)
	if !ok || !u.isLogger(recv, st) {
		return false
	}
	u.must(f7logLevels[name], s, "log.%s is not a plain log statement", name)
	for _, a := range c.Args {
		u.pure(a, st)
	}
	return true
}

// ------------------------------------------------------------------ errors

// errorf: fmt.Errorf("<text>", …) ↦ a constructor of LoadErr.
func (u *f7) errorf(x ast.Expr, st f7st) (string, bool) {
	c, ok := u.unparen(x).(*ast.CallExpr)
	if !ok {
		return "", false
	}
	if n, ok := u.pkgSel(c.Fun, "fmt", st); !ok || n != "Errorf" {
		return "", false
	}
	u.must(len(c.Args) >= 1 && !c.Ellipsis.IsValid(), c, "fmt.Errorf without a format")
	text, ok := u.strLit(c.Args[0])
	u.must(ok, c.Args[0], "the format of fmt.Errorf must be a string literal")
	for _, e := range f7errs {
		if e.text != text {
			continue
		}
		u.must(strings.Count(text, "%") == len(c.Args)-1, c, "the format has %d verbs, %d arguments are given", strings.Count(text, "%"), len(c.Args)-1)
		u.errsSeen[e.ctor] = true
		if e.ctor != "wrapped" {
			for _, a := range c.Args[1:] {
				u.pure(a, st)
			}
			return "." + e.ctor, true
		}
		// "failed to load DHCPv%d records: %w", protver, err
		p, ok := u.local(c.Args[1], st, "protver")
		u.must(ok && u.kind == "lff", c.Args[1], "the protocol number in the message must be the variable the branches set")
		cause, ok := u.local(c.Args[2], st, "cause")
		u.must(ok, c.Args[2], "%%w must wrap the error the loader returned, inside the test `err != nil`")
		return "(.wrapped " + p.lean + " " + cause.lean + ")", true
	}
	u.fail(c.Args[0], "unknown error text (no constructor of LoadErr; table f7errs of gen7.go)")
	return "", false
}

// errValue: an expression of type error ↦ Option LoadErr.
func (u *f7) errValue(x ast.Expr, st f7st) string {
	if u.isNil(x, st) {
		return "none"
	}
	if _, ok := u.local(x, st, "ferr"); ok { // the error of os.ReadFile, inside its test
		return "some .readFile"
	}
	if l, ok := u.local(x, st, "cause"); ok {
		return "some " + l.lean
	}
	if l, ok := u.local(x, st, "lerr"); ok {
		return l.lean
	}
	if e, ok := u.errorf(x, st); ok {
		return "some " + e
	}
	u.fail(x, "unknown error value")
	return ""
}

// ------------------------------------------------------------------ returns

func (u *f7) ret(r *ast.ReturnStmt, st f7st) string {
	switch u.kind {
	case "loader", "body":
		u.must(len(r.Results) == 2, r, "return must have two results")
		var t string
		if u.isNil(r.Results[0], st) {
			t = "[]"
		} else if l, ok := u.local(r.Results[0], st, "table"); ok {
			t = l.lean
		} else {
			u.fail(r.Results[0], "the first result must be nil or the map being filled")
		}
		e := u.errValue(r.Results[1], st)
		if u.kind == "body" {
			return ".ret (" + t + ", " + e + ")"
		}
		return "(" + t + ", " + e + ")"
	case "handle4", "handle6":
		u.must(len(r.Results) == 2, r, "return must have two results")
		var first string
		if u.isNil(r.Results[0], st) {
			first = "none"
		} else if _, ok := u.local(r.Results[0], st, "resp"); ok {
			if st.eff == "" {
				first = "some .unchanged"
			} else {
				first = "some (" + st.eff + ")"
			}
		} else {
			u.fail(r.Results[0], "the first result must be the response parameter or nil")
		}
		b, ok := u.boolLit(r.Results[1], st)
		u.must(ok, r.Results[1], "the second result must be true or false")
		return "(" + first + ", " + b + ")"
	case "lff":
		u.must(len(r.Results) == 1, r, "return must have one result")
		return "(s, " + u.errValue(r.Results[0], st) + ")"
	}
	u.fail(r, "internal: return in an unknown context")
	return ""
}

// ------------------------------------------------------------------ the mutex

// mutexCall: x is `recLock.<m>()`.
func (u *f7) mutexCall(x ast.Expr, st f7st) (string, bool) {
	recv, name, c, ok := u.method(x)
	if !ok {
		return "", false
	}
	id, ok := recv.(*ast.Ident)
	if !ok || id.Name != "recLock" {
		return "", false
	}
	_, shadow := st.vars["recLock"]
	u.must(!shadow && len(c.Args) == 0, x, "unexpected use of recLock")
	return name, true
}

func countIdent(n ast.Node, name string) int {
	c := 0
	ast.Inspect(n, func(n ast.Node) bool {
		if id, ok := n.(*ast.Ident); ok && id.Name == name {
			c++
		}
		return true
	})
	return c
}

func f7terminates(n ast.Node) bool {
	found := false
	ast.Inspect(n, func(n ast.Node) bool {
		switch n := n.(type) {
		case *ast.ReturnStmt:
			found = true
		case *ast.BranchStmt:
			found = found || n.Tok == token.CONTINUE
		case *ast.FuncLit:
			return false
		}
		return true
	})
	return found
}

// ------------------------------------------------------------------ the two-valued definitions

type f7pair struct {
	scrut, binder, role string
	test                string // "err": `if b != nil { … }` must follow; "ok": `if !b { … }`
	guardRole           string // what b is inside that test
}

// pairDefine: `a, b := <a two-valued expression of the vocabulary>`.
func (u *f7) pairDefine(s ast.Stmt, st f7st) (a, b *ast.Ident, p f7pair, ok bool) {
	as, ok := s.(*ast.AssignStmt)
	if !ok || as.Tok != token.DEFINE || len(as.Lhs) != 2 || len(as.Rhs) != 1 {
		return nil, nil, p, false
	}
	a, ok1 := as.Lhs[0].(*ast.Ident)
	b, ok2 := as.Lhs[1].(*ast.Ident)
	u.must(ok1 && ok2, s, "the targets of a two-valued definition must be plain variables")
	rhs := u.unparen(as.Rhs[0])
	switch u.kind {
	case "loader":
		if c, ok := u.pkgCall(rhs, "os", "ReadFile", 1, st); ok {
			_, isName := u.local(c.Args[0], st, "filename")
			u.must(isName, c.Args[0], "os.ReadFile of something that is not the file name parameter")
			return a, b, f7pair{"file", "lines", "data", "err", "ferr"}, true
		}
	case "body":
		if c, ok := u.pkgCall(rhs, "net", "ParseMAC", 1, st); ok {
			i, isTok := u.token(c.Args[0], st)
			u.must(isTok && i == 0, c.Args[0], "net.ParseMAC of something that is not the first field of the line")
			return a, b, f7pair{"l.mac", "hw", "hw", "err", "operr"}, true
		}
	case "handle6":
		if recv, name, c, ok := u.method(rhs); ok && name == "GetInnerMessage" {
			_, isReq := u.local(recv, st, "req")
			u.must(isReq && len(c.Args) == 0, rhs, "GetInnerMessage of something that is not the request parameter")
			return a, b, f7pair{"req.inner", "m", "inner", "err", "operr"}, true
		}
		if c, ok := u.pkgCall(rhs, "dhcpv6", "ExtractMAC", 1, st); ok {
			_, isReq := u.local(c.Args[0], st, "req")
			u.must(isReq, c.Args[0], "dhcpv6.ExtractMAC of something that is not the request parameter: the model's `mac` input is "+
				"ExtractMAC of the REQUEST (on the inner message the relay's link-layer address option would be ignored)")
			return a, b, f7pair{"req.mac", "mac", "hw", "err", "operr"}, true
		}
	}
	if ix, isIx := rhs.(*ast.IndexExpr); isIx && (u.kind == "handle4" || u.kind == "handle6") { // (*records)[key]
		star, isStar := u.unparen(ix.X).(*ast.StarExpr)
		u.must(isStar, ix.X, "look-up in something that is not `*records`, the table parameter")
		t, isTab := u.local(star.X, st, "tabptr")
		u.must(isTab, ix.X, "look-up in something that is not `*records`, the table parameter")
		u.must(st.rlocked, rhs, "look-up in the table before `recLock.RLock()`")
		return a, b, f7pair{t.lean + ".get " + u.hwBytes(ix.Index, st), "ip", "ip", "ok", "opok"}, true
	}
	u.fail(as.Rhs[0], "unknown two-valued expression")
	return
}

// guardOf: the test that must directly follow a two-valued definition.
func (u *f7) guardOf(next ast.Stmt, at ast.Node, b *ast.Ident, p f7pair) *ast.IfStmt {
	shape := map[string]string{"err": "if " + b.Name + " != nil { … return … }", "ok": "if !" + b.Name + " { … return … }"}[p.test]
	i, ok := next.(*ast.IfStmt)
	u.must(next != nil && ok && i.Init == nil && i.Else == nil, at, "the second result must be tested right after the definition: `%s`", shape)
	c := u.unparen(i.Cond)
	good := false
	switch p.test {
	case "err":
		if bin, ok := c.(*ast.BinaryExpr); ok && bin.Op == token.NEQ {
			good = isIdent(u.unparen(bin.X), b.Name) && isIdent(u.unparen(bin.Y), "nil")
		}
	case "ok":
		if un, ok := c.(*ast.UnaryExpr); ok && un.Op == token.NOT {
			good = isIdent(u.unparen(un.X), b.Name)
		}
	}
	u.must(good, i.Cond, "the second result must be tested right after the definition: `%s`", shape)
	return i
}

func matchOpt(scrut, noneCase, binder, someCase string) string {
	return "match " + scrut + " with\n| none =>\n" + indent(noneCase) + "\n| some " + binder + " =>\n" + indent(someCase)
}

// ---------------------------------------------------------------- statements

// block translates a statement list; k yields the translation of what follows it.
func (u *f7) block(list []ast.Stmt, st f7st, depth int, k func(ast.Node, f7st) string, end ast.Node) string {
	if len(list) == 0 {
		return k(end, st)
	}
	s, rest := list[0], list[1:]
	next := func(st2 f7st) string { return u.block(rest, st2, depth, k, end) }
	switch s := s.(type) {
	case *ast.ReturnStmt:
		u.must(len(rest) == 0, s, "unreachable statement after return")
		return u.ret(s, st)
	case *ast.BranchStmt:
		u.must(u.kind == "body" && s.Tok == token.CONTINUE && s.Label == nil, s, "unsupported branch statement")
		u.must(len(rest) == 0, s, "unreachable statement after continue")
		return ".next " + u.tableLean(s, st)
	}
	if u.isLog(s, st) {
		return next(st)
	}
	if es, ok := s.(*ast.ExprStmt); ok {
		if m, ok := u.mutexCall(es.X, st); ok {
			return u.lock(s, m, rest, st, depth, k, end)
		}
	}
	if a, b, p, ok := u.pairDefine(s, st); ok {
		u.must(depth == 0, s, "variable declaration inside a nested block unsupported")
		var nx ast.Stmt
		if len(rest) > 0 {
			nx = rest[0]
		}
		g := u.guardOf(nx, s, b, p)
		if a.Name != "_" {
			u.freshName(a, st)
		}
		u.must(b.Name != "_", b, "the second result is not tested")
		if old, isOld := st.vars[b.Name]; isOld { // `err` may be defined again once it is known to be nil
			u.must(old.role == "nil", b, "redefinition of a variable that is still in use")
		} else {
			u.freshName(b, st)
		}
		u.must(a.Name != b.Name, s, "the two results must be different variables")
		bind := u.binder(p.binder)
		inGuard := st.with(b.Name, f7local{p.guardRole, ""})
		if a.Name != "_" {
			inGuard = inGuard.with(a.Name, f7local{"zero", ""})
		}
		noneCase := u.block(g.Body.List, inGuard, depth+1, func(n ast.Node, _ f7st) string {
			u.fail(n, "the block of this test must end in return%s", map[bool]string{true: " or continue"}[u.kind == "body"])
			return ""
		}, g.Body)
		after := st.with(b.Name, f7local{"nil", ""})
		if a.Name != "_" {
			after = after.with(a.Name, f7local{p.role, bind})
		}
		return matchOpt(p.scrut, noneCase, bind, u.block(rest[1:], after, depth, k, end))
	}
	switch s := s.(type) {
	case *ast.IfStmt:
		u.must(s.Init == nil, s, "if with an init statement unsupported")
		if !f7terminates(s) {
			u.must(u.kind == "lff", s, "an if that neither returns nor continues is unsupported here")
			u.must(depth == 0, s, "nested if unsupported")
			line, st2 := u.joinIf(s, st)
			return line + "\n" + next(st2)
		}
		u.must(s.Else == nil, s, "else after a block that returns is unsupported")
		dead := func(n ast.Node, _ f7st) string {
			u.fail(n, "the block of this test must end in return%s", map[bool]string{true: " or continue"}[u.kind == "body"])
			return ""
		}
		if l, ok := u.errNotNil(s.Cond, st); ok { // loadFromFile: if err != nil { return … }
			e := u.binder("e")
			then := u.block(s.Body.List, u.after(s.Cond, st, true).with(l, f7local{"cause", e}), depth+1, dead, s.Body)
			return "match " + st.vars[l].lean + " with\n| some " + e + " =>\n" + indent(then) + "\n| none =>\n" + indent(next(st))
		}
		c := u.cond(s.Cond, st)
		then := u.block(s.Body.List, u.after(s.Cond, st, true), depth+1, dead, s.Body)
		return ite(c.s, then, next(u.after(s.Cond, st, false)))
	case *ast.AssignStmt:
		if line, st2, ok := u.assign(s, st, depth); ok {
			if line == "" {
				return next(st2)
			}
			return line + "\n" + next(st2)
		}
	case *ast.DeclStmt:
		if line, st2, ok := u.declare(s, st, depth); ok {
			return line + "\n" + next(st2)
		}
	case *ast.RangeStmt:
		u.must(u.kind == "loader" && depth == 0, s, "loop unsupported here")
		return u.loop(s, rest, st, k, end)
	case *ast.ExprStmt:
		if u.kind == "handle6" {
			if eff, ok := u.addOption(s.X, st); ok {
				u.must(st.eff == "", s, "a second change of the response: the model's reply has one")
				st.eff = eff
				return next(st)
			}
		}
	}
	u.fail(s, "unsupported statement in unit fileplugin")
	return ""
}

func (st f7st) withOut(name string) f7st {
	n := map[string]f7local{}
	for k, v := range st.vars {
		if k != name {
			n[k] = v
		}
	}
	st.vars = n
	return st
}

// errNotNil: `err != nil`, err the error variable of loadFromFile.
func (u *f7) errNotNil(x ast.Expr, st f7st) (string, bool) {
	b, ok := u.unparen(x).(*ast.BinaryExpr)
	if !ok || b.Op != token.NEQ || !u.isNil(b.Y, st) {
		return "", false
	}
	if _, ok := u.local(b.X, st, "lerr"); !ok {
		return "", false
	}
	return u.unparen(b.X).(*ast.Ident).Name, true
}

// lock: the mutex statements; they translate to nothing but their place is checked.
func (u *f7) lock(s ast.Stmt, m string, rest []ast.Stmt, st f7st, depth int, k func(ast.Node, f7st) string, end ast.Node) string {
	var want, unlock string
	switch u.kind {
	case "handle4", "handle6":
		want, unlock = "RLock", "RUnlock"
		u.must(!st.rlocked, s, "recLock is taken twice")
	case "lff":
		want, unlock = "Lock", "Unlock"
		u.must(!st.locked, s, "recLock is taken twice")
	default:
		u.fail(s, "recLock is not expected in this function")
	}
	u.must(m == want && depth == 0, s, "expected `recLock.%s()` at the top level of the function, directly followed by `defer recLock.%s()`", want, unlock)
	ok := false
	if len(rest) > 0 {
		if d, isDefer := rest[0].(*ast.DeferStmt); isDefer {
			m2, isMutex := u.mutexCall(d.Call, st)
			ok = isMutex && m2 == unlock
		}
	}
	u.must(ok, s, "`recLock.%s()` must be directly followed by `defer recLock.%s()`", want, unlock)
	if u.kind == "lff" {
		st.locked = true
	} else {
		st.rlocked = true
	}
	return u.block(rest[1:], st, depth, k, end)
}

// assign: the assignments of the vocabulary; the Lean line ("" = none) and the new state.
func (u *f7) assign(s *ast.AssignStmt, st f7st, depth int) (string, f7st, bool) {
	if s.Tok == token.DEFINE && len(s.Lhs) == 1 && len(s.Rhs) == 1 {
		id, ok := s.Lhs[0].(*ast.Ident)
		u.must(ok, s.Lhs[0], "the target of a definition must be a plain variable")
		u.must(depth == 0, s, "variable declaration inside a nested block unsupported")
		rhs := u.unparen(s.Rhs[0])
		c, isCall := rhs.(*ast.CallExpr)
		switch {
		case !isCall:
		case u.kind == "loader" && u.builtin(c.Fun, "make", st): // records := make(map[string]net.IP)
			u.must(len(c.Args) == 1 && u.src(c.Args[0]) == "map[string]net.IP" && u.imports["net"] == "net", c, "only make(map[string]net.IP) is supported")
			for _, l := range st.vars {
				u.must(l.role != "table", s, "a second map")
			}
			u.freshName(id, st)
			return "let records : FTable := []", st.with(id.Name, f7local{"table", "records"}), true
		case u.kind == "body" && u.builtin(c.Fun, "string", st): // line := string(lineBytes)
			_, ok := u.local(c.Args[0], st, "linebytes")
			u.must(len(c.Args) == 1 && ok, c, "string(…) of something that is not the loop variable")
			u.freshName(id, st)
			return "", st.with(id.Name, f7local{"line", "l"}), true
		case u.kind == "body":
			if c2, ok := u.pkgCall(rhs, "strings", "Fields", 1, st); ok {
				_, isLine := u.local(c2.Args[0], st, "line")
				u.must(isLine, c2.Args[0], "strings.Fields of something that is not the line")
				u.freshName(id, st)
				n := u.binder("n")
				return "let " + n + " := l.nfields", st.with(id.Name, f7local{"tokens", n}), true
			}
			if c2, ok := u.pkgCall(rhs, "net", "ParseIP", 1, st); ok {
				i, isTok := u.token(c2.Args[0], st)
				u.must(isTok && i == 1, c2.Args[0], "net.ParseIP of something that is not the second field of the line")
				u.freshName(id, st)
				ip := u.binder("ip")
				return "let " + ip + " := l.ip", st.with(id.Name, f7local{"ip", ip}), true
			}
		}
		u.fail(s.Rhs[0], "unknown defining expression")
	}
	if s.Tok != token.ASSIGN {
		return "", st, false
	}
	switch u.kind {
	case "body": // records[hw.String()] = ip
		if len(s.Lhs) == 1 && len(s.Rhs) == 1 {
			if ix, ok := s.Lhs[0].(*ast.IndexExpr); ok {
				t, isTab := u.local(ix.X, st, "table")
				u.must(isTab, ix.X, "assignment into something that is not the map being filled")
				v, isIP := u.local(s.Rhs[0], st, "ip")
				u.must(isIP, s.Rhs[0], "the value stored must be the parsed address")
				return "let " + t.lean + " := " + t.lean + ".put " + u.hwBytes(ix.Index, st) + " " + v.lean, st, true
			}
		}
	case "handle4": // resp.YourIPAddr = ip
		if len(s.Lhs) == 1 && len(s.Rhs) == 1 {
			if sel, ok := s.Lhs[0].(*ast.SelectorExpr); ok {
				_, isResp := u.local(sel.X, st, "resp")
				u.must(isResp && sel.Sel.Name == "YourIPAddr", s.Lhs[0], "assignment to something that is not resp.YourIPAddr")
				v, isIP := u.local(s.Rhs[0], st, "ip")
				u.must(isIP, s.Rhs[0], "the address assigned must be the one found in the table")
				u.must(st.eff == "", s, "a second change of the response: the model's reply has one")
				st.eff = ".yiaddr " + v.lean
				return "", st, true
			}
		}
	case "lff":
		return u.lffAssign(s, st)
	}
	return "", st, false
}

// ------------------------------------------------------------------ handle6: the IA_NA

// duration: `N * time.Second` ↦ N.
func (u *f7) seconds(x ast.Expr, st f7st) string {
	b, ok := u.unparen(x).(*ast.BinaryExpr)
	u.must(ok && b.Op == token.MUL, x, "a lifetime must be `N * time.Second`")
	n, isLit := u.intLit(b.X)
	unit, isUnit := u.pkgSel(b.Y, "time", st)
	if !isLit || !isUnit {
		n, isLit = u.intLit(b.Y)
		unit, isUnit = u.pkgSel(b.X, "time", st)
	}
	u.must(isLit && isUnit && unit == "Second", x, "a lifetime must be `N * time.Second`")
	return strconv.Itoa(n)
}

// fields: the elements of a composite literal of type dhcpv6.<typ>, by key; exactly the keys given.
func (u *f7) fields(x ast.Expr, typ string, st f7st, keys ...string) map[string]ast.Expr {
	cl, ok := u.unparen(x).(*ast.CompositeLit)
	u.must(ok && cl.Type != nil, x, "expected dhcpv6.%s{…}", typ)
	n, ok := u.pkgSel(cl.Type, "dhcpv6", st)
	u.must(ok && n == typ, cl.Type, "expected dhcpv6.%s{…}", typ)
	out := map[string]ast.Expr{}
	for _, e := range cl.Elts {
		kv, ok := e.(*ast.KeyValueExpr)
		u.must(ok, e, "expected key: value")
		key := u.src(kv.Key)
		u.must(set(keys...)[key] && out[key] == nil, kv.Key, "unexpected or repeated field of dhcpv6.%s (the model knows: %s)", typ, strings.Join(keys, ", "))
		out[key] = kv.Value
	}
	for _, key := range keys {
		u.must(out[key] != nil, x, "dhcpv6.%s without %s", typ, key)
	}
	return out
}

func (u *f7) addrOf(x ast.Expr) ast.Expr {
	un, ok := u.unparen(x).(*ast.UnaryExpr)
	u.must(ok && un.Op == token.AND, x, "expected &dhcpv6.…{…}")
	return un.X
}

// addOption: resp.AddOption(&dhcpv6.OptIANA{…}) ↦ the effect `.iana ip preferred valid`.
func (u *f7) addOption(x ast.Expr, st f7st) (string, bool) {
	recv, name, c, ok := u.method(x)
	if !ok || name != "AddOption" {
		return "", false
	}
	if _, ok := u.local(recv, st, "resp"); !ok {
		return "", false
	}
	u.must(len(c.Args) == 1 && !c.Ellipsis.IsValid(), c, "expected one argument")
	iana := u.fields(u.addrOf(c.Args[0]), "OptIANA", st, "IaId", "Options")
	// IaId: m.Options.OneIANA().IaId
	sel, ok := u.unparen(iana["IaId"]).(*ast.SelectorExpr)
	u.must(ok && sel.Sel.Name == "IaId", iana["IaId"], "the IAID must be the one of the request's IA_NA: m.Options.OneIANA().IaId")
	r2, n2, c2, ok := u.method(sel.X)
	u.must(ok && n2 == "OneIANA" && len(c2.Args) == 0 && u.isInnerOptions(r2, st), iana["IaId"], "the IAID must be the one of the request's IA_NA: m.Options.OneIANA().IaId")
	u.must(st.iana, iana["IaId"], "m.Options.OneIANA() may be nil here: no test `m.Options.OneIANA() == nil` that returns dominates this use")
	ido := u.fields(iana["Options"], "IdentityOptions", st, "Options")
	list, ok := u.unparen(ido["Options"]).(*ast.CompositeLit)
	u.must(ok && list.Type != nil, ido["Options"], "expected []dhcpv6.Option{&dhcpv6.OptIAAddress{…}}")
	at, ok := list.Type.(*ast.ArrayType)
	u.must(ok && at.Len == nil, list.Type, "expected []dhcpv6.Option{&dhcpv6.OptIAAddress{…}}")
	tn, ok := u.pkgSel(at.Elt, "dhcpv6", st)
	u.must(ok && tn == "Option" && len(list.Elts) == 1, list, "expected []dhcpv6.Option{…} with exactly one address")
	ia := u.fields(u.addrOf(list.Elts[0]), "OptIAAddress", st, "IPv6Addr", "PreferredLifetime", "ValidLifetime")
	ip, ok := u.local(ia["IPv6Addr"], st, "ip")
	u.must(ok, ia["IPv6Addr"], "the address offered must be the one found in the table")
	return ".iana " + ip.lean + " " + u.seconds(ia["PreferredLifetime"], st) + " " + u.seconds(ia["ValidLifetime"], st), true
}

// ------------------------------------------------------------------ the line loop

// loop: `for _, x := range bytes.Split(data, []byte{'\n'}) { body }`; what follows the loop is the `[]` case.
func (u *f7) loop(r *ast.RangeStmt, rest []ast.Stmt, st f7st, k func(ast.Node, f7st) string, end ast.Node) string {
	shape := "expected `for _, x := range bytes.Split(data, []byte{'\\n'}) { … }`"
	x, ok := r.Value.(*ast.Ident)
	u.must(ok && r.Tok == token.DEFINE && r.Key != nil && isIdent(r.Key, "_"), r, shape)
	u.freshName(x, st)
	c, ok := u.pkgCall(r.X, "bytes", "Split", 2, st)
	u.must(ok, r.X, shape)
	data, ok := u.local(c.Args[0], st, "data")
	u.must(ok, c.Args[0], "the loop must go over the content of the file")
	sep, ok := u.unparen(c.Args[1]).(*ast.CompositeLit)
	u.must(ok && sep.Type != nil && u.src(sep.Type) == "[]byte" && len(sep.Elts) == 1 && u.src(sep.Elts[0]) == `'\n'` && !u.shadowed("byte", st), c.Args[1], "the separator must be []byte{'\\n'}")
	records := u.tableLean(r, st)
	u.must(u.loopDefs == "", r, "a second loop")
	u.kind = "body"
	body := u.block(r.Body.List, st.with(x.Name, f7local{"linebytes", ""}), 0, func(n ast.Node, st2 f7st) string {
		return ".next " + u.tableLean(n, st2)
	}, r.Body)
	u.kind = "loader"
	base := u.block(rest, st, 0, k, end)
	sfx := u.suffix
	u.loopDefs = def("the body of the line loop of `LoadDHCPv"+sfx+"Records`, for one line: `.next` = on to the next line\n(`continue`, or the end of the body), `.ret` = the function returns.",
		"body"+sfx+" (l : Line) ("+records+" : FTable) : Flow", body) +
		"/-- the line loop of `LoadDHCPv" + sfx + "Records` as a recursion over the lines; the `[]` case is what follows the loop. -/\n" +
		"def loop" + sfx + " : List Line → FTable → FTable × Option LoadErr\n" +
		"  | [], " + records + " =>\n" + indent(indent(base)) + "\n" +
		"  | l :: rest, " + records + " =>\n" +
		"    match body" + sfx + " l " + records + " with\n" +
		"    | .ret r => r\n" +
		"    | .next " + records + " => loop" + sfx + " rest " + records + "\n\n"
	return "loop" + sfx + " " + data.lean + " " + records
}

// ------------------------------------------------------------------ loadFromFile

var lffOrder = []string{"protver", "records", "err", "s"}

// declare: `var x T` of loadFromFile.
func (u *f7) declare(s *ast.DeclStmt, st f7st, depth int) (string, f7st, bool) {
	d, ok := s.Decl.(*ast.GenDecl)
	if !ok || d.Tok != token.VAR || len(d.Specs) != 1 || u.kind != "lff" {
		return "", st, false
	}
	v := d.Specs[0].(*ast.ValueSpec)
	u.must(depth == 0 && len(v.Names) == 1 && len(v.Values) == 0 && v.Type != nil, s, "only `var x T` at the top level is supported")
	var role, lean, line string
	switch u.src(v.Type) {
	case "error":
		role, lean, line = "lerr", "err", "let err : Option LoadErr := none"
	case "map[string]net.IP":
		role, lean, line = "ltable", "records", "let records : FTable := []"
	case "int":
		role, lean, line = "protver", "protver", "let protver : Nat := 0"
	default:
		u.fail(v.Type, "unsupported type of a variable")
	}
	for _, l := range st.vars {
		u.must(l.role != role, s, "a second variable of this type")
	}
	u.freshName(v.Names[0], st)
	return line, st.with(v.Names[0].Name, f7local{role, lean}), true
}

// lffAssign: the assignments of loadFromFile.
func (u *f7) lffAssign(s *ast.AssignStmt, st f7st) (string, f7st, bool) {
	if len(s.Lhs) == 2 && len(s.Rhs) == 1 { // records, err = LoadDHCPvNRecords(filename)
		t, ok1 := u.local(s.Lhs[0], st, "ltable")
		e, ok2 := u.local(s.Lhs[1], st, "lerr")
		u.must(ok1 && ok2, s, "expected `records, err = LoadDHCPv…Records(filename)`")
		c, ok := u.unparen(s.Rhs[0]).(*ast.CallExpr)
		u.must(ok && len(c.Args) == 1 && !c.Ellipsis.IsValid(), s.Rhs[0], "expected a call of a loader")
		fn, ok := c.Fun.(*ast.Ident)
		u.must(ok && u.loaders[fn.Name] != "" && st.vars[fn.Name].role == "", c.Fun, "not one of the loaders LoadDHCPv4Records / LoadDHCPv6Records")
		_, isName := u.local(c.Args[0], st, "filename")
		u.must(isName, c.Args[0], "the loader must be given the file name parameter")
		u.must(!st.locked, s, "the file is parsed while recLock is held: the handlers would wait for the disk; the loaders must run BEFORE recLock.Lock()")
		return "let (" + t.lean + ", " + e.lean + ") := " + u.loaders[fn.Name] + " file", st, true
	}
	if len(s.Lhs) != 1 || len(s.Rhs) != 1 {
		return "", st, false
	}
	if p, ok := u.local(s.Lhs[0], st, "protver"); ok {
		n, ok := u.intLit(s.Rhs[0])
		u.must(ok, s.Rhs[0], "the protocol number must be an integer literal")
		return "let " + p.lean + " := " + strconv.Itoa(n), st, true
	}
	if id, ok := s.Lhs[0].(*ast.Ident); ok && f7tables[id.Name] != "" && st.vars[id.Name].role == "" {
		t, ok := u.local(s.Rhs[0], st, "ltable")
		u.must(ok, s.Rhs[0], "a table may only be assigned the map the loader returned")
		u.must(st.locked, s, "%s is assigned without holding recLock (the assignments come AFTER `recLock.Lock()`)", id.Name)
		return "let s := { s with " + f7tables[id.Name] + " := " + t.lean + " }", st, true
	}
	return "", st, false
}

// branch: a block of assignments (one arm of an if of loadFromFile); the lines and the variables assigned.
func (u *f7) branch(b *ast.BlockStmt, st f7st) ([]string, map[string]bool) {
	var lines []string
	assigned := map[string]bool{}
	for _, s := range b.List {
		if u.isLog(s, st) {
			continue
		}
		a, ok := s.(*ast.AssignStmt)
		u.must(ok && a.Tok == token.ASSIGN, s, "only assignments are supported in an arm of this if")
		line, _, ok := u.lffAssign(a, st)
		u.must(ok, s, "unknown assignment")
		lines = append(lines, line)
		lhs := strings.TrimPrefix(strings.SplitN(line, " := ", 2)[0], "let ")
		for _, v := range strings.Split(strings.Trim(lhs, "()"), ", ") {
			assigned[v] = true
		}
	}
	return lines, assigned
}

// joinIf: an if of loadFromFile whose arms only assign ↦ `let (<the variables assigned>) := if c then … else …`.
func (u *f7) joinIf(s *ast.IfStmt, st f7st) (string, f7st) {
	c := u.cond(s.Cond, st)
	thenLines, assigned := u.branch(s.Body, st)
	var elseLines []string
	switch e := s.Else.(type) {
	case nil:
	case *ast.BlockStmt:
		var a2 map[string]bool
		elseLines, a2 = u.branch(e, st)
		for v := range a2 {
			assigned[v] = true
		}
	default:
		u.fail(s.Else, "else-if unsupported here")
	}
	var vars []string
	for _, v := range lffOrder {
		if assigned[v] {
			vars = append(vars, v)
		}
	}
	u.must(len(vars) > 0, s, "an if that does nothing")
	tuple := strings.Join(vars, ", ")
	if len(vars) > 1 {
		tuple = "(" + tuple + ")"
	}
	arm := func(lines []string) string {
		if len(vars) == 1 && len(lines) == 1 { // a single assignment: no `let`
			return strings.TrimPrefix(lines[0], "let "+vars[0]+" := ")
		}
		return joinLines(lines, tuple)
	}
	a, b := arm(thenLines), arm(elseLines)
	if !strings.Contains(a, "\n") && !strings.Contains(b, "\n") {
		return "let " + tuple + " := if " + c.s + " then " + a + " else " + b, st
	}
	return "let " + tuple + " :=\n" + indent("if "+c.s+" then\n"+indent(a)+"\nelse\n"+indent(b)), st
}

// ------------------------------------------------------------------ functions

type f7param struct {
	id  *ast.Ident
	typ string
}

func (u *f7) signature(f *ast.FuncDecl, ft *ast.FuncType, results ...string) []f7param {
	var ps []f7param
	for _, p := range ft.Params.List {
		u.must(len(p.Names) > 0, p, "unnamed parameter")
		for _, n := range p.Names {
			ps = append(ps, f7param{n, u.src(p.Type)})
		}
	}
	var rs []string
	if ft.Results != nil {
		for _, r := range ft.Results.List {
			u.must(len(r.Names) == 0, r, "named results unsupported")
			rs = append(rs, u.src(r.Type))
		}
	}
	u.must(ft.TypeParams == nil && strings.Join(rs, ", ") == strings.Join(results, ", "), ft, "the results must be (%s)", strings.Join(results, ", "))
	return ps
}

func (u *f7) paramTypes(at ast.Node, ps []f7param, types ...string) {
	ok := len(ps) == len(types)
	for i := 0; ok && i < len(ps); i++ {
		ok = ps[i].typ == types[i]
	}
	u.must(ok, at, "the parameters must have the types (%s)", strings.Join(types, ", "))
}

func (u *f7) bindParams(ps []f7param, roles []f7local) f7st {
	st := f7st{vars: map[string]f7local{}}
	for i, p := range ps {
		if p.id.Name == "_" {
			continue
		}
		u.freshName(p.id, st)
		st = st.with(p.id.Name, roles[i])
	}
	return st
}

func (u *f7) get(name string) *ast.FuncDecl {
	f := u.funcs[name]
	if f == nil || f.Body == nil || f.Recv != nil {
		fmt.Fprintf(os.Stderr, "gen: function %s not found\n", name)
		os.Exit(2)
	}
	return f
}

func (u *f7) noEnd(f *ast.FuncDecl) func(ast.Node, f7st) string {
	return func(n ast.Node, _ f7st) string {
		u.fail(f.Name, "control reaches the end of the function without a return")
		return ""
	}
}

func (u *f7) loader(name, sfx string) string {
	f := u.get(name)
	ps := u.signature(f, f.Type, "map[string]net.IP", "error")
	u.paramTypes(f.Type, ps, "string")
	u.must(u.imports["net"] == "net", f.Name, "net is not the package net here")
	u.must(countIdent(f.Body, "recLock") == 0, f.Name, "recLock is not expected in a loader")
	u.kind, u.suffix, u.used, u.loopDefs = "loader", sfx, map[string]int{}, ""
	st := u.bindParams(ps, []f7local{{"filename", "file"}})
	body := u.block(f.Body.List, st, 0, u.noEnd(f), f.Body)
	u.must(u.loopDefs != "", f.Name, "no line loop found")
	lean := strings.ToLower(name[:1]) + name[1:]
	u.loaders[name] = lean
	return u.loopDefs + def("`"+name+"` (plugins/file/plugin.go), translated from its go/ast; `file` = what `os.ReadFile(filename)` returned,\nsplit into lines (`none` = error).  Model: `loadFile "+map[string]string{"4": "false", "6": "true"}[sfx]+"`.",
		lean+" (file : Option (List Line)) : FTable × Option LoadErr", body)
}

func (u *f7) handler(name string, v6 bool) string {
	f := u.get(name)
	pkt, sfx := "*dhcpv4.DHCPv4", "4"
	if v6 {
		pkt, sfx = "dhcpv6.DHCPv6", "6"
	}
	ps := u.signature(f, f.Type, pkt, "bool")
	u.paramTypes(f.Type, ps, "*map[string]net.IP", pkt, pkt)
	u.must(u.imports["net"] == "net" && u.imports["dhcpv"+sfx] == f7pkgs["dhcpv"+sfx], f.Name, "net / dhcpv%s are not the expected packages here", sfx)
	u.must(countIdent(f.Body, "recLock") == 2, f.Name, "recLock must be mentioned exactly twice (RLock and the deferred RUnlock)")
	u.kind, u.used = "handle"+sfx, map[string]int{}
	st := u.bindParams(ps, []f7local{{"tabptr", "records"}, {"req", "req"}, {"resp", ""}})
	body := u.block(f.Body.List, st, 0, u.noEnd(f), f.Body)
	return def("`"+name+"` (plugins/file/plugin.go), translated from its go/ast: the table it is given, the request as the handler\nsees it ↦ (what became of the response, stop).  Model: `FState.query"+sfx+"`.",
		name+" (records : FTable) (req : Req"+sfx+") : Out"+sfx, body)
}

func (u *f7) loadFromFile() string {
	f := u.get("loadFromFile")
	ps := u.signature(f, f.Type, "error")
	u.paramTypes(f.Type, ps, "bool", "string")
	u.must(countIdent(f.Body, "recLock") == 2, f.Name, "recLock must be mentioned exactly twice (Lock and the deferred Unlock)")
	u.kind, u.used = "lff", map[string]int{}
	st := u.bindParams(ps, []f7local{{"v6", "v6"}, {"filename", "file"}})
	body := u.block(f.Body.List, st, 0, u.noEnd(f), f.Body)
	return def("`loadFromFile` (plugins/file/plugin.go), translated from its go/ast: the three tables before, the protocol, the\nfile ↦ (the tables after, the error).  Model: `FState.load`.",
		"loadFromFile (s : State) (v6 : Bool) (file : Option (List Line)) : State × Option LoadErr", body)
}

// ------------------------------------------------------------------ which table a handler serves from

// delegate: the function `func(req, resp T) (T, bool) { return handleN(&G, req, resp) }` ↦ G.
func (u *f7) delegate(at ast.Node, ft *ast.FuncType, body *ast.BlockStmt, locals f7st) (v6 bool, table string) {
	shape := "expected `func(req, resp T) (T, bool) { return handle4|6(&<table>, req, resp) }`"
	var names []string
	var typ string
	for _, p := range ft.Params.List {
		for _, n := range p.Names {
			names = append(names, n.Name)
			u.must(typ == "" || typ == u.src(p.Type), p, shape)
			typ = u.src(p.Type)
		}
	}
	u.must(len(names) == 2 && names[0] != names[1] && names[0] != "_" && names[1] != "_" && (typ == "dhcpv6.DHCPv6" || typ == "*dhcpv4.DHCPv4"), at, shape)
	v6 = typ == "dhcpv6.DHCPv6"
	u.must(ft.Results != nil && len(ft.Results.List) == 2 && u.src(ft.Results.List[0].Type) == typ && u.src(ft.Results.List[1].Type) == "bool", at, shape)
	u.must(len(body.List) == 1, body, shape)
	r, ok := body.List[0].(*ast.ReturnStmt)
	u.must(ok && len(r.Results) == 1, body, shape)
	c, ok := r.Results[0].(*ast.CallExpr)
	u.must(ok && len(c.Args) == 3 && !c.Ellipsis.IsValid(), r, shape)
	want := map[bool]string{false: "handle4", true: "handle6"}[v6]
	_, shadow := locals.vars[want]
	u.must(isIdent(c.Fun, want) && !shadow && names[0] != want && names[1] != want, c.Fun, "a %s handler must call %s", typ, want)
	un, ok := c.Args[0].(*ast.UnaryExpr)
	u.must(ok && un.Op == token.AND, c.Args[0], shape)
	g, ok := un.X.(*ast.Ident)
	_, shadow = locals.vars[u.src(un.X)]
	u.must(ok && f7tables[g.Name] != "" && !shadow && g.Name != names[0] && g.Name != names[1], c.Args[0], "the table must be one of DHCPv4Records, DHCPv6Records, StaticRecords")
	u.must(isIdent(c.Args[1], names[0]) && isIdent(c.Args[2], names[1]), c, shape)
	return v6, f7tables[g.Name]
}

func (u *f7) wiring() string {
	out := ""
	for _, v6 := range []bool{false, true} {
		sfx := map[bool]string{false: "4", true: "6"}[v6]
		f := u.get("Handler" + sfx)
		is6, table := u.delegate(f.Name, f.Type, f.Body, f7st{})
		u.must(is6 == v6, f.Name, "Handler%s has the parameters of the other protocol", sfx)
		out += def("the exported `Handler"+sfx+"`: the table it hands to `handle"+sfx+"` (read from its body).",
			"handler"+sfx+" (s : State) (req : Req"+sfx+") : Out"+sfx, "handle"+sfx+" s."+table+" req")
	}
	// setupFile: `h := func(req, resp T) (T, bool) { return handleN(&G, req, resp) }` … `return h6, h4, nil`
	f := u.get("setupFile")
	ps := u.signature(f, f.Type, "handler.Handler6", "handler.Handler4", "error")
	st := f7st{vars: map[string]f7local{}}
	for _, p := range ps {
		st = st.with(p.id.Name, f7local{"param", ""})
	}
	closures := map[string][2]string{} // Go name ↦ protocol, table
	for i, s := range f.Body.List {
		last := i == len(f.Body.List)-1
		if r, ok := s.(*ast.ReturnStmt); ok && last {
			u.must(len(r.Results) == 3 && u.isNil(r.Results[2], st), r, "setupFile must end in `return <handler6>, <handler4>, nil`")
			for j, sfx := range []string{"6", "4"} {
				id, ok := r.Results[j].(*ast.Ident)
				u.must(ok && closures[id.Name][0] == sfx, r.Results[j], "result %d of setupFile must be a DHCPv%s handler defined as `func(req, resp …) … { return handle%s(&<table>, req, resp) }`", j+1, sfx, sfx)
				out += def("the DHCPv"+sfx+" handler `setupFile` returns (result "+strconv.Itoa(j+1)+", the one `setup"+sfx+"` registers): the table it hands to `handle"+sfx+"`.",
					"served"+sfx+" (s : State) (req : Req"+sfx+") : Out"+sfx, "handle"+sfx+" s."+closures[id.Name][1]+" req")
			}
			continue
		}
		u.must(!last, s, "setupFile must end in `return <handler6>, <handler4>, nil`")
		a, ok := s.(*ast.AssignStmt)
		if !ok {
			// not looked at (argument checks, the watcher); but the names of the closures must not be assigned there
			ast.Inspect(s, func(n ast.Node) bool {
				if as, ok := n.(*ast.AssignStmt); ok {
					for _, l := range as.Lhs {
						if id, ok := l.(*ast.Ident); ok {
							_, isClosure := closures[id.Name]
							u.must(!isClosure, as, "a handler variable is assigned again")
						}
					}
				}
				return true
			})
			continue
		}
		for j, l := range a.Lhs {
			id, ok := l.(*ast.Ident)
			if !ok {
				continue
			}
			_, again := closures[id.Name]
			u.must(!again, a, "a handler variable is assigned again")
			if len(a.Lhs) == len(a.Rhs) {
				if lit, ok := a.Rhs[j].(*ast.FuncLit); ok && a.Tok == token.DEFINE {
					is6, table := u.delegate(lit, lit.Type, lit.Body, st)
					closures[id.Name] = [2]string{map[bool]string{false: "4", true: "6"}[is6], table}
				}
			}
			st = st.with(id.Name, f7local{"local", ""})
		}
	}
	// setup6 / setup4 pick result 1 / 2 of setupFile(true / false, args...)
	for j, sfx := range []string{"6", "4"} {
		f := u.get("setup" + sfx)
		shape := "expected `" + []string{"h, _, err", "_, h, err"}[j] + " := setupFile(" + []string{"true", "false"}[j] + ", args...)`; `return h, err`"
		u.must(len(f.Body.List) == 2 && len(f.Type.Params.List) == 1 && len(f.Type.Params.List[0].Names) == 1, f.Name, shape)
		args := f.Type.Params.List[0].Names[0].Name
		a, ok := f.Body.List[0].(*ast.AssignStmt)
		u.must(ok && a.Tok == token.DEFINE && len(a.Lhs) == 3 && len(a.Rhs) == 1, f.Body.List[0], shape)
		c, ok := a.Rhs[0].(*ast.CallExpr)
		u.must(ok && isIdent(c.Fun, "setupFile") && len(c.Args) == 2 && c.Ellipsis.IsValid() && isIdent(c.Args[0], []string{"true", "false"}[j]) && isIdent(c.Args[1], args) &&
			args != "setupFile" && args != "true" && args != "false", a, shape)
		h, e := u.src(a.Lhs[j]), u.src(a.Lhs[2])
		u.must(isIdent(a.Lhs[1-j], "_") && h != "_" && e != "_" && h != e, a, shape)
		u.must(u.src(f.Body.List[1]) == "return "+h+", "+e, f.Body.List[1], shape)
	}
	// Plugin = plugins.Plugin{… Setup6: setup6, Setup4: setup4}
	pv := u.pkgVars["Plugin"]
	u.must(pv != nil && len(pv.Values) == 1, u.get("setupFile").Name, "var Plugin = plugins.Plugin{…} not found")
	cl, ok := pv.Values[0].(*ast.CompositeLit)
	u.must(ok, pv, "var Plugin = plugins.Plugin{…} not found")
	found := 0
	for _, e := range cl.Elts {
		if kv, ok := e.(*ast.KeyValueExpr); ok {
			switch u.src(kv.Key) {
			case "Setup6", "Setup4":
				u.must(u.src(kv.Value) == strings.ToLower(u.src(kv.Key)), kv, "%s must be %s", u.src(kv.Key), strings.ToLower(u.src(kv.Key)))
				found++
			}
		}
	}
	u.must(found == 2, pv, "Plugin must register Setup6: setup6 and Setup4: setup4")
	return out
}

// ------------------------------------------------------------------ the unit

const gen7Header = `-- GENERATED by harness gen -unit fileplugin from plugins/file/plugin.go — do not edit
-- Regenerated from the Go source on every run; Props/GenFilePlugin.lean proves these definitions equal to
-- the hand-written model in Model/File.lean (loadFile, FState.load, FState.query4, FState.query6).
import CoreDhcp.Model.File
set_option linter.unusedVariables false
namespace CoreDhcp.GenFile

/-! Fixed vocabulary (not derived from the source; the table is in the header of gen7.go).
The library calls are inputs: a line reaches the loaders as the answers of the calls made on it. -/

/-- one line of the lease file, as the answers of the library calls the loaders make on it -/
structure Line where
  /-- ` + "`len(line) == 0`" + ` -/
  len0 : Bool
  /-- ` + "`strings.HasPrefix(line, \"#\")`" + ` -/
  hash : Bool
  /-- ` + "`len(strings.Fields(line))`" + ` -/
  nfields : Nat
  /-- ` + "`net.ParseMAC(tokens[0])`" + `: ` + "`none`" + ` = error; the bytes are also what ` + "`hwaddr.String()`" + ` renders (injective) -/
  mac : Option (List Nat)
  /-- ` + "`net.ParseIP(tokens[1])`" + ` -/
  ip : IPKind
deriving DecidableEq, Repr

/-- ` + "`ip.To4() == nil`" + `: everything but a dotted or IPv4-mapped address -/
def to4Nil : IPKind → Bool
  | .v4 _ => false
  | _ => true

/-- ` + "`ip.To16() == nil`" + `: only the nil address (what ` + "`net.ParseIP`" + ` returns is nil or 16 bytes long) -/
def to16Nil : IPKind → Bool
  | .none => true
  | _ => false

`

const gen7Types = `/-- how the body of the line loop ends for one line -/
inductive Flow
  | next (records : FTable)
  | ret (r : FTable × Option LoadErr)

/-- the package-level tables: DHCPv4Records, DHCPv6Records, StaticRecords (a nil map reads like an empty one) -/
structure State where
  t4 : FTable := []
  t6 : FTable := []
  static : FTable := []
deriving Repr

/-- a DHCPv4 request as ` + "`handle4`" + ` sees it: ` + "`req.ClientHWAddr`" + ` -/
structure Req4 where
  chaddr : List Nat
deriving DecidableEq, Repr

/-- the inner message of a DHCPv6 request as ` + "`handle6`" + ` sees it: ` + "`m.Options.OneIANA() != nil`" + ` -/
structure Inner6 where
  hasIANA : Bool
deriving DecidableEq, Repr

/-- a DHCPv6 request as ` + "`handle6`" + ` sees it: ` + "`req.GetInnerMessage()`" + ` and ` + "`dhcpv6.ExtractMAC(req)`" + ` (` + "`none`" + ` = error) -/
structure Req6 where
  inner : Option Inner6
  mac : Option (List Nat)
deriving DecidableEq, Repr

/-- what ` + "`handle4`" + ` did to the response it was given -/
inductive Eff4
  | unchanged
  /-- ` + "`resp.YourIPAddr = ip`" + ` -/
  | yiaddr (ip : IPKind)
deriving DecidableEq, Repr

/-- what ` + "`handle6`" + ` did to the response it was given -/
inductive Eff6
  | unchanged
  /-- ` + "`resp.AddOption`" + ` of an IA_NA with the IAID of the request's IA_NA and one address with these lifetimes (seconds) -/
  | iana (ip : IPKind) (preferred valid : Nat)
deriving DecidableEq, Repr

/-- what a handler returns: the response (` + "`none`" + ` = nil) and the stop flag -/
abbrev Out4 := Option Eff4 × Bool
abbrev Out6 := Option Eff6 × Bool

`

func runGen7(srcPath, outPath string) {
	die := func(a ...interface{}) {
		fmt.Fprintln(os.Stderr, append([]interface{}{"gen:"}, a...)...)
		os.Exit(2)
	}
	if srcPath == "" {
		srcPath = filePluginSrc
	}
	u := &f7{gen: &gen{fset: token.NewFileSet()}, imports: map[string]string{}, pkgVars: map[string]*ast.ValueSpec{},
		funcs: map[string]*ast.FuncDecl{}, errsSeen: map[string]bool{}, loaders: map[string]string{}}
	file, err := parser.ParseFile(u.fset, srcPath, nil, parser.SkipObjectResolution)
	if err != nil {
		die("parse:", err)
	}
	for _, im := range file.Imports {
		p, _ := strconv.Unquote(im.Path.Value)
		name := filepath.Base(p)
		if im.Name != nil {
			name = im.Name.Name
		}
		u.must(name != "." && name != "_", im, "dot and blank imports unsupported")
		u.imports[name] = p
		if want, ok := f7pkgs[name]; ok {
			u.must(p == want, im, "package name %s stands for %s in the vocabulary", name, want)
		}
	}
	for _, d := range file.Decls {
		switch d := d.(type) {
		case *ast.FuncDecl:
			if d.Recv == nil {
				u.must(u.funcs[d.Name.Name] == nil, d.Name, "function declared twice")
				u.funcs[d.Name.Name] = d
			}
		case *ast.GenDecl:
			if d.Tok != token.VAR && d.Tok != token.CONST {
				continue
			}
			for _, sp := range d.Specs {
				v := sp.(*ast.ValueSpec)
				for _, n := range v.Names {
					u.pkgVars[n.Name] = v
				}
			}
		}
	}
	// the package-level declarations the vocabulary relies on
	lk := u.pkgVars["recLock"]
	u.must(lk != nil && lk.Type != nil && u.src(lk.Type) == "sync.RWMutex" && len(lk.Values) == 0 && u.imports["sync"] == "sync", file.Name, "`var recLock sync.RWMutex` not found")
	for g := range f7tables {
		v := u.pkgVars[g]
		u.must(v != nil && v.Type != nil && u.src(v.Type) == "map[string]net.IP" && len(v.Values) == 0, file.Name, "`var %s map[string]net.IP` not found", g)
	}
	for b := range f7builtins {
		u.must(u.pkgVars[b] == nil && u.funcs[b] == nil && u.imports[b] == "", file.Name, "the builtin `%s` is redefined", b)
	}
	body := u.loader("LoadDHCPv4Records", "4")
	body += u.loader("LoadDHCPv6Records", "6")
	body += u.handler("handle4", false)
	body += u.handler("handle6", true)
	body += u.loadFromFile()
	body += u.wiring()
	// the error type: the texts met in the source, in the order of the table
	errs := "/-- the errors of the loaders and of loadFromFile: one constructor per text found in the source -/\ninductive LoadErr\n" +
		"  /-- the error of `os.ReadFile`, returned as it is -/\n  | readFile\n"
	for _, e := range f7errs {
		if u.errsSeen[e.ctor] {
			errs += "  /-- `fmt.Errorf(" + strconv.Quote(e.text) + ", …)` -/\n  | " + e.ctor + e.sig + "\n"
		}
	}
	errs += "deriving DecidableEq, Repr\n\n"
	out := gen7Header + errs + gen7Types + body + "end CoreDhcp.GenFile\n"
	if err := os.WriteFile(outPath, []byte(out), 0o644); err != nil {
		die(err)
	}
	fmt.Printf("gen: wrote %s (%d bytes) from %s\n", outPath, len(out), srcPath)
}
