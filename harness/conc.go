package main

// Concurrent batches (C16). Each batch runs k operations from k goroutines released together on
// the real code, then writes their outcomes to the trace in a canonical one-at-a-time order that
// is a valid linearisation whenever one exists (successes before failures for "take one of the
// remaining" batches). The ordinary drivers then judge the trace: if no serial order explains the
// outcomes, the model diverges or a monitor fails.

import (
	"fmt"
	"math/big"
	"net"
	"sort"
	"strings"
	"sync"
	"time"

	"github.com/coredhcp/coredhcp/plugins/allocators"
	"github.com/coredhcp/coredhcp/plugins/allocators/bitmap"
)

func init() {
	engines["allocc"] = &engine{gen: genAllocConc, replay: replayAlloc}
	engines["rangec"] = &engine{gen: genRangeConc, replay: replayRange}
	engines["prefixc"] = &engine{gen: genPrefixConc, replay: replayPrefix}
	engines["dispatch4c"] = &engine{gen: genDispatch4Conc, replay: replayDispatch}
}

// together runs the functions concurrently, released by one barrier
func together(fs []func() string) []string {
	out := make([]string, len(fs))
	var wg sync.WaitGroup
	start := make(chan struct{})
	for i, f := range fs {
		wg.Add(1)
		go func(i int, f func() string) {
			defer wg.Done()
			<-start
			out[i] = f()
		}(i, f)
	}
	close(start)
	done := make(chan struct{})
	go func() { wg.Wait(); close(done) }()
	select {
	case <-done:
	case <-time.After(20 * time.Second):
		for i := range out {
			if out[i] == "" {
				out[i] = "HANG"
			}
		}
	}
	return out
}

type opres struct{ op, res string }

func genAllocConc(c *ctx) {
	for c.count < c.n {
		v6 := c.rng.Intn(2) == 0
		s := &allocState{}
		var nblocks int
		var mk func() allocators.Allocator // another allocator like the one under test, not traced
		if v6 {
			cfg := []pool6cfg{{56, 58}, {56, 60}, {60, 66}, {120, 125}, {62, 64}}[c.rng.Intn(5)]
			base := c.pat128()
			k := uint(128 - cfg.poolLen)
			base.Rsh(base, k).Lsh(base, k)
			if s.exec(c, fmt.Sprintf("new6 %s %d %d", hx(bigToIP(base)), cfg.poolLen, cfg.page)) != "ok" {
				continue
			}
			nblocks = 1 << uint(cfg.page-cfg.poolLen)
			pool := net.IPNet{IP: bigToIP(base), Mask: net.CIDRMask(cfg.poolLen, 128)}
			page := cfg.page
			mk = func() allocators.Allocator {
				a, err := bitmap.NewBitmapAllocator(pool, page)
				if err != nil {
					return nil
				}
				return a
			}
		} else {
			size := []uint32{4, 16, 64, 65}[c.rng.Intn(4)]
			start := uint32(c.rng.Int63n(int64(^uint32(0) - size)))
			if s.exec(c, fmt.Sprintf("new4 %s %s", hx(u32ip(start)), hx(u32ip(start+size-1)))) != "ok" {
				continue
			}
			nblocks = int(size)
			a0, a1 := u32ip(start), u32ip(start+size-1)
			mk = func() allocators.Allocator {
				a, err := bitmap.NewIPv4Allocator(a0, a1)
				if err != nil {
					return nil
				}
				return a
			}
		}
		noHint := "alloc - 0 0"
		if !v6 {
			noHint = "alloc - 32 32"
		}
		var held []net.IPNet
		if c.rng.Intn(2) == 0 && nblocks >= 2 {
			// the very first calls of a fresh allocator, at once (round 9: a bitmap created lazily outside the lock): the
			// blocks handed out are pairwise different. 600 fresh allocators like the one under test, k callers each
			k := 2 + c.rng.Intn(7)
			fresh := "ok"
			for round := 0; round < 600 && fresh == "ok"; round++ {
				a := mk()
				if a == nil {
					break
				}
				fs := make([]func() string, k)
				res := make([]net.IPNet, k)
				errs := make([]error, k)
				for i := range fs {
					i := i
					fs[i] = func() string { res[i], errs[i] = a.Allocate(net.IPNet{}); return "done" }
				}
				for _, st := range together(fs) {
					if st == "HANG" {
						fresh = "HANG"
					}
				}
				seen := map[string]bool{}
				for i := range res {
					if errs[i] == nil {
						if seen[res[i].String()] {
							fresh = fmt.Sprintf("dup %s handed out twice by the first calls of a fresh allocator (round %d)", fmtAllocRes(res[i], nil)[3:], round)
						}
						seen[res[i].String()] = true
					}
				}
			}
			c.emit(fmt.Sprintf("achurn %d 0", k), fresh)
		}
		// fill up to a random level sequentially
		fill := c.rng.Intn(nblocks + 1)
		for i := 0; i < fill && c.count < c.n && !s.wedged; i++ {
			var n net.IPNet
			var err error
			if watchdog(20*time.Second, func() string { n, err = s.a.Allocate(net.IPNet{}); return "done" }) == "HANG" {
				c.emit(noHint, "HANG")
				s.wedged = true
				break
			}
			c.emit(noHint, fmtAllocRes(n, err))
			if err == nil {
				held = append(held, n)
			}
		}
		if s.wedged {
			continue // a call that does not come back: this allocator is not used any more
		}
		// many rounds of k callers naming the SAME block (or none) at once: the blocks handed out in
		// a round must be pairwise different; everything is freed again after each round
		if len(held) < nblocks && c.count < c.n {
			hint := "- 0 0"
			if !v6 {
				hint = "- 32 32"
			}
			if c.rng.Intn(3) != 0 && len(held) > 0 {
				// a block that is free right now: free one we hold and name it
				v := held[len(held)-1]
				ones, bits := v.Mask.Size()
				if s.exec(c, fmt.Sprintf("free %s %d %d", hx(v.IP), ones, bits)) == "ok" {
					held = held[:len(held)-1]
					hint = fmt.Sprintf("%s %d %d", hx(v.IP), ones, bits)
				}
			}
			s.exec(c, fmt.Sprintf("arace %s %d %d", hint, 2+c.rng.Intn(7), 400))
			s.exec(c, fmt.Sprintf("afrace %d %d", 2+c.rng.Intn(5), 400))
			s.exec(c, fmt.Sprintf("achurn %d %d", 4+c.rng.Intn(13), 300))
			s.exec(c, fmt.Sprintf("ahchurn %d %d", 4+c.rng.Intn(9), 3000))
		}
		for round := 0; round < 4 && c.count < c.n && !s.wedged; round++ {
			if c.rng.Intn(2) == 0 || len(held) == 0 {
				// k parallel allocations racing for what is left
				k := 2 + c.rng.Intn(14)
				fs := make([]func() string, k)
				res := make([]net.IPNet, k)
				errs := make([]error, k)
				for i := range fs {
					i := i
					fs[i] = func() string { res[i], errs[i] = s.a.Allocate(net.IPNet{}); return "done" }
				}
				st := together(fs)
				var ok, bad []string
				for i := range fs {
					if st[i] == "HANG" {
						bad = append(bad, "HANG")
						s.wedged = true
						continue
					}
					r := fmtAllocRes(res[i], errs[i])
					if errs[i] == nil {
						ok = append(ok, r)
						held = append(held, res[i])
					} else {
						bad = append(bad, r)
					}
				}
				sort.Strings(ok)
				c.batch(k)
				for _, r := range ok {
					c.emit(noHint, r)
				}
				for _, r := range bad {
					c.emit(noHint, r)
				}
			} else {
				// parallel frees: distinct outstanding blocks, some named twice
				k := 1 + c.rng.Intn(len(held))
				if k > 8 {
					k = 8
				}
				c.rng.Shuffle(len(held), func(a, b int) { held[a], held[b] = held[b], held[a] })
				targets := append([]net.IPNet(nil), held[:k]...)
				if c.rng.Intn(2) == 0 {
					targets = append(targets, held[0], held[k-1])
				}
				fs := make([]func() string, len(targets))
				for i := range fs {
					i := i
					fs[i] = func() string { return fmtFreeRes(s.a.Free(targets[i])) }
				}
				st := together(fs)
				for _, x := range st {
					if x == "HANG" {
						s.wedged = true
					}
				}
				c.batch(len(targets))
				// per block: the successful call first
				order := make([]int, len(targets))
				for i := range order {
					order[i] = i
				}
				sort.SliceStable(order, func(a, b int) bool { return st[order[a]] == "ok" && st[order[b]] != "ok" })
				for _, i := range order {
					ones, bits := targets[i].Mask.Size()
					c.emit(fmt.Sprintf("free %s %d %d", hx(targets[i].IP), ones, bits), st[i])
				}
				held = held[k:]
			}
		}
	}
}

var _ = allocators.ErrNoAddrAvail

func genRangeConc(c *ctx) {
	s := &rangeState{}
	defer s.close()
	for c.count < c.n {
		size := []uint32{3, 4, 8, 16}[c.rng.Intn(4)]
		start := uint32(c.rng.Int63n(int64(^uint32(0) - size)))
		if s.exec(c, fmt.Sprintf("rsetup %s %s %d", hx(u32ip(start)), hx(u32ip(start+size-1)), int64(3600e9))) != "ok" {
			continue
		}
		var known [][]byte
		nknown := c.rng.Intn(int(size))
		for i := 0; i < nknown; i++ {
			m := make([]byte, 6)
			c.rng.Read(m)
			if strings.HasPrefix(s.exec(c, fmt.Sprintf("rreq D %s -", hx(m))), "reply") {
				known = append(known, m)
			}
		}
		for round := 0; round < 3 && c.count < c.n; round++ {
			k := 2 + c.rng.Intn(10)
			macs := make([][]byte, k)
			for i := range macs {
				if len(known) > 0 && c.rng.Intn(3) == 0 {
					macs[i] = known[c.rng.Intn(len(known))]
				} else if i > 0 && c.rng.Intn(5) == 0 {
					macs[i] = macs[i-1] // the same new client twice, concurrently
				} else {
					macs[i] = make([]byte, 6)
					c.rng.Read(macs[i])
				}
			}
			type r struct {
				t0, t1 int64
				res    string
			}
			rs := make([]r, k)
			fs := make([]func() string, k)
			for i := range fs {
				i := i
				fs[i] = func() string {
					rs[i].t0 = vnow()
					rs[i].res = askOne(s.h, "D", macs[i], nil)
					rs[i].t1 = vnow()
					return "done"
				}
			}
			st := together(fs)
			c.batch(k)
			// replies first (ordered by completion time), drops last
			order := make([]int, k)
			for i := range order {
				order[i] = i
			}
			sort.SliceStable(order, func(a, b int) bool {
				ra, rb := rs[order[a]], rs[order[b]]
				da, db := strings.HasPrefix(ra.res, "reply"), strings.HasPrefix(rb.res, "reply")
				if da != db {
					return da
				}
				return ra.t1 < rb.t1
			})
			for _, i := range order {
				res := rs[i].res
				if st[i] == "HANG" {
					res = "HANG"
				}
				// rows are read after the batch: the stored expiry may stem from a later request of the same client
				c.emit(fmt.Sprintf("rreq D %s -", hx(macs[i])), fmt.Sprintf("%d %d %s rows ?", rs[i].t0, rs[i].t1, res))
				if strings.HasPrefix(res, "reply") {
					known = append(known, macs[i])
				}
			}
			// a crash point right after the burst: every client that was answered must be restored (C03)
			if c.rng.Intn(2) == 0 && len(known) > 0 {
				var ask []string
				seen := map[string]bool{}
				for _, m := range known {
					if !seen[hx(m)] && len(ask) < 10 {
						seen[hx(m)] = true
						ask = append(ask, hx(m))
					}
				}
				if !strings.HasPrefix(s.exec(c, "rrestart "+strings.Join(ask, " ")), "ok") {
					break
				}
			}
		}
	}
}

func genPrefixConc(c *ctx) {
	for c.count < c.n {
		if c.rng.Intn(4) == 0 {
			// retransmissions in flight: a large pool, many new clients, each sending its first SOLICIT k times at once
			s := &prefixState{}
			if s.exec(c, fmt.Sprintf("psetup %s %s", hx([]byte("2001:db8:100::/48")), hx([]byte("64")))) == "ok" {
				s.exec(c, fmt.Sprintf("prace %d %d", 2+c.rng.Intn(6), 300))
			}
			continue
		}
		s := &prefixState{}
		cfg := []pool6cfg{{62, 64}, {61, 64}, {60, 64}, {125, 128}}[c.rng.Intn(4)]
		base := new(big.Int).SetBytes(net.ParseIP("2001:db8:0:40::").To16())
		if cfg.poolLen > 64 {
			base = new(big.Int).SetBytes(net.ParseIP("2001:db8::40").To16())
			kk := uint(128 - cfg.poolLen)
			base.Rsh(base, kk).Lsh(base, kk)
		}
		if s.exec(c, fmt.Sprintf("psetup %s %s", hx([]byte(fmt.Sprintf("%s/%d", bigToIP(base), cfg.poolLen))), hx([]byte(fmt.Sprint(cfg.page))))) != "ok" {
			continue
		}
		nblocks := 1 << uint(cfg.page-cfg.poolLen)
		// leave 1..4 blocks free
		left := 1 + c.rng.Intn(4)
		if c.rng.Intn(3) != 0 {
			left = nblocks // no sequential prelude: the whole history is the race
		}
		if left > nblocks {
			left = nblocks
		}
		for i := 0; i < nblocks-left && c.count < c.n; i++ {
			s.exec(c, fmt.Sprintf("pmsg fe%06x 0 1 iapd 00000001 0", 0x100000+i))
		}
		k := 3 + c.rng.Intn(6)
		ops := make([]string, k)
		unit := new(big.Int).Lsh(big.NewInt(1), uint(128-cfg.page))
		blk := func() string {
			return hx(bigToIP(new(big.Int).Add(base, new(big.Int).Mul(unit, big.NewInt(int64(c.rng.Intn(nblocks)))))))
		}
		for i := range ops {
			// two IA_PDs that each need a block of their own (a hint-less second IA_PD would just be
			// answered with the lease of the first)
			ops[i] = fmt.Sprintf("pmsg fd%06x 0 2 iapd 00000001 1 hint p %s %d iapd 00000002 1 hint p %s %d", c.rng.Intn(1<<24), blk(), cfg.page, blk(), cfg.page)
		}
		type r struct {
			t0, t1 int64
			res    string
		}
		rs := make([]r, k)
		fs := make([]func() string, k)
		for i := range fs {
			i := i
			fs[i] = func() string {
				rs[i].t0 = vnow()
				rs[i].res = s.rawMsg(strings.Fields(ops[i])[1:])
				rs[i].t1 = vnow()
				return "done"
			}
		}
		together(fs)
		c.note(fmt.Sprintf("%d SOLICITs with two IA_PDs each, %d blocks free", k, left))
		c.batch(k)
		npfx := func(res string) int { return strings.Count(res, " 128 3") + strings.Count(res, " 128 2") }
		order := make([]int, k)
		for i := range order {
			order[i] = i
		}
		sort.SliceStable(order, func(a, b int) bool { return npfx(rs[order[a]].res) > npfx(rs[order[b]].res) })
		for _, i := range order {
			c.emit(ops[i], fmt.Sprintf("%d %d %s", rs[i].t0, rs[i].t1, rs[i].res))
		}
	}
}

func genDispatch4Conc(c *ctx) {
	// generate the operations with the sequential generator into a buffer, then execute them in
	// concurrent batches through the hook (which takes its receive buffer from the shared pool as Serve does)
	for c.count < c.n {
		var ops [][]string
		sub := &ctx{rng: c.rng, n: 16, tier: c.tier, out: nil}
		_ = sub
		for i := 0; i < 16; i++ {
			ops = append(ops, c.oneDg4())
		}
		res := make([]string, len(ops))
		fs := make([]func() string, len(ops))
		for i := range fs {
			i := i
			fs[i] = func() string { res[i] = dg4Result(ops[i], false); return "done" }
		}
		together(fs)
		// dispatch is stateless: any order explains correct outcomes; one wrong outcome is explained by none
		c.batch(len(ops))
		for i := range ops {
			c.emit(strings.Join(ops[i], " "), res[i])
		}
	}
}
