// gen11.go — `harness gen -unit setups`: the start-up (argument validation) functions of the option
// plugins, regenerated as Lean definitions (namespace CoreDhcp.GenSetup, file
// CoreDhcp/Generated/Setups.lean) from the go/ast of
//
//	plugins/mtu/plugin.go            setup4                       ↦ GenSetup.mtu4
//	plugins/netmask/plugin.go        setup4                       ↦ GenSetup.netmask4
//	plugins/router/plugin.go         setup4                       ↦ GenSetup.router4 (+ router4From)
//	plugins/dns/plugin.go            setup4, setup6               ↦ GenSetup.dns4, dns6 (+ …From)
//	plugins/leasetime/plugin.go      setup4                       ↦ GenSetup.leasetime4
//	plugins/searchdomains/plugin.go  checkDomains, setup4, setup6 ↦ GenSetup.searchdomains_checkDomains, searchdomains4/6
//	plugins/staticroute/plugin.go    setup4                       ↦ GenSetup.staticroute4
//	plugins/ipv6only/plugin.go       setup4                       ↦ GenSetup.ipv6only4 (+ …From)
//	plugins/autoconfigure/plugin.go  argMap, setup4               ↦ GenSetup.autoconfigure_argMap, autoconfigure4 (+ …From)
//	plugins/sleep/plugin.go          setup4, setup6               ↦ GenSetup.sleep4, sleep6
//	plugins/serverid/plugin.go       setup4, setup6               ↦ GenSetup.serverid4, serverid6
//	plugins/nbp/nbp.go               parseArgs, setup4, setup6    ↦ GenSetup.nbp_parseArgs, nbp4, nbp6 (+ …From)
//
// Props/GenSetups.lean proves every generated set-up equal to the hand-written model
// (Model/OptPlug.lean, `Plug.<plugin>.setup`), errors collapsed to `()`.
// `-src plugin=file.go[,plugin=file.go…]` reads the named plugins from other files (negative tests).
//
// Every generated set-up has the form
//
//	def GenSetup.<plugin><4|6> (args : List Plug.ArgOracle) : Except GenSetup.Err <configuration>
//
// where the configuration is the value of the plugin's package-level configuration variables at the
// successful return (for sleep: the argument of makeSleepHandlerN).  A set-up that READS such a variable
// before writing it (router, dns: `append(routers, …)`; ipv6only, autoconfigure: no argument; nbp: a
// pointer that one branch leaves alone) is generated as `<name>From <initial values> args`, and
// `<name> args` is `<name>From <Go zero values> args`: the package-level variables are ASSUMED to hold their
// zero values at the first set-up (the harness runs each configuration in a fresh process for that reason).
//
// Like the other units the translator knows ONLY what these functions use and fails loudly (source
// position, exit code 2) on everything else.
//
// DERIVED FROM THE AST
//   - the arity tests (`len(args) != 1`, `< 1`, `> 0`, `> 1`, `< 2`): operator, number, position
//   - the order of all validations, which of them return, and what each returns: `return nil, e` ↦ failNil e,
//     `return Handler4, e` ↦ failWithHandler e (Go quirk: a non-nil handler WITH an error — the caller,
//     plugins.LoadPlugins, looks at `err != nil` only; both are `.error e`), `return <handler>, nil` ↦ .ok
//   - which standard-library parser is applied to WHICH argument (`args[i]` with i a literal that a length
//     test dominates, or the loop variable), and what is done with the result: `.To4()`, `.To16()`,
//     `== nil`, `.IsUnspecified()`, the bytes handed to net.IPv4Mask, checkValidNetmask, the error test
//   - loops `for _, x := range …`: one definition for the body (`.ok acc` = next round, an error return ends
//     the set-up) folded over the list with `forEach`; nested loops (checkDomains) likewise
//   - `switch` on a string ↦ an `if … ∨ …` chain in source order, default last
//   - helper functions of the same file (checkDomains, parseArgs) are translated as definitions of their own
//   - what is stored in the configuration variables, on every path (no joins: the rest of a block is
//     duplicated into the arms of an `if` / `switch` that falls through)
//   - autoconfigure's `argMap`: keys and values of the map literal, values read from the library source
//   - option codes of dhcpv4.OptX / dhcpv6.OptX constructors: read from the library source
//   - the text of every error (`errors.New("…" + …)`, `fmt.Errorf("…", …)`: the leading literal)
//
// FIXED VOCABULARY (the meaning of a recognised Go expression)
//
//	Go                                               Lean
//	-----------------------------------------------  -------------------------------------------------
//	args (the variadic parameter)                    args : List Plug.ArgOracle; as a []string: rawArgs args
//	len(args) · args[i]                              args.length · arg args i   (i < a known lower bound of len(args))
//	a string variable holding an argument            a.raw where its bytes are needed
//	"literal"                                        Plug.strBytes "literal"   (UTF-8 bytes; printable ASCII only)
//	len(s), s a string · s == t                      s.length · s = t
//	net.ParseIP(a), a an unmodified argument         a.ip : Option Plug.IpLit   (nil ↦ none)
//	ip.To4() · ip.To16()                             ipTo4 ip = ip.bind Plug.IpLit.to4 · ipTo16 ip = ip.map Plug.IpLit.to16
//	ip.IsUnspecified()                               ipIsUnspecified ip   (false for nil)
//	x == nil / x != nil, x a net.IP / pointer / DUID x = none / x ≠ none
//	`if v == nil {…}`, v a local holding a To4()     match v with | none => … | some b => …   (b : the bytes)
//	b[i], b such bytes · net.IPv4Mask(w, x, y, z)    byteAt b i · ipv4Mask w x y z = [w, x, y, z]
//	checkValidNetmask(m)                             Plug.netmask.checkValid m   (the model's; its own tie is unit `netmask`)
//	strconv.Atoi(a)                                  a.int   (none = err != nil)
//	time.ParseDuration(a)                            a.dur   (nanoseconds; none = err != nil)
//	n <op> k, n an int / time.Duration variable      n <op> k  (Int)  — the range tests of mtu, lease_time, ipv6only
//	math.MaxUint16 · math.MaxUint32 · time.Second    65535 · 4294967295 · 1000000000   (stated facts about the standard library:
//	                                                 1<<16 - 1, 1<<32 - 1, the nanoseconds of one second)
//	c * d, both constants                            c * d   (a product that is not evaluated: the factors stay visible)
//	net.ParseMAC(a)                                  a.mac   (none = err != nil)
//	v, err := f(a); if err != nil {A}; B             match a.<oracle> with | none => A | some v => B
//	strings.Split(a, ","), a an argument             a.sr : Plug.SrOracle;  len(fields) ↦ f.fields
//	net.ParseCIDR(fields[0]) (2nd result)            f.cidr : Option Plug.Cidr   — only where len(fields) == 2 is known
//	net.ParseIP(fields[1])                           f.router : Option Plug.IpLit — likewise
//	n.IP.To4(), n a ParseCIDR network                Plug.cidrTo4 c.ip
//	len(n.Mask) <op> k                               c.bits <op> 8 * k   (`bits` of Mask.Size() is 8·len(Mask) by definition)
//	net.IPv4len · net.IPv6len                        4 · 16
//	&dhcpv4.Route{} + field assignments              { dest := c, router := ip : GenSetup.Route }
//	strings.Split(s, "c"), s any other string        Plug.splitOn <byte of c> s
//	strings.ToLower(s)                               Plug.lowerAscii s   — ASCII ONLY: Go's ToLower is Unicode-aware
//	                                                 ("DUİD-LL" lowers to "duid-ll" in Go, not in the model)
//	url.Parse(a)                                     a.url : Option Plug.UrlOracle   (none = err != nil)
//	u.Scheme · u.Host · u.Path · u.String()          u.scheme · u.host · u.path · u.str
//	u.Query().Get("params")                          u.params
//	dhcpv4.OptX(s), X a string option                (code, s) : Nat × Plug.Bytes, code read from the library source
//	dhcpv6.OptBootFileURL(s)                         (59, s)                         codes read from the library source
//	dhcpv6.OptBootFileParam(p)                       (60, Plug.encBootParams [p])    (one parameter)
//	p = &v, v a local dhcpv4.Option                  some <value of v now>; v may not be assigned afterwards
//	g = o, g a dhcpv6.Option, o an option            some o
//	&dhcpv6.DUIDLL{HWType: iana.HWTypeEthernet,      some (Plug.encDuidLL mac)
//	    LinkLayerAddr: mac}
//	&dhcpv6.DUIDLLT{…, Time: 0}                      some (Plug.encDuidLLT mac)
//	argMap[s] (two results)                          lookupStr <plugin>_argMap s   (none = !ok)
//	dhcpv4.AutoConfiguration(k) · dhcpv4.<const>     k · the number in the library source
//	append(l, x)                                     l ++ [x]
//	make(dhcpv4.Routes, 0)                           []
//	package-level configuration variable             its value on the path; Lean type from the Go type:
//	   int, time.Duration ↦ Int · net.IPMask ↦ Plug.Bytes · net.IP ↦ Option Plug.Bytes (nil ↦ none) ·
//	   []net.IP ↦ List (Option Plug.IpLit) · []string ↦ List Plug.Bytes · dhcpv4.Routes ↦ List GenSetup.Route ·
//	   dhcpv4.AutoConfiguration ↦ Nat · *dhcpv4.Option, dhcpv6.Option ↦ Option (Nat × Plug.Bytes) · dhcpv6.DUID ↦ Option Plug.Bytes
//	errors.New(lit + …) · fmt.Errorf(lit, …)         Err.new lit   (further operands must be free of side effects)
//	an error of the standard library passed on       Err.lib "<function>"
//	log.<Level>(…)                                   nothing — only as a statement, only on the package's
//	   `log = logger.GetLogger(…)`, Level ∈ Print Info Warning Warn Error Debug (+f), and only if every argument is
//	   free of side effects: literals, variables, fields, args[i] (i in range), len(x), x.String(), fmt.Sprintf(…),
//	   a conversion to a builtin integer type
//
// Go names of locals never reach the generated text (Lean names = kind + number along the path): renaming a
// local, reformatting, or moving a log statement regenerates the same file.
package main

import (
	"fmt"
	"go/ast"
	"go/parser"
	"go/token"
	"os"
	"path/filepath"
	"sort"
	"strconv"
	"strings"
)

type s11setup struct {
	fn, lean string
	cfg      []string // package-level variables that make up the configuration, in order
	closure  string   // the function whose call is the handler; its argument is the configuration (sleep)
	model    string
}

type s11plugin struct {
	name, src string
	setups    []s11setup
}

var s11plugins = []s11plugin{
	{"mtu", "/repo/plugins/mtu/plugin.go", []s11setup{{"setup4", "mtu4", []string{"mtu"}, "", "Plug.mtu.setup"}}},
	{"netmask", "/repo/plugins/netmask/plugin.go", []s11setup{{"setup4", "netmask4", []string{"netmask"}, "", "Plug.netmask.setup"}}},
	{"router", "/repo/plugins/router/plugin.go", []s11setup{{"setup4", "router4", []string{"routers"}, "", "Plug.router.setup"}}},
	{"dns", "/repo/plugins/dns/plugin.go", []s11setup{
		{"setup4", "dns4", []string{"dnsServers4"}, "", "Plug.dns4.setup"},
		{"setup6", "dns6", []string{"dnsServers6"}, "", "Plug.dns6.setup"}}},
	{"leasetime", "/repo/plugins/leasetime/plugin.go", []s11setup{{"setup4", "leasetime4", []string{"v4LeaseTime"}, "", "Plug.leasetime.setup"}}},
	{"searchdomains", "/repo/plugins/searchdomains/plugin.go", []s11setup{
		{"setup4", "searchdomains4", []string{"v4SearchList"}, "", "Plug.search.setup"},
		{"setup6", "searchdomains6", []string{"v6SearchList"}, "", "Plug.search.setup"}}},
	{"staticroute", "/repo/plugins/staticroute/plugin.go", []s11setup{{"setup4", "staticroute4", []string{"routes"}, "", "Plug.staticroute.setup"}}},
	{"ipv6only", "/repo/plugins/ipv6only/plugin.go", []s11setup{{"setup4", "ipv6only4", []string{"v6only_wait"}, "", "Plug.ipv6only.setup"}}},
	{"autoconfigure", "/repo/plugins/autoconfigure/plugin.go", []s11setup{{"setup4", "autoconfigure4", []string{"autoconfigure"}, "", "Plug.autoconfigure.setup"}}},
	{"sleep", "/repo/plugins/sleep/plugin.go", []s11setup{
		{"setup4", "sleep4", nil, "makeSleepHandler4", "Plug.sleep.setup"},
		{"setup6", "sleep6", nil, "makeSleepHandler6", "Plug.sleep.setup"}}},
	{"serverid", "/repo/plugins/serverid/plugin.go", []s11setup{
		{"setup4", "serverid4", []string{"v4ServerID"}, "", "Plug.serverid4.setup"},
		{"setup6", "serverid6", []string{"v6ServerID"}, "", "Plug.serverid6.setup"}}},
	{"nbp", "/repo/plugins/nbp/nbp.go", []s11setup{
		{"setup4", "nbp4", []string{"opt66", "opt67"}, "", "Plug.nbp4.setup"},
		{"setup6", "nbp6", []string{"opt59", "opt60"}, "", "Plug.nbp6.setup"}}},
}

// Go type of a configuration variable ↦ kind, Lean type, zero value
var s11types = map[string][3]string{
	"int":                      {"int", "Int", "0"},
	"time.Duration":            {"dur", "Int", "0"},
	"net.IPMask":               {"bytes", "Plug.Bytes", "[]"},
	"net.IP":                   {"obytes", "Option Plug.Bytes", "none"},
	"[]net.IP":                 {"ips", "List (Option Plug.IpLit)", "[]"},
	"[]string":                 {"strs", "List Plug.Bytes", "[]"},
	"dhcpv4.Routes":            {"routes", "List Route", "[]"},
	"dhcpv4.AutoConfiguration": {"ac", "Nat", "0"},
	"*dhcpv4.Option":           {"optptr", "Option (Nat × Plug.Bytes)", "none"},
	"dhcpv6.Option":            {"optif", "Option (Nat × Plug.Bytes)", "none"},
	"dhcpv6.DUID":              {"duid", "Option Plug.Bytes", "none"},
}

// prefix of the Lean names of a value kind
var s11prefix = map[string]string{
	"arg": "a", "ip": "ip", "obytes": "o", "bytes": "b", "int": "n", "dur": "d", "mac": "m", "str": "s", "strs": "ss",
	"sr": "f", "cidr": "c", "url": "u", "ac": "v", "ips": "l", "routes": "l", "optptr": "p", "optif": "p", "duid": "p", "opt": "q", "err": "e",
}

var s11pkgs = map[string]string{
	"dhcpv4": "github.com/insomniacslk/dhcp/dhcpv4", "dhcpv6": "github.com/insomniacslk/dhcp/dhcpv6",
	"iana": "github.com/insomniacslk/dhcp/iana", "logger": "github.com/coredhcp/coredhcp/logger",
	"handler": "github.com/coredhcp/coredhcp/handler",
	"net":     "net", "url": "net/url", "time": "time", "fmt": "fmt", "errors": "errors", "strconv": "strconv", "strings": "strings",
	"math": "math",
}

// numeric constants of the standard library (FIXED VOCABULARY: stated facts, not read from GOROOT); kind durconst = a time.Duration
var s11stdConsts = map[string]sv{
	"math.MaxUint16": {kind: "num", lean: "65535"},
	"math.MaxUint32": {kind: "num", lean: "4294967295"},
	"time.Second":    {kind: "durconst", lean: "1000000000"},
}

// conversions to builtin integer types: free of side effects (arguments of a log call or an error constructor only)
var s11intConvs = set("int", "int32", "int64", "uint", "uint16", "uint32", "uint64")

var s11builtins = set("nil", "true", "false", "len", "cap", "make", "append", "copy", "new", "panic", "delete", "error", "string", "int", "byte", "bool")

// sv: a symbolic value.
type sv struct {
	kind string // arg str strs ip obytes bytes byte int dur mac sr field cidr cidrip cidrmask url ac ips routes opt optptr optif duid
	//               args num nil route errval nilerr boolzero optzero undef outer unit hwtype
	lean   string
	idx    int // field: which one
	dest   *sv // route: Dest
	router *sv // route: Router
}

// pending: the results of a call whose error (or `ok`) has not been tested yet.
type pending struct {
	test    string // Go name of the variable whose test resolves it
	isOK    bool   // that variable is a bool (true = success); otherwise an error (nil = success)
	exc     bool   // the scrutinee is an Except (helper of the same file); otherwise an Option
	scrut   string
	lib     string                  // Option form: the library function, for Err.lib
	valKind string                  // "" = no value
	store   func(*sst, sv) []string // puts the value where the source assigns it (success path)
	fail    func(*sst)              // what the targets hold on the failure path
}

// sst: the symbolic state along one path.
type sst struct {
	vars    map[string]sv
	globs   map[string]sv
	minLen  int             // known lower bound of len(args)
	split2  map[string]bool // Lean names of SrOracle values whose `fields` is known to be 2
	escaped map[string]bool // locals whose address was taken / that were appended to a list
	pend    *pending
	inLoop  bool
}

func (st *sst) clone() *sst {
	n := &sst{vars: map[string]sv{}, globs: map[string]sv{}, minLen: st.minLen, split2: map[string]bool{}, escaped: map[string]bool{}, pend: st.pend, inLoop: st.inLoop}
	for k, v := range st.vars {
		n.vars[k] = v
	}
	for k, v := range st.globs {
		n.globs[k] = v
	}
	for k := range st.split2 {
		n.split2[k] = true
	}
	for k := range st.escaped {
		n.escaped[k] = true
	}
	return n
}

type s11helper struct {
	lean, mode, retKind, param string
}

type s11 struct {
	*gen
	plug    s11plugin
	path    string
	fileOf  *ast.File
	imports map[string]string
	pkgVars map[string]*ast.ValueSpec
	funcs   map[string]*ast.FuncDecl
	consts  map[string]int
	ctors4  map[string]h4ctor
	ctors6  map[string]int // dhcpv6.OptX ↦ code
	helpers map[string]*s11helper
	defs    []string // finished definitions of the current plugin, in order
	maps    map[string]bool
	// the function being translated
	mode    string // setup | herr | hval
	cur     *s11setup
	retKind string
	fnLean  string
	n       int
	nloop   int
}

// ------------------------------------------------------------------ helpers

func s11unparen(x ast.Expr) ast.Expr {
	for {
		p, ok := x.(*ast.ParenExpr)
		if !ok {
			return x
		}
		x = p.X
	}
}

// s11atom parenthesises a Lean term that is not atomic.
func s11atom(s string) string {
	if !strings.Contains(s, " ") {
		return s
	}
	if s[0] == '(' || s[0] == '[' {
		depth := 0
		for i, c := range s {
			switch c {
			case '(', '[':
				depth++
			case ')', ']':
				depth--
				if depth == 0 && i == len(s)-1 {
					return s
				}
				if depth == 0 {
					return "(" + s + ")"
				}
			}
		}
	}
	return "(" + s + ")"
}

func (u *s11) fresh(kind string) string {
	p, ok := s11prefix[kind]
	if !ok {
		p = "x"
	}
	u.n++
	return p + strconv.Itoa(u.n)
}

// leanStr: a Go string as a Lean string literal (printable ASCII only).
func (u *s11) leanStr(at ast.Node, s string) string {
	var b strings.Builder
	b.WriteByte('"')
	for _, c := range []byte(s) {
		u.must(c >= 0x20 && c < 0x7f, at, "string literal with a character outside printable ASCII")
		if c == '"' || c == '\\' {
			b.WriteByte('\\')
		}
		b.WriteByte(c)
	}
	b.WriteByte('"')
	return b.String()
}

func (u *s11) strLit(x ast.Expr) (string, bool) {
	l, ok := s11unparen(x).(*ast.BasicLit)
	if !ok || l.Kind != token.STRING {
		return "", false
	}
	s, err := strconv.Unquote(l.Value)
	u.must(err == nil, x, "unsupported string literal")
	return s, true
}

func (u *s11) intLit(x ast.Expr) (int, bool) {
	l, ok := s11unparen(x).(*ast.BasicLit)
	if !ok || l.Kind != token.INT {
		return 0, false
	}
	v, err := strconv.ParseUint(l.Value, 0, 31)
	u.must(err == nil, x, "unsupported integer literal")
	return int(v), true
}

// named: the identifier has a meaning of its own here (local, configuration variable, package-level name).
func (u *s11) named(name string, st *sst) bool {
	_, l := st.vars[name]
	_, g := st.globs[name]
	return l || g || u.pkgVars[name] != nil || u.funcs[name] != nil
}

// pkgSel: x is `pkg.Name`, pkg an imported package of the vocabulary that nothing shadows.
func (u *s11) pkgSel(x ast.Expr, pkg string, st *sst) (string, bool) {
	s, ok := s11unparen(x).(*ast.SelectorExpr)
	if !ok {
		return "", false
	}
	id, ok := s.X.(*ast.Ident)
	if !ok || id.Name != pkg || u.named(pkg, st) {
		return "", false
	}
	if u.imports[pkg] != s11pkgs[pkg] {
		u.fail(x, "`%s` is not the package %s here", pkg, s11pkgs[pkg])
	}
	return s.Sel.Name, true
}

// builtin: x is the call of the builtin `name`.
func (u *s11) builtin(x ast.Expr, name string, st *sst) (*ast.CallExpr, bool) {
	c, ok := s11unparen(x).(*ast.CallExpr)
	if !ok {
		return nil, false
	}
	id, ok := c.Fun.(*ast.Ident)
	if !ok || id.Name != name {
		return nil, false
	}
	u.must(!u.named(name, st), x, "the builtin %s is redefined", name)
	return c, true
}

func (u *s11) method(x ast.Expr) (recv ast.Expr, name string, call *ast.CallExpr, ok bool) {
	c, ok := s11unparen(x).(*ast.CallExpr)
	if !ok {
		return nil, "", nil, false
	}
	s, ok := c.Fun.(*ast.SelectorExpr)
	if !ok {
		return nil, "", nil, false
	}
	return s.X, s.Sel.Name, c, true
}

func (u *s11) isNil(x ast.Expr, st *sst) bool {
	id, ok := s11unparen(x).(*ast.Ident)
	return ok && id.Name == "nil" && !u.named("nil", st)
}

func (u *s11) freshName(id *ast.Ident, st *sst) {
	_, isPkg := u.imports[id.Name]
	u.must(id.Name != "_" && !isPkg && !u.named(id.Name, st) && !s11builtins[id.Name], id,
		"variable name clashes with a name that already has a meaning (package, package-level name, local, builtin), or is blank")
}

func s11join(lines []string, last string) string {
	return strings.Join(append(append([]string{}, lines...), last), "\n")
}

// ------------------------------------------------------------------ values

// strOf: the bytes of a string-valued symbolic value.
func (u *s11) strOf(v sv) (string, bool) {
	switch v.kind {
	case "str":
		return v.lean, true
	case "arg":
		return s11atom(v.lean) + ".raw", true
	}
	return "", false
}

func (u *s11) needStr(x ast.Expr, st *sst) string {
	s, ok := u.strOf(u.val(x, st))
	u.must(ok, x, "expected a string")
	return s
}

// val: the symbolic value of an expression.
func (u *s11) val(x ast.Expr, st *sst) sv {
	x = s11unparen(x)
	switch x := x.(type) {
	case *ast.BasicLit:
		if s, ok := u.strLit(x); ok {
			return sv{kind: "str", lean: "Plug.strBytes " + u.leanStr(x, s)}
		}
		if n, ok := u.intLit(x); ok {
			return sv{kind: "num", lean: strconv.Itoa(n)}
		}
	case *ast.Ident:
		if v, ok := st.vars[x.Name]; ok {
			switch v.kind {
			case "pendval":
				u.fail(x, "result of a call used before its error is tested")
			case "undef":
				u.fail(x, "value of a failed call, or of a variable a loop may have changed")
			case "outer":
				u.fail(x, "a loop body reads a variable defined outside the loop (unsupported)")
			}
			return v
		}
		if v, ok := st.globs[x.Name]; ok {
			return v
		}
		if u.isNil(x, st) {
			return sv{kind: "nil"}
		}
		if u.pkgVars[x.Name] != nil {
			u.fail(x, "package-level variable that is not part of this set-up's configuration")
		}
	case *ast.IndexExpr:
		base := u.val(x.X, st)
		i, ok := u.intLit(x.Index)
		u.must(ok, x.Index, "index that is not an integer literal")
		switch base.kind {
		case "args":
			u.must(i < st.minLen, x, "args[%d] is not dominated by a test that makes len(args) > %d (it would panic)", i, i)
			return sv{kind: "arg", lean: "arg args " + strconv.Itoa(i)}
		case "sr":
			u.must(st.split2[base.lean], x, "element of the split argument used where len(fields) == 2 is not known")
			u.must(i < 2, x, "index out of range")
			return sv{kind: "field", lean: base.lean, idx: i}
		case "bytes":
			return sv{kind: "byte", lean: "byteAt " + s11atom(base.lean) + " " + strconv.Itoa(i)}
		}
		u.fail(x, "index expression on a %s", base.kind)
	case *ast.SelectorExpr:
		if n, ok := u.pkgSel(x, "net", st); ok {
			switch n {
			case "IPv4len":
				return sv{kind: "num", lean: "4"}
			case "IPv6len":
				return sv{kind: "num", lean: "16"}
			}
			u.fail(x, "net.%s is not in the vocabulary", n)
		}
		for _, pkg := range []string{"math", "time"} {
			if n, ok := u.pkgSel(x, pkg, st); ok {
				c, ok := s11stdConsts[pkg+"."+n]
				u.must(ok, x, "%s.%s is not in the vocabulary (math.MaxUint16, math.MaxUint32, time.Second)", pkg, n)
				return c
			}
		}
		if n, ok := u.pkgSel(x, "iana", st); ok {
			u.must(n == "HWTypeEthernet", x, "iana.%s is not in the vocabulary", n)
			return sv{kind: "hwtype"}
		}
		if n, ok := u.pkgSel(x, "dhcpv4", st); ok { // a constant of the library
			c, ok := u.consts["dhcpv4."+n]
			u.must(ok, x, "constant dhcpv4.%s not found in the library source", n)
			return sv{kind: "num", lean: strconv.Itoa(c)}
		}
		base := u.val(x.X, st)
		switch base.kind {
		case "url":
			f := map[string]string{"Scheme": "scheme", "Host": "host", "Path": "path"}[x.Sel.Name]
			u.must(f != "", x, "field %s of a *url.URL is not in the vocabulary (Scheme, Host, Path)", x.Sel.Name)
			return sv{kind: "str", lean: base.lean + "." + f}
		case "route":
			switch x.Sel.Name {
			case "Dest":
				u.must(base.dest != nil, x, "Dest of a route that has none yet (nil pointer)")
				return *base.dest
			case "Router":
				u.must(base.router != nil, x, "Router of a route that has none yet")
				return *base.router
			}
		case "cidr":
			switch x.Sel.Name {
			case "IP":
				return sv{kind: "cidrip", lean: base.lean}
			case "Mask":
				return sv{kind: "cidrmask", lean: base.lean}
			}
		}
		u.fail(x, "field %s of a %s is not in the vocabulary", x.Sel.Name, base.kind)
	case *ast.UnaryExpr:
		u.must(x.Op == token.AND, x, "unsupported unary operator %s", x.Op)
		if id, ok := x.X.(*ast.Ident); ok { // &local
			v, ok := st.vars[id.Name]
			u.must(ok && (v.kind == "opt" || v.kind == "optzero"), x, "address of something that is not a local dhcpv4.Option")
			u.must(v.kind == "opt", x, "address of a dhcpv4.Option variable that has no value on this path (an option without code)")
			st.escaped[id.Name] = true
			return sv{kind: "optptr", lean: "some " + s11atom(v.lean)}
		}
		if cl, ok := x.X.(*ast.CompositeLit); ok && cl.Type != nil {
			if n, ok := u.pkgSel(cl.Type, "dhcpv4", st); ok && n == "Route" {
				u.must(len(cl.Elts) == 0, x, "expected &dhcpv4.Route{}")
				return sv{kind: "route"}
			}
			if n, ok := u.pkgSel(cl.Type, "dhcpv6", st); ok && (n == "DUIDLL" || n == "DUIDLLT") {
				return u.duid(cl, n, st)
			}
		}
		u.fail(x, "unsupported operand of &")
	case *ast.BinaryExpr: // a product of constants, e.g. math.MaxUint32*time.Second
		u.must(x.Op == token.MUL, x, "unsupported operator %s (only a product of constants)", x.Op)
		a, b := u.val(x.X, st), u.val(x.Y, st)
		isC := func(v sv) bool { return v.kind == "num" || v.kind == "durconst" }
		u.must(isC(a) && isC(b), x, "product of something that is not a constant")
		u.must(!(a.kind == "durconst" && b.kind == "durconst"), x, "product of two durations")
		k := "num"
		if a.kind == "durconst" || b.kind == "durconst" {
			k = "durconst"
		}
		return sv{kind: k, lean: s11atom(a.lean) + " * " + s11atom(b.lean)}
	case *ast.CallExpr:
		return u.call(x, st)
	}
	u.fail(x, "expression not in the vocabulary of unit setups")
	return sv{}
}

// duid: dhcpv6.DUIDLL{HWType: iana.HWTypeEthernet, LinkLayerAddr: mac} / DUIDLLT{…, Time: 0}
func (u *s11) duid(cl *ast.CompositeLit, n string, st *sst) sv {
	mac, hw := "", false
	seen := map[string]bool{}
	for _, e := range cl.Elts {
		kv, ok := e.(*ast.KeyValueExpr)
		u.must(ok, e, "expected field: value")
		k := u.src(kv.Key)
		u.must(!seen[k], kv, "field given twice")
		seen[k] = true
		switch {
		case k == "HWType":
			u.must(u.val(kv.Value, st).kind == "hwtype", kv.Value, "only iana.HWTypeEthernet is in the vocabulary")
			hw = true
		case k == "LinkLayerAddr":
			v := u.val(kv.Value, st)
			u.must(v.kind == "mac", kv.Value, "expected the result of net.ParseMAC")
			mac = v.lean
		case k == "Time" && n == "DUIDLLT":
			t, ok := u.intLit(kv.Value)
			u.must(ok && t == 0, kv.Value, "only Time: 0 is in the vocabulary")
		default:
			u.fail(kv.Key, "unexpected field of dhcpv6.%s", n)
		}
	}
	u.must(hw && mac != "", cl, "dhcpv6.%s needs HWType and LinkLayerAddr", n)
	return sv{kind: "duid", lean: "some (Plug.enc" + map[string]string{"DUIDLL": "DuidLL", "DUIDLLT": "DuidLLT"}[n] + " " + s11atom(mac) + ")"}
}

// call: a call that yields one value.
func (u *s11) call(c *ast.CallExpr, st *sst) sv {
	one := func() ast.Expr {
		u.must(len(c.Args) == 1 && !c.Ellipsis.IsValid(), c, "expected one argument")
		return c.Args[0]
	}
	if n, ok := u.pkgSel(c.Fun, "net", st); ok {
		switch n {
		case "ParseIP":
			a := u.val(one(), st)
			switch {
			case a.kind == "arg":
				return sv{kind: "ip", lean: s11atom(a.lean) + ".ip"}
			case a.kind == "field" && a.idx == 1:
				return sv{kind: "ip", lean: a.lean + ".router"}
			}
			u.fail(c, "net.ParseIP of something that is neither an unmodified argument nor the second field of a split argument: no oracle")
		case "IPv4Mask":
			u.must(len(c.Args) == 4 && !c.Ellipsis.IsValid(), c, "expected four arguments")
			var bs []string
			for _, a := range c.Args {
				v := u.val(a, st)
				u.must(v.kind == "byte", a, "expected a byte of a To4() result")
				bs = append(bs, s11atom(v.lean))
			}
			return sv{kind: "bytes", lean: "ipv4Mask " + strings.Join(bs, " ")}
		}
		u.fail(c, "net.%s is not in the vocabulary (as a call with one result)", n)
	}
	if n, ok := u.pkgSel(c.Fun, "strings", st); ok {
		switch n {
		case "ToLower":
			return sv{kind: "str", lean: "Plug.lowerAscii " + s11atom(u.needStr(one(), st))}
		case "Split":
			u.must(len(c.Args) == 2 && !c.Ellipsis.IsValid(), c, "expected two arguments")
			sep, ok := u.strLit(c.Args[1])
			u.must(ok && len(sep) == 1 && sep[0] < 0x80, c.Args[1], "separator must be a literal of one ASCII character")
			a := u.val(c.Args[0], st)
			if a.kind == "arg" {
				u.must(sep == ",", c.Args[1], "an argument is split at \",\" only (the oracle ArgOracle.sr)")
				return sv{kind: "sr", lean: s11atom(a.lean) + ".sr"}
			}
			u.must(a.kind == "str", c.Args[0], "expected a string")
			return sv{kind: "strs", lean: "Plug.splitOn " + strconv.Itoa(int(sep[0])) + " " + s11atom(a.lean)}
		}
		u.fail(c, "strings.%s is not in the vocabulary", n)
	}
	if n, ok := u.pkgSel(c.Fun, "dhcpv4", st); ok {
		if n == "AutoConfiguration" { // conversion
			k, ok := u.intLit(one())
			u.must(ok && k < 256, c, "expected dhcpv4.AutoConfiguration(<byte literal>)")
			return sv{kind: "num", lean: strconv.Itoa(k)}
		}
		ct, ok := u.ctors4[n]
		u.must(ok, c, "dhcpv4.%s is not a function of the library of the form `return Option{Code: OptionX, Value: …}`", n)
		u.must(ct.wire == "String" && !ct.variadic, c, "dhcpv4.%s does not build a string option", n)
		code, ok := u.consts[ct.code]
		u.must(ok, c, "constant %s not found in the library source", ct.code)
		return sv{kind: "opt", lean: "(" + strconv.Itoa(code) + ", " + u.needStr(one(), st) + ")"}
	}
	if n, ok := u.pkgSel(c.Fun, "dhcpv6", st); ok {
		code, ok := u.ctors6[n]
		u.must(ok, c, "dhcpv6.%s is not in the vocabulary (OptBootFileURL, OptBootFileParam)", n)
		s := u.needStr(one(), st)
		switch n {
		case "OptBootFileURL":
			return sv{kind: "opt", lean: "(" + strconv.Itoa(code) + ", " + s + ")"}
		case "OptBootFileParam":
			return sv{kind: "opt", lean: "(" + strconv.Itoa(code) + ", Plug.encBootParams [" + s + "])"}
		}
	}
	if cc, ok := u.builtin(c, "append", st); ok {
		u.must(len(cc.Args) == 2 && !cc.Ellipsis.IsValid(), c, "expected append(list, element)")
		l := u.val(cc.Args[0], st)
		switch l.kind {
		case "ips":
			e := u.val(cc.Args[1], st)
			u.must(e.kind == "ip", cc.Args[1], "expected a net.IP as net.ParseIP returned it")
			return sv{kind: "ips", lean: s11atom(l.lean) + " ++ [" + e.lean + "]"}
		case "routes":
			id, ok := s11unparen(cc.Args[1]).(*ast.Ident)
			u.must(ok, cc.Args[1], "expected a local *dhcpv4.Route")
			e := u.val(id, st)
			u.must(e.kind == "route" && e.dest != nil && e.router != nil, cc.Args[1], "expected a *dhcpv4.Route with Dest and Router assigned")
			st.escaped[id.Name] = true
			return sv{kind: "routes", lean: s11atom(l.lean) + " ++ [{ dest := " + e.dest.lean + ", router := " + e.router.lean + " }]"}
		}
		u.fail(c, "append to a %s", l.kind)
	}
	if cc, ok := u.builtin(c, "make", st); ok {
		u.must(len(cc.Args) == 2, c, "expected make(dhcpv4.Routes, 0)")
		n, ok1 := u.pkgSel(cc.Args[0], "dhcpv4", st)
		k, ok2 := u.intLit(cc.Args[1])
		u.must(ok1 && n == "Routes" && ok2 && k == 0, c, "expected make(dhcpv4.Routes, 0)")
		return sv{kind: "routes", lean: "[]"}
	}
	if recv, name, _, ok := u.method(c); ok {
		switch name {
		case "To4", "To16":
			u.must(len(c.Args) == 0, c, "unexpected arguments")
			v := u.val(recv, st)
			switch {
			case v.kind == "ip":
				return sv{kind: "obytes", lean: "ip" + name + " " + s11atom(v.lean)}
			case v.kind == "cidrip" && name == "To4":
				return sv{kind: "obytes", lean: "Plug.cidrTo4 " + v.lean + ".ip"}
			}
			u.fail(c, "%s() of a %s is not in the vocabulary", name, v.kind)
		case "String":
			u.must(len(c.Args) == 0, c, "unexpected arguments")
			v := u.val(recv, st)
			u.must(v.kind == "url", c, "String() of a %s is not in the vocabulary", v.kind)
			return sv{kind: "str", lean: v.lean + ".str"}
		case "Get": // u.Query().Get("params")
			r2, n2, c2, ok := u.method(recv)
			u.must(ok && n2 == "Query" && len(c2.Args) == 0, c, "expected u.Query().Get(\"params\")")
			v := u.val(r2, st)
			key, ok := u.strLit(one())
			u.must(v.kind == "url" && ok && key == "params", c, "only u.Query().Get(\"params\") is in the vocabulary (the oracle UrlOracle.params)")
			return sv{kind: "str", lean: v.lean + ".params"}
		}
	}
	u.fail(c, "call not in the vocabulary of unit setups")
	return sv{}
}

// ------------------------------------------------------------- conditions

// num: a number for a comparison ↦ Lean text; maskLen: the text is `c.bits`, standing for 8·len(Mask).
func (u *s11) num(x ast.Expr, st *sst) (lean string, maskLen, isConst bool) {
	if c, ok := u.builtin(x, "len", st); ok {
		u.must(len(c.Args) == 1 && !c.Ellipsis.IsValid(), x, "expected one argument")
		v := u.val(c.Args[0], st)
		switch v.kind {
		case "args":
			return "args.length", false, false
		case "sr":
			return v.lean + ".fields", false, false
		case "strs", "ips", "routes":
			return s11atom(v.lean) + ".length", false, false
		case "cidrmask":
			return v.lean + ".bits", true, false
		}
		if s, ok := u.strOf(v); ok {
			return s11atom(s) + ".length", false, false
		}
		u.fail(x, "len of a %s", v.kind)
	}
	v := u.val(x, st)
	if v.kind == "int" || v.kind == "dur" { // a parsed number / duration (nanoseconds), Int
		return s11atom(v.lean), false, false
	}
	u.must(v.kind == "num" || v.kind == "durconst", x, "not a number of the vocabulary (integer literal, net.IPv4len, len(…), math.MaxUint16/32, time.Second, a product of these, an int or time.Duration variable)")
	return v.lean, false, true
}

func (u *s11) cond(x ast.Expr, st *sst) cex {
	x = s11unparen(x)
	switch x := x.(type) {
	case *ast.UnaryExpr:
		u.must(x.Op == token.NOT, x, "unsupported unary operator %s in a condition", x.Op)
		return hnot(u.cond(x.X, st))
	case *ast.BinaryExpr:
		switch x.Op {
		case token.LAND:
			a, b := u.cond(x.X, st), u.cond(x.Y, st)
			return cex{hwrap(a, hAnd+1) + " ∧ " + hwrap(b, hAnd+1), hAnd}
		case token.LOR:
			a, b := u.cond(x.X, st), u.cond(x.Y, st)
			return cex{hwrap(a, hOr+1) + " ∨ " + hwrap(b, hOr+1), hOr}
		case token.EQL, token.NEQ:
			if u.isNil(x.Y, st) {
				if id, ok := s11unparen(x.X).(*ast.Ident); ok && st.pend != nil && id.Name == st.pend.test {
					u.fail(x, "the error test of a call must be the whole condition of an `if`")
				}
				v := u.val(x.X, st)
				u.must(set("ip", "obytes", "optptr", "optif", "duid")[v.kind], x, "nil test of a %s", v.kind)
				return cex{s11atom(v.lean) + " " + cmpOps[x.Op] + " none", hCmp}
			}
			_, lenX := u.builtin(x.X, "len", st)
			_, lenY := u.builtin(x.Y, "len", st)
			if !lenX && !lenY {
				a, b := u.val(x.X, st), u.val(x.Y, st)
				if sa, ok := u.strOf(a); ok {
					sb, ok := u.strOf(b)
					u.must(ok, x, "comparison of a string with a %s", b.kind)
					return cex{sa + " " + cmpOps[x.Op] + " " + sb, hCmp}
				}
			}
			fallthrough
		case token.LSS, token.LEQ, token.GTR, token.GEQ:
			a, ma, ca := u.num(x.X, st)
			b, mb, cb := u.num(x.Y, st)
			u.must(!(ca && cb), x, "comparison of two constants")
			switch {
			case ma && cb:
				b = "8 * " + b
			case mb && ca:
				a = "8 * " + a
			default:
				u.must(!ma && !mb, x, "len(Mask) is compared with constants only")
			}
			return cex{a + " " + cmpOps[x.Op] + " " + b, hCmp}
		}
		u.fail(x, "unsupported operator %s in a condition", x.Op)
	case *ast.CallExpr:
		if recv, name, c, ok := u.method(x); ok && name == "IsUnspecified" && len(c.Args) == 0 {
			v := u.val(recv, st)
			u.must(v.kind == "ip", x, "IsUnspecified() of a %s", v.kind)
			return cex{"ipIsUnspecified " + s11atom(v.lean) + " = true", hCmp}
		}
		if id, ok := x.Fun.(*ast.Ident); ok && id.Name == "checkValidNetmask" {
			_, shadow := st.vars[id.Name]
			u.must(!shadow && u.funcs[id.Name] != nil && len(x.Args) == 1 && !x.Ellipsis.IsValid(), x, "checkValidNetmask is not the package's function here")
			v := u.val(x.Args[0], st)
			u.must(v.kind == "bytes", x, "checkValidNetmask of a %s", v.kind)
			return cex{"Plug.netmask.checkValid " + s11atom(v.lean) + " = true", hCmp}
		}
		u.fail(x, "unknown call in a condition")
	case *ast.Ident:
		if st.pend != nil && x.Name == st.pend.test {
			u.fail(x, "the test of `%s` must be the whole condition of an `if`", x.Name)
		}
	}
	u.fail(x, "unsupported condition")
	return cex{}
}

// lenFacts: what the condition, evaluating to `positive`, says about len(args).
func (u *s11) lenFacts(x ast.Expr, st *sst, positive bool) int {
	b, ok := s11unparen(x).(*ast.BinaryExpr)
	if !ok {
		if n, ok := s11unparen(x).(*ast.UnaryExpr); ok && n.Op == token.NOT {
			return u.lenFacts(n.X, st, !positive)
		}
		return 0
	}
	if b.Op == token.LAND && positive || b.Op == token.LOR && !positive {
		l, r := u.lenFacts(b.X, st, positive), u.lenFacts(b.Y, st, positive)
		if r > l {
			return r
		}
		return l
	}
	c, ok := u.builtin(b.X, "len", st)
	if !ok || len(c.Args) != 1 {
		return 0
	}
	if id, ok := s11unparen(c.Args[0]).(*ast.Ident); !ok || st.vars[id.Name].kind != "args" {
		return 0
	}
	k, ok := u.intLit(b.Y)
	if !ok {
		return 0
	}
	op := b.Op
	if !positive {
		op = map[token.Token]token.Token{token.EQL: token.NEQ, token.NEQ: token.EQL, token.LSS: token.GEQ, token.GEQ: token.LSS, token.GTR: token.LEQ, token.LEQ: token.GTR}[op]
	}
	switch op {
	case token.EQL, token.GEQ:
		return k
	case token.GTR:
		return k + 1
	}
	return 0
}

// splitFacts: the SrOracle values whose `fields` is 2 when the condition evaluates to `positive`.
func (u *s11) splitFacts(x ast.Expr, st *sst, positive bool) string {
	b, ok := s11unparen(x).(*ast.BinaryExpr)
	if !ok || !(b.Op == token.NEQ && !positive || b.Op == token.EQL && positive) {
		return ""
	}
	c, ok := u.builtin(b.X, "len", st)
	if !ok || len(c.Args) != 1 {
		return ""
	}
	id, ok := s11unparen(c.Args[0]).(*ast.Ident)
	if !ok || st.vars[id.Name].kind != "sr" {
		return ""
	}
	if k, ok := u.intLit(b.Y); !ok || k != 2 {
		return ""
	}
	return st.vars[id.Name].lean
}

// ------------------------------------------------------------------ logging, errors

// pure: an expression without side effects (argument of a log call or of an error constructor).
func (u *s11) pure(x ast.Expr, st *sst) {
	switch x := x.(type) {
	case *ast.ParenExpr:
		u.pure(x.X, st)
	case *ast.BasicLit, *ast.Ident:
	case *ast.SelectorExpr:
		u.pure(x.X, st)
	case *ast.BinaryExpr:
		u.pure(x.X, st)
		u.pure(x.Y, st)
	case *ast.IndexExpr: // args[i], fields[i]: may panic, so the index is checked
		id, ok := x.X.(*ast.Ident)
		u.must(ok, x, "unsupported index expression")
		if v, isLocal := st.vars[id.Name]; isLocal && (v.kind == "args" || v.kind == "sr") {
			u.val(x, st)
		} else {
			u.fail(x, "unsupported index expression")
		}
	case *ast.CallExpr:
		if n, ok := u.pkgSel(x.Fun, "fmt", st); ok && n == "Sprintf" {
		} else if _, ok := u.builtin(x, "len", st); ok {
		} else if recv, name, _, ok := u.method(x); ok && name == "String" && len(x.Args) == 0 {
			u.pure(recv, st)
		} else if id, ok := x.Fun.(*ast.Ident); ok && s11intConvs[id.Name] && !u.named(id.Name, st) && len(x.Args) == 1 && !x.Ellipsis.IsValid() {
		} else {
			u.fail(x, "call that is not known to be free of side effects (only fmt.Sprintf, len, x.String(), a conversion to a builtin integer type)")
		}
		for _, a := range x.Args {
			u.pure(a, st)
		}
	default:
		u.fail(x, "unsupported expression in the arguments of a log call or an error constructor")
	}
}

func (u *s11) isLogger(x ast.Expr, st *sst) bool {
	id, ok := x.(*ast.Ident)
	if !ok || id.Name != "log" {
		return false
	}
	if _, shadow := st.vars["log"]; shadow {
		return false
	}
	v := u.pkgVars["log"]
	if v == nil || len(v.Names) != len(v.Values) {
		return false
	}
	for i, n := range v.Names {
		if n.Name == "log" {
			c, ok := v.Values[i].(*ast.CallExpr)
			if !ok {
				return false
			}
			fn, ok := u.pkgSel(c.Fun, "logger", st)
			return ok && fn == "GetLogger"
		}
	}
	return false
}

func (u *s11) isLog(s ast.Stmt, st *sst) bool {
	e, ok := s.(*ast.ExprStmt)
	if !ok {
		return false
	}
	recv, name, c, ok := u.method(e.X)
	if !ok || !u.isLogger(recv, st) {
		return false
	}
	u.must(h4logLevels[name], s, "log.%s is not a plain log statement", name)
	for _, a := range c.Args {
		u.pure(a, st)
	}
	return true
}

// errExpr: a non-nil error value ↦ Lean term of type Err.
func (u *s11) errExpr(x ast.Expr, st *sst) string {
	x = s11unparen(x)
	if id, ok := x.(*ast.Ident); ok {
		v, ok := st.vars[id.Name]
		u.must(ok && v.kind == "errval", x, "not an error value that is known to be non-nil here")
		return v.lean
	}
	c, ok := x.(*ast.CallExpr)
	u.must(ok, x, "not a recognised error value (errors.New, fmt.Errorf, a tested error variable)")
	lead := func(e ast.Expr) string { // the leading literal of lit + a + b
		for {
			b, ok := s11unparen(e).(*ast.BinaryExpr)
			if !ok {
				break
			}
			u.must(b.Op == token.ADD, b, "unsupported operator in an error text")
			u.pure(b.Y, st)
			e = b.X
		}
		s, ok := u.strLit(e)
		u.must(ok, e, "an error text must begin with a string literal")
		return u.leanStr(e, s)
	}
	if n, ok := u.pkgSel(c.Fun, "errors", st); ok && n == "New" && len(c.Args) == 1 && !c.Ellipsis.IsValid() {
		return ".new " + lead(c.Args[0])
	}
	if n, ok := u.pkgSel(c.Fun, "fmt", st); ok && n == "Errorf" && len(c.Args) >= 1 && !c.Ellipsis.IsValid() {
		for _, a := range c.Args[1:] {
			u.pure(a, st)
		}
		return ".new " + lead(c.Args[0])
	}
	u.fail(x, "not a recognised error value (errors.New, fmt.Errorf, a tested error variable)")
	return ""
}

// ------------------------------------------------------------------ assignments

// bind: the value as something a variable can hold: non-atomic Lean text gets a `let`.
func (u *s11) bind(v sv) (sv, []string) {
	if v.lean == "" || !strings.Contains(v.lean, " ") || v.lean == "[]" {
		return v, nil
	}
	n := u.fresh(v.kind)
	line := "let " + n + " := " + v.lean
	v.lean = n
	return v, []string{line}
}

// store: `lhs = v` / `lhs := v`.
func (u *s11) store(lhs ast.Expr, define bool, v sv, st *sst) []string {
	switch l := s11unparen(lhs).(type) {
	case *ast.Ident:
		if l.Name == "_" {
			return nil
		}
		if define {
			u.freshName(l, st)
			u.must(v.kind != "args" && v.kind != "nil" && v.kind != "num" && v.kind != "durconst", lhs, "unsupported value for a new variable (%s)", v.kind)
			v, lines := u.bind(v)
			st.vars[l.Name] = v
			return lines
		}
		if old, ok := st.vars[l.Name]; ok {
			u.must(!st.escaped[l.Name], lhs, "assignment to a variable whose address was taken before (the configuration would change with it)")
			switch old.kind {
			case "args", "route", "outer":
				u.fail(lhs, "assignment to this variable is not supported")
			case "optzero", "opt":
				u.must(v.kind == "opt", lhs, "expected a dhcpv4 option")
			case "nilerr", "errval", "boolzero", "pendval", "undef":
				u.fail(lhs, "assignment to this variable is only supported as the result of a call whose error is tested")
			default:
				u.must(old.kind == v.kind || set("ip", "obytes", "str", "arg")[old.kind] && set("ip", "obytes", "str")[v.kind], lhs,
					"assignment of a %s to a variable that holds a %s", v.kind, old.kind)
			}
			v, lines := u.bind(v)
			st.vars[l.Name] = v
			return lines
		}
		if g, ok := st.globs[l.Name]; ok {
			if v.kind == "args" && g.kind == "strs" {
				v = sv{kind: "strs", lean: "rawArgs args"}
			}
			if v.kind == "opt" && g.kind == "optif" {
				v = sv{kind: "optif", lean: "some " + s11atom(v.lean)}
			}
			if v.kind == "num" && g.kind == "ac" {
				v.kind = "ac"
			}
			u.must(v.kind == g.kind, lhs, "assignment of a %s to the configuration variable %s, which holds a %s", v.kind, l.Name, g.kind)
			v, lines := u.bind(v)
			st.globs[l.Name] = v
			return lines
		}
		if u.pkgVars[l.Name] != nil {
			u.fail(lhs, "assignment to the package-level variable %s, which is not part of this set-up's configuration", l.Name)
		}
		u.fail(lhs, "assignment to an unknown variable")
	case *ast.SelectorExpr: // route.Dest, route.Router
		id, ok := l.X.(*ast.Ident)
		u.must(ok, lhs, "unsupported assignment target")
		r, ok := st.vars[id.Name]
		u.must(ok && r.kind == "route", lhs, "unsupported assignment target")
		u.must(!st.escaped[id.Name], lhs, "assignment to a route that is already in the list")
		v, lines := u.bind(v)
		switch l.Sel.Name {
		case "Dest":
			u.must(v.kind == "cidr", lhs, "Dest takes the network of net.ParseCIDR")
			r.dest = &v
		case "Router":
			u.must(v.kind == "ip", lhs, "Router takes the result of net.ParseIP")
			r.router = &v
		default:
			u.fail(lhs, "field %s of a route is not in the vocabulary", l.Sel.Name)
		}
		st.vars[id.Name] = r
		return lines
	}
	u.fail(lhs, "unsupported assignment target")
	return nil
}

// fallible: rhs is a call whose error / ok result must be tested; valIdx / testIdx = positions of the value and of the test.
func (u *s11) fallible(rhs ast.Expr, nres int, st *sst) (p *pending, valIdx, testIdx int, ok bool) {
	rhs = s11unparen(rhs)
	if ix, isIx := rhs.(*ast.IndexExpr); isIx && nres == 2 { // v, ok = argMap[s]
		id, isId := ix.X.(*ast.Ident)
		if isId && !u.named2local(id.Name, st) && u.pkgVars[id.Name] != nil {
			u.needMap(id)
			return &pending{isOK: true, scrut: "lookupStr " + u.plug.name + "_" + id.Name + " " + s11atom(u.needStr(ix.Index, st)), valKind: "ac"}, 0, 1, true
		}
		return nil, 0, 0, false
	}
	c, isCall := rhs.(*ast.CallExpr)
	if !isCall {
		return nil, 0, 0, false
	}
	oracle := func(field, lib, kind string) (*pending, int, int, bool) {
		u.must(len(c.Args) == 1 && !c.Ellipsis.IsValid() && nres == 2, c, "%s has one argument and two results", lib)
		a := u.val(c.Args[0], st)
		u.must(a.kind == "arg", c, "%s of something that is not an unmodified argument: no oracle", lib)
		return &pending{scrut: s11atom(a.lean) + "." + field, lib: lib, valKind: kind}, 0, 1, true
	}
	if n, ok := u.pkgSel(c.Fun, "strconv", st); ok && n == "Atoi" {
		return oracle("int", "strconv.Atoi", "int")
	}
	if n, ok := u.pkgSel(c.Fun, "time", st); ok && n == "ParseDuration" {
		return oracle("dur", "time.ParseDuration", "dur")
	}
	if n, ok := u.pkgSel(c.Fun, "url", st); ok && n == "Parse" {
		return oracle("url", "url.Parse", "url")
	}
	if n, ok := u.pkgSel(c.Fun, "net", st); ok && n == "ParseMAC" {
		return oracle("mac", "net.ParseMAC", "mac")
	}
	if n, ok := u.pkgSel(c.Fun, "net", st); ok && n == "ParseCIDR" {
		u.must(len(c.Args) == 1 && !c.Ellipsis.IsValid() && nres == 3, c, "net.ParseCIDR has one argument and three results")
		a := u.val(c.Args[0], st)
		u.must(a.kind == "field" && a.idx == 0, c, "net.ParseCIDR of something that is not the first field of a split argument: no oracle")
		return &pending{scrut: a.lean + ".cidr", lib: "net.ParseCIDR", valKind: "cidr"}, 1, 2, true
	}
	if id, isId := c.Fun.(*ast.Ident); isId && !u.named2local(id.Name, st) && u.funcs[id.Name] != nil && id.Name != "checkValidNetmask" {
		h := u.helper(id)
		u.must(len(c.Args) == 1, c, "expected one argument")
		a := u.val(c.Args[0], st)
		var arg string
		switch {
		case h.param == "args" && a.kind == "args" && c.Ellipsis.IsValid():
			arg = "args"
		case h.param == "strs" && a.kind == "args" && !c.Ellipsis.IsValid():
			arg = "(rawArgs args)"
		case h.param == "strs" && a.kind == "strs" && !c.Ellipsis.IsValid():
			arg = s11atom(a.lean)
		default:
			u.fail(c, "argument does not fit the parameter of %s", id.Name)
		}
		if h.mode == "herr" {
			u.must(nres == 1, c, "%s has one result", id.Name)
			return &pending{exc: true, scrut: h.lean + " " + arg}, -1, 0, true
		}
		u.must(nres == 2, c, "%s has two results", id.Name)
		return &pending{exc: true, scrut: h.lean + " " + arg, valKind: h.retKind}, 0, 1, true
	}
	return nil, 0, 0, false
}

func (u *s11) named2local(name string, st *sst) bool {
	_, l := st.vars[name]
	_, g := st.globs[name]
	return l || g
}

func (u *s11) assign(a *ast.AssignStmt, st *sst) []string {
	u.must(a.Tok == token.DEFINE || a.Tok == token.ASSIGN, a, "unsupported assignment operator")
	define := a.Tok == token.DEFINE
	if len(a.Rhs) == 1 {
		if p, vi, ti, ok := u.fallible(a.Rhs[0], len(a.Lhs), st); ok {
			u.must(st.pend == nil, a, "a call whose error has not been tested yet precedes this one")
			for i, l := range a.Lhs {
				if i != vi && i != ti {
					u.must(u.src(l) == "_", l, "this result is not in the vocabulary (only _)")
				}
			}
			t, ok := a.Lhs[ti].(*ast.Ident)
			u.must(ok && t.Name != "_", a.Lhs[ti], "the error (or ok) result must go into a variable and be tested")
			if old, exists := st.vars[t.Name]; exists {
				u.must(!define || len(a.Lhs) > 1, a, "no new variable on the left side")
				u.must(old.kind == "nilerr" && !p.isOK || old.kind == "boolzero" && p.isOK || old.kind == "errval" || old.kind == "undef", t, "variable cannot take this result")
			} else {
				u.must(define, t, "assignment to an unknown variable")
				u.freshName(t, st)
			}
			p.test = t.Name
			st.vars[t.Name] = sv{kind: "pendval"}
			p.store = func(*sst, sv) []string { return nil }
			p.fail = func(*sst) {}
			if vi >= 0 && u.src(a.Lhs[vi]) != "_" {
				lhs := a.Lhs[vi]
				id, isId := lhs.(*ast.Ident)
				_, isLocal := st.vars[u.src(lhs)]
				_, isGlob := st.globs[u.src(lhs)]
				switch {
				case isId && isLocal: // an existing local takes the value
					old := st.vars[id.Name]
					st.vars[id.Name] = sv{kind: "pendval"}
					p.store = func(s *sst, v sv) []string {
						s.vars[id.Name] = old
						return u.store(lhs, false, v, s)
					}
					p.fail = func(s *sst) { s.vars[id.Name] = sv{kind: "undef"} }
				case isId && isGlob: // a configuration variable takes the value; on failure the zero value the library returns
					p.store = func(s *sst, v sv) []string { return u.store(lhs, false, v, s) }
					p.fail = func(s *sst) {
						g := s.globs[id.Name]
						g.lean = u.zeroOf(id.Name)
						s.globs[id.Name] = g
					}
				case isId: // a new local
					u.must(define, id, "assignment to an unknown variable")
					u.freshName(id, st)
					st.vars[id.Name] = sv{kind: "pendval"}
					p.store = func(s *sst, v sv) []string {
						delete(s.vars, id.Name)
						return u.store(lhs, true, v, s)
					}
					p.fail = func(s *sst) { s.vars[id.Name] = sv{kind: "undef"} }
				default: // a field of a local route
					p.store = func(s *sst, v sv) []string { return u.store(lhs, false, v, s) }
				}
			}
			st.pend = p
			return nil
		}
	}
	u.must(len(a.Lhs) == len(a.Rhs), a, "unsupported assignment (call with several results that is not in the vocabulary)")
	var vals []sv
	for _, r := range a.Rhs {
		vals = append(vals, u.val(r, st))
	}
	var lines []string
	for i, l := range a.Lhs {
		lines = append(lines, u.store(l, define, vals[i], st)...)
	}
	return lines
}

// zeroOf: the Go zero value of a configuration variable, in Lean.
func (u *s11) zeroOf(name string) string {
	v := u.pkgVars[name]
	return s11types[u.src(v.Type)][2]
}

// declare: `var err error`, `var ok bool`, `var a, b dhcpv4.Option`
func (u *s11) declare(d *ast.DeclStmt, st *sst) {
	g, ok := d.Decl.(*ast.GenDecl)
	u.must(ok && g.Tok == token.VAR, d, "unsupported declaration")
	for _, sp := range g.Specs {
		v := sp.(*ast.ValueSpec)
		u.must(v.Type != nil && len(v.Values) == 0, v, "only `var x T` is supported")
		kind := map[string]string{"error": "nilerr", "bool": "boolzero", "dhcpv4.Option": "optzero"}[u.src(v.Type)]
		u.must(kind != "", v.Type, "unsupported type of a local variable")
		for _, n := range v.Names {
			u.freshName(n, st)
			st.vars[n.Name] = sv{kind: kind}
		}
	}
}

// ---------------------------------------------------------------- statements

// isHandler: the first result of a return is a (non-nil) handler; for the closure form also its configuration.
func (u *s11) isHandler(x ast.Expr, st *sst) (cfg string, ok bool) {
	x = s11unparen(x)
	if id, isId := x.(*ast.Ident); isId {
		if u.named2local(id.Name, st) || u.funcs[id.Name] == nil {
			return "", false
		}
		u.must(u.cur.closure == "", x, "expected the call of %s", u.cur.closure)
		if u.cur.fn == "setup4" {
			for _, h := range h4specs {
				if h.name == u.plug.name {
					u.must(h.fn == id.Name, x, "the handler returned is not %s, the function unit handlers4 translates", h.fn)
				}
			}
		}
		return "", true
	}
	if c, isCall := x.(*ast.CallExpr); isCall && u.cur.closure != "" {
		id, isId := c.Fun.(*ast.Ident)
		if !isId || id.Name != u.cur.closure || u.named2local(id.Name, st) {
			return "", false
		}
		f := u.funcs[id.Name]
		u.must(f != nil && len(f.Type.Params.List) == 1 && len(f.Type.Params.List[0].Names) == 1 && u.src(f.Type.Params.List[0].Type) == "time.Duration",
			x, "%s is not a function of one time.Duration", id.Name)
		u.must(len(c.Args) == 1 && !c.Ellipsis.IsValid(), c, "expected one argument")
		v := u.val(c.Args[0], st)
		u.must(v.kind == "dur", c.Args[0], "expected a duration")
		return v.lean, true
	}
	return "", false
}

func (u *s11) ret(r *ast.ReturnStmt, st *sst) string {
	switch u.mode {
	case "setup":
		u.must(len(r.Results) == 2, r, "return must have two results")
		if u.isNil(r.Results[1], st) { // success
			u.must(st.pend == nil, r, "return while the error of a call has not been tested")
			u.must(!st.inLoop, r, "successful return inside a loop (unsupported)")
			cfg, ok := u.isHandler(r.Results[0], st)
			u.must(ok, r.Results[0], "a successful return must name the handler (a package-level function)")
			if u.cur.closure == "" {
				var vs []string
				for _, g := range u.cur.cfg {
					vs = append(vs, st.globs[g].lean)
				}
				cfg = strings.Join(vs, ", ")
				if len(vs) > 1 {
					cfg = "(" + cfg + ")"
				}
			}
			return ".ok " + s11atom(cfg)
		}
		e := s11atom(u.errExpr(r.Results[1], st))
		if u.isNil(r.Results[0], st) {
			return "failNil " + e
		}
		_, ok := u.isHandler(r.Results[0], st)
		u.must(ok, r.Results[0], "the first result must be nil or the handler")
		return "failWithHandler " + e
	case "herr":
		u.must(len(r.Results) == 1, r, "return must have one result")
		if u.isNil(r.Results[0], st) {
			u.must(!st.inLoop, r, "successful return inside a loop (unsupported)")
			return ".ok ()"
		}
		return ".error " + s11atom(u.errExpr(r.Results[0], st))
	case "hval":
		if len(r.Results) == 1 { // return f(x), f a library call with (value, error)
			p, vi, ti, ok := u.fallible(r.Results[0], 2, st)
			u.must(ok && !p.exc && vi == 0 && ti == 1 && p.valKind == u.retKind, r, "unsupported return")
			n := u.fresh(p.valKind)
			return "match " + p.scrut + " with\n| none => .error (.lib " + u.leanStr(r, p.lib) + ")\n| some " + n + " => .ok " + n
		}
		u.must(len(r.Results) == 2, r, "return must have two results")
		if u.isNil(r.Results[1], st) {
			v := u.val(r.Results[0], st)
			u.must(v.kind == u.retKind, r.Results[0], "expected a %s", u.retKind)
			return ".ok " + s11atom(v.lean)
		}
		u.must(u.isNil(r.Results[0], st), r.Results[0], "expected nil with an error")
		return ".error " + s11atom(u.errExpr(r.Results[1], st))
	}
	u.fail(r, "internal: mode")
	return ""
}

func s11names(st *sst) map[string]bool {
	m := map[string]bool{}
	for k := range st.vars {
		m[k] = true
	}
	return m
}

// leave: back in the enclosing block — the variables of the inner block are gone.
func s11leave(outer map[string]bool, next func(*sst) string) func(*sst) string {
	return func(st *sst) string {
		for k := range st.vars {
			if !outer[k] {
				delete(st.vars, k)
			}
		}
		return next(st)
	}
}

func (u *s11) block(list []ast.Stmt, st *sst, k func(*sst) string) string {
	if len(list) == 0 {
		return k(st)
	}
	s, rest := list[0], list[1:]
	next := func(st2 *sst) string { return u.block(rest, st2, k) }
	switch s := s.(type) {
	case *ast.ReturnStmt:
		u.must(len(rest) == 0, s, "unreachable statement after return")
		return u.ret(s, st)
	case *ast.ExprStmt:
		u.must(u.isLog(s, st), s, "unsupported statement (a call that is not a plain log statement)")
		return next(st)
	case *ast.DeclStmt:
		u.declare(s, st)
		return next(st)
	case *ast.AssignStmt:
		lines := u.assign(s, st)
		return s11join(lines, next(st))
	case *ast.IfStmt:
		return u.ifStmt(s, st, next)
	case *ast.SwitchStmt:
		return u.switchStmt(s, st, next)
	case *ast.RangeStmt:
		return u.rangeStmt(s, st, next)
	case *ast.BranchStmt:
		u.must(s.Tok == token.CONTINUE && s.Label == nil && st.inLoop && len(rest) == 0, s, "unsupported branch statement")
		return k(st)
	}
	u.fail(s, "unsupported statement in unit setups")
	return ""
}

// testOf: the condition is exactly the test of the pending call; failing = the condition holds on failure.
func (u *s11) testOf(x ast.Expr, st *sst) (failing, ok bool) {
	if st.pend == nil {
		return false, false
	}
	x = s11unparen(x)
	if st.pend.isOK {
		if n, isNot := x.(*ast.UnaryExpr); isNot && n.Op == token.NOT {
			if id, isId := s11unparen(n.X).(*ast.Ident); isId && id.Name == st.pend.test {
				return true, true
			}
		}
		if id, isId := x.(*ast.Ident); isId && id.Name == st.pend.test {
			return false, true
		}
		return false, false
	}
	b, isBin := x.(*ast.BinaryExpr)
	if !isBin || (b.Op != token.NEQ && b.Op != token.EQL) || !u.isNil(b.Y, st) {
		return false, false
	}
	if id, isId := s11unparen(b.X).(*ast.Ident); isId && id.Name == st.pend.test {
		return b.Op == token.NEQ, true
	}
	return false, false
}

func (u *s11) ifStmt(i *ast.IfStmt, st *sst, next func(*sst) string) string {
	outer := s11names(st)
	after := s11leave(outer, next)
	var lines []string
	if i.Init != nil {
		a, ok := i.Init.(*ast.AssignStmt)
		u.must(ok, i.Init, "unsupported init statement")
		lines = u.assign(a, st)
	}
	arm := func(body []ast.Stmt, s *sst) string { return u.block(body, s, after) }
	elseArm := func(s *sst) string {
		switch b := i.Else.(type) {
		case nil:
			return after(s)
		case *ast.BlockStmt:
			return arm(b.List, s)
		case *ast.IfStmt:
			return u.ifStmt(b, s, after)
		}
		u.fail(i.Else, "unsupported else")
		return ""
	}
	// the test of a call's error / ok
	if failing, ok := u.testOf(i.Cond, st); ok {
		p := st.pend
		fs, ss := st.clone(), st.clone()
		fs.pend, ss.pend = nil, nil
		var failPat, okPat string
		var okLines []string
		if p.exc {
			e := u.fresh("err")
			failPat = ".error " + e
			fs.vars[p.test] = sv{kind: "errval", lean: e}
		} else {
			failPat = "none"
			if p.isOK {
				fs.vars[p.test] = sv{kind: "undef"}
			} else {
				fs.vars[p.test] = sv{kind: "errval", lean: ".lib " + u.leanStr(i, p.lib)}
			}
		}
		p.fail(fs)
		ss.vars[p.test] = sv{kind: "undef"}
		if p.valKind != "" {
			n := u.fresh(p.valKind)
			okPat = n
			okLines = p.store(ss, sv{kind: p.valKind, lean: n})
		} else {
			okPat = "_"
		}
		if p.exc {
			okPat = ".ok " + okPat
		} else {
			okPat = "some " + okPat
		}
		var failTxt, okTxt string
		if failing {
			failTxt = arm(i.Body.List, fs)
			okTxt = s11join(okLines, elseArm(ss))
		} else {
			okTxt = s11join(okLines, arm(i.Body.List, ss))
			failTxt = elseArm(fs)
		}
		return s11join(lines, "match "+p.scrut+" with\n| "+failPat+" =>\n"+indent(failTxt)+"\n| "+okPat+" =>\n"+indent(okTxt))
	}
	// `v == nil` / `v != nil`, v a local that holds the result of To4(): the other arm has the bytes
	if b, ok := s11unparen(i.Cond).(*ast.BinaryExpr); ok && (b.Op == token.EQL || b.Op == token.NEQ) && u.isNil(b.Y, st) {
		if id, ok := s11unparen(b.X).(*ast.Ident); ok && st.vars[id.Name].kind == "obytes" {
			v := st.vars[id.Name]
			ns, ss := st.clone(), st.clone()
			n := u.fresh("bytes")
			ns.vars[id.Name] = sv{kind: "undef"}
			ss.vars[id.Name] = sv{kind: "bytes", lean: n}
			var nilTxt, someTxt string
			if b.Op == token.EQL {
				nilTxt, someTxt = arm(i.Body.List, ns), elseArm(ss)
			} else {
				someTxt, nilTxt = arm(i.Body.List, ss), elseArm(ns)
			}
			return s11join(lines, "match "+v.lean+" with\n| none =>\n"+indent(nilTxt)+"\n| some "+n+" =>\n"+indent(someTxt))
		}
	}
	c := u.cond(i.Cond, st)
	ts, es := st.clone(), st.clone()
	if m := u.lenFacts(i.Cond, st, true); m > ts.minLen {
		ts.minLen = m
	}
	if m := u.lenFacts(i.Cond, st, false); m > es.minLen {
		es.minLen = m
	}
	if f := u.splitFacts(i.Cond, st, true); f != "" {
		ts.split2[f] = true
	}
	if f := u.splitFacts(i.Cond, st, false); f != "" {
		es.split2[f] = true
	}
	return s11join(lines, ite(c.s, arm(i.Body.List, ts), elseArm(es)))
}

// switchStmt: `switch s { case "a", "b": … default: … }` on a string ↦ an if chain in source order.
func (u *s11) switchStmt(s *ast.SwitchStmt, st *sst, next func(*sst) string) string {
	u.must(s.Init == nil && s.Tag != nil, s, "unsupported switch")
	tag := u.needStr(s.Tag, st)
	after := s11leave(s11names(st), next)
	type armT struct{ cond, body string }
	var arms []armT
	def := ""
	hasDefault := false
	for idx, cl := range s.Body.List {
		cc := cl.(*ast.CaseClause)
		ast.Inspect(cc, func(n ast.Node) bool {
			if b, ok := n.(*ast.BranchStmt); ok {
				u.fail(b, "branch statement inside a switch (unsupported)")
			}
			return true
		})
		body := u.block(cc.Body, st.clone(), after)
		if cc.List == nil {
			u.must(idx == len(s.Body.List)-1, cc, "default must be the last clause")
			def, hasDefault = body, true
			continue
		}
		var alts []string
		for _, e := range cc.List {
			lit, ok := u.strLit(e)
			u.must(ok, e, "case of a string switch must be a string literal")
			alts = append(alts, tag+" = Plug.strBytes "+u.leanStr(e, lit))
		}
		arms = append(arms, armT{strings.Join(alts, " ∨ "), body})
	}
	if !hasDefault {
		def = after(st.clone())
	}
	out := def
	for i := len(arms) - 1; i >= 0; i-- {
		out = ite(arms[i].cond, arms[i].body, out)
	}
	return out
}

// rangeStmt: `for _, x := range list { body }` ↦ a definition for the body, folded over the list.
func (u *s11) rangeStmt(r *ast.RangeStmt, st *sst, next func(*sst) string) string {
	x, ok := r.Value.(*ast.Ident)
	u.must(ok && r.Tok == token.DEFINE && (r.Key == nil || u.src(r.Key) == "_"), r, "expected `for _, x := range …`")
	u.must(st.pend == nil, r, "loop while the error of a call has not been tested")
	u.freshName(x, st)
	lst := u.val(r.X, st)
	var elemKind, elemType, list string
	switch lst.kind {
	case "args":
		elemKind, elemType, list = "arg", "Plug.ArgOracle", "args"
	case "strs":
		elemKind, elemType, list = "str", "Plug.Bytes", s11atom(lst.lean)
	default:
		u.fail(r.X, "range over a %s", lst.kind)
	}
	// what the body assigns: at most one configuration variable (the accumulator); outer locals become unknown
	var accName string
	touched := map[string]bool{}
	ast.Inspect(r.Body, func(n ast.Node) bool {
		a, ok := n.(*ast.AssignStmt)
		if !ok {
			return true
		}
		for _, l := range a.Lhs {
			id, ok := l.(*ast.Ident)
			if !ok {
				continue
			}
			if _, isLocal := st.vars[id.Name]; isLocal {
				touched[id.Name] = true
			} else if _, isGlob := st.globs[id.Name]; isGlob {
				u.must(accName == "" || accName == id.Name, l, "a loop that changes two configuration variables (unsupported)")
				accName = id.Name
			}
		}
		return true
	})
	u.nloop++
	name := u.fnLean + "_loop" + strconv.Itoa(u.nloop)
	bst := &sst{vars: map[string]sv{}, globs: map[string]sv{}, minLen: st.minLen, split2: map[string]bool{}, escaped: map[string]bool{}, inLoop: true}
	for k, v := range st.vars {
		switch v.kind {
		case "nilerr", "boolzero", "args":
			bst.vars[k] = v
		default:
			bst.vars[k] = sv{kind: "outer"}
		}
	}
	bst.vars[x.Name] = sv{kind: elemKind, lean: "x"}
	accType, accInit := "Unit", "()"
	if accName != "" {
		g := st.globs[accName]
		bst.globs[accName] = sv{kind: g.kind, lean: "acc"}
		accType, accInit = s11types[u.src(u.pkgVars[accName].Type)][1], s11atom(g.lean)
	}
	savedN := u.n
	u.n = 0
	body := u.block(r.Body.List, bst, func(e *sst) string {
		u.must(e.pend == nil, r.Body, "end of the loop body while the error of a call has not been tested")
		if accName == "" {
			return ".ok ()"
		}
		return ".ok " + s11atom(e.globs[accName].lean)
	})
	u.n = savedN
	u.defs = append(u.defs, def("one round of `"+name+"`, a loop of `"+u.fnLean+"` (`x` = the element, `acc` = the configuration variable the loop changes): `.ok` = next round, `.error` = the function returns that error.",
		name+" (acc : "+accType+") (x : "+elemType+") : Except Err "+s11atom(accType), body))
	for k := range touched {
		st.vars[k] = sv{kind: "undef"}
	}
	pat := "_"
	if accName != "" {
		g := st.globs[accName]
		g.lean = u.fresh(g.kind)
		st.globs[accName] = g
		pat = g.lean
	}
	return "match forEach " + name + " " + accInit + " " + list + " with\n| .error e => .error e\n| .ok " + pat + " =>\n" + indent(next(st))
}

// -------------------------------------------------------------- one plugin

// needMap: the package-level `var m = map[string]dhcpv4.AutoConfiguration{…}` as an association list.
func (u *s11) needMap(id *ast.Ident) {
	if u.maps[id.Name] {
		return
	}
	v := u.pkgVars[id.Name]
	u.must(v != nil && len(v.Names) == 1 && len(v.Values) == 1, id, "expected `var %s = map[string]dhcpv4.AutoConfiguration{…}`", id.Name)
	cl, ok := v.Values[0].(*ast.CompositeLit)
	u.must(ok && cl.Type != nil && u.src(cl.Type) == "map[string]dhcpv4.AutoConfiguration", v, "expected a map[string]dhcpv4.AutoConfiguration literal")
	ast.Inspect(u.fileOf, func(n ast.Node) bool { // the map is never changed
		switch n := n.(type) {
		case *ast.AssignStmt:
			for _, l := range n.Lhs {
				if ix, ok := l.(*ast.IndexExpr); ok && u.src(ix.X) == id.Name {
					u.fail(n, "the map %s is changed", id.Name)
				}
				if u.src(l) == id.Name {
					u.fail(n, "the map %s is changed", id.Name)
				}
			}
		case *ast.CallExpr:
			if f, ok := n.Fun.(*ast.Ident); ok && (f.Name == "delete" || f.Name == "clear") {
				u.fail(n, "the map may be changed")
			}
		}
		return true
	})
	st := &sst{vars: map[string]sv{}, globs: map[string]sv{}}
	var rows []string
	for _, e := range cl.Elts {
		kv, ok := e.(*ast.KeyValueExpr)
		u.must(ok, e, "expected key: value")
		k, ok := u.strLit(kv.Key)
		u.must(ok, kv.Key, "key must be a string literal")
		val := u.val(kv.Value, st)
		u.must(val.kind == "num", kv.Value, "value must be dhcpv4.AutoConfiguration(k) or a constant of the library")
		rows = append(rows, "(Plug.strBytes "+u.leanStr(kv.Key, k)+", "+val.lean+")")
	}
	u.defs = append(u.defs, def("the map literal `"+id.Name+"` ("+strings.TrimPrefix(u.plug.src, "/repo/")+"), in source order; Go rejects duplicate constant keys, so the first match is the only one.",
		u.plug.name+"_"+id.Name+" : List (Plug.Bytes × Nat)", "["+strings.Join(rows, ",\n ")+"]"))
	u.maps[id.Name] = true
}

// helper: a function of the same file that a set-up calls: `func f(p []string) error`, `func f(p ...string) (*url.URL, error)`.
func (u *s11) helper(id *ast.Ident) *s11helper {
	if h, ok := u.helpers[id.Name]; ok {
		u.must(h != nil, id, "recursive helper")
		return h
	}
	u.helpers[id.Name] = nil
	f := u.funcs[id.Name]
	ft := f.Type
	u.must(f.Recv == nil && f.Body != nil && ft.TypeParams == nil && len(ft.Params.List) == 1 && len(ft.Params.List[0].Names) == 1 && ft.Results != nil,
		id, "%s: only helpers with one parameter are supported", id.Name)
	h := &s11helper{lean: u.plug.name + "_" + id.Name}
	var sig, leanParam string
	switch u.src(ft.Params.List[0].Type) {
	case "[]string":
		h.param, sig, leanParam = "strs", "(ss : List Plug.Bytes)", "ss"
	case "...string":
		h.param, sig, leanParam = "args", "(args : List Plug.ArgOracle)", "args"
	default:
		u.fail(ft.Params.List[0].Type, "unsupported parameter type of a helper")
	}
	var res []string
	for _, r := range ft.Results.List {
		u.must(len(r.Names) == 0, r, "named results unsupported")
		res = append(res, u.src(r.Type))
	}
	var leanRes string
	switch strings.Join(res, ",") {
	case "error":
		h.mode, leanRes = "herr", "Unit"
	case "*url.URL,error":
		h.mode, h.retKind, leanRes = "hval", "url", "Plug.UrlOracle"
	default:
		u.fail(ft.Results, "unsupported result types of a helper")
	}
	// translate in a context of its own
	sMode, sCur, sRet, sFn, sN, sL := u.mode, u.cur, u.retKind, u.fnLean, u.n, u.nloop
	u.mode, u.retKind, u.fnLean, u.n, u.nloop = h.mode, h.retKind, h.lean, 0, 0
	st := &sst{vars: map[string]sv{}, globs: map[string]sv{}, split2: map[string]bool{}, escaped: map[string]bool{}}
	pn := ft.Params.List[0].Names[0]
	u.freshName(pn, st)
	st.vars[pn.Name] = sv{kind: h.param, lean: leanParam}
	body := u.block(f.Body.List, st, func(*sst) string {
		u.fail(f.Name, "control reaches the end of %s without a return", id.Name)
		return ""
	})
	u.defs = append(u.defs, def("`"+id.Name+"` ("+strings.TrimPrefix(u.plug.src, "/repo/")+"), translated from its go/ast; `.error e` = it returns the error e.",
		h.lean+" "+sig+" : Except Err "+leanRes, body))
	u.mode, u.cur, u.retKind, u.fnLean, u.n, u.nloop = sMode, sCur, sRet, sFn, sN, sL
	u.helpers[id.Name] = h
	return h
}

func (u *s11) setup(sp *s11setup) {
	f := u.funcs[sp.fn]
	u.must(f != nil && f.Body != nil, u.fileOf.Name, "function %s not found in %s", sp.fn, u.path)
	ft := f.Type
	proto := sp.fn[len(sp.fn)-1:]
	u.must(f.Recv == nil && ft.TypeParams == nil && len(ft.Params.List) == 1 && len(ft.Params.List[0].Names) == 1 && u.src(ft.Params.List[0].Type) == "...string" &&
		ft.Results != nil && len(ft.Results.List) == 2 && len(ft.Results.List[0].Names) == 0 && len(ft.Results.List[1].Names) == 0 &&
		u.src(ft.Results.List[0].Type) == "handler.Handler"+proto && u.src(ft.Results.List[1].Type) == "error",
		f.Name, "expected func(args ...string) (handler.Handler%s, error)", proto)
	u.must(u.imports["handler"] == s11pkgs["handler"], f.Name, "the file does not import %s as handler", s11pkgs["handler"])
	// the registration: Plugin = plugins.Plugin{… SetupN: <fn> …}
	reg := false
	if pv := u.pkgVars["Plugin"]; pv != nil && len(pv.Values) == 1 {
		if cl, ok := pv.Values[0].(*ast.CompositeLit); ok {
			for _, e := range cl.Elts {
				if kv, ok := e.(*ast.KeyValueExpr); ok && u.src(kv.Key) == "Setup"+proto && u.src(kv.Value) == sp.fn {
					reg = true
				}
			}
		}
	}
	u.must(reg, f.Name, "`Plugin` does not register %s as Setup%s", sp.fn, proto)
	u.mode, u.cur, u.fnLean, u.n, u.nloop = "setup", sp, sp.lean, 0, 0
	st := &sst{vars: map[string]sv{}, globs: map[string]sv{}, split2: map[string]bool{}, escaped: map[string]bool{}}
	var types, inits, zeros []string
	for i, g := range sp.cfg {
		v := u.pkgVars[g]
		u.must(v != nil && v.Type != nil && len(v.Values) == 0, f.Name, "package-level variable %s with an explicit type and no initial value not found", g)
		t, ok := s11types[u.src(v.Type)]
		u.must(ok, v.Type, "unsupported type of configuration variable %s", g)
		name := "init"
		if len(sp.cfg) > 1 {
			name = "init" + strconv.Itoa(i+1)
		}
		st.globs[g] = sv{kind: t[0], lean: name}
		types, inits, zeros = append(types, t[1]), append(inits, "("+name+" : "+t[1]+")"), append(zeros, t[2])
	}
	cfgType := strings.Join(types, " × ")
	if sp.closure != "" {
		cfgType = "Int"
	}
	pn := ft.Params.List[0].Names[0]
	u.freshName(pn, st)
	st.vars[pn.Name] = sv{kind: "args", lean: "args"}
	before := len(u.defs)
	body := u.block(f.Body.List, st, func(*sst) string {
		u.fail(f.Name, "control reaches the end of %s without a return", sp.fn)
		return ""
	})
	readsInit := false
	for _, d := range append(append([]string{}, u.defs[before:]...), body) {
		for i := range sp.cfg {
			n := "init"
			if len(sp.cfg) > 1 {
				n = "init" + strconv.Itoa(i+1)
			}
			for _, w := range strings.FieldsFunc(d, func(r rune) bool {
				return !(r == '_' || r >= '0' && r <= '9' || r >= 'a' && r <= 'z' || r >= 'A' && r <= 'Z')
			}) {
				readsInit = readsInit || w == n
			}
		}
	}
	rel := strings.TrimPrefix(u.plug.src, "/repo/")
	what := "the argument of `" + sp.closure + "`"
	if sp.closure == "" {
		what = "`" + strings.Join(sp.cfg, "`, `") + "`"
	}
	doc := "`" + sp.fn + "` (" + rel + "), translated from its go/ast; `.ok` carries " + what + " at the successful return.\nModel: `" + sp.model + "`."
	resType := "Except Err " + s11atom(cfgType)
	if !readsInit {
		u.defs = append(u.defs, def(doc, sp.lean+" (args : List Plug.ArgOracle) : "+resType, body))
		return
	}
	u.defs = append(u.defs, def(doc+"\nThe function reads "+what+" before (or without) writing: `init…` = the value(s) when it is called.",
		sp.lean+"From "+strings.Join(inits, " ")+" (args : List Plug.ArgOracle) : "+resType, body))
	u.defs = append(u.defs, def("`"+sp.fn+"` ("+rel+") at the FIRST set-up of the process: "+what+" ASSUMED to hold the Go zero value.",
		sp.lean+" (args : List Plug.ArgOracle) : "+resType, sp.lean+"From "+strings.Join(zeros, " ")+" args"))
}

func (u *s11) plugin(p s11plugin, path string) string {
	file, err := parser.ParseFile(u.fset, path, nil, parser.SkipObjectResolution)
	if err != nil {
		fmt.Fprintln(os.Stderr, "gen: parse:", err)
		os.Exit(2)
	}
	u.plug, u.path, u.fileOf = p, path, file
	u.imports, u.pkgVars, u.funcs = map[string]string{}, map[string]*ast.ValueSpec{}, map[string]*ast.FuncDecl{}
	u.helpers, u.maps, u.defs = map[string]*s11helper{}, map[string]bool{}, nil
	for _, im := range file.Imports {
		ip, _ := strconv.Unquote(im.Path.Value)
		name := filepath.Base(ip)
		if im.Name != nil {
			name = im.Name.Name
		}
		u.imports[name] = ip
		if want, ok := s11pkgs[name]; ok {
			u.must(ip == want, im, "package name %s stands for %s in the vocabulary", name, want)
		}
	}
	for _, d := range file.Decls {
		switch d := d.(type) {
		case *ast.FuncDecl:
			if d.Recv == nil {
				u.must(u.funcs[d.Name.Name] == nil, d.Name, "function declared twice")
				u.funcs[d.Name.Name] = d
			}
		case *ast.GenDecl:
			if d.Tok != token.VAR && d.Tok != token.CONST {
				continue
			}
			for _, sp := range d.Specs {
				v := sp.(*ast.ValueSpec)
				for _, n := range v.Names {
					u.pkgVars[n.Name] = v
				}
			}
		}
	}
	for _, b := range []string{"nil", "true", "false", "len", "append", "make"} {
		u.must(u.pkgVars[b] == nil && u.funcs[b] == nil, file.Name, "the builtin %s is redefined in this file", b)
	}
	for i := range p.setups {
		u.setup(&p.setups[i])
	}
	return "/-! ## " + p.name + " -/\n\n" + strings.Join(u.defs, "")
}

// ------------------------------------------------------------ the library

// readCtors6: `func OptX(…) Option { return &optT{…} }` + `func (optT) Code() OptionCode { return OptionY }` ↦ OptX ↦ number.
func (u *s11) readCtors6(lib string, files map[string]string) {
	for fn, path := range files {
		file, err := parser.ParseFile(u.fset, filepath.Join(lib, path), nil, parser.SkipObjectResolution)
		if err != nil {
			fmt.Fprintln(os.Stderr, "gen: parse:", err)
			os.Exit(2)
		}
		typ, code := "", ""
		for _, d := range file.Decls {
			f, ok := d.(*ast.FuncDecl)
			if !ok || f.Body == nil || len(f.Body.List) != 1 {
				continue
			}
			r, ok := f.Body.List[0].(*ast.ReturnStmt)
			if !ok || len(r.Results) != 1 {
				continue
			}
			if f.Recv == nil && f.Name.Name == fn {
				if un, ok := r.Results[0].(*ast.UnaryExpr); ok && un.Op == token.AND {
					if cl, ok := un.X.(*ast.CompositeLit); ok && cl.Type != nil {
						typ = u.src(cl.Type)
					}
				}
			}
		}
		for _, d := range file.Decls {
			f, ok := d.(*ast.FuncDecl)
			if !ok || f.Recv == nil || f.Name.Name != "Code" || f.Body == nil || len(f.Body.List) != 1 || len(f.Recv.List) != 1 {
				continue
			}
			if strings.TrimPrefix(u.src(f.Recv.List[0].Type), "*") != typ {
				continue
			}
			if r, ok := f.Body.List[0].(*ast.ReturnStmt); ok && len(r.Results) == 1 {
				code = u.src(r.Results[0])
			}
		}
		n, ok := u.consts["dhcpv6."+code]
		if typ == "" || !ok {
			fmt.Fprintf(os.Stderr, "gen: %s: cannot read the option code of dhcpv6.%s\n", filepath.Join(lib, path), fn)
			os.Exit(2)
		}
		u.ctors6[fn] = n
	}
}

const gen11Header = `-- GENERATED by harness gen -unit setups — do not edit
-- Regenerated on every run from the go/ast of the setup4 / setup6 functions of the option plugins below
-- /repo/plugins (and of the helpers they call); Props/GenSetups.lean proves every set-up equal to the
-- hand-written model in Model/OptPlug.lean (` + "`Plug.<plugin>.setup`" + `), errors collapsed to ` + "`()`" + `.
-- Option codes and the AutoConfigure constants are numbers read from the library source.
import CoreDhcp.Model.OptPlug
set_option linter.unusedVariables false
namespace CoreDhcp.GenSetup

/-! Fixed vocabulary (not derived from the source; the full table is in the header of gen11.go):
net.ParseIP(a) ↦ a.ip · .To4() / .To16() ↦ ipTo4 / ipTo16 (IpLit.to4 / to16 under the nil case) · .IsUnspecified() ↦ ipIsUnspecified ·
net.ParseMAC(a) ↦ a.mac · strconv.Atoi(a) ↦ a.int · time.ParseDuration(a) ↦ a.dur · url.Parse(a) ↦ a.url (none = err != nil) ·
strings.Split(a, ",") + net.ParseCIDR + net.ParseIP ↦ a.sr (.fields, .cidr, .router) · n.IP.To4() ↦ Plug.cidrTo4 c.ip ·
len(n.Mask) ↦ c.bits / 8, written c.bits <op> 8 * k · u.Scheme / Host / Path / String() / Query().Get("params") ↦ u.scheme / host / path / str / params ·
strings.ToLower ↦ Plug.lowerAscii (ASCII ONLY: Go's ToLower is Unicode-aware, "DUİD-LL" lowers to "duid-ll" there) ·
strings.Split(s, ".") ↦ Plug.splitOn 46 s · "literal" ↦ Plug.strBytes "literal" · checkValidNetmask ↦ Plug.netmask.checkValid (tied by unit netmask) ·
&dhcpv6.DUIDLL{Ethernet, mac} / DUIDLLT{Ethernet, 0, mac} ↦ some (Plug.encDuidLL mac) / some (Plug.encDuidLLT mac) ·
dhcpv4.OptX(s) / dhcpv6.OptBootFileURL(s) ↦ (code, s) · dhcpv6.OptBootFileParam(p) ↦ (code, Plug.encBootParams [p]) ·
append(l, x) ↦ l ++ [x] · log statements ↦ nothing (arguments checked to be free of side effects).
A configuration variable that a set-up reads before writing is the parameter ` + "`init`" + ` of ` + "`<name>From`" + `; ` + "`<name>`" + ` instantiates it
with the Go zero value: the package-level variables are ASSUMED untouched at the first set-up (fresh process). -/

/-- the error values: ` + "`new`" + ` = made here (the leading literal of errors.New / fmt.Errorf), ` + "`lib`" + ` = the error of a
standard-library function passed on -/
inductive Err
  | new (text : String)
  | lib (fn : String)
deriving DecidableEq, Repr

/-- ` + "`return nil, e`" + ` -/
abbrev failNil {α : Type} (e : Err) : Except Err α := .error e

/-- ` + "`return Handler4, e`" + `: a NON-NIL handler together with an error. The caller (plugins.LoadPlugins) tests
` + "`err != nil`" + ` only and drops the handler, so this is the same failure as ` + "`failNil`" + `. -/
abbrev failWithHandler {α : Type} (e : Err) : Except Err α := .error e

/-- ` + "`args[i]`" + `; the translator accepts the index only where a test of len(args) dominates it, so the
default is never looked at -/
def arg (args : List Plug.ArgOracle) (i : Nat) : Plug.ArgOracle := args.getD i { raw := [] }

/-- ` + "`args`" + ` as the ` + "`[]string`" + ` it is -/
def rawArgs (args : List Plug.ArgOracle) : List Plug.Bytes := args.map (·.raw)

/-- ` + "`ip.To4()`" + ` of a ` + "`net.IP`" + ` that may be nil (nil.To4() is nil) -/
def ipTo4 (ip : Option Plug.IpLit) : Option Plug.Bytes := ip.bind Plug.IpLit.to4

/-- ` + "`ip.To16()`" + ` (nil.To16() is nil; a parsed literal always has one) -/
def ipTo16 (ip : Option Plug.IpLit) : Option Plug.Bytes := ip.map Plug.IpLit.to16

/-- ` + "`ip.IsUnspecified()`" + ` (false for nil) -/
def ipIsUnspecified (ip : Option Plug.IpLit) : Bool :=
  match ip with
  | none => false
  | some i => i.isUnspecified

/-- ` + "`b[i]`" + ` -/
def byteAt (b : Plug.Bytes) (i : Nat) : Nat := b.getD i 0

/-- ` + "`net.IPv4Mask(a, b, c, d)`" + ` -/
def ipv4Mask (a b c d : Nat) : Plug.Bytes := [a, b, c, d]

/-- ` + "`*dhcpv4.Route`" + ` as the set-up fills it: ` + "`Dest`" + ` = the network of net.ParseCIDR, ` + "`Router`" + ` = the net.IP of net.ParseIP -/
structure Route where
  dest : Plug.Cidr
  router : Option Plug.IpLit
deriving DecidableEq, Repr

/-- ` + "`v, ok := m[key]`" + ` on a map literal given as its rows -/
def lookupStr (table : List (Plug.Bytes × Nat)) (key : Plug.Bytes) : Option Nat :=
  match table with
  | [] => none
  | (k, v) :: rest => if key = k then some v else lookupStr rest key

/-- ` + "`for _, x := range list { body }`" + `: the body's ` + "`.ok`" + ` is the state for the next round, its ` + "`.error`" + ` ends the function -/
def forEach {σ α : Type} (body : σ → α → Except Err σ) : σ → List α → Except Err σ
  | s, [] => .ok s
  | s, x :: xs =>
    match body s x with
    | .error e => .error e
    | .ok s' => forEach body s' xs

`

func runGen11(srcArg, outPath, lib string) {
	die := func(a ...interface{}) {
		fmt.Fprintln(os.Stderr, append([]interface{}{"gen:"}, a...)...)
		os.Exit(2)
	}
	var names []string
	for _, p := range s11plugins {
		names = append(names, p.name)
	}
	override := map[string]string{}
	if srcArg != "" { // plugin=file.go[,plugin=file.go…]
		for _, kv := range strings.Split(srcArg, ",") {
			p := strings.SplitN(kv, "=", 2)
			known := false
			for _, n := range names {
				known = known || n == p[0]
			}
			if len(p) != 2 || !known || override[p[0]] != "" {
				die("-src for unit setups is plugin=file.go[,plugin=file.go…]; plugins:", strings.Join(names, " "))
			}
			override[p[0]] = p[1]
		}
	}
	u := &s11{gen: &gen{fset: token.NewFileSet()}, consts: map[string]int{}, ctors6: map[string]int{}}
	d := &dunit{gen: u.gen, consts: u.consts}
	d.readConsts(filepath.Join(lib, "dhcpv4/types.go"), "dhcpv4")
	d.readConsts(filepath.Join(lib, "dhcpv4/option_autoconfigure.go"), "dhcpv4")
	d.readConsts(filepath.Join(lib, "dhcpv6/types.go"), "dhcpv6")
	h := &h4{gen: u.gen, consts: u.consts, ctors: map[string]h4ctor{}}
	libFiles, err := filepath.Glob(filepath.Join(lib, "dhcpv4", "option_*.go"))
	if err != nil || len(libFiles) == 0 {
		die("no dhcpv4/option_*.go below", lib)
	}
	sort.Strings(libFiles)
	for _, f := range libFiles {
		if !strings.HasSuffix(f, "_test.go") {
			h.readCtors(f)
		}
	}
	u.ctors4 = h.ctors
	u.readCtors6(lib, map[string]string{"OptBootFileURL": "dhcpv6/option_bootfileurl.go", "OptBootFileParam": "dhcpv6/option_bootfileparam.go"})
	out := gen11Header
	for _, p := range s11plugins {
		path := p.src
		if o := override[p.name]; o != "" {
			path = o
		}
		out += u.plugin(p, path)
	}
	out += "end CoreDhcp.GenSetup\n"
	if err := os.WriteFile(outPath, []byte(out), 0o644); err != nil {
		die(err)
	}
	fmt.Printf("gen: wrote %s (%d bytes) from %d plugin files\n", outPath, len(out), len(s11plugins))
	for name, p := range override {
		fmt.Printf("gen: %s read from %s\n", name, p)
	}
}
