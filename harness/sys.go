package main

// Engine "sys": the whole server on one datagram, against the composed Lean model
// (Model/System.lean). A history configures a chain of real built-in plugins (option plugins,
// server_id, file) in a fresh worker process, then feeds datagrams to the real HandleMsg4/6 through
// the capture hook. Each trace line carries the parsed request as the library exposes it (the
// parser is out of the repository: its answer is an input of the model) and everything about the
// reply: every header field, every option, destination, port, interface, link-layer flag.
//
//   sreset                                    => ok
//   sadd <4|6> <name> <k> <arghex>...         => <argument oracles> ; ok|err|unsupported|nilhandler
//   sfile <4|6> <contenthex>                  => <line oracle> ; ok|err
//   sdg4 <bound> <oob> <dghex>                => U ; <outcome>  |  P <request> ; <outcome>
//   sdg6 <bound> <oob> <srchex> <dghex>       => U ; <outcome>  |  P <mac> <request tree> ; <outcome>

import (
	"bufio"
	"bytes"
	"fmt"
	"math/big"
	"net"
	"os"
	"os/exec"
	"path/filepath"
	"strconv"
	"strings"
	"time"

	"github.com/coredhcp/coredhcp/handler"
	"github.com/coredhcp/coredhcp/plugins/file"
	"github.com/insomniacslk/dhcp/dhcpv4"
	"github.com/insomniacslk/dhcp/dhcpv6"
	"github.com/insomniacslk/dhcp/iana"
)

func init() {
	engines["sys"] = &engine{gen: genSys, replay: replaySys}
}

func req4full(d *dhcpv4.DHCPv4) string {
	return fmt.Sprintf("%d %s %d %s %d %s %s %s %s", d.OpCode, hx(d.TransactionID[:]), d.HWType, hx(d.ClientHWAddr), d.Flags,
		hx(d.ClientIPAddr.To4()), hx(d.GatewayIPAddr.To4()), hx(d.ServerIPAddr.To4()), opts4str(d.Options))
}

func resp4full(r *dhcpv4.DHCPv4) string {
	hdr := fmt.Sprintf("%d.%d.%s.%s.%s", r.HopCount, r.NumSeconds, hx(r.ClientIPAddr.To4()), hx([]byte(r.ServerHostName)), hx([]byte(r.BootFileName)))
	return fmt.Sprintf("%d %s %d %s %d %s %s %s %s %s", r.OpCode, hx(r.TransactionID[:]), r.HWType, hx(r.ClientHWAddr), r.Flags,
		hx(r.GatewayIPAddr.To4()), hx(r.YourIPAddr.To4()), hx(r.ServerIPAddr.To4()), opts4str(r.Options), hdr)
}

// tree of a DHCPv6 packet with every option of the message
func tree6full(d dhcpv6.DHCPv6) string {
	var sb []string
	for d != nil {
		if r, ok := d.(*dhcpv6.RelayMessage); ok {
			sb = append(sb, fmt.Sprintf("L %d %s %s %s %s", r.MessageType, hx(r.LinkAddr.To16()), hx(r.PeerAddr.To16()),
				optBytes6(r.GetOneOption(dhcpv6.OptionInterfaceID)), optBytes6(r.GetOneOption(dhcpv6.OptionRemoteID))))
			inner := r.Options.RelayMessage()
			if inner == nil {
				sb = append(sb, "NOINNER")
				break
			}
			d = inner
			continue
		}
		m := d.(*dhcpv6.Message)
		sb = append(sb, fmt.Sprintf("M %d %s %s", m.MessageType, hx(m.TransactionID[:]), opts6str(m.Options.Options)))
		break
	}
	return strings.Join(sb, " ")
}

// pdView is what the library hands the prefix plugin of the IA_PDs of a message: per IA_PD its IAID and, per
// IAPrefix, `hint e` (nil Prefix: prefix-length 0) or `hint p <ip> <ones> <bits>` (ones/bits of the mask, 0 0 for a nil mask)
func pdView(d dhcpv6.DHCPv6) string {
	msg, err := d.GetInnerMessage()
	if err != nil {
		return "pd -"
	}
	ias := msg.Options.IAPD()
	var sb strings.Builder
	fmt.Fprintf(&sb, "pd %d", len(ias))
	for _, ia := range ias {
		hs := ia.Options.Prefixes()
		fmt.Fprintf(&sb, " iapd %s %d", hx(ia.IaId[:]), len(hs))
		for _, h := range hs {
			if h.Prefix == nil {
				sb.WriteString(" hint e")
				continue
			}
			ones, bits := h.Prefix.Mask.Size()
			fmt.Fprintf(&sb, " hint p %s %d %d", hx(h.Prefix.IP), ones, bits)
		}
	}
	return sb.String()
}

// blockOf is block i of /size blocks counted from base (computed here, not by the code under test)
func blockOf(base net.IP, i, size int) net.IP {
	v := new(big.Int).SetBytes(base.To16())
	v.Add(v, new(big.Int).Lsh(big.NewInt(int64(i)), uint(128-size)))
	out := make(net.IP, 16)
	v.FillBytes(out)
	return out
}

func runSysWorker() {
	sc := bufio.NewScanner(os.Stdin)
	sc.Buffer(make([]byte, 1<<20), 1<<26)
	out := bufio.NewWriter(os.Stdout)
	defer out.Flush()
	var h4 []handler.Handler4
	var h6 []handler.Handler6
	dir, err := os.MkdirTemp(".", "sys")
	if err != nil {
		panic(err)
	}
	defer os.RemoveAll(dir)
	nfile := 0
	wedged := false
	hasPrefix := false
	var nns []string // positions in the chain of handlers that returned a nil response without stop, this datagram
	for sc.Scan() {
		f := strings.Fields(sc.Text())
		res := "badop"
		if wedged {
			fmt.Fprintln(out, "SKIP after-hang")
			out.Flush()
			continue
		}
		switch f[0] {
		case "sreset":
			res = "ok"
		case "sadd":
			var args, or []string
			for _, a := range f[4:] {
				args = append(args, string(unhx(a)))
				or = append(or, argOracle(string(unhx(a))))
			}
			orc := "-"
			if len(or) > 0 {
				orc = strings.Join(or, " ")
			}
			p := builtin[f[2]]
			r := guard(func() string {
				if f[1] == "4" {
					if p.Setup4 == nil {
						return "unsupported"
					}
					h, err := p.Setup4(args...)
					if err != nil {
						return "err"
					}
					if h == nil {
						return "nilhandler"
					}
					h4 = append(h4, h)
					return "ok"
				}
				if p.Setup6 == nil {
					return "unsupported"
				}
				h, err := p.Setup6(args...)
				if err != nil {
					return "err"
				}
				if h == nil {
					return "nilhandler"
				}
				h6 = append(h6, h)
				return "ok"
			})
			res = orc + " ; " + r
		case "sfile":
			content := unhx(f[2])
			nfile++
			name := filepath.Join(dir, fmt.Sprintf("leases%d.txt", nfile))
			os.WriteFile(name, content, 0o644)
			r := guard(func() string {
				if f[1] == "4" {
					h, err := file.Plugin.Setup4(name)
					if err != nil || h == nil {
						return "err"
					}
					h4 = append(h4, h)
					return "ok"
				}
				h, err := file.Plugin.Setup6(name)
				if err != nil || h == nil {
					return "err"
				}
				h6 = append(h6, h)
				return "ok"
			})
			res = lineOracle(content) + " ; " + r
		case "sprefix": // sprefix <poolhex> <sizehex>: the prefix plugin (arguments as text, like psetup)
			poolArg, sizeArg := string(unhx(f[1])), string(unhx(f[2]))
			oracle := "cidr:err"
			if _, n, err := net.ParseCIDR(poolArg); err == nil {
				ones, bits := n.Mask.Size()
				oracle = fmt.Sprintf("cidr:%s/%d/%d", hx(n.IP), ones, bits)
			}
			if v, err := strconv.Atoi(sizeArg); err == nil {
				oracle += fmt.Sprintf(" atoi:%d", v)
			} else {
				oracle += " atoi:err"
			}
			res = oracle + " " + guard(func() string {
				h, err := builtin["prefix"].Setup6(poolArg, sizeArg)
				if err != nil || h == nil {
					return "err"
				}
				h6 = append(h6, h)
				hasPrefix = true
				return "ok"
			})
		case "srange": // srange <start> <end> <lease ns>: the range plugin on a fresh lease database
			nfile++
			db := filepath.Join(dir, fmt.Sprintf("leases%d.sqlite3", nfile))
			res = guard(func() string {
				h, err := builtin["range"].Setup4(db, net.IP(unhx(f[1])).String(), net.IP(unhx(f[2])).String(), f[3]+"ns")
				if err != nil || h == nil {
					return "err"
				}
				h4 = append(h4, h)
				return "ok"
			})
		case "sdg4":
			nns = nil
			dg := unhx(f[3])
			parsed := "U"
			if d, err := dhcpv4.FromBytes(dg); err == nil {
				parsed = "P " + req4full(d)
			}
			r := watchdog(8*time.Second, func() string {
				return guard(func() string {
					caps := handleOn4(noteNilNoStop4(h4, &nns), atoi(f[1]), dg, atoi(f[2]), &net.UDPAddr{IP: net.IPv4(192, 0, 2, 1), Port: 68})
					if len(caps) == 0 {
						return "drop"
					}
					if len(caps) > 1 {
						return fmt.Sprintf("send%d", len(caps))
					}
					cp := caps[0]
					ifi := "-"
					if cp.OOB != nil {
						ifi = fmt.Sprint(cp.OOB.IfIndex)
					}
					rt := guard(func() string {
						wire := cp.Resp.ToBytes()
						back, err := dhcpv4.FromBytes(wire)
						if err != nil {
							return "rt-unparsable"
						}
						if !bytes.Equal(back.ToBytes(), wire) || resp4full(back) != resp4full(cp.Resp) {
							return "rt-differs"
						}
						return "rt-ok"
					})
					return fmt.Sprintf("send %s %d %s %d %s %s", hx(cp.Peer.IP.To4()), cp.Peer.Port, ifi, b2i(cp.L2), resp4full(cp.Resp), rt)
				})
			})
			res = parsed + " ; " + r
			if len(nns) > 0 {
				res += " ; nns " + strings.Join(nns, " ")
			}
		case "sdg6":
			nns = nil
			dg := unhx(f[4])
			parsed := "U"
			pdOracle := ""
			if d, err := dhcpv6.FromBytes(dg); err == nil {
				mac := "-"
				if m, err := dhcpv6.ExtractMAC(d); err == nil {
					mac = hx(m)
					if len(m) == 0 {
						mac = "e"
					}
				}
				parsed = "P " + mac + " " + tree6full(d)
				if hasPrefix {
					pdOracle = " ; " + pdView(d)
				}
			}
			r := watchdog(8*time.Second, func() string {
				return guard(func() string {
					caps := handleOn6(noteNilNoStop6(h6, &nns), atoi(f[1]), dg, atoi(f[2]), &net.UDPAddr{IP: net.IP(unhx(f[3])), Port: 546})
					if len(caps) == 0 {
						return "drop"
					}
					if len(caps) > 1 {
						return fmt.Sprintf("send%d", len(caps))
					}
					cp := caps[0]
					ifi := "-"
					if cp.OOB != nil {
						ifi = fmt.Sprint(cp.OOB.IfIndex)
					}
					rt := guard(func() string {
						wire := cp.Resp.ToBytes()
						back, err := dhcpv6.FromBytes(wire)
						if err != nil {
							return "rt-unparsable"
						}
						if !bytes.Equal(back.ToBytes(), wire) || tree6full(back) != tree6full(cp.Resp) {
							return "rt-differs"
						}
						return "rt-ok"
					})
					return fmt.Sprintf("send %s %s %d %s %s", ifi, hx(cp.Peer.IP.To16()), cp.Peer.Port, tree6full(cp.Resp), rt)
				})
			})
			res = parsed + " ; " + r + pdOracle
			if len(nns) > 0 {
				res += " ; nns " + strings.Join(nns, " ")
			}
		}
		if strings.HasSuffix(res, "HANG") {
			wedged = true
		}
		fmt.Fprintln(out, res)
		out.Flush()
	}
}

func runSysGroup(c *ctx, ops []string) {
	cmd := exec.Command(os.Args[0], "sysworker")
	cmd.Stdin = strings.NewReader(strings.Join(ops, "\n") + "\n")
	var ob bytes.Buffer
	cmd.Stdout = &ob
	done := make(chan error, 1)
	go func() { done <- cmd.Run() }()
	select {
	case <-done:
	case <-time.After(180 * time.Second):
		cmd.Process.Kill()
	}
	lines := strings.Split(strings.TrimRight(ob.String(), "\n"), "\n")
	for i, op := range ops {
		res := "CRASH"
		if i < len(lines) && lines[i] != "" {
			res = lines[i]
		}
		c.emit(op, res)
	}
}

func replaySys(c *ctx, ops []string) {
	var group []string
	for _, op := range ops {
		if op == "sreset" && len(group) > 0 {
			runSysGroup(c, group)
			group = nil
		}
		group = append(group, op)
	}
	if len(group) > 0 {
		runSysGroup(c, group)
	}
}

// accepted argument vectors per plugin: [0] DHCPv4, [1] DHCPv6
var sysValid = map[string][2][]string{
	"dns":           {{"8.8.8.8 1.1.1.1", "10.0.0.53"}, {"2001:db8::53 2001:db8::54", "2001:4860:4860::8888"}},
	"router":        {{"10.0.0.1", "10.0.0.1 10.0.0.2"}, {"-"}},
	"netmask":       {{"255.255.255.0", "255.255.0.0"}, {"-"}},
	"mtu":           {{"1500", "9000"}, {"-"}},
	"lease_time":    {{"3600s", "90m"}, {"-"}},
	"searchdomains": {{"example.com", "example.com sub.example.org"}, {"example.com", "a.b.c sub.example.org"}},
	"staticroute":   {{"10.20.0.0/16,10.0.0.254", "0.0.0.0/0,10.0.0.1 192.168.7.0/24,192.168.7.1"}, {"-"}},
	"ipv6only":      {{"300s", "0s"}, {"-"}},
	"autoconfigure": {{"DoNotAutoConfigure", "AutoConfigure"}, {"-"}},
	"nbp":           {{"tftp://10.0.0.5/pxelinux.0", "http://boot.example.com/b.efi", "tftp://10.0.0.5/my%20nbp.efi", "ftp://h/x^y"}, {"http://[2001:db8::1]/boot.ipxe?params=a%20b", "tftp://[2001:db8::5]/x"}},
	"sleep":         {{"1ms", "0s"}, {"1ms", "0s"}},
}

func genSys(c *ctx) {
	for c.count < c.n {
		v6 := c.rng.Intn(2) == 0
		proto := "4"
		if v6 {
			proto = "6"
		}
		macs := [][]byte{{2, 0, 0, 0, 0, 1}, {2, 0, 0, 0, 0, 2}, {2, 0, 0, 0, 0, 3}, {2, 0, 0, 0, 0, 4}}
		group := []string{"sreset"}
		// the chain: every plugin at most once (several keep their configuration in package globals), any order
		var cands []plugSpec
		for _, sp := range plugSpecs {
			if (v6 && sp.v6) || (!v6 && sp.v4) {
				cands = append(cands, sp)
			}
		}
		cands = append(cands, plugSpec{name: "file"})
		if !v6 && c.rng.Intn(2) == 0 {
			cands = append(cands, plugSpec{name: "range"})
		}
		// prefix: a pool of a few blocks, so that it runs out
		pdPool := []struct {
			cidr string
			size int
		}{{"2001:db8:f000::/62", 64}, {"2001:db8:f000::/60", 61}, {"2001:db8:f000:40::/58", 60}, {"2001:db8:f000::/64", 64}, {"::ffff:0:0/110", 112}}[c.rng.Intn(5)]
		hasPD := false
		if v6 && c.rng.Intn(2) == 0 {
			cands = append(cands, plugSpec{name: "prefix"})
		}
		c.rng.Shuffle(len(cands), func(a, b int) { cands[a], cands[b] = cands[b], cands[a] })
		// the usual layout, often: server_id first
		if c.rng.Intn(3) == 0 {
			for i, sp := range cands {
				if sp.name == "server_id" {
					cands[0], cands[i] = cands[i], cands[0]
				}
			}
		}
		k := c.rng.Intn(len(cands) + 1)
		if k > 7 {
			k = 7
		}
		// usual layouts, now and then. PXE: server_id first, a few option plugins, nbp (which ends the chain) last.
		// The example configuration (cmds/coredhcp/config.yml.example): lease_time, server_id, dns, router, netmask, range.
		// Static before dynamic or the other way round: range and file in one chain.
		layout := c.rng.Intn(10)
		pxe := layout == 0
		byName := map[string]plugSpec{}
		for _, sp := range cands {
			byName[sp.name] = sp
		}
		pickNames := func(names ...string) []plugSpec {
			var out []plugSpec
			for _, n := range names {
				if sp, ok := byName[n]; ok {
					out = append(out, sp)
				} else if n == "range" || n == "file" {
					out = append(out, plugSpec{name: n})
				}
			}
			return out
		}
		switch {
		case pxe:
			var first, last, mid []plugSpec
			for _, sp := range cands {
				switch sp.name {
				case "server_id":
					first = append(first, sp)
				case "nbp":
					last = append(last, sp)
				case "file", "range", "prefix", "sleep":
				default:
					mid = append(mid, sp)
				}
			}
			if len(mid) > 3 {
				mid = mid[:3]
			}
			cands = append(append(first, mid...), last...)
			k = len(cands)
		case layout == 1 && !v6:
			cands = pickNames("lease_time", "server_id", "dns", "router", "netmask", "range")
			k = len(cands)
			pxe = true // accepted arguments throughout
		case layout == 2 && !v6:
			if c.rng.Intn(2) == 0 {
				cands = pickNames("server_id", "range", "file", "dns")
			} else {
				cands = pickNames("file", "range", "router")
			}
			k = len(cands)
			pxe = true
		}
		var ownSID net.IP
		var ownDUID dhcpv6.DUID
		for _, sp := range cands[:k] {
			if sp.name == "range" {
				// a small range, so that it runs out
				start := uint32(0x0a000a0a) + uint32(c.rng.Intn(200))
				size := uint32(1 + c.rng.Intn(6))
				lease := []int64{60e9, 3600e9, 1500e6, 400e6, 0, 2499999999}[c.rng.Intn(6)]
				group = append(group, fmt.Sprintf("srange %s %s %d", hx(u32ip(start)), hx(u32ip(start+size)), lease))
				continue
			}
			if sp.name == "prefix" {
				size := fmt.Sprint(pdPool.size)
				if c.rng.Intn(12) == 0 {
					size = pick(c, []string{"129", "-1", "x", "20"})
				}
				group = append(group, fmt.Sprintf("sprefix %s %s", hx([]byte(pdPool.cidr)), hx([]byte(size))))
				hasPD = true
				continue
			}
			if sp.name == "file" {
				var sb strings.Builder
				for _, m := range macs[:1+c.rng.Intn(3)] {
					if v6 {
						fmt.Fprintf(&sb, "%s 2001:db8::10:%d\n", net.HardwareAddr(m), 1+c.rng.Intn(200))
					} else {
						fmt.Fprintf(&sb, "%s 10.9.0.%d\n", net.HardwareAddr(m), 1+c.rng.Intn(200))
					}
					if c.rng.Intn(4) == 0 {
						sb.WriteString("# comment\n")
					}
				}
				group = append(group, fmt.Sprintf("sfile %s %s", proto, hx([]byte(sb.String()))))
				continue
			}
			var args []string
			if sp.name == "server_id" {
				// mostly valid
				if v6 {
					args = []string{pick(c, []string{"LL", "llt", "duid-ll"}), pick(c, []string{"00:de:ad:be:ef:00", "00:11:22:33:44:55"})}
					if c.rng.Intn(6) == 0 {
						args = serverIDArgs(c, true)
					}
					ownDUID = duidFor(args)
				} else {
					args = []string{pick(c, []string{"10.0.0.1", "192.0.2.7"})}
					if c.rng.Intn(6) == 0 {
						args = serverIDArgs(c, false)
					}
					if len(args) > 0 {
						ownSID = net.ParseIP(args[0]).To4()
					}
				}
			} else if v, ok := sysValid[sp.name]; ok && (pxe || c.rng.Intn(10) < 6) && v[b2i(v6)][0] != "-" {
				// mostly configurations that are accepted, so that chains get long
				args = strings.Fields(v[b2i(v6)][c.rng.Intn(len(v[b2i(v6)]))])
			} else {
				args = sp.args(c)
			}
			op := fmt.Sprintf("sadd %s %s %d", proto, sp.name, len(args))
			for _, a := range args {
				op += " " + hx([]byte(a))
			}
			group = append(group, op)
		}
		ndg := 8 + c.rng.Intn(20)
		for i := 0; i < ndg; i++ {
			bound := []int{0, 3}[c.rng.Intn(2)]
			oob := []int{-1, 0, 4, 5}[c.rng.Intn(4)]
			if v6 {
				m, _ := dhcpv6.NewMessage()
				m.MessageType = []dhcpv6.MessageType{dhcpv6.MessageTypeSolicit, dhcpv6.MessageTypeSolicit, dhcpv6.MessageTypeRequest, dhcpv6.MessageTypeRenew, dhcpv6.MessageTypeRebind,
					dhcpv6.MessageTypeInformationRequest, dhcpv6.MessageTypeRelease, dhcpv6.MessageTypeConfirm, dhcpv6.MessageTypeDecline, dhcpv6.MessageType(c.rng.Intn(256))}[c.rng.Intn(10)]
				mac := macs[c.rng.Intn(len(macs))]
				switch c.rng.Intn(8) {
				case 0: // no client id
				case 1: // a client id no MAC can be taken from
					m.AddOption(dhcpv6.OptClientID(&dhcpv6.DUIDEN{EnterpriseNumber: 7, EnterpriseIdentifier: []byte{1, 2, 3, 4}}))
				default:
					m.AddOption(dhcpv6.OptClientID(&dhcpv6.DUIDLL{HWType: iana.HWTypeEthernet, LinkLayerAddr: mac}))
				}
				switch c.rng.Intn(5) {
				case 0, 1:
					if ownDUID != nil {
						m.AddOption(dhcpv6.OptServerID(ownDUID))
					}
				case 2:
					m.AddOption(dhcpv6.OptServerID(&dhcpv6.DUIDLL{HWType: iana.HWTypeEthernet, LinkLayerAddr: net.HardwareAddr{0, 0xde, 0xad, 0xbe, 0xef, 9}}))
				}
				switch c.rng.Intn(4) {
				case 0:
				case 1:
					m.AddOption(dhcpv6.OptRequestedOption())
				default:
					var sub []dhcpv6.OptionCode
					for _, o := range []dhcpv6.OptionCode{dhcpv6.OptionDNSRecursiveNameServer, dhcpv6.OptionDomainSearchList, dhcpv6.OptionBootfileURL, dhcpv6.OptionBootfileParam, dhcpv6.OptionNTPServer} {
						if c.rng.Intn(2) == 0 {
							sub = append(sub, o)
						}
					}
					m.AddOption(dhcpv6.OptRequestedOption(sub...))
				}
				if c.rng.Intn(3) != 0 {
					m.AddOption(&dhcpv6.OptIANA{IaId: [4]byte{1, 2, 3, byte(i)}})
				}
				if c.rng.Intn(4) == 0 {
					m.AddOption(&dhcpv6.OptionGeneric{OptionCode: dhcpv6.OptionRapidCommit})
				}
				if hasPD && c.rng.Intn(5) != 0 || c.rng.Intn(8) == 0 {
					// IA_PDs: none, one or several, each with no hint, a length-only hint, a block of the pool (free, or
					// delegated to this client or another), prefix-length 0, more than 128, out of the pool
					_, pn, _ := net.ParseCIDR(pdPool.cidr)
					pones, _ := pn.Mask.Size()
					nblk := 1 << uint(pdPool.size-pones)
					for k := []int{1, 1, 1, 2, 3}[c.rng.Intn(5)]; k > 0; k-- {
						body := []byte{0, 0, 0, byte(1 + c.rng.Intn(3)), 0, 0, 0, 0, 0, 0, 0, 0}
						for nh := []int{0, 0, 1, 1, 1, 2, 3}[c.rng.Intn(7)]; nh > 0; nh-- {
							blk := blockOf(pn.IP, c.rng.Intn(nblk), pdPool.size)
							var ob []byte
							switch c.rng.Intn(9) {
							case 0:
								ob = rawIAPrefix(net.IPv6zero, 0)
							case 1:
								ob = rawIAPrefix(blk, 0)
							case 2:
								ob = rawIAPrefix(net.IPv6zero, pdPool.size)
							case 3:
								ob = rawIAPrefix(net.IPv6zero, []int{48, 127, 128, 1}[c.rng.Intn(4)])
							case 4:
								ob = rawIAPrefix(blk, []int{129, 200, 255}[c.rng.Intn(3)])
							case 5:
								ob = rawIAPrefix(net.ParseIP("2001:db8:e000::"), pdPool.size)
							case 6:
								ob = rawIAPrefix(blk, pdPool.size+1+c.rng.Intn(3))
							default:
								ob = rawIAPrefix(blk, pdPool.size)
							}
							body = append(body, 0, byte(dhcpv6.OptionIAPrefix), 0, byte(len(ob)))
							body = append(body, ob...)
						}
						m.AddOption(&dhcpv6.OptionGeneric{OptionCode: dhcpv6.OptionIAPD, OptionData: body})
					}
				}
				var d dhcpv6.DHCPv6 = m
				for r := c.rng.Intn(4) / 2 * (1 + c.rng.Intn(2)); r > 0; r-- {
					mt := dhcpv6.MessageTypeRelayForward
					if c.rng.Intn(12) == 0 {
						mt = dhcpv6.MessageTypeRelayReply
					}
					rr, err := dhcpv6.EncapsulateRelay(d, mt, net.ParseIP("2001:db8::1"), net.ParseIP("fe80::1"))
					if err != nil {
						break
					}
					if c.rng.Intn(3) == 0 {
						rr.AddOption(dhcpv6.OptInterfaceID([]byte{9, byte(r)}))
					}
					if c.rng.Intn(3) == 0 {
						// the relay reports the client's hardware address itself (RFC 6939): the same or another than the client id's
						rr.AddOption(dhcpv6.OptClientLinkLayerAddress(iana.HWTypeEthernet, net.HardwareAddr(macs[c.rng.Intn(len(macs))])))
					} else if c.rng.Intn(4) == 0 {
						hw := macs[c.rng.Intn(len(macs))]
						rr.PeerAddr = net.IP{0xfe, 0x80, 0, 0, 0, 0, 0, 0, hw[0] ^ 2, hw[1], hw[2], 0xff, 0xfe, hw[3], hw[4], hw[5]}
					}
					d = rr
				}
				src := net.ParseIP("fe80::99")
				if c.rng.Intn(2) == 0 {
					src = net.ParseIP("2001:db8::99")
				}
				dg := d.ToBytes()
				if c.rng.Intn(6) == 0 {
					dg = c.mutate(dg)
				}
				group = append(group, fmt.Sprintf("sdg6 %d %d %s %s", bound, oob, hx(src), hx(dg)))
			} else {
				c.sidCell = -1
				f := strings.Fields(c.req4(ownSID)) // preq4 <dg> …: the request battery of the plug engine
				d, err := dhcpv4.FromBytes(unhx(f[1]))
				if err != nil {
					continue
				}
				if c.rng.Intn(3) != 0 {
					d.ClientHWAddr = net.HardwareAddr(macs[c.rng.Intn(len(macs))])
				}
				if c.rng.Intn(4) == 0 {
					d.GatewayIPAddr = net.IPv4(10, 1, 1, byte(c.rng.Intn(3))).To4()
				}
				if c.rng.Intn(4) == 0 {
					d.ClientIPAddr = []net.IP{net.IPv4(10, 0, 0, 77).To4(), net.IPv4(169, 254, 3, 4).To4(), net.IPv4bcast.To4()}[c.rng.Intn(3)]
				}
				if c.rng.Intn(4) == 0 {
					d.SetBroadcast()
				}
				if c.rng.Intn(5) == 0 {
					d.UpdateOption(dhcpv4.OptGeneric(dhcpv4.OptionRelayAgentInformation, [][]byte{{1, 2, 0xaa, 0xbb}, {1, 2, 0xaa, 0xbb}, {11, 4, 10, 9, 9, 9}, {1, 1, 7, 11, 4, 192, 0, 2, 200, 5, 4, 10, 0, 0, 1}}[c.rng.Intn(4)]))
				}
				if c.rng.Intn(5) == 0 {
					d.UpdateOption(dhcpv4.OptGeneric(dhcpv4.OptionClientIdentifier, []byte{1, 2, 0, 0, 0, 0, byte(i)}))
				}
				if c.rng.Intn(12) == 0 {
					d.UpdateOption(dhcpv4.OptGeneric(dhcpv4.OptionClientIdentifier, []byte{}))
				}
				if c.rng.Intn(10) == 0 {
					d.UpdateOption(dhcpv4.OptMessageType(dhcpv4.MessageType(c.rng.Intn(10))))
				}
				if c.rng.Intn(3) == 0 {
					// any other option a client may send, well-formed or too short for its own header (host name, domain, vendor
					// class, client FQDN, architecture, UUID, ...): nobody may trip over it (round 8: option 81 of two bytes)
					code := []uint8{12, 12, 15, 43, 60, 77, 81, 81, 81, 93, 94, 97, 119, 124, 125, 224, uint8(1 + c.rng.Intn(254))}[c.rng.Intn(17)]
					if code != 53 && code != 55 && code != 61 && code != 82 && code != 50 && code != 54 && code != 51 && code != 116 && code != 108 && code != 255 {
						body := make([]byte, []int{0, 1, 2, 3, 4, 7, 16}[c.rng.Intn(7)])
						c.rng.Read(body)
						d.UpdateOption(dhcpv4.OptGeneric(dhcpv4.GenericOptionCode(code), body))
					}
				}
				if c.rng.Intn(4) == 0 {
					// option 50: an address of the range plugin's pool, none, another
					d.UpdateOption(dhcpv4.OptRequestedIPAddress([]net.IP{u32ip(uint32(0x0a000a0a) + uint32(c.rng.Intn(206))), net.IPv4zero.To4(), net.IPv4(192, 168, 1, 77).To4()}[c.rng.Intn(3)]))
				}
				dg := d.ToBytes()
				if c.rng.Intn(6) == 0 {
					dg = c.mutate(dg)
				}
				group = append(group, fmt.Sprintf("sdg4 %d %d %s", bound, oob, hx(dg)))
			}
		}
		runSysGroup(c, group)
	}
}

// noteNilNoStop4/6 wrap every handler of a chain: a built-in handler returns a nil response only together with stop
// (C13, last sentence); the position of one that does not is noted - the handler behind it usually dereferences the nil.
func noteNilNoStop4(hs []handler.Handler4, nns *[]string) []handler.Handler4 {
	out := make([]handler.Handler4, len(hs))
	for i, h := range hs {
		i, h := i, h
		out[i] = func(req, resp *dhcpv4.DHCPv4) (*dhcpv4.DHCPv4, bool) {
			r, stop := h(req, resp)
			if r == nil && !stop {
				*nns = append(*nns, fmt.Sprint(i))
			}
			return r, stop
		}
	}
	return out
}

func noteNilNoStop6(hs []handler.Handler6, nns *[]string) []handler.Handler6 {
	out := make([]handler.Handler6, len(hs))
	for i, h := range hs {
		i, h := i, h
		out[i] = func(req, resp dhcpv6.DHCPv6) (dhcpv6.DHCPv6, bool) {
			r, stop := h(req, resp)
			if r == nil && !stop {
				*nns = append(*nns, fmt.Sprint(i))
			}
			return r, stop
		}
	}
	return out
}
