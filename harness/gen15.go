// gen15.go — `harness gen -unit ethernet`: server/sendEthernet.go regenerated as Lean definitions
// (namespace CoreDhcp.GenEth, file CoreDhcp/Generated/Ethernet.lean) from its go/ast:
//
//	layers.Ethernet{…}, layers.IPv4{…}, layers.UDP{…}   ↦ GenEth.eth, GenEth.ip, GenEth.udp : Eth.Args → <the library struct>
//	gopacket.SerializeOptions{…}                        ↦ GenEth.options
//	gopacket.SerializeLayers(buf, opts, l1, …, ln)      ↦ GenEth.layerOrder, GenEth.payload (the layer after the UDP layer,
//	                                                      followed back through the type assertion, packet.Layer and
//	                                                      gopacket.NewPacket to the bytes it was decoded from)
//	syscall.Socket(…), SockaddrLinklayer{…}, Sendto     ↦ GenEth.socketArgs, GenEth.sockaddr
//	sendEthernet                                        ↦ GenEth.sendEthernet : Eth.Args → Option Eth.Frame
//	(probes)                                            ↦ GenEth.payloadProbes: the REAL dhcpv4 ToBytes and the REAL gopacket
//	                                                      DHCPv4 layer, run by this program on fixed replies
//
// Props/GenEthernet.lean proves `GenEth.sendEthernet` equal to the model `Eth.sendEthernet` (Model/Ethernet.lean).
// `-lib dhcpRoot[,gopacketRoot]`: the library sources the constants, the struct declarations and the refusals are read from.
//
// The translator goes through the function statement by statement, knows ONLY the constructs this function
// uses, and fails loudly (source position, exit code 2) on everything else; another function or a package-level
// declaration in the file is an error too.
//
// DERIVED FROM THE AST
//   - for EVERY field of the three layer structs (the field lists are read from the library declarations): the
//     expression it is set from, or the zero value when the literal does not mention it
//   - the numeric value of every named constant (layers.EthernetTypeIPv4, layers.IPProtocolUDP,
//     layers.IPv4DontFragment = 1 << 1, dhcpv4.ServerPort, dhcpv4.ClientPort …): evaluated from the library source
//   - the order of the layers in the SerializeLayers call, the options, which layer the UDP checksum is told to use
//   - the refusals of layers/ethernet.go SerializeTo (`len(eth.DstMAC) != 6`, `len(eth.SrcMAC) != 6`): field, operator
//     and constant read from the library; they become the guard of GenEth.sendEthernet in the library's order
//   - the fields of SockaddrLinklayer, the arguments of Socket and Sendto
//   - the order of the effects: every fallible call is followed IMMEDIATELY by its error test, every error test
//     returns a non-nil error (nothing is sent on that path); `copy(hw[0:k], resp.ClientHWAddr[0:k])` is accepted only
//     after the error test of SerializeLayers and only when a layer field refused for a length other than n ≥ k is
//     set from resp.ClientHWAddr (before that point the slice expression can panic for a short chaddr)
//
// FIXED VOCABULARY
//
//	Go                                   Lean (Model/Ethernet.lean: a : Eth.Args)
//	-----------------------------------  ------------------------------------------------------------------
//	iface.HardwareAddr  (net.HardwareAddr)   a.ifMac
//	iface.Index         (int)                a.ifIndex
//	resp.ClientHWAddr   (net.HardwareAddr)   a.chaddr
//	resp.ServerIPAddr   (net.IP)             a.siaddr
//	resp.YourIPAddr     (net.IP)             a.yiaddr
//	the DHCPv4 layer gopacket decodes from   a.wire
//	  resp.ToBytes(), serialised again
//	integer literal, pkg.Const               its value
//	SerializeLayers(buf, {FixLengths, ComputeChecksums}, &eth, &ip, &udp, dhcp); data := buf.Bytes();
//	Sendto(fd, data, 0, &sockaddr)           GenEth.frame eth ip udp payload sockaddr  (in the generated header:
//	                                         which layer field is which field of Eth.Frame)
//
// Go names never reach the generated text: renaming a local or a parameter, reformatting, comments, reordering the
// fields of a literal or the three literals regenerate the same file.
package main

import (
	"fmt"
	"go/ast"
	"go/parser"
	"go/token"
	"net"
	"os"
	"path/filepath"
	"runtime"
	"sort"
	"strconv"
	"strings"

	"github.com/google/gopacket"
	"github.com/google/gopacket/layers"
	"github.com/insomniacslk/dhcp/dhcpv4"
)

const ethernetSrc = "/repo/server/sendEthernet.go"
const defaultGopacket = "/root/go/pkg/mod/github.com/google/gopacket@v1.1.19"

// the packages of the vocabulary: local name in the source ↦ import path
var e15pkgs = map[string]string{"fmt": "fmt", "net": "net", "syscall": "syscall", "gopacket": "github.com/google/gopacket",
	"layers": "github.com/google/gopacket/layers", "dhcpv4": "github.com/insomniacslk/dhcp/dhcpv4"}

// a value of the abstract run
type v15 struct {
	kind   string // bytes num bool | layer opts sockaddr | err buf packet declayer dhcp ok data fd arr | iface resp
	lean   string // bytes, num, bool: the Lean text
	gotype string // bytes, num: the Go type of the expression ("" = untyped constant)
	what   string // bytes, num: how the source spells it (for comments: library names only, never a local name)
	// layer / opts / sockaddr
	typ    string          // Ethernet IPv4 UDP | SerializeOptions | SockaddrLinklayer
	fields map[string]*v15 // as written
	at     ast.Node
	pseudo *v15 // udp: the layer given to SetNetworkLayerForChecksum
	// packet / declayer / dhcp: the bytes decoded, the layer type
	from    *v15
	ltype   string
	done    bool // buf: SerializeLayers succeeded on it
	size    int  // arr
	content string
	call    string // err: the call that set it
}

type lfield struct {
	name, typ string
	lean      string // Lean type, "" = not representable (embedded, unexported, slices of structs)
}

type e15 struct {
	*gen
	imports  map[string]string // local name ↦ path
	dirs     map[string]string // import path ↦ directory of the library source
	pkgs     map[string]map[string]*ast.File
	vars     map[string]*v15
	iface    string
	resp     string
	structs  map[string][]lfield
	consts   []string // "pkg.Name = value", as used
	guards   []guard15
	order    []*v15
	options  *v15
	payload  *v15
	socket   []string
	sockaddr *v15
	sent     bool
	closed   bool
	ethLen   map[string]int // field of Ethernet ↦ the only length SerializeTo accepts
}

type guard15 struct {
	field string
	n     int
	pos   string
}

func (g *e15) unparen(x ast.Expr) ast.Expr {
	for {
		p, ok := x.(*ast.ParenExpr)
		if !ok {
			return x
		}
		x = p.X
	}
}

// pkgSel: x is `p.Name` with p an imported package (not shadowed by a local); returns the import path
func (g *e15) pkgSel(x ast.Expr) (path, name string, ok bool) {
	s, ok := g.unparen(x).(*ast.SelectorExpr)
	if !ok {
		return "", "", false
	}
	id, ok := s.X.(*ast.Ident)
	if !ok || g.vars[id.Name] != nil {
		return "", "", false
	}
	p, ok := g.imports[id.Name]
	if !ok {
		return "", "", false
	}
	return p, s.Sel.Name, true
}

func (g *e15) isPkg(x ast.Expr, path, name string) bool {
	p, n, ok := g.pkgSel(x)
	return ok && p == path && n == name
}

// ------------------------------------------------------------------ library source

func (g *e15) pkg(path string) map[string]*ast.File {
	if p, ok := g.pkgs[path]; ok {
		return p
	}
	dir, ok := g.dirs[path]
	if !ok {
		fmt.Fprintf(os.Stderr, "gen: no library source known for package %s\n", path)
		os.Exit(2)
	}
	ents, err := os.ReadDir(dir)
	if err != nil {
		fmt.Fprintln(os.Stderr, "gen: library source:", err)
		os.Exit(2)
	}
	files := map[string]*ast.File{}
	for _, e := range ents {
		n := e.Name()
		if e.IsDir() || !strings.HasSuffix(n, ".go") || strings.HasSuffix(n, "_test.go") {
			continue
		}
		if path == "syscall" && n != "syscall_linux.go" {
			continue // one struct declaration is read from it
		}
		f, err := parser.ParseFile(g.fset, filepath.Join(dir, n), nil, parser.SkipObjectResolution)
		if err != nil {
			fmt.Fprintln(os.Stderr, "gen: parse:", err)
			os.Exit(2)
		}
		files[n] = f
	}
	if len(files) == 0 {
		fmt.Fprintf(os.Stderr, "gen: no Go source below %s\n", dir)
		os.Exit(2)
	}
	g.pkgs[path] = files
	return files
}

func (g *e15) fileNames(path string) []string {
	var names []string
	for n := range g.pkg(path) {
		names = append(names, n)
	}
	sort.Strings(names)
	return names
}

// constValue evaluates the constant `name` of a library package from its declaration
func (g *e15) constValue(path, name string, use ast.Node, depth int) (int64, string) {
	g.must(depth < 8, use, "constant %s: declarations nested too deep", name)
	for _, fn := range g.fileNames(path) {
		for _, d := range g.pkg(path)[fn].Decls {
			gd, ok := d.(*ast.GenDecl)
			if !ok || gd.Tok != token.CONST {
				continue
			}
			for _, sp := range gd.Specs {
				vs := sp.(*ast.ValueSpec)
				for i, n := range vs.Names {
					if n.Name != name {
						continue
					}
					g.must(len(vs.Values) == len(vs.Names), use, "constant %s.%s has no value of its own (iota / repeated expression) at %s", filepath.Base(path), name, g.fset.Position(n.Pos()))
					typ := ""
					if vs.Type != nil {
						id, ok := vs.Type.(*ast.Ident)
						g.must(ok, use, "constant %s.%s: type %s", filepath.Base(path), name, g.src(vs.Type))
						typ = id.Name
					}
					return g.constExpr(path, vs.Values[i], use, depth), typ
				}
			}
		}
	}
	g.fail(use, "constant %s not found in the source of %s (%s)", name, path, g.dirs[path])
	return 0, ""
}

func (g *e15) constExpr(path string, x ast.Expr, use ast.Node, depth int) int64 {
	switch x := g.unparen(x).(type) {
	case *ast.BasicLit:
		g.must(x.Kind == token.INT, use, "library constant: literal %s at %s", x.Value, g.fset.Position(x.Pos()))
		n, err := strconv.ParseInt(x.Value, 0, 64)
		g.must(err == nil, use, "library constant: literal %s at %s", x.Value, g.fset.Position(x.Pos()))
		return n
	case *ast.Ident:
		g.must(x.Name != "iota", use, "library constant defined with iota at %s", g.fset.Position(x.Pos()))
		n, _ := g.constValue(path, x.Name, use, depth+1)
		return n
	case *ast.BinaryExpr:
		a, b := g.constExpr(path, x.X, use, depth), g.constExpr(path, x.Y, use, depth)
		switch x.Op {
		case token.SHL:
			g.must(b >= 0 && b < 32, use, "library constant: shift by %d at %s", b, g.fset.Position(x.Pos()))
			return a << uint(b)
		case token.OR:
			return a | b
		case token.ADD:
			return a + b
		case token.MUL:
			return a * b
		}
	}
	g.fail(use, "library constant: expression `%s` at %s is not understood", g.src(x), g.fset.Position(x.Pos()))
	return 0
}

// unsignedType: `name` is uintN or a named type of the package declared as uintN
func (g *e15) unsignedType(path, name string) bool {
	switch name {
	case "uint8", "uint16", "uint32", "byte":
		return true
	}
	for _, fn := range g.fileNames(path) {
		for _, d := range g.pkg(path)[fn].Decls {
			gd, ok := d.(*ast.GenDecl)
			if !ok || gd.Tok != token.TYPE {
				continue
			}
			for _, sp := range gd.Specs {
				ts := sp.(*ast.TypeSpec)
				if ts.Name.Name != name {
					continue
				}
				id, ok := ts.Type.(*ast.Ident)
				return ok && (id.Name == "uint8" || id.Name == "uint16" || id.Name == "uint32")
			}
		}
	}
	return false
}

// structFields reads `type name struct{…}` of a library package
func (g *e15) structFields(path, name string) []lfield {
	key := path + "." + name
	if f, ok := g.structs[key]; ok {
		return f
	}
	for _, fn := range g.fileNames(path) {
		for _, d := range g.pkg(path)[fn].Decls {
			gd, ok := d.(*ast.GenDecl)
			if !ok || gd.Tok != token.TYPE {
				continue
			}
			for _, sp := range gd.Specs {
				ts := sp.(*ast.TypeSpec)
				if ts.Name.Name != name {
					continue
				}
				st, ok := ts.Type.(*ast.StructType)
				g.must(ok, ts, "%s is not a struct", name)
				var out []lfield
				for _, f := range st.Fields.List {
					typ := g.src(f.Type)
					if len(f.Names) == 0 {
						out = append(out, lfield{name: typ, typ: "(embedded)"})
						continue
					}
					for _, n := range f.Names {
						lf := lfield{name: n.Name, typ: typ}
						switch {
						case !ast.IsExported(n.Name):
						case typ == "net.HardwareAddr" || typ == "net.IP":
							lf.lean = "Bytes"
						case typ == "bool":
							lf.lean = "Bool"
						case typ == "int" || g.unsignedType(path, typ):
							lf.lean = "Nat"
						case typ == "[8]byte":
							lf.lean = "Bytes"
						}
						out = append(out, lf)
					}
				}
				g.structs[key] = out
				return out
			}
		}
	}
	fmt.Fprintf(os.Stderr, "gen: type %s not found in the source of %s (%s)\n", name, path, g.dirs[path])
	os.Exit(2)
	return nil
}

func leanField(goName string) string {
	if strings.ToUpper(goName) == goName {
		return strings.ToLower(goName)
	}
	return strings.ToLower(goName[:1]) + goName[1:]
}

// ethernetRefusals reads the leading `if len(recv.F) != n { return <error> }` tests of (*Ethernet).SerializeTo
func (g *e15) ethernetRefusals() {
	const path = "github.com/google/gopacket/layers"
	f, ok := g.pkg(path)["ethernet.go"]
	if !ok {
		fmt.Fprintf(os.Stderr, "gen: %s/ethernet.go not found\n", g.dirs[path])
		os.Exit(2)
	}
	var fn *ast.FuncDecl
	for _, d := range f.Decls {
		fd, ok := d.(*ast.FuncDecl)
		if !ok || fd.Name.Name != "SerializeTo" || fd.Recv == nil || len(fd.Recv.List) != 1 {
			continue
		}
		if g.src(fd.Recv.List[0].Type) == "*Ethernet" {
			fn = fd
		}
	}
	if fn == nil || len(fn.Recv.List[0].Names) != 1 {
		fmt.Fprintf(os.Stderr, "gen: %s/ethernet.go: func (eth *Ethernet) SerializeTo not found\n", g.dirs[path])
		os.Exit(2)
	}
	recv := fn.Recv.List[0].Names[0].Name
	for _, s := range fn.Body.List {
		i, ok := s.(*ast.IfStmt)
		if !ok || i.Init != nil || i.Else != nil {
			break
		}
		c, ok := i.Cond.(*ast.BinaryExpr)
		if !ok || c.Op != token.NEQ {
			break
		}
		call, ok := c.X.(*ast.CallExpr)
		if !ok || len(call.Args) != 1 {
			break
		}
		if id, ok := call.Fun.(*ast.Ident); !ok || id.Name != "len" {
			break
		}
		sel, ok := call.Args[0].(*ast.SelectorExpr)
		if !ok {
			break
		}
		if id, ok := sel.X.(*ast.Ident); !ok || id.Name != recv {
			break
		}
		lit, ok := c.Y.(*ast.BasicLit)
		if !ok || lit.Kind != token.INT {
			break
		}
		n, err := strconv.Atoi(lit.Value)
		if err != nil || len(i.Body.List) != 1 {
			break
		}
		r, ok := i.Body.List[0].(*ast.ReturnStmt)
		if !ok || len(r.Results) != 1 {
			break
		}
		if id, ok := r.Results[0].(*ast.Ident); ok && id.Name == "nil" {
			break
		}
		g.guards = append(g.guards, guard15{sel.Sel.Name, n, strings.TrimPrefix(g.fset.Position(i.Pos()).String(), g.dirs[path]+"/")})
		g.ethLen[sel.Sel.Name] = n
	}
	for _, w := range []string{"DstMAC", "SrcMAC"} {
		if _, ok := g.ethLen[w]; !ok {
			fmt.Fprintf(os.Stderr, "gen: %s: (*Ethernet).SerializeTo does not start with the test `if len(%s.%s) != n { return <error> }`: "+
				"the refusal of hardware addresses of another length is not in the library source\n", g.fset.Position(fn.Pos()), recv, w)
			os.Exit(2)
		}
	}
}

// serializeLayersShape: gopacket.SerializeLayers serialises the layers from the last to the first, each in front of
// what is already there (so the FIRST argument is the outermost header), and stops at the first error
func (g *e15) serializeLayersShape() {
	const path = "github.com/google/gopacket"
	norm := func(s string) string { return strings.Join(strings.Fields(s), " ") }
	for _, fn := range g.fileNames(path) {
		for _, d := range g.pkg(path)[fn].Decls {
			fd, ok := d.(*ast.FuncDecl)
			if !ok || fd.Recv != nil || fd.Name.Name != "SerializeLayers" {
				continue
			}
			want := []string{"w.Clear()",
				"for i := len(layers) - 1; i >= 0; i-- { layer := layers[i] err := layer.SerializeTo(w, opts) if err != nil { return err } w.PushLayer(layer.LayerType()) }",
				"return nil"}
			ok = len(fd.Body.List) == len(want) && norm(g.src(fd.Type)) == "func(w SerializeBuffer, opts SerializeOptions, layers ...SerializableLayer) error"
			for i := 0; ok && i < len(want); i++ {
				ok = norm(g.src(fd.Body.List[i])) == want[i]
			}
			g.must(ok, fd.Name, "gopacket.SerializeLayers is not the loop the vocabulary assumes (last layer first, every layer in front of the bytes already there, first error returned)")
			return
		}
	}
	fmt.Fprintf(os.Stderr, "gen: func SerializeLayers not found in %s\n", g.dirs[path])
	os.Exit(2)
}

// ------------------------------------------------------------------ expressions of the vocabulary

func (g *e15) val(x ast.Expr) *v15 {
	x = g.unparen(x)
	switch x := x.(type) {
	case *ast.BasicLit:
		g.must(x.Kind == token.INT, x, "literal outside the vocabulary (integer literals only)")
		n, err := strconv.ParseInt(x.Value, 0, 64)
		g.must(err == nil && n >= 0, x, "integer literal")
		return &v15{kind: "num", lean: strconv.FormatInt(n, 10), what: ""}
	case *ast.Ident:
		if x.Name == "true" || x.Name == "false" {
			g.must(g.vars[x.Name] == nil, x, "true/false redefined")
			return &v15{kind: "bool", lean: x.Name}
		}
		v := g.vars[x.Name]
		g.must(v != nil, x, "identifier outside the vocabulary")
		g.must(v.kind == "arr", x, "a variable of kind `%s` used as a value", v.kind)
		return &v15{kind: "arr", size: v.size, content: v.content} // the array is copied where it is used
	case *ast.SelectorExpr:
		if id, ok := x.X.(*ast.Ident); ok && g.vars[id.Name] != nil {
			switch g.vars[id.Name].kind + "." + x.Sel.Name {
			case "iface.HardwareAddr":
				return &v15{kind: "bytes", lean: "a.ifMac", gotype: "net.HardwareAddr", what: "iface.HardwareAddr"}
			case "iface.Index":
				return &v15{kind: "num", lean: "a.ifIndex", gotype: "int", what: "iface.Index"}
			case "resp.ClientHWAddr":
				return &v15{kind: "bytes", lean: "a.chaddr", gotype: "net.HardwareAddr", what: "resp.ClientHWAddr"}
			case "resp.ServerIPAddr":
				return &v15{kind: "bytes", lean: "a.siaddr", gotype: "net.IP", what: "resp.ServerIPAddr"}
			case "resp.YourIPAddr":
				return &v15{kind: "bytes", lean: "a.yiaddr", gotype: "net.IP", what: "resp.YourIPAddr"}
			}
			g.fail(x, "field outside the vocabulary (iface.HardwareAddr, iface.Index, resp.ClientHWAddr, resp.ServerIPAddr, resp.YourIPAddr)")
		}
		if path, name, ok := g.pkgSel(x); ok {
			g.must(path == "github.com/google/gopacket/layers" || path == "github.com/insomniacslk/dhcp/dhcpv4", x, "constant of a package outside the vocabulary")
			n, typ := g.constValue(path, name, x, 0)
			g.must(n >= 0, x, "negative constant")
			w := filepath.Base(path) + "." + name
			g.consts = append(g.consts, fmt.Sprintf("%s = %d", w, n))
			return &v15{kind: "num", lean: strconv.FormatInt(n, 10), gotype: typ, what: w}
		}
	case *ast.CallExpr:
		if s, ok := x.Fun.(*ast.SelectorExpr); ok && len(x.Args) == 0 && s.Sel.Name == "ToBytes" {
			if id, ok := s.X.(*ast.Ident); ok && g.vars[id.Name] != nil && g.vars[id.Name].kind == "resp" {
				return &v15{kind: "bytes", lean: "resp.ToBytes()", gotype: "[]byte", what: "resp.ToBytes()"}
			}
		}
	}
	g.fail(x, "expression outside the vocabulary (iface.HardwareAddr, iface.Index, resp.ClientHWAddr, resp.ServerIPAddr, resp.YourIPAddr, resp.ToBytes(), integer literals, constants of layers and dhcpv4)")
	return nil
}

// literal: `pkg.T{F: e, …}`; every key must be a field of the library struct with a representable type, every
// value an expression of the vocabulary of the field's type
func (g *e15) literal(c *ast.CompositeLit, path, typ string) *v15 {
	fields := g.structFields(path, typ)
	out := &v15{typ: typ, fields: map[string]*v15{}, at: c}
	for _, e := range c.Elts {
		kv, ok := e.(*ast.KeyValueExpr)
		g.must(ok, e, "element without a field name in a %s literal", typ)
		k, ok := kv.Key.(*ast.Ident)
		g.must(ok, kv.Key, "field name")
		var lf *lfield
		for i := range fields {
			if fields[i].name == k.Name && fields[i].typ != "(embedded)" {
				lf = &fields[i]
			}
		}
		g.must(lf != nil, k, "%s has no field of that name in the library source", typ)
		g.must(lf.lean != "", k, "field of type %s: not representable in the vocabulary", lf.typ)
		g.must(out.fields[k.Name] == nil, k, "field set twice")
		v := g.val(kv.Value)
		switch lf.lean {
		case "Bytes":
			if lf.typ == "[8]byte" {
				g.must(v.kind == "arr" && v.size == 8, kv.Value, "field of type [8]byte set from something else than a [8]byte variable")
			} else {
				g.must(v.kind == "bytes" && v.gotype == lf.typ, kv.Value, "field of type %s set from an expression of another type", lf.typ)
			}
		case "Nat":
			g.must(v.kind == "num", kv.Value, "numeric field set from a non-numeric expression")
			g.must(v.gotype == "" || v.gotype == lf.typ, kv.Value, "field of type %s set from an expression of type %s", lf.typ, v.gotype)
		case "Bool":
			g.must(v.kind == "bool", kv.Value, "boolean field set from a non-boolean expression")
		}
		out.fields[k.Name] = v
	}
	return out
}

// render: the Lean structure instance of a literal: EVERY representable field of the library struct, the zero value
// where the source says nothing
func (g *e15) render(v *v15, path string) string {
	var parts []string
	for _, f := range g.structFields(path, v.typ) {
		if f.lean == "" {
			continue
		}
		s, note := "", ""
		if w := v.fields[f.name]; w != nil {
			s = w.lean
			if w.kind == "arr" {
				s = w.content
			}
			if strings.HasPrefix(w.what, "layers.") || strings.HasPrefix(w.what, "dhcpv4.") {
				note = " /- " + w.what + " -/"
			}
		} else {
			s = map[string]string{"Bytes": "[]", "Nat": "0", "Bool": "false"}[f.lean]
			if f.typ == "[8]byte" {
				s = "List.replicate 8 0"
			}
			note = " /- not set -/"
		}
		parts = append(parts, leanField(f.name)+" := "+s+note)
	}
	return "{ " + strings.Join(parts, ",\n  ") + " }"
}

// pure: an argument of fmt.Errorf / log.Errorf: a variable or a chain of selections and method calls without
// arguments on one (no effect on what is sent)
func (g *e15) pure(x ast.Expr) {
	switch x := g.unparen(x).(type) {
	case *ast.Ident:
		g.must(g.vars[x.Name] != nil, x, "unknown identifier in an error message")
		return
	case *ast.SelectorExpr:
		g.pure(x.X)
		return
	case *ast.CallExpr:
		if s, ok := x.Fun.(*ast.SelectorExpr); ok && len(x.Args) == 0 {
			g.pure(s.X)
			return
		}
	}
	g.fail(x, "argument of an error message that is not a variable or a call without arguments on one")
}

func (g *e15) message(x ast.Expr, fn func(ast.Expr) bool, what string) {
	c, ok := g.unparen(x).(*ast.CallExpr)
	g.must(ok && fn(c.Fun) && len(c.Args) >= 1, x, "%s expected", what)
	l, ok := c.Args[0].(*ast.BasicLit)
	g.must(ok && l.Kind == token.STRING, c.Args[0], "the format of a message must be a string literal")
	for _, a := range c.Args[1:] {
		g.pure(a)
	}
}

func (g *e15) isErrorf(x ast.Expr) bool { return g.isPkg(x, "fmt", "Errorf") }

// isLogErrorf: `log.Errorf`, log the package-level logger of package server (not a local, not an import)
func (g *e15) isLogErrorf(x ast.Expr) bool {
	s, ok := x.(*ast.SelectorExpr)
	if !ok || s.Sel.Name != "Errorf" {
		return false
	}
	id, ok := s.X.(*ast.Ident)
	return ok && id.Name == "log" && g.vars["log"] == nil && g.imports["log"] == ""
}

// errTest: `if <v> != nil { return fmt.Errorf(…) }` (returns = true) or `if <v> != nil { log.Errorf(…) }`
func (g *e15) errTest(s ast.Stmt, after ast.Node, name string, returns bool) {
	i, ok := s.(*ast.IfStmt)
	g.must(ok && i.Init == nil && i.Else == nil, after, "a fallible call must be followed immediately by the test of its error")
	c, ok := g.unparen(i.Cond).(*ast.BinaryExpr)
	g.must(ok && c.Op == token.NEQ, i.Cond, "the test after a fallible call must be `%s != nil`", name)
	l, lok := c.X.(*ast.Ident)
	r, rok := c.Y.(*ast.Ident)
	g.must(lok && rok && l.Name == name && r.Name == "nil" && g.vars["nil"] == nil, i.Cond, "the test after a fallible call must be `%s != nil`", name)
	g.must(len(i.Body.List) == 1, i.Body, "one statement expected in the error branch")
	if returns {
		ret, ok := i.Body.List[0].(*ast.ReturnStmt)
		g.must(ok && len(ret.Results) == 1, i.Body.List[0], "the error branch must return an error")
		g.message(ret.Results[0], g.isErrorf, "fmt.Errorf(…) (a non-nil error: nothing is sent on this path)")
		return
	}
	e, ok := i.Body.List[0].(*ast.ExprStmt)
	g.must(ok, i.Body.List[0], "log.Errorf(…) expected")
	g.message(e.X, g.isLogErrorf, "log.Errorf(…)")
}

func (g *e15) newVar(id ast.Expr, v *v15) {
	i, ok := id.(*ast.Ident)
	g.must(ok, id, "a variable name expected")
	if i.Name == "_" {
		g.fail(id, "a result is dropped")
	}
	g.vars[i.Name] = v
}

func (g *e15) varOf(x ast.Expr, kind string) *v15 {
	id, ok := g.unparen(x).(*ast.Ident)
	g.must(ok, x, "a variable of kind `%s` expected", kind)
	v := g.vars[id.Name]
	g.must(v != nil && v.kind == kind, x, "a variable of kind `%s` expected", kind)
	return v
}

// addrOf: `&x`, x a variable of the kind
func (g *e15) addrOf(x ast.Expr, kind string) *v15 {
	u, ok := g.unparen(x).(*ast.UnaryExpr)
	g.must(ok && u.Op == token.AND, x, "`&variable` expected")
	return g.varOf(u.X, kind)
}

// errTarget: the error variable a call assigns to; `:=` declares it
func (g *e15) errTarget(lhs ast.Expr, tok token.Token, call string) string {
	id, ok := lhs.(*ast.Ident)
	g.must(ok && id.Name != "_", lhs, "the error of %s must be kept in a variable and tested", call)
	if v := g.vars[id.Name]; v != nil {
		g.must(v.kind == "err", lhs, "the error of %s is assigned to a variable of kind `%s`", call, v.kind)
	} else {
		g.must(tok == token.DEFINE, lhs, "assignment to an undeclared variable")
	}
	g.vars[id.Name] = &v15{kind: "err", call: call}
	return id.Name
}

func (g *e15) intArg(x ast.Expr, want int64, what string) {
	l, ok := g.unparen(x).(*ast.BasicLit)
	g.must(ok && l.Kind == token.INT, x, "%s: the literal %d expected", what, want)
	n, err := strconv.ParseInt(l.Value, 0, 64)
	g.must(err == nil && n == want, x, "%s: the literal %d expected", what, want)
}

// sliceTo: `x[0:k]`
func (g *e15) sliceTo(x ast.Expr) (ast.Expr, int) {
	s, ok := g.unparen(x).(*ast.SliceExpr)
	g.must(ok && !s.Slice3 && s.High != nil, x, "a slice expression x[0:k] expected")
	if s.Low != nil {
		g.intArg(s.Low, 0, "lower bound")
	}
	h, ok := s.High.(*ast.BasicLit)
	g.must(ok && h.Kind == token.INT, s.High, "constant upper bound expected")
	k, err := strconv.Atoi(h.Value)
	g.must(err == nil, s.High, "upper bound")
	return s.X, k
}

// ------------------------------------------------------------------ the statements

func (g *e15) run(list []ast.Stmt) {
	const lay = "github.com/google/gopacket/layers"
	const gp = "github.com/google/gopacket"
	for i := 0; i < len(list); i++ {
		s := list[i]
		g.must(!g.sent || i == len(list)-1, s, "a statement after Sendto other than the final `return nil`")
		next := func() ast.Stmt {
			g.must(i+1 < len(list), s, "a fallible call at the end of the function")
			i++
			return list[i]
		}
		switch s := s.(type) {
		case *ast.AssignStmt:
			g.must(len(s.Rhs) == 1 && (s.Tok == token.DEFINE || s.Tok == token.ASSIGN), s, "assignment outside the vocabulary")
			rhs := g.unparen(s.Rhs[0])
			// ---- composite literals
			if c, ok := rhs.(*ast.CompositeLit); ok {
				g.must(len(s.Lhs) == 1 && s.Tok == token.DEFINE && c.Type != nil, s, "a literal must be bound to a new variable")
				path, name, ok := g.pkgSel(c.Type)
				g.must(ok, c.Type, "literal of a type outside the vocabulary")
				switch {
				case path == lay && (name == "Ethernet" || name == "IPv4" || name == "UDP"):
					for _, v := range g.vars {
						g.must(!(v.kind == "layer" && v.typ == name), s, "a second %s layer", name)
					}
					v := g.literal(c, path, name)
					v.kind = "layer"
					g.newVar(s.Lhs[0], v)
				case path == gp && name == "SerializeOptions":
					v := g.literal(c, path, name)
					v.kind = "opts"
					g.newVar(s.Lhs[0], v)
				case path == "syscall" && name == "SockaddrLinklayer":
					v := g.literal(c, path, name)
					v.kind = "sockaddr"
					g.newVar(s.Lhs[0], v)
				default:
					g.fail(c.Type, "literal of a type outside the vocabulary")
				}
				continue
			}
			// ---- d, ok := x.(gopacket.SerializableLayer); if !ok { return error }
			if ta, ok := rhs.(*ast.TypeAssertExpr); ok {
				g.must(len(s.Lhs) == 2 && s.Tok == token.DEFINE, s, "the type assertion must be of the form `d, ok := x.(gopacket.SerializableLayer)` (the one-result form panics)")
				g.must(ta.Type != nil && g.isPkg(ta.Type, gp, "SerializableLayer"), ta, "assertion to a type other than gopacket.SerializableLayer")
				src := g.varOf(ta.X, "declayer")
				okId, isId := s.Lhs[1].(*ast.Ident)
				g.must(isId && okId.Name != "_", s.Lhs[1], "the result of the type assertion must be tested")
				g.newVar(s.Lhs[0], &v15{kind: "dhcp", from: src.from, ltype: src.ltype})
				g.newVar(s.Lhs[1], &v15{kind: "ok"})
				t, isIf := next().(*ast.IfStmt)
				g.must(isIf && t.Init == nil && t.Else == nil, s, "the type assertion must be followed immediately by `if !%s { return <error> }`", okId.Name)
				u, isNot := g.unparen(t.Cond).(*ast.UnaryExpr)
				g.must(isNot && u.Op == token.NOT, t.Cond, "`!%s` expected", okId.Name)
				c, isId := g.unparen(u.X).(*ast.Ident)
				g.must(isId && c.Name == okId.Name, t.Cond, "`!%s` expected", okId.Name)
				g.must(len(t.Body.List) == 1, t.Body, "one statement expected")
				ret, isRet := t.Body.List[0].(*ast.ReturnStmt)
				g.must(isRet && len(ret.Results) == 1, t.Body.List[0], "the branch must return an error")
				g.message(ret.Results[0], g.isErrorf, "fmt.Errorf(…)")
				continue
			}
			call, ok := rhs.(*ast.CallExpr)
			g.must(ok, s, "assignment outside the vocabulary")
			g.must(call.Ellipsis == token.NoPos, call, "call with `...`")
			// ---- package functions
			if path, name, ok := g.pkgSel(call.Fun); ok {
				switch path + "." + name {
				case gp + ".NewSerializeBuffer":
					g.must(len(s.Lhs) == 1 && s.Tok == token.DEFINE && len(call.Args) == 0, s, "buf := gopacket.NewSerializeBuffer() expected")
					g.newVar(s.Lhs[0], &v15{kind: "buf"})
				case gp + ".NewPacket":
					g.must(len(s.Lhs) == 1 && s.Tok == token.DEFINE && len(call.Args) == 3, s, "p := gopacket.NewPacket(data, firstLayer, options) expected")
					from := g.val(call.Args[0])
					g.must(from.kind == "bytes" && from.what == "resp.ToBytes()", call.Args[0], "the packet must be decoded from resp.ToBytes() itself")
					lp, ln, ok := g.pkgSel(call.Args[1])
					g.must(ok && lp == lay && ln == "LayerTypeDHCPv4", call.Args[1], "the bytes of the reply must be decoded as layers.LayerTypeDHCPv4")
					op, on, ok := g.pkgSel(call.Args[2])
					g.must(ok && op == gp && (on == "NoCopy" || on == "Default"), call.Args[2], "decode options other than gopacket.NoCopy / gopacket.Default")
					g.newVar(s.Lhs[0], &v15{kind: "packet", from: from, ltype: ln})
				case gp + ".SerializeLayers":
					g.must(len(s.Lhs) == 1, s, "err = gopacket.SerializeLayers(…) expected")
					g.must(len(call.Args) >= 3, call, "SerializeLayers(buf, opts, layers…)")
					buf := g.varOf(call.Args[0], "buf")
					g.must(!buf.done, call, "SerializeLayers called twice on the buffer")
					opts := g.varOf(call.Args[1], "opts")
					for _, w := range []string{"ComputeChecksums", "FixLengths"} {
						f := opts.fields[w]
						g.must(f != nil && f.lean == "true", opts.at, "the serialisation options must have %s: true (lengths and checksums of the frame are left to gopacket)", w)
					}
					g.options = opts
					var order []*v15
					for _, a := range call.Args[2:] {
						if u, ok := g.unparen(a).(*ast.UnaryExpr); ok && u.Op == token.AND {
							order = append(order, g.varOf(u.X, "layer"))
						} else {
							order = append(order, g.varOf(a, "dhcp"))
						}
					}
					var names []string
					for _, l := range order {
						if l.kind == "dhcp" {
							names = append(names, "DHCPv4")
						} else {
							names = append(names, l.typ)
						}
					}
					g.must(strings.Join(names, " ") == "Ethernet IPv4 UDP DHCPv4", call,
						"layers handed to SerializeLayers in the order [%s]: the vocabulary (`GenEth.frame`, `Eth.Frame`) describes an Ethernet header, an IPv4 header, a UDP header and the DHCPv4 message, in this order, and nothing else",
						strings.Join(names, ", "))
					udp := order[2]
					g.must(udp.pseudo != nil, call, "SetNetworkLayerForChecksum was not called on the UDP layer: with ComputeChecksums gopacket cannot compute the UDP checksum")
					g.must(udp.pseudo == order[1], call, "the UDP checksum is computed over another network layer than the one serialised")
					pl := order[3]
					g.must(pl.ltype == "LayerTypeDHCPv4" && pl.from != nil && pl.from.what == "resp.ToBytes()", call, "the payload layer is not the DHCPv4 layer decoded from resp.ToBytes()")
					g.order, g.payload = order, pl
					name := g.errTarget(s.Lhs[0], s.Tok, "SerializeLayers")
					g.errTest(next(), s, name, true)
					buf.done = true
				case "syscall.Socket":
					g.must(len(s.Lhs) == 2 && s.Tok == token.DEFINE && len(call.Args) == 3, s, "fd, err := syscall.Socket(domain, type, protocol) expected")
					g.must(g.socket == nil, s, "a second socket")
					g.must(g.isPkg(call.Args[0], "syscall", "AF_PACKET"), call.Args[0], "socket domain: syscall.AF_PACKET expected")
					g.must(g.isPkg(call.Args[1], "syscall", "SOCK_RAW"), call.Args[1], "socket type: syscall.SOCK_RAW expected (the frame carries its own link-level header)")
					g.intArg(call.Args[2], 0, "socket protocol")
					g.socket = []string{"AF_PACKET", "SOCK_RAW", "0"}
					g.newVar(s.Lhs[0], &v15{kind: "fd"})
					name := g.errTarget(s.Lhs[1], s.Tok, "Socket")
					g.errTest(next(), s, name, true)
				case "syscall.SetsockoptInt":
					g.must(len(s.Lhs) == 1 && len(call.Args) == 4, s, "err = syscall.SetsockoptInt(fd, level, option, value) expected")
					g.varOf(call.Args[0], "fd")
					g.must(g.isPkg(call.Args[1], "syscall", "SOL_SOCKET") && g.isPkg(call.Args[2], "syscall", "SO_REUSEADDR"), call, "socket option other than SOL_SOCKET / SO_REUSEADDR")
					g.intArg(call.Args[3], 1, "option value")
					name := g.errTarget(s.Lhs[0], s.Tok, "SetsockoptInt")
					g.errTest(next(), s, name, false)
				case "syscall.Sendto":
					g.must(len(s.Lhs) == 1 && len(call.Args) == 4, s, "err = syscall.Sendto(fd, data, flags, &addr) expected")
					g.varOf(call.Args[0], "fd")
					g.must(g.closed, call, "the socket is not closed on the way out (`defer` of syscall.Close missing)")
					g.varOf(call.Args[1], "data")
					g.intArg(call.Args[2], 0, "Sendto flags")
					g.sockaddr = g.addrOf(call.Args[3], "sockaddr")
					name := g.errTarget(s.Lhs[0], s.Tok, "Sendto")
					g.errTest(next(), s, name, true)
					g.sent = true
				default:
					g.fail(call.Fun, "call outside the vocabulary")
				}
				continue
			}
			// ---- methods
			sel, ok := call.Fun.(*ast.SelectorExpr)
			g.must(ok, call.Fun, "call outside the vocabulary")
			switch sel.Sel.Name {
			case "SetNetworkLayerForChecksum":
				g.must(len(s.Lhs) == 1 && len(call.Args) == 1, s, "err := udp.SetNetworkLayerForChecksum(&ip) expected")
				udp := g.varOf(sel.X, "layer")
				g.must(udp.typ == "UDP", sel.X, "SetNetworkLayerForChecksum on a layer that is not the UDP layer")
				ip := g.addrOf(call.Args[0], "layer")
				g.must(ip.typ == "IPv4", call.Args[0], "the network layer of the checksum must be the IPv4 layer")
				g.must(udp.pseudo == nil, s, "SetNetworkLayerForChecksum called twice")
				udp.pseudo = ip
				name := g.errTarget(s.Lhs[0], s.Tok, "SetNetworkLayerForChecksum")
				g.errTest(next(), s, name, true)
			case "Layer":
				g.must(len(s.Lhs) == 1 && s.Tok == token.DEFINE && len(call.Args) == 1, s, "l := packet.Layer(layers.LayerTypeDHCPv4) expected")
				p := g.varOf(sel.X, "packet")
				lp, ln, ok := g.pkgSel(call.Args[0])
				g.must(ok && lp == lay && ln == p.ltype, call.Args[0], "the layer taken from the packet must be the layers.%s it was decoded as", p.ltype)
				g.newVar(s.Lhs[0], &v15{kind: "declayer", from: p.from, ltype: ln})
			case "Bytes":
				g.must(len(s.Lhs) == 1 && s.Tok == token.DEFINE && len(call.Args) == 0, s, "data := buf.Bytes() expected")
				buf := g.varOf(sel.X, "buf")
				g.must(buf.done, s, "the bytes of the buffer are taken before SerializeLayers succeeded")
				g.newVar(s.Lhs[0], &v15{kind: "data"})
			default:
				g.fail(call.Fun, "call outside the vocabulary")
			}
		case *ast.DeclStmt:
			// var hw [8]byte
			gd, ok := s.Decl.(*ast.GenDecl)
			g.must(ok && gd.Tok == token.VAR && len(gd.Specs) == 1, s, "declaration outside the vocabulary")
			vs := gd.Specs[0].(*ast.ValueSpec)
			g.must(len(vs.Names) == 1 && len(vs.Values) == 0 && vs.Type != nil && g.src(vs.Type) == "[8]byte", s, "`var x [8]byte` expected")
			g.newVar(vs.Names[0], &v15{kind: "arr", size: 8, content: "List.replicate 8 0"})
		case *ast.ExprStmt:
			// copy(hw[0:k], resp.ClientHWAddr[0:k'])
			call, ok := s.X.(*ast.CallExpr)
			g.must(ok, s, "statement outside the vocabulary")
			id, ok := call.Fun.(*ast.Ident)
			g.must(ok && id.Name == "copy" && g.vars["copy"] == nil && len(call.Args) == 2, s, "statement outside the vocabulary")
			dx, dk := g.sliceTo(call.Args[0])
			dst := g.varOf(dx, "arr")
			g.must(dk <= dst.size, call.Args[0], "slice bound %d out of range for an array of %d", dk, dst.size)
			sx, sk := g.sliceTo(call.Args[1])
			src := g.val(sx)
			g.must(src.kind == "bytes" && src.what == "resp.ClientHWAddr", sx, "copy from something else than resp.ClientHWAddr")
			// the slice expression panics when cap(resp.ClientHWAddr) < k: it must come after a successful
			// SerializeLayers that refuses an Ethernet layer whose field — set from resp.ClientHWAddr — is not n ≥ k long
			have := -1
			if g.order != nil {
				for f, v := range g.order[0].fields {
					if n, ok := g.ethLen[f]; ok && v.what == "resp.ClientHWAddr" && n > have {
						have = n
					}
				}
			}
			g.must(have >= sk, s, "resp.ClientHWAddr[0:%d] panics for a shorter hardware address: nothing before this point ensures its length "+
				"(the slice is accepted only after the error test of a SerializeLayers whose Ethernet layer has a field set from resp.ClientHWAddr)", sk)
			n := dk
			if sk < n {
				n = sk
			}
			dst.content = fmt.Sprintf("a.chaddr.take %d ++ List.replicate %d 0", n, dst.size-n)
		case *ast.DeferStmt:
			// defer func() { err = syscall.Close(fd); if err != nil { log.Errorf(…) } }()
			fl, ok := s.Call.Fun.(*ast.FuncLit)
			g.must(ok && len(s.Call.Args) == 0 && len(fl.Type.Params.List) == 0 && fl.Type.Results == nil && len(fl.Body.List) == 2, s, "defer outside the vocabulary (closing the socket)")
			a, ok := fl.Body.List[0].(*ast.AssignStmt)
			g.must(ok && len(a.Lhs) == 1 && len(a.Rhs) == 1, fl.Body.List[0], "err = syscall.Close(fd) expected")
			c, ok := a.Rhs[0].(*ast.CallExpr)
			g.must(ok && g.isPkg(c.Fun, "syscall", "Close") && len(c.Args) == 1, a, "err = syscall.Close(fd) expected")
			g.varOf(c.Args[0], "fd")
			g.must(!g.closed, s, "the socket is closed twice")
			name := g.errTarget(a.Lhs[0], a.Tok, "Close")
			g.errTest(fl.Body.List[1], a, name, false)
			g.closed = true
		case *ast.ReturnStmt:
			g.must(i == len(list)-1 && g.sent, s, "return before the frame is sent")
			g.must(len(s.Results) == 1, s, "return nil expected")
			id, ok := s.Results[0].(*ast.Ident)
			g.must(ok && id.Name == "nil" && g.vars["nil"] == nil, s, "return nil expected")
			return
		default:
			g.fail(s, "statement outside the vocabulary")
		}
	}
	g.fail(list[len(list)-1], "control reaches the end of the function without `return nil`")
}

// ------------------------------------------------------------------ probes: the real libraries, run here

func leanBytes(b []byte) string {
	var s []string
	for _, x := range b {
		s = append(s, strconv.Itoa(int(x)))
	}
	return "[" + strings.Join(s, ", ") + "]"
}

// payloadProbe: resp.ToBytes() of a concrete reply, and what the DHCPv4 layer gopacket decodes from it serialises to
func payloadProbe(resp *dhcpv4.DHCPv4) ([]byte, []byte, error) {
	wire := resp.ToBytes()
	packet := gopacket.NewPacket(wire, layers.LayerTypeDHCPv4, gopacket.NoCopy)
	l, ok := packet.Layer(layers.LayerTypeDHCPv4).(gopacket.SerializableLayer)
	if !ok {
		return nil, nil, fmt.Errorf("gopacket did not decode the reply")
	}
	buf := gopacket.NewSerializeBuffer()
	if err := gopacket.SerializeLayers(buf, gopacket.SerializeOptions{ComputeChecksums: true, FixLengths: true}, l); err != nil {
		return nil, nil, err
	}
	return wire, append([]byte{}, buf.Bytes()...), nil
}

func probeReplies() ([]*dhcpv4.DHCPv4, error) {
	var out []*dhcpv4.DHCPv4
	req, err := dhcpv4.NewDiscovery(net.HardwareAddr{2, 0, 0, 0, 0, 9}, dhcpv4.WithTransactionID(dhcpv4.TransactionID{1, 2, 3, 4}))
	if err != nil {
		return nil, err
	}
	offer, err := dhcpv4.NewReplyFromRequest(req, dhcpv4.WithMessageType(dhcpv4.MessageTypeOffer), dhcpv4.WithYourIP(net.IPv4(192, 0, 2, 77)),
		dhcpv4.WithServerIP(net.IPv4(192, 0, 2, 1)), dhcpv4.WithNetmask(net.IPv4Mask(255, 255, 255, 0)), dhcpv4.WithRouter(net.IPv4(192, 0, 2, 1)))
	if err != nil {
		return nil, err
	}
	out = append(out, offer)
	// a reply with no option at all (ToBytes still writes End and the padding)
	bare, err := dhcpv4.New(dhcpv4.WithTransactionID(dhcpv4.TransactionID{9, 9, 9, 9}), dhcpv4.WithHwAddr(net.HardwareAddr{2, 0, 0, 0, 0, 9}))
	if err != nil {
		return nil, err
	}
	bare.OpCode = dhcpv4.OpcodeBootReply
	bare.Options = dhcpv4.Options{}
	out = append(out, bare)
	// a reply longer than the 300 bytes ToBytes pads to
	long, err := dhcpv4.NewReplyFromRequest(req, dhcpv4.WithMessageType(dhcpv4.MessageTypeAck), dhcpv4.WithYourIP(net.IPv4(192, 0, 2, 78)),
		dhcpv4.WithGeneric(dhcpv4.OptionBootfileName, []byte(strings.Repeat("x", 90))))
	if err != nil {
		return nil, err
	}
	out = append(out, long)
	return out, nil
}

// ------------------------------------------------------------------ driver

const gen15Header = `-- GENERATED by harness gen -unit ethernet from server/sendEthernet.go — do not edit
-- Regenerated from the Go source on every run; Props/GenEthernet.lean proves GenEth.sendEthernet equal to the
-- hand-written model (Model/Ethernet.lean).  The vocabulary table is in the header of gen15.go.
import CoreDhcp.Model.Ethernet
set_option linter.unusedVariables false
namespace CoreDhcp.GenEth
open CoreDhcp.Eth (Bytes)

`

const gen15Frame = `/-! Fixed vocabulary (not derived from the source): what
` + "`gopacket.SerializeLayers(buf, {FixLengths, ComputeChecksums}, &eth, &ip, &udp, dhcp)`, `buf.Bytes()` and" + `
` + "`syscall.Sendto(fd, data, 0, &sockaddr)`" + ` on an AF_PACKET / SOCK_RAW socket put on which wire, through the fields of
` + "`Eth.Frame`" + `.  The translator has checked that the layers are handed over in exactly this order (gopacket serialises
the last one first and every other one in front of it), that lengths and checksums are left to gopacket and that the
UDP checksum uses the IPv4 layer; the header fields ` + "`Eth.Frame`" + ` has no name for are pinned by ` + "`GEN_eth_layers`" + `. -/

/-- the frame, field by field, from the layer values -/
def frame (e : Ethernet) (i : IPv4) (u : UDP) (payload : Bytes) (sa : SockaddrLinklayer) : Eth.Frame :=
  { dstMac := e.dstMAC, srcMac := e.srcMAC, etherType := e.ethernetType,
    ipVersion := i.version, ttl := i.ttl, dontFrag := (i.flags &&& ipv4DontFragment) != 0, proto := i.protocol,
    srcIp := i.srcIP, dstIp := i.dstIP, srcPort := u.srcPort, dstPort := u.dstPort, payload := payload,
    outIf := sa.ifindex }

`

func runGen15(srcArg, outPath, libArg string) {
	die := func(a ...interface{}) {
		fmt.Fprintln(os.Stderr, append([]interface{}{"gen:"}, a...)...)
		os.Exit(2)
	}
	srcPath := ethernetSrc
	if srcArg != "" {
		srcPath = srcArg
	}
	dhcpRoot, gpRoot := defaultLib, defaultGopacket
	if libArg != "" { // dhcpRoot[,gopacketRoot]
		p := strings.Split(libArg, ",")
		if len(p) > 2 {
			die("-lib for unit ethernet is dhcpRoot[,gopacketRoot]")
		}
		dhcpRoot = p[0]
		if len(p) == 2 {
			gpRoot = p[1]
		}
	}
	g := &e15{gen: &gen{fset: token.NewFileSet()}, imports: map[string]string{}, vars: map[string]*v15{}, pkgs: map[string]map[string]*ast.File{},
		structs: map[string][]lfield{}, ethLen: map[string]int{},
		dirs: map[string]string{"github.com/google/gopacket": gpRoot, "github.com/google/gopacket/layers": filepath.Join(gpRoot, "layers"),
			"github.com/insomniacslk/dhcp/dhcpv4": filepath.Join(dhcpRoot, "dhcpv4"), "syscall": filepath.Join(runtime.GOROOT(), "src", "syscall")}}
	file, err := parser.ParseFile(g.fset, srcPath, nil, parser.SkipObjectResolution)
	if err != nil {
		die("parse:", err)
	}
	for _, im := range file.Imports {
		p, _ := strconv.Unquote(im.Path.Value)
		name := filepath.Base(p)
		if im.Name != nil {
			name = im.Name.Name
		}
		g.must(name != "_" && name != ".", im, "unsupported import")
		known := false
		for _, w := range e15pkgs {
			known = known || w == p
		}
		g.must(known, im, "import of a package outside the vocabulary")
		g.must(g.imports[name] == "", im, "two imports under one name")
		g.imports[name] = p
	}
	var fn *ast.FuncDecl
	for _, d := range file.Decls {
		switch d := d.(type) {
		case *ast.FuncDecl:
			g.must(d.Name.Name == "sendEthernet" && d.Recv == nil && fn == nil, d.Name, "a function the unit does not know (it translates sendEthernet and nothing may be skipped)")
			fn = d
		case *ast.GenDecl:
			g.must(d.Tok == token.IMPORT, d, "a package-level declaration the unit does not know")
		}
	}
	if fn == nil || fn.Body == nil {
		die(srcPath + ": function sendEthernet not found")
	}
	// ---- the signature: (iface net.Interface, resp *dhcpv4.DHCPv4) error
	ps := fn.Type.Params.List
	g.must(fn.Type.TypeParams == nil && len(ps) == 2 && len(ps[0].Names) == 1 && len(ps[1].Names) == 1, fn.Name, "signature: (iface net.Interface, resp *dhcpv4.DHCPv4) error expected")
	g.must(g.isPkg(ps[0].Type, "net", "Interface"), ps[0].Type, "first parameter: net.Interface expected")
	star, ok := ps[1].Type.(*ast.StarExpr)
	g.must(ok && g.isPkg(star.X, "github.com/insomniacslk/dhcp/dhcpv4", "DHCPv4"), ps[1].Type, "second parameter: *dhcpv4.DHCPv4 expected")
	rs := fn.Type.Results
	g.must(rs != nil && len(rs.List) == 1 && len(rs.List[0].Names) == 0 && g.src(rs.List[0].Type) == "error", fn.Name, "result: error expected")
	g.must(ps[0].Names[0].Name != "_" && ps[1].Names[0].Name != "_" && ps[0].Names[0].Name != ps[1].Names[0].Name, fn.Name, "parameter names")
	g.vars[ps[0].Names[0].Name] = &v15{kind: "iface"}
	g.vars[ps[1].Names[0].Name] = &v15{kind: "resp"}

	// ---- the library: refusals of the Ethernet layer, the loop of SerializeLayers
	g.ethernetRefusals()
	g.serializeLayersShape()
	dfVal, _ := g.constValue("github.com/google/gopacket/layers", "IPv4DontFragment", fn.Name, 0)

	g.run(fn.Body.List)
	g.must(g.order != nil && g.payload != nil && g.sockaddr != nil && g.socket != nil && g.sent, fn.Name, "the function does not serialise and send a frame")

	var out strings.Builder
	out.WriteString(gen15Header)
	out.WriteString("/-! The library structs, from their declarations (" + filepath.Base(gpRoot) + ", syscall of " + runtime.Version() + "): every exported field of a\nnumeric, boolean or byte-string type.  Left out (the source may not set them): ")
	var left []string
	type sdecl struct{ path, name string }
	decls := []sdecl{{"github.com/google/gopacket/layers", "Ethernet"}, {"github.com/google/gopacket/layers", "IPv4"}, {"github.com/google/gopacket/layers", "UDP"},
		{"github.com/google/gopacket", "SerializeOptions"}, {"syscall", "SockaddrLinklayer"}}
	for _, d := range decls {
		for _, f := range g.structFields(d.path, d.name) {
			if f.lean == "" {
				left = append(left, d.name+"."+f.name)
			}
		}
	}
	out.WriteString(strings.Join(left, ", ") + ". -/\n\n")
	for _, d := range decls {
		out.WriteString("structure " + d.name + " where\n")
		for _, f := range g.structFields(d.path, d.name) {
			if f.lean != "" {
				out.WriteString(fmt.Sprintf("  %s : %s  -- %s %s\n", leanField(f.name), f.lean, f.name, f.typ))
			}
		}
		out.WriteString("deriving DecidableEq, Repr\n\n")
	}
	// the fields `frame` reads must be there
	need := map[string][]string{"Ethernet": {"DstMAC", "SrcMAC", "EthernetType"}, "IPv4": {"Version", "TTL", "Flags", "Protocol", "SrcIP", "DstIP"},
		"UDP": {"SrcPort", "DstPort"}, "SockaddrLinklayer": {"Ifindex"}}
	for _, d := range decls {
		for _, n := range need[d.name] {
			found := false
			for _, f := range g.structFields(d.path, d.name) {
				found = found || (f.name == n && f.lean != "")
			}
			g.must(found, fn.Name, "the library struct %s has no field %s", d.name, n)
		}
	}
	out.WriteString(def("`layers.IPv4DontFragment`, evaluated from its declaration in layers/ip4.go", "ipv4DontFragment : Nat", strconv.FormatInt(dfVal, 10)))
	out.WriteString(gen15Frame)

	sort.Strings(g.consts)
	var cs []string
	for i, c := range g.consts {
		if i == 0 || g.consts[i-1] != c {
			cs = append(cs, c)
		}
	}
	out.WriteString("/-! ## from the go/ast of sendEthernet\nConstants evaluated from the library source: " + strings.Join(cs, ", ") + ". -/\n\n")
	eth, ip, udp := g.order[0], g.order[1], g.order[2]
	out.WriteString(def("the `layers.Ethernet{…}` literal: every field, from the expression it is set from", "eth (a : Eth.Args) : Ethernet", g.render(eth, "github.com/google/gopacket/layers")))
	out.WriteString(def("the `layers.IPv4{…}` literal", "ip (a : Eth.Args) : IPv4", g.render(ip, "github.com/google/gopacket/layers")))
	out.WriteString(def("the `layers.UDP{…}` literal", "udp (a : Eth.Args) : UDP", g.render(udp, "github.com/google/gopacket/layers")))
	out.WriteString(def("the `gopacket.SerializeOptions{…}` literal handed to SerializeLayers", "options : SerializeOptions", g.render(g.options, "github.com/google/gopacket")))
	out.WriteString(def("the layers in the order they are handed to `gopacket.SerializeLayers` (the first is the outermost header)", "layerOrder : List String",
		`["Ethernet", "IPv4", "UDP", "DHCPv4"]`))
	out.WriteString(def("the layer `udp.SetNetworkLayerForChecksum(&…)` is given: the one serialised in front of the UDP layer", "checksumLayer : String", `"`+udp.pseudo.typ+`"`))
	out.WriteString(def("the last layer of the SerializeLayers call, followed back through `x.(gopacket.SerializableLayer)`, `packet.Layer(layers."+g.payload.ltype+")` and\n"+
		"`gopacket.NewPacket("+g.payload.from.what+", layers."+g.payload.ltype+", …)`: the DHCPv4 layer gopacket decodes from `resp.ToBytes()`, serialised again\n"+
		"= `Eth.Args.wire` (`Eth.dhcpLayerBytes` of `resp.ToBytes()`: see `payloadProbes`)", "payload (a : Eth.Args) : Bytes", "a.wire"))
	out.WriteString(def("`syscall.Socket(syscall.AF_PACKET, syscall.SOCK_RAW, 0)`", "socketArgs : String × String × Nat", `("`+g.socket[0]+`", "`+g.socket[1]+`", `+g.socket[2]+`)`))
	out.WriteString(def("the `syscall.SockaddrLinklayer{…}` literal handed to Sendto; `addr`: the `[8]byte` after `copy(hw[0:k], resp.ClientHWAddr[0:k])`", "sockaddr (a : Eth.Args) : SockaddrLinklayer", g.render(g.sockaddr, "syscall")))
	var guard strings.Builder
	var gdoc []string
	for _, gd := range g.guards {
		s := "(eth a)." + leanField(gd.field) + ".length ≠ " + strconv.Itoa(gd.n)
		guard.WriteString("if " + s + " then none\nelse ")
		gdoc = append(gdoc, fmt.Sprintf("`len(eth.%s) != %d` (%s)", gd.field, gd.n, gd.pos))
	}
	guard.WriteString("some (frame (eth a) (ip a) (udp a) (payload a) (sockaddr a))")
	out.WriteString(def("`sendEthernet` (server/sendEthernet.go), translated from its go/ast: `none` = an error is returned before `Sendto` (every error\n"+
		"test of the source returns); `some f` = the frame handed to `syscall.Sendto`.  The refusals are those `(*Ethernet).SerializeTo` starts with in the\n"+
		"library source, in its order: "+strings.Join(gdoc, ", ")+"; SerializeLayers returns the first error of a layer.\n"+
		"The calls that do not fail on these arguments by their documentation (SetNetworkLayerForChecksum on an *IPv4, the decoding of a\n"+
		"`ToBytes()` result as DHCPv4) and the system calls (Socket, Sendto) are taken to succeed.\nModel: `Eth.sendEthernet` (Model/Ethernet.lean).",
		"sendEthernet (a : Eth.Args) : Option Eth.Frame", guard.String()))

	// ---- probes
	replies, err := probeReplies()
	if err != nil {
		die("probe:", err)
	}
	var pr []string
	for _, r := range replies {
		w, p, err := payloadProbe(r)
		if err != nil {
			die("probe:", err)
		}
		pr = append(pr, "("+leanBytes(w)+",\n "+leanBytes(p)+")")
	}
	out.WriteString(def("(`resp.ToBytes()`, what the DHCPv4 layer the REAL gopacket decodes from it serialises to), computed by the translator when it ran, for an\n"+
		"OFFER to 02:00:00:00:00:09 / 192.0.2.77, a reply without options, and an ACK longer than 300 bytes", "payloadProbes : List (Bytes × Bytes)", "["+strings.Join(pr, ",\n ")+"]"))
	out.WriteString("end CoreDhcp.GenEth\n")
	if err := os.WriteFile(outPath, []byte(out.String()), 0o644); err != nil {
		die(err)
	}
	fmt.Printf("gen: wrote %s (%d bytes) from %s\n", outPath, out.Len(), srcPath)
}
