#!/bin/sh
# MANIFEST.setup_cmd: build everything from files on disk, offline.
set -e
cd "$(dirname "$0")"
export GOFLAGS=-mod=mod GOPROXY=off GOSUMDB=off GOTOOLCHAIN=local
mkdir -p run/bin .locks replays evidence
cp /repo/go.sum harness/go.sum
(cd harness && go build -tags verif -o ../run/bin/harness . && go build -race -tags verif -o ../run/bin/harness_race .)
mkdir -p lean/CoreDhcp/Generated
for u in ipcalc:IPCalc dispatch6:Dispatch6 dispatch4:Dispatch4 serverid6:ServerID6 netmask:Netmask alloc4:Alloc4 handlers4:Handlers4 alloc6:Alloc6 loadplugins:LoadPlugins range4:Range4 fileplugin:FilePlugin config:Config prefix6:Prefix6 handlers6:Handlers6 setups:Setups start:Start storage:Storage ethernet:Ethernet serveloop:ServeLoop filesetup:FileSetup rangesetup:RangeSetup mainreg:MainReg configload:ConfigLoad; do
  run/bin/harness gen -unit "${u%%:*}" -out "lean/CoreDhcp/Generated/${u##*:}.lean"
done
(cd lean && lake build 2>&1 | tail -3)
echo "setup ok"
