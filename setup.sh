#!/bin/sh
# MANIFEST.setup_cmd: build everything from files on disk, offline.
set -e
cd "$(dirname "$0")"
export GOFLAGS=-mod=mod GOPROXY=off GOSUMDB=off GOTOOLCHAIN=local
mkdir -p run/bin .locks replays evidence
cp /repo/go.sum harness/go.sum
(cd harness && go build -tags verif -o ../run/bin/harness .)
mkdir -p lean/CoreDhcp/Generated
run/bin/harness gen -out lean/CoreDhcp/Generated/IPCalc.lean
(cd lean && lake build 2>&1 | tail -3)
echo "setup ok"
