#!/usr/bin/env python3
"""Regenerates /verif/MANIFEST.json from checklib/props.py and checklib/meta.py."""
import json, os, sys
ROOT = os.path.dirname(os.path.dirname(os.path.abspath(__file__)))
sys.path.insert(0, os.path.join(ROOT, "checklib"))
from props import PROPS, ENGINES
from meta import META, NOT_YET, HOOK_COMMITS, ENABLED

allids = [json.loads(l)["id"] for l in open(os.path.join(ROOT, "properties.jsonl"))]
checks = []
for pid in allids:
    if pid not in PROPS or pid not in ENABLED:
        continue
    m = META[pid]
    checks.append({
        "property_id": pid,
        "quick_cmd": "./check %s --tier quick" % pid,
        "thorough_cmd": "./check %s --tier thorough" % pid,
        "evidence_file": "/verif/evidence/%s.json" % pid,
        "replay_cmd_template": "./check %s --replay {path}" % pid,
        "engine": "+".join(e[0] for e in PROPS[pid]["engines"]),
        "level_claimed": {"category": "proof", "text": m["text"], "design_ref": m["design_ref"]},
        "level_note": m["note"],
        "technique": m["technique"],
    })
man = {
    "version": 1,
    "setup_cmd": "./setup.sh",
    "hooks": {
        "guard": "verif",
        "enable": "go build -tags verif (the harness module in /verif/harness replaces github.com/coredhcp/coredhcp by /repo)",
        "baseline_off_cmd": "cd /repo && GOFLAGS=-mod=mod GOPROXY=off GOSUMDB=off GOTOOLCHAIN=local go test -vet=off -count=1 ./...",
        "source_commits": HOOK_COMMITS,
        "add_only": True,
    },
    "engines": [{"name": k, "path": "/verif/harness + /verif/lean/Driver", "serves_properties": [p for p in PROPS if any(e[0] == k for e in PROPS[p]["engines"])],
                 "kind_free_text": "Go generator/executor on the real code, Lean model+monitor driver (drv %s)" % v["drv"]} for k, v in ENGINES.items()],
    "checks": checks,
    "not_applicable": [{"property_id": p, "reason": NOT_YET.get(p, "check not built yet")} for p in allids if p not in PROPS or p not in ENABLED],
    "notes": "Lean 4 proofs over a hand-written model (/verif/lean), tied to /repo on every run by a conformance check (harness runs the real code, the Lean driver runs the model and the property monitors on the same operations). See DESIGN.md.",
}
json.dump(man, open(os.path.join(ROOT, "MANIFEST.json"), "w"), indent=1)
print("MANIFEST.json: %d checks, %d not_applicable" % (len(checks), len(man["not_applicable"])))
