"""Human-written text for MANIFEST.json."""
HOOK_COMMITS = ["b5838f9", "900676b", "7ec1a26", "655f284", "24d3207", "3a5ae5e", "e23717c", "f0784b2"]  # 900676b is reverted by 7ec1a26 (net: nothing)

ALLOC_NOTE = ("Trusted: Lean kernel (axioms propext, Classical.choice, Quot.sound only); the hand-written model of bitmap.go / bitmap_ipv4.go / ipcalc.go, "
              "tied to the code by differential conformance on generated histories (sampling, bounded by generator quality); "
              "bits-and-blooms/bitset modelled as a list of booleans, not verified; each Allocate/Free is one atomic step (mutex held across the call).")

RANGE_NOTE = ("Trusted: Lean kernel; the hand-written model of plugins/range (plugin.go, storage.go) over the IPv4 allocator model, tied to the code by differential conformance "
              "on generated request/restart histories against the real plugin and a real sqlite file; sqlite, net.ParseIP and the clock are parameters; "
              "the stored hardware-address round trip is an explicit hypothesis of the theorems, exercised by every restart in the run.")

DISP_NOTE = ("Trusted: Lean kernel; the hand-written model of server/handle.go (and plugins/plugin.go), tied to the code by differential conformance through the server "
             "capture hook on generated and mutated datagrams; the DHCP codec and reply constructors of insomniacslk/dhcp are mirrored, not verified; sockets and the link-level send are not modelled.")

PFX_NOTE = ("Trusted: Lean kernel; the hand-written model of plugins/prefix/plugin.go over the IPv6 allocator model, tied to the code by differential conformance on generated message "
            "histories (through the wire, so that length-0 and length>128 hints arrive as the library delivers them); the clock is a parameter; bitset and DHCPv6 codec not verified.")

PLUG_NOTE = ("Trusted: Lean kernel; the hand-written models of the option plugins and server_id with Lean encoders mirroring the library's, tied to the code by differential conformance "
             "(every built-in plugin, each configuration in a fresh process, batteries of requests; exact comparison of the returned options) ; stdlib parsers are oracle answers.")

META = {
    "C14": dict(
        text="Lean theorems: the server_id models satisfy the RFC 8415 section 16 discard matrix for all 256 message types x {no, own, other} Server-ID (decide over the whole table), stamp exactly one Server-ID equal to the configured DUID; DHCPv4: dropped iff a BOOTREQUEST names another server in siaddr or option 54, otherwise siaddr and option 54 are stamped. The same predicates judge the real plugin.",
        design_ref="DESIGN.md §4.2", technique="Lean 4 theorems (decision table over all message types; stamping) + translator units serverid6, handlers4/6, setups + conformance against the real server_id plugin, whole chains, and long datagrams through the real Serve loop", note=PLUG_NOTE),
    "C17": dict(
        text="Lean theorems, one per plugin and protocol plus C17_builtin4/6 for anything setup accepts: the option(s) the plugin owns are present afterwards exactly when the property says, with exactly the encoded configured value, every other option / message type / yiaddr untouched, stop/continue as stated; in-range numbers decode back to themselves. The same predicates judge every built-in plugin on generated configurations and requests.",
        design_ref="DESIGN.md §4.2", technique="Lean 4 theorems (per-plugin decision + encoders) + translator units handlers4/6, setups + conformance against every built-in option plugin, whole chains, and long datagrams through the real Serve loop", note=PLUG_NOTE),
    "C19": dict(
        text="Lean theorems: a configuration the setup model accepts satisfies wireOK (the precondition under which the emitted bytes decode back), and under wireOK the Lean decoders invert the encoders (routes, RFC 1035 label lists of any length, address lists, boot-file parameters); staticroute rejects non-IPv4. Partial: 'no panic' is observed on the implementation; one known finding (oversize DHCPv6 option bodies).",
        design_ref="DESIGN.md §4.2", technique="Lean 4 theorems (setup => wire precondition, encoder/decoder round trips) + translator units setups, netmask, rangesetup, prefix6, filesetup + conformance and round-trip oracle on every built-in plugin and on whole chains",
        note="Partial: the library's own parser is mirrored, not verified; the DHCPv6 oversize-option case is a recorded known finding. " + PLUG_NOTE),
    "C18": dict(
        text="Lean theorem: for every parsed document, interface list and stdlib answer, the loader model returns exactly what an independently written specification demands (plugin lists, [address][%zone][:port] with defaults — incl. a general proof that splitting at the last '%' equals the spec's split —, multicast expansion, every listed error case). Partial: YAML/viper/cast text layer is third-party; generated and mutated documents are loaded by the real config.Load under recover and compared.",
        design_ref="DESIGN.md §4 C18", technique="Lean 4 theorem (loader model = independent specification, all inputs) + translator units config, configload (all of config.Load regenerated, the front handing viper its settings) and mainreg (the file named with -c is the one loaded, before anything is opened) + conformance of the model against config.Load on generated and mutated YAML",
        note="Partial: the theorem starts from the parsed tree (what viper/cast deliver); the text layer is exercised, not modelled."),
    "C01": dict(
        text="Lean theorems: every place where the code can panic is an explicit outcome of the model and is proved unreachable for every history (allocator BUG branches, toIP, the nil control message within the configuration space); dispatch ends in drop or exactly one send; the chain runs at most len(chain) handlers; all model functions are total. Partial: byte parsing, goroutines, sockets are runtime. Whole chains of real plugins are driven with mutated datagram histories under recover + watchdog.",
        design_ref="DESIGN.md §4 C01", technique="Lean 4 theorems (panic outcomes unreachable, totality) + direct judging of whole real plugin chains through the capture hook + go/ast facts F1, F2, F5",
        note="Partial: the theorem covers the modelled logic (dispatch, allocators, lease plugins); the library's byte parser, goroutine creation, socket writes and the scheduler are outside any executable model and are only exercised."),
    "C16": dict(
        text="Lean theorems: any schedule of concurrent callers is an interleaving of atomic steps, i.e. an operation list, and the lease guarantees (C02-C10) are proved for all operation lists. Concurrent batches on the real code are checked for linearisability against the model (search for a one-at-a-time order that explains the outcomes). Partial: data races and buffer aliasing are memory properties (race detector + facts F1, F4).",
        design_ref="DESIGN.md §4 C16", technique="Lean 4 theorems over all interleavings of atomic steps + linearisability search of concurrent batches against the model + go/ast facts F1, F2, F4 + race detector (thorough)",
        note="Partial: data-race freedom and receive-buffer recycling are not expressible in the model; atomicity of handlers rests on fact F1 (syntactic)."),
    "C10": dict(
        text="Lean refinement proof: for every history of set-ups, refreshes (good or bad) and queries of both protocols, every answer of the table-based model equals what the file currently in force lists (computed directly from the lines, last occurrence wins); acceptance iff all lines well-formed; a bad update changes nothing; loading one protocol never changes the other. The monitor judges the real plugin on generated lease files in every MAC/IP spelling, with rewrites under autorefresh.",
        design_ref="DESIGN.md §4 C10", technique="Lean 4 refinement proof (table vs. file-as-written, all histories) + conformance against the real file plugin incl. fsnotify-driven refresh",
        note="Trusted: Lean kernel; the hand-written model of plugins/file/plugin.go; line/field splitting and net.ParseMAC/ParseIP are inputs (oracle answers recorded per line by the harness); fsnotify delivery is not modelled (bounded wait)."),
    "C08": dict(
        text="Lean invariant proof by induction over every message history: the history monitor (in pool, aligned, size, lifetimes, disjoint across clients, one IA_PD per IA_PD) never fails on the model, for every well-formed pool, every hint shape and every allocator policy; the same monitor judges the implementation's replies while the model is stepped alongside. End to end (SYS_pd_delivered6, SYS_pd_roundtrip): in every chain of built-in plugins the reply carries exactly the IA_PD options prefix built, and their wire form decodes to the same blocks.",
        design_ref="DESIGN.md §4 C08", technique="Lean 4 invariant proof over all message histories + composed-server theorems + translator unit prefix6 + conformance against the real prefix plugin, alone and inside whole chains", note=PFX_NOTE),
    "C09": dict(
        text="Same invariant: a prefix once delegated is returned to an exact renewal and to a hint-less IA_PD with a lifetime not shorter than what remained, every delegated prefix is remembered, retransmissions allocate nothing; other clients' leases are untouched.",
        design_ref="DESIGN.md §4 C09", technique="Lean 4 invariant proof over all message histories + conformance against the real prefix plugin", note=PFX_NOTE),
    "C11": dict(
        text="Lean theorem over the dispatch model for every parse result, listener configuration and chain of field-preserving handlers: whatever is sent answers a BOOTREQUEST DISCOVER/REQUEST, is a BOOTREPLY echoing xid/htype/chaddr/flags/giaddr/options 82 and 61, OFFER for DISCOVER and ACK/NAK for REQUEST; nothing else is ever answered (for arbitrary handlers).",
        design_ref="DESIGN.md §4 C11", technique="Lean 4 theorem (decision logic + fold invariant over any handler chain) + conformance through the server capture hook", note=DISP_NOTE),
    "C12": dict(
        text="Lean theorem for all 256 message types, client-id/rapid-commit presence, any relay nesting depth (induction-free: list map), any source and binding: reply type table, echo of transaction id and client id, n mirrored Relay-Reply layers, pinning iff link-local source.",
        design_ref="DESIGN.md §4 C12", technique="Lean 4 theorem (decision table + relay mirroring for every depth) + conformance through the server capture hook", note=DISP_NOTE),
    "C13": dict(
        text="Lean theorems for handlers that are arbitrary functions: the invocation log is positions 0..k-1 in order, each given its predecessor's response, k ends at the first stop, the response returned last is what is sent and nil sends nothing; LoadPlugins yields exactly the supported listed plugins in order or an error. The same predicate judges the logged invocations of scripted handlers run by the real server loop.",
        design_ref="DESIGN.md §4 C13", technique="Lean 4 theorem (fold semantics for arbitrary handler functions, loader characterisation, server.Start model) + translator units loadplugins, start, mainreg (main.go and the Plugin declarations) + the whole program composed in Lean (Props/Server.lean) + conformance with scripted handlers, synthetic registered plugins, whole chains of real plugins and the whole server through server.Start + go/ast facts F3, F7, F9", note=DISP_NOTE),
    "C15": dict(
        text="Lean theorem for arbitrary handlers: destination, port, link-level flag and interface pinning of every reply equal the RFC 2131 §4.1 table as the property states it, for all giaddr/ciaddr/flag/reply-type/yiaddr/binding combinations; no missing interface within the property's configuration space.",
        design_ref="DESIGN.md §4 C15", technique="Lean 4 theorem (decision table, all inputs; link-level frame model) + translator units dispatch4, ethernet, start (Go source regenerated into Lean, proved equal to the models) + conformance through the server capture hook, the composed-server engine and the real sendEthernet on the loopback interface + go/ast facts F5, F6, F8", note=DISP_NOTE),
    "C02": dict(
        text="Lean invariant proof by induction over every history of requests and restarts (any hardware-address lengths, any times, any allocator policy, any re-marking order): the history monitor 'in range, configured lease time, sticky per client, injective, unanswered only when exhausted' never fails on the model; the same monitor judges the implementation's trace while the model is stepped alongside.",
        design_ref="DESIGN.md §4 C02", technique="Lean 4 invariant proof over all request/restart histories + translator units range4, rangesetup (an accepted configuration establishes the theorem's hypotheses) + conformance against the real range plugin on a real sqlite file", note=RANGE_NOTE),
    "C03": dict(
        text="Lean theorem: at every reachable state a restart on the written table succeeds and restores the same bindings and allocator bitmap for every re-marking order; stored expiry within one second of the promised lease end. The pre-repair loader (net.ParseMAC) is refuted by a concrete witness that the corpus replays on the code.",
        design_ref="DESIGN.md §4 C03", technique="Lean 4 invariant proof (restart at every reachable state) + translator units range4, storage, rangesetup + conformance with a restart on a copy of the database at generated crash points, the promised lease read off the reply", note=RANGE_NOTE),
    "C20": dict(
        text="Lean theorems over a BitVec-64 model that follows ipcalc.go statement by statement: Offset equals the block index or overflow, in either argument order; AddPrefixes equals base+n*2^(128-p) or overflow; the two are inverse — for all 128-bit operands, all p in 0..128, all n. The model is tied to the code by exact differential comparison on carry/borrow-biased operands every run.",
        design_ref="DESIGN.md §4 C20", technique="Lean 4 theorem (unbounded, BitVec/Nat arithmetic) + differential conformance of the model against allocators.Offset/AddPrefixes",
        note="Trusted: Lean kernel; math/bits and encoding/binary at their Nat-level specification; the hand-written model, tied to the code only by the conformance sample. Offset/AddPrefixes are modelled for 16-byte inputs."),
    "C04": dict(
        text="Lean invariant proof by induction over every history of Allocate/Free and every admissible allocation policy: the history monitor 'a returned block is disjoint from every outstanding block' never fails on the model; the same monitor is evaluated on the implementation's trace and the model is stepped alongside it.",
        design_ref="DESIGN.md §4 C04-C07", technique="Lean 4 invariant proof over all op sequences + conformance (model and history monitor run against the real allocators)", note=ALLOC_NOTE),
    "C05": dict(
        text="Same invariant: every returned block is aligned, inside the pool and of the demanded length; 'no address available' exactly when all N blocks are outstanding, changing nothing; the model is never stuck (first-fit is admissible). All pools p.WF / all IPv4 ranges incl. the full address space.",
        design_ref="DESIGN.md §4 C04-C07", technique="Lean 4 invariant proof over all op sequences + conformance", note=ALLOC_NOTE),
    "C06": dict(
        text="Same invariant: Free succeeds iff the prefix lies inside an outstanding block, releases exactly that block, and a failing Free changes nothing — for prefixes at any distance below, inside and above the pool.",
        design_ref="DESIGN.md §4 C04-C07", technique="Lean 4 invariant proof over all op sequences + conformance", note=ALLOC_NOTE + " Prefixes shorter than the allocation size are outside the property's quantifier."),
    "C07": dict(
        text="Same invariant: a hint naming a free block of the pool is answered with exactly that block, in every reachable state.",
        design_ref="DESIGN.md §4 C04-C07", technique="Lean 4 invariant proof over all op sequences + conformance", note=ALLOC_NOTE),
}
NOT_YET = {}
# properties whose check is complete and registered
ENABLED = {"C20", "C02", "C03", "C04", "C05", "C06", "C07", "C11", "C12", "C13", "C15", "C08", "C09", "C10", "C01", "C16", "C18", "C14", "C17", "C19"}
