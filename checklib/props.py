"""Per-property and per-engine configuration of ./check (data only)."""

ENGINES = {
    "ipcalc": dict(
        drv="ipcalc", starts=(),
        trivial=r"^(offset \S+ \S+ \d+ => ok 0$)|(addpfx \S+ 0 )",
        branches=["offset.equal", "offset.high", "offset.low", "offset.low.overflow", "offset.outside",
                  "addpfx.zero", "addpfx.high", "addpfx.high.overflow", "addpfx.low", "addpfx.low.overflow"],
    ),
    "alloc6": dict(
        drv="alloc", starts=("new6", "new4"),
        trivial=r"^(new6 .* => ok$)|(alloc - 0 0 => ok )",
        branches=["new6.ok", "new6.err", "alloc6.hint-honoured", "alloc6.hint-taken", "alloc6.hint-outside",
                  "alloc6.free-step", "alloc6.noaddr", "alloc6.longer-than-page",
                  "free6.outstanding", "free6.in-pool-not-held", "free6.outside-pool"],
    ),
    "alloc4": dict(
        drv="alloc", starts=("new6", "new4"),
        trivial=r"^(new4 .* => ok$)|(alloc - 32 32 => ok )",
        branches=["new4.ok", "new4.err", "alloc4.hint-honoured", "alloc4.hint-taken", "alloc4.hint-outside",
                  "alloc4.no-hint", "alloc4.noaddr", "free4.outstanding", "free4.not-held", "free4.outside"],
    ),
}

ENGINES["range"] = dict(
    drv="range", starts=("rsetup",),
    trivial=r"^(rsetup .* => ok$)",
    branches=["rsetup.ok", "rsetup.err", "rreq.new", "rreq.known", "rreq.exhausted", "rreq.maclen-other", "rrestart.ok", "rreq.key-rewritten-by-affinity", "range.time-passes", "rmoved.ok", "rmoved.refused", "rsetup.lease-out-of-range"],
)
ENGINES["prefix"] = dict(
    drv="prefix", starts=("psetup",), diverge_owner=lambda line, pid, msg: pid != "C19",   # C19 only reads the wire round trip off this engine
    trivial=r"^(psetup .* ok$)",
    branches=["psetup.ok", "psetup.err", "pmsg.reply", "pmsg.drop", "pmsg.hintless", "pmsg.hint-len0", "pmsg.hint-len>128",
              "pmsg.multi-hint", "pmsg.multi-iapd", "pmsg.no-client-id", "pmsg.noprefixavail", "pmsg.new-lease", "pmsg.known-lease", "prefix.time-passes"],
)

ENGINES["dispatch4"] = dict(
    drv="dispatch4", starts=(),
    trivial=r"=> U ; drop ; inv -$",
    branches=["dg4.unparsable", "dg4.not-bootrequest", "dg4.other-type", "dg4.request", "dg4.drop", "dg4.l2", "dg4.broadcast",
              "dg4.relay", "dg4.unicast", "dg4.pinned", "dg4.unpinned", "dg4.nak", "dg4.l2-no-interface"],
)
ENGINES["dispatch6"] = dict(
    drv="dispatch6", starts=(),
    trivial=r"=> U ; drop ; inv -$",
    branches=["dg6.unparsable", "dg6.direct", "dg6.relay-depth-1", "dg6.relay-depth-2", "dg6.relay-depth-3", "dg6.relay-depth-4",
              "dg6.no-inner", "dg6.supported-type", "dg6.unsupported-type", "dg6.drop", "dg6.pinned", "dg6.unpinned", "dg6.advertise", "dg6.reply"],
)
ENGINES["plugins"] = dict(
    drv="plugins", starts=(),
    trivial=r"^load - - ",
    branches=["load.ok", "load.noconfig", "load.unknown", "load.setup-error", "load.nil-handler"],
)

ENGINES["file"] = dict(
    drv="file", starts=("freset",), diverge_owner=lambda line, pid, msg: pid != "C19",   # C19 only reads "cannot be put on the wire" off this engine
    trivial=r"^(fq4 .* => pass$)|(fq6 .* => pass$)",
    branches=["fsetup4.ok", "fsetup4.rejected", "fsetup6.ok", "fsetup6.rejected", "fwrite.good", "fwrite.bad", "fmove.good", "fmove.bad", "fq4.listed", "fq4.pass",
              "fq6.listed", "fq6.pass", "fq6.no-iana", "fq6.no-mac", "file.comment-line", "file.empty-line", "file.duplicate-mac"],
)

ENGINES["filec"] = dict(
    drv="filec", starts=("freset",), trivial=r"$^", noshrink=True,
    branches=["fhammer4", "fhammer6", "fhammer.old-and-new-seen", "fpair", "fsetup4.ok", "fsetup6.ok", "fq4.listed", "fq6.listed"],
)

# sys: the driver says which part of the reply differs from the composed model's (DIVERGE dom[sent,header,addr,opts,dest,relay]);
# a broken correspondence is charged to the properties whose SYS_ theorem speaks about that part
SYS_PARTS = {"C11": {"sent", "header"}, "C12": {"sent", "header", "relay", "dest"}, "C15": {"dest"}, "C13": {"sent", "opts", "addr"},
             "C14": {"sent", "opts", "addr"}, "C10": {"addr", "opts"}, "C17": {"opts"}, "C01": set(), "C19": set(),
             "C08": {"pd"}, "C09": {"pd"}, "C02": {"addr", "o51"}}


def sys_owner(line, pid, msg):
    import re as _re
    m = _re.search(r"dom\[([^\]]*)\]", msg)
    if not m:
        return True
    return bool(set(m.group(1).split(",")) & SYS_PARTS.get(pid, {"sent", "header", "addr", "opts", "dest", "relay", "pd"}))


ENGINES["sys"] = dict(
    drv="sys", starts=("sreset",), trivial=r"=> U ; drop$", diverge_owner=sys_owner,
    branches=["sys.fresh-process", "sys.file-ok", "sys.range-ok", "sys.range-new", "sys.range-known", "sys.range-exhausted", "sys4.request", "sys4.not-bootrequest", "sys4.other-type", "sys4.unparsable", "sys4.drop", "sys4.dropped-by-plugin",
              "sys4.l2", "sys4.routed", "sys4.pinned", "sys4.unpinned", "sys4.l2-no-interface", "sys4.address-assigned", "sys4.options-added", "sys4.chain-len-4",
              "sys6.direct", "sys6.relayed", "sys6.supported", "sys6.unsupported", "sys6.drop", "sys6.dropped-after-stub", "sys6.pinned", "sys6.unpinned",
              "sys6.options-added", "sys6.address-assigned", "sys6.chain-len-4",
              "sys.prefix-ok", "sys.prefix-rejected", "sys.pd-request", "sys.pd-no-iapd", "sys.pd-noprefixavail", "sys.pd-new-lease", "sys.pd-known-client", "sys.pd-multi-iapd",
              "sys.pd-not-reached", "sys.pd-reply-discarded"],
)

def serve_owner(line, pid, msg):
    # `svstart` lines are about start-up and the empty chain (C13; nothing answering is also C01's business); the bursts are not C13's
    if line.startswith("svbig"):
        return pid in ("C14", "C17") or (pid in ("C01", "C16") and "=> wrong" not in line)
    if line.startswith("svstart") and "range2" in line:
        return pid in ("C13", "C02", "C01")
    return (pid in ("C13", "C01")) if line.startswith("svstart") else pid not in ("C13", "C14", "C17", "C02")


ENGINES["serve"] = dict(
    drv="serve", diverge_owner=serve_owner, starts=("sv6", "sv4", "svstart", "svbig"), trivial=r"$^", noshrink=True,
    branches=["serve.big6", "serve.big4", "serve.start.empty", "serve.start.other", "serve.start.dns", "serve.start.probe", "serve.start.range2", "serve.l2-burst", "serve.sv6.q.procs1", "serve.sv6.l.procs1", "serve.sv6.q.procsn", "serve.sv6.l.procsn", "serve.sv4.q.procs1", "serve.sv4.l.procs1", "serve.sv4.q.procsn", "serve.sv4.l.procsn", "serve.answered"],
)

ENGINES["l2frame"] = dict(drv="l2frame", starts=("l2after",), trivial=r"=> unparsable$",
    branches=["l2.chaddr6", "l2.chaddr-other", "l2.yiaddr-zero", "l2.yiaddr-set", "l2.frame", "l2.no-frame", "l2.after-failed-send"])
ENGINES["chain"] = dict(drv="chain", starts=("ccfg",), trivial=r"=> drop$", branches=["chain.cfg4.ok", "chain.cfg6.ok", "chain.drop", "chain.send"])
ENGINES["allocc"] = dict(drv="alloc", starts=("new6", "new4"), trivial=r"$^", branches=["batch", "arace", "afrace", "achurn", "ahchurn"], noshrink=True)
ENGINES["bits"] = dict(
    drv="bits", starts=("new",),
    trivial=r"^(len 0 => )|(test \d+ => false$)",
    branches=["bits.new", "bits.new.empty", "bits.new.partial-word", "bits.new.whole-words",
              "bits.set", "bits.set.inside", "bits.set.extend-in-word", "bits.set.extend-words",
              "bits.clear", "bits.test", "bits.len", "bits.beyond-length", "bits.word-boundary",
              "bits.nextclear", "bits.nextclear.empty", "bits.nextclear.full", "bits.nextclear.none-after",
              "bits.nextclear.first-word", "bits.nextclear.later-word"],
)
ENGINES["rangec"] = dict(drv="range", starts=("rsetup",), trivial=r"$^", branches=["batch"], noshrink=True)
ENGINES["prefixc"] = dict(drv="prefix", starts=("psetup",), trivial=r"$^", branches=["batch", "prefix.prace"], noshrink=True)
ENGINES["dispatch4c"] = dict(drv="dispatch4", starts=(), trivial=r"=> U ; drop ; inv -$", branches=[])

ENGINES["config"] = dict(drv="config", diverge_owner=(lambda line, pid, msg: pid == "C18"), starts=(), trivial=r"=> unreadable ; err$",
    branches=["cload.ok", "cload.err", "cload.dual", "cload.plugins-nil", "cload.bad-item", "cload.iface", "cload.iface+listen", "cload.listen", "cload.default-listen", "cload.zoned", "cload.unreadable"])

ENGINES["plug"] = dict(drv="plug", starts=("pcfg",), trivial=r"^pcfg .* ; (err|unsupported)$|=> skip$",
    branches=["plug.prl-absent", "plug.prl-present"] + ["plug.%s.%s.setup-ok" % (n, p) for n, p in
        [("dns","4"),("dns","6"),("router","4"),("mtu","4"),("netmask","4"),("lease_time","4"),("searchdomains","4"),("searchdomains","6"),
         ("staticroute","4"),("ipv6only","4"),("autoconfigure","4"),("nbp","4"),("nbp","6"),("sleep","4"),("sleep","6"),("server_id","4"),("server_id","6")]])

TB_BITSET = "github.com/bits-and-blooms/bitset (New/Test/Set/Clear/NextClear): the allocator models use a List Bool; a word-level model of the library (Model/BitsWords.lean) is proved to refine it (BITSW_*) and is compared with the real library on every run of C04-C07 (engine bits); the library's Go source itself is not verified"
TB_STD = "Go stdlib net/bytes/encoding/binary/math/bits taken at their documented Nat-level meaning"

ALLOC_THEOREMS = lambda k: ["%s_alloc6" % k, "%s_alloc4" % k]

TB_SQLITE = "sqlite3 (mattn/go-sqlite3) modelled as a table keyed (mac, ip); the stored form of a hardware address (HardwareAddr.String, column affinity, the loader's parser) is a parameter assumed to round-trip, exercised by every restart of the conformance run"
TB_CLOCK = "the wall clock is a parameter of the model; the conformance run brackets each call with the times measured around it"

TB_CODEC = "insomniacslk/dhcp: FromBytes/ToBytes and the reply constructors are not verified; the model starts from the parse result the harness obtains from the library for each datagram, and mirrors NewReplyFromRequest / NewAdvertiseFromSolicit / NewReplyFromMessage / NewRelayReplFromRelayForw"
TB_HOOK = "server capture hook (build tag verif): the real HandleMsg4/6 runs; the reply is captured instead of written to a socket"

TB_PLUG = "insomniacslk/dhcp option encoders/decoders: mirrored in Lean (enc*/dec*) and differential-checked on every emitted option; the stdlib parsers (net.ParseIP, ParseMAC, ParseCIDR, strconv.Atoi, time.ParseDuration, url.Parse) are oracle answers recorded per argument"

PROPS = {
    "C14": dict(
        engines=[("plug", 4000, 60000), ("sys", 1500, 30000), ("serve", 2, 8)],
        theorems=["C14_v6", "C14_v6_matrix", "C14_v6_matrix_all", "C14_v6_duid_of_setup", "C14_v4", "C14_v4_addr_of_setup", "SYS_C14_drop4", "SYS_C14_drop6", "SYS_C14_stamped4", "SYS_C14_stamped6"],
        modules=["CoreDhcp.Props.C14", "CoreDhcp.Props.System"],
        trusted_base=[TB_PLUG],
        assumptions=["the response handed to server_id carries at most one Server-ID option (true of every chain of built-in plugins)", "strings.ToLower of the DUID type is modelled for ASCII"],
    ),
    "C17": dict(
        engines=[("plug", 4000, 60000), ("sys", 1500, 30000), ("serve", 2, 8), ("config", 1500, 15000)],
        theorems=["C17_builtin4", "C17_builtin6", "C17_netmask4", "C17_router4", "C17_searchdomains4", "C17_searchdomains6", "C17_staticroute4", "C17_dns4", "C17_dns6", "C17_mtu4",
                  "C17_nbp4", "C17_nbp6", "C17_leasetime4", "C17_ipv6only4", "C17_autoconfigure4", "C17_sleep4", "C17_sleep6", "C17_inrange_mtu", "C17_inrange_seconds", "C17_D17_prefix_refuted",
                  "C11_builtin_preserve_mt", "C12_builtin_preserve_mt", "C11_builtin_preserve_echo_opts", "C12_builtin_preserve_cid", "SYS_C17_delivered4"],
        modules=["CoreDhcp.Props.C17", "CoreDhcp.Props.Builtin", "CoreDhcp.Props.System"],
        trusted_base=[TB_PLUG],
        assumptions=["in-range MTU (0..65535) and durations (0 .. 2^32 s): out-of-range values are truncated on the wire and reported as drift only (outside the property's quantifier)",
                     "DHCPv6 plugins that append (nbp) are judged on responses that do not already carry their option and on request lists without repeated codes (C17.dom6)"],
    ),
    "C19": dict(
        engines=[("plug", 4000, 60000), ("chain", 1500, 30000), ("sys", 1500, 30000), ("prefix", 2500, 40000), ("file", 1500, 20000), ("range", 1200, 15000)],
        theorems=["C19_setup_wireOK", "C19_setup_wireOK4", "C19_staticroute_rejects_non_ipv4", "C19_routes_roundtrip", "C19_labels_roundtrip", "C19_ips_roundtrip", "C19_bootparams_roundtrip",
                  "C19_oversize6_refuted", "C13_nil_stop_builtin", "C13_nil_stop_builtin6"],
        modules=["CoreDhcp.Props.C19", "CoreDhcp.Props.Builtin"],
        trusted_base=[TB_PLUG, "'returns without panicking' is observed on the implementation (recover + watchdog, fresh process per configuration); the model's handlers are total by construction"],
        assumptions=["setup of prefix / range / file is covered by their own engines (C08, C02, C10) and by the chain engine",
                     "known finding D16: DHCPv6 option bodies over 65535 bytes are accepted (C19.fits is an explicit proviso of C19_setup_wireOK for dns6 / searchdomains6 / nbp6)"],
    ),
    "C18": dict(
        engines=[("config", 3000, 60000)],
        theorems=["C18_holds", "C18_plugin_list_exact", "C18_rejects_bad_plugins", "C18_rejects_listen_and_interface", "C18_address_form", "C18_rejects_bad_address", "C18_needs_a_protocol"],
        modules=["CoreDhcp.Props.C18"],
        trusted_base=["yaml.v3, viper, cast: the model starts from what viper.Get / cast.To* return for the keys the code asks for (recorded per document by the harness)",
                      "net.SplitHostPort, net.ParseIP, strconv.Atoi, strings.Fields, net.Interfaces: oracle answers recorded by the harness"],
        assumptions=["'no configuration text makes loading panic' covers the repository's code on every parsed tree; the YAML/viper/cast text layer is only exercised (generated and mutated documents under recover)",
                     "plugin names reach the loader lower-cased by viper"],
    ),
    "C01": dict(
        engines=[("chain", 2500, 60000), ("dispatch4", 3000, 60000), ("dispatch6", 3000, 60000), ("prefix", 1500, 30000), ("filec", 40, 250), ("sys", 1500, 30000), ("serve", 13, 65),
                 ("prefixc", 600, 6000), ("rangec", 300, 3000), ("allocc", 600, 6000)],
        theorems=["C01_dispatch4", "C01_dispatch6", "C01_range_never_panics", "C01_alloc6_never_bug", "C01_alloc4_never_panics", "C01_chain_bounded"],
        modules=["CoreDhcp.Props.C01"],
        facts=["F1", "F2", "F5", "F10"],
        trusted_base=["insomniacslk/dhcp FromBytes (byte parser assumed total; exercised on mutated datagrams)", "goroutine creation, socket writes, the sleep plugin's bounded delay: runtime, not modelled",
                      "the plug engine's models of the option plugins have no panic outcome by construction; their encoders' preconditions are C19's"],
        assumptions=["every modelled lock is released by defer (fact F1), so no outcome leaves a lock held",
                     "the listener is bound or the kernel reports the receiving interface (fact F5)",
                     "'never blocks forever' is covered as: no modelled step waits on anything but a mutex, and every mutex is released"],
    ),
    "C16": dict(
        engines=[("allocc", 3000, 60000), ("rangec", 1500, 20000), ("prefixc", 3000, 60000), ("dispatch4c", 3000, 60000), ("filec", 40, 250), ("serve", 14, 80)],
        race_quick=[("serve", 10), ("allocc", 300), ("prefixc", 200)],
        theorems=["C16_alloc6_any_schedule", "C16_alloc4_any_schedule", "C16_range_any_schedule", "C16_prefix_any_schedule", "C16_file_any_schedule"],
        modules=["CoreDhcp.Props.C16"],
        facts=["F1", "F2", "F4", "F10", "F11", "F12"],
        race=True,
        trusted_base=["the Go memory model, scheduler and sync.Mutex; the race detector (thorough tier: every concurrent engine; quick tier: the serve engine's start-up and link-layer bursts and short allocator / prefix bursts) supports data-race freedom, it proves nothing",
                      "fact F1 (lock discipline) and F4 (receive buffer returned to the pool after parsing, never touched again) are syntactic checks of the source",
                      "logger.GetLogger tests its global outside the mutex; fact F12: it is only called from package-level initialisers and from main before server.Start, i.e. before any goroutine exists"],
        assumptions=["each handler of a stateful plugin is one atomic step (fact F1)",
                     "concurrent batches are judged by searching a one-at-a-time order under which the Lean model accepts every outcome (linearisability check against the model)"],
    ),
    "C10": dict(
        engines=[("file", 1500, 20000), ("filec", 40, 250), ("sys", 1500, 30000)],
        theorems=["C10_holds", "C10_accept_iff_wellformed", "C10_mapping_is_file", "C10_all_or_nothing", "C10_own_file", "C10_D8_prefix_refuted", "SYS_file_address4", "SYS_file_address4_cfg", "SYS_file_address4_lease", "SYS_file_stops4"],
        modules=["CoreDhcp.Props.C10", "CoreDhcp.Props.System"],
        trusted_base=["bytes.Split / strings.Fields / net.ParseMAC / net.ParseIP: each line reaches the model as the fields the code sees with the parsers' answers", "fsnotify delivery ('eventually') is runtime: the harness rewrites the file and waits (bounded) for the served table to be replaced", "dhcpv6.ExtractMAC"],
        facts=["F11"],
        assumptions=["a refresh is one atomic table swap (recLock held by defer in loadFromFile, file parsed before the lock; readers hold RLock): fact F11, and the filec engine"],
    ),
    "C08": dict(
        engines=[("prefix", 2500, 40000), ("prefixc", 800, 10000), ("sys", 1500, 30000)],
        theorems=["C08_holds", "SYS_pd_delivered6", "SYS_pd_roundtrip", "SYS_pd_answers_each", "SYS_frame6"],
        modules=["CoreDhcp.Props.C08", "CoreDhcp.Props.System"],
        facts=["F1", "F6"],
        trusted_base=[TB_BITSET, TB_CLOCK, "insomniacslk/dhcp option parsing (IA_PD / IAPrefix): the model starts from the hints as the library delivers them"],
        assumptions=["each message is one atomic step (handler mutex held for the whole call by defer: fact F1)", "the clock does not run backwards between messages",
                     "SYS_pd_delivered6 / SYS_pd_answers_each: `prefix` once in the chain and only plugins that never end the chain before it (dns, searchdomains, sleep, file) - with nbp or a discarding server_id before it the IA_PDs are not answered at all, as the example next to the theorem shows"],
    ),
    "C09": dict(
        engines=[("prefix", 2500, 40000), ("prefixc", 800, 10000), ("sys", 1500, 30000)],
        theorems=["C09_holds", "C09_frame", "SYS_pd_delivered6"],
        modules=["CoreDhcp.Props.C09", "CoreDhcp.Props.System"],
        facts=["F1"],
        trusted_base=[TB_BITSET, TB_CLOCK, "insomniacslk/dhcp option parsing (IA_PD / IAPrefix)"],
        assumptions=["'no prefix hint at all' = no IAPrefix option or only IAPrefix options of prefix-length 0; a length-only hint (::/n, n>0) is a hint", "leases are never expired or freed by the plugin (as in the code)"],
    ),
    "C11": dict(
        engines=[("dispatch4", 6000, 100000), ("sys", 1500, 30000), ("serve", 13, 65)],
        theorems=["C11_holds", "C11_never_answers_non_requests", "SYS_C11", "SYS_frame4"],
        modules=["CoreDhcp.Props.C11", "CoreDhcp.Props.System"],
        trusted_base=[TB_CODEC, TB_HOOK],
        assumptions=["C11_holds: handlers preserve the echoed fields and keep the reply type (Handler4.Preserving): true of the scripted handlers of the run. SYS_C11 has no such hypothesis: it is about every chain of built-in option plugins, server_id, file and range (composed model, tied by the sys engine)",
                     "'every byte string' is 'every parse result, or parse failure': the byte parser is the library's"],
    ),
    "C12": dict(
        engines=[("dispatch6", 6000, 100000), ("sys", 1500, 30000), ("serve", 13, 65)],
        theorems=["C12_holds", "C12_mirror", "SYS_C12"],
        modules=["CoreDhcp.Props.C12", "CoreDhcp.Props.System"],
        trusted_base=[TB_CODEC, TB_HOOK],
        assumptions=["C12_holds: handlers return DHCPv6 messages (not relay messages) and keep type, transaction id, client id and rapid commit (Handler6.Preserving). SYS_C12 has no such hypothesis: every chain of built-in option plugins, server_id, file and prefix (composed model, tied by the sys engine)"],
    ),
    "C13": dict(
        engines=[("dispatch4", 4000, 60000), ("dispatch6", 4000, 60000), ("plugins", 3000, 50000), ("sys", 1500, 30000), ("serve", 13, 65)],
        theorems=["C13_order", "C13_stop", "C13_sends_last4", "C13_sends_last6", "C13_load_exact", "C13_load_aborts", "C13_load_succeeds", "SYS_file_stops4"],
        modules=["CoreDhcp.Props.C13", "CoreDhcp.Props.System"],
        facts=["F3", "F7", "F9"],
        trusted_base=[TB_CODEC, TB_HOOK],
        assumptions=["'built-in handlers return nil only with stop' is checked syntactically on the source (fact F3) and per plugin model",
                     "every listener of a protocol is given the one chain LoadPlugins returned (fact F7)"],
    ),
    "C15": dict(
        engines=[("dispatch4", 6000, 100000), ("sys", 1500, 30000), ("l2frame", 800, 20000)],
        theorems=["C15_holds", "C15_has_interface", "SYS_C15"],
        modules=["CoreDhcp.Props.C15", "CoreDhcp.Props.System"],
        facts=["F5", "F6", "F8"],
        trusted_base=[TB_CODEC, TB_HOOK, "the kernel delivers IP_PKTINFO when asked (fact F5 checks that listen4 asks exactly when unbound); the link-level frame is Model/Ethernet.lean, tied by the l2frame engine (the real sendEthernet on the loopback interface presented with a hardware address, the frame read back from a packet socket); gopacket's serialisation and the packet socket are trusted"],
        assumptions=["the listener is bound to an interface or the kernel reported the receiving one; the excluded point (link-level reply with no interface information) dereferences a nil control message in the code and is `panicNoIf` in the model"],
    ),
    "C02": dict(
        engines=[("range", 2500, 20000), ("rangec", 1000, 15000), ("sys", 1500, 30000), ("serve", 3, 12)],
        theorems=["C02_holds", "C02_progress", "SYS_C02_lease4", "SYS_C02_addr4"],
        modules=["CoreDhcp.Props.C02", "CoreDhcp.Props.System"],
        facts=["F1"],
        trusted_base=[TB_BITSET, TB_SQLITE, TB_CLOCK],
        assumptions=["Handler4 is one atomic step (PluginState mutex held by defer for the whole call; fact F1)",
                     "sequential histories; concurrent schedules reduce to them by F1 (see C16)"],
    ),
    "C03": dict(
        engines=[("range", 2500, 20000), ("rangec", 600, 8000)],
        theorems=["C03_holds", "C03_restore", "C03_promise_is_kept_lease", "C03_D7_prefix_refuted", "C03_key_roundtrip", "C03_macString_injective", "C03_parse_macString", "C03_hkey_total", "C03_holds_concrete", "C03_restore_concrete"],
        modules=["CoreDhcp.Props.C03", "CoreDhcp.Props.C03Key"],
        trusted_base=[TB_BITSET, TB_SQLITE, TB_CLOCK],
        assumptions=["a crash point is a point between two requests (the database file is copied there and the plugin started on the copy)",
                     "sqlite durability itself is not modelled"],
    ),
    "C20": dict(
        engines=[("ipcalc", 20000, 300000)],
        theorems=["C20_offset_exact", "C20_offset_symm", "C20_addPrefixes_exact", "C20_inverse",
                  "C20_offset_spec", "C20_addPrefixes_spec", "C20_D1_prefix_refuted", "GEN_offset_eq", "GEN_addPrefixes_eq"],
        modules=["CoreDhcp.Props.C20", "CoreDhcp.Props.Gen"],
        trusted_base=[TB_STD],
        assumptions=["Offset/AddPrefixes are modelled for 16-byte addresses (the only form the allocator passes once C19 holds)",
                     "unit > 128 in AddPrefixes and unaligned bases in Offset are outside the property's domain: executed, logged as drift only"],
        rule="128-bit operands biased to carry/borrow patterns, every p in 0..128; executed on allocators.Offset/AddPrefixes and compared with the Lean model and the Nat-level spec; trivial = Offset of equal/adjacent addresses giving 0 or AddPrefixes with n=0; distinct = distinct (op,result) lines",
    ),
    "C04": dict(
        engines=[("alloc6", 6000, 120000), ("alloc4", 6000, 120000), ("allocc", 2000, 30000), ("bits", 20000, 200000)],
        theorems=["C04_alloc6", "C04_alloc4"],
        modules=["CoreDhcp.Props.C04"],
        facts=["F1"],
        trusted_base=[TB_BITSET, TB_STD],
        assumptions=["each Allocate/Free is one atomic step (mutex held for the whole call; fact F1)",
                     "bitset.New returned a set of the requested length (pools up to 2^24 blocks are modelled in the driver)"],
    ),
    "C05": dict(
        engines=[("alloc6", 6000, 120000), ("alloc4", 6000, 120000), ("bits", 20000, 200000), ("range", 1200, 10000)],
        theorems=["C05_alloc6", "C05_alloc4", "C05_noaddr_unchanged6", "C05_noaddr_unchanged4",
                  "C05_progress6", "C05_progress4"],
        modules=["CoreDhcp.Props.C05"],
        trusted_base=[TB_BITSET, TB_STD],
        assumptions=["bitset.New returned a set of the requested length (pools up to 2^24 blocks are modelled in the driver; the full IPv4 range is exercised by a direct history in the harness)"],
    ),
    "C06": dict(
        engines=[("alloc6", 6000, 120000), ("alloc4", 6000, 120000), ("allocc", 1000, 15000), ("bits", 20000, 200000)],
        theorems=["C06_alloc6", "C06_alloc4", "C06_error_unchanged6", "C06_error_unchanged4", "C06_D2_prefix_refuted"],
        modules=["CoreDhcp.Props.C06"],
        trusted_base=[TB_BITSET, TB_STD],
        assumptions=["Free is given a well-formed prefix no shorter than the allocation size (the property's quantifier); shorter prefixes are executed and logged as drift only"],
    ),
    "C07": dict(
        engines=[("alloc6", 6000, 120000), ("alloc4", 6000, 120000), ("allocc", 1000, 15000), ("bits", 20000, 200000)],
        theorems=["C07_alloc6", "C07_alloc4"],
        modules=["CoreDhcp.Props.C07"],
        trusted_base=[TB_BITSET, TB_STD],
        assumptions=["an IPv4-mapped 16-byte address is not an IPv6 hint (net.IPNet.Contains treats it as IPv4)"],
    ),
}


# how each engine generates cases and what makes a history non-trivial (for the evidence files)
RULES = {
    "bits": "random New/Set/Clear/Test/NextClear/Len histories on the real bitset.BitSet (lengths 0, 1, 63, 64, 65, 127, 128, 130, 1000; indexes around word boundaries, the length and beyond it - extension; sets filled completely or but for one bit): the word-level model (Model/BitsWords.lean) and the list model the allocator models use are both stepped along",
    "ipcalc": "128-bit operands biased to carry/borrow patterns, every p in 0..128, n near 2^k / 2^unit / 2^64-1; one case per line; trivial = Offset giving 0 or AddPrefixes with n=0",
    "alloc6": "histories (one pool each) of Allocate with hints {none, length-only, in-pool free/taken anywhere inside the block, held, freed earlier, outside below/above, IPv4 forms, odd masks} and Free of {outstanding, sub-prefix, freed before, any block, k blocks below the base, above the end, random}; pools on both sides of the 64-bit boundary; trivial = only hint-less successful allocations",
    "alloc4": "histories (one range each; sizes 1,2,3,63,64,65,127..200, ranges ending at 255.255.255.255 / starting at 0.0.0.0, the full range judged by the monitors alone) of Allocate with hints {none, in range (4- and 16-byte forms), freed earlier, outside, IPv6} and Free likewise; trivial = only hint-less successful allocations",
    "range": "histories (one sqlite file each) of DISCOVER/REQUEST from hardware addresses of length 0..16 (mostly 6) with odd hostnames, restarts on a copy of the database with probes (in some histories after every request), time passing (leases aged by 1 s, half a lease, a lease, two leases through the ageing hook); trivial = set-up only",
    "prefix": "histories (one pool each) of SOLICITs from 1..4 clients, 0..3 IA_PDs, 0..3 hints each from {::/0, length-only, own prefix, another client's, in-pool block (host bits, longer), out of pool, length>128, IPv4-mapped}, direct and relayed, through the wire; time passing (leases aged by half an hour, just over the hour they last, a day); trivial = set-up only",
    "file": "lease files from a line grammar (every MAC/IP spelling, comments, blank lines, duplicates, one of each malformation, CRLF, missing final newline), v4/v6/dual-stack set-ups in both orders, rewrites under autorefresh, queries; trivial = only unlisted clients",
    "dispatch4": "datagrams built from the library types then mutated (truncation, bit flips, garbage, trailing bytes): all opcodes, message types 0..255/absent, giaddr/ciaddr kinds, broadcast flag, options 82/61; scripted handler chains of 0..5; bound/unbound listeners; trivial = unparsable datagram",
    "dispatch6": "datagrams: all message types, client-id/rapid-commit presence, relay nesting 0..4 (thorough 0..32) with Relay-Reply layers and missing relay-message options, mutated; link-local/global sources; scripted chains; trivial = unparsable datagram",
    "plugins": "configurations over synthetic registered plugins (dual, v4-only, v6-only, unsupported, unknown names, failing / nil-returning setups); trivial = both protocols unconfigured",
    "plug": "per built-in plugin: argument vectors from valid, boundary and invalid values of each argument kind and wrong arity, each set up in a fresh process, followed by 6..15 requests (all request-list shapes incl. absent and empty, option 116/54/siaddr/server-id variants, OFFER/ACK/NAK, assigned/unassigned yiaddr, pre-existing options); trivial = a rejected configuration",
    "config": "YAML documents from the configuration grammar (sections present or not, listen scalar/list/absent/non-scalar, every address/zone/port spelling, interface alias, plugin item shapes) plus mutated text; trivial = unreadable document",
    "sys": "chains of 0..7 distinct real built-in plugins (option plugins, server_id, file, range on 2..7 addresses) in any order, arguments from the plug engine's valid/boundary/invalid pools (a rejected set-up leaves the chain shorter), fresh process per chain; 8..27 datagrams each from the plug engine's request battery (request-list shapes, siaddr x option 54 matrix) plus giaddr/ciaddr/broadcast/option 82/61 variants (v4) or all message types, client-id kinds, server-id own/other, ORO shapes, IA_NA, rapid commit, relay nesting with Relay-Reply layers (v6), one in six mutated; the whole reply (every header field and option, destination, port, interface, link-layer flag) is compared with the composed model; trivial = unparsable datagram",
    "serve": "the real Serve loops on loopback UDP sockets around server_id + dns: first datagrams of 700..65 000 bytes one at a time whose right answer hangs on their LAST option (a server identifier naming another server: no reply; a request for the DNS servers: a reply carrying them) - svbig; then 2..24 datagrams (DHCPv6 direct and relayed, all of the supported and some unsupported types, with and without client id, rapid commit, padding options of very different lengths, runts; DHCPv4 relayed via a per-process 127.x.y.z:67, DISCOVER/REQUEST/INFORM/RELEASE/DECLINE, runts of 236..243 bytes) sent one at a time and then as a burst (queued before Serve starts, or while it runs; GOMAXPROCS 1, 2 or 16): every client must get in the burst exactly what it got alone",
    "chain": "random subsets and orders of the real built-in plugins with valid arguments (fresh process per chain), 10..40 well-formed and mutated datagrams each; trivial = dropped datagram",
    "filec": "static lease file under autorefresh, both protocols: 8 goroutines looking one client up as fast as they can while the file is rewritten in place over and over, alternately with two versions that differ in one byte (150 ms per burst, 600 ms in the thorough tier); every answer must be the old or the new file's, all lookups must return, the table must settle on the last version",
    "allocc": "k goroutines allocating / freeing at once on nearly full pools; outcomes judged by linearisability search",
    "rangec": "k concurrent DISCOVERs from new, known and duplicated clients on nearly exhausted ranges",
    "prefixc": "3..8 concurrent SOLICITs with two hinted IA_PDs each racing for the last blocks",
    "dispatch4c": "dispatch4 datagrams executed 16 at a time through the hook (shared receive-buffer pool)",
}

# theorems tying definitions regenerated from the Go source (harness gen) to the hand-written models
GEN_THEOREMS = {
    "C11": ("CoreDhcp.Props.GenDispatch4", ["GEN_stub4_eq", "GEN_stubType4_eq", "GEN_dispatch4_eq"]),
    "C15": ("CoreDhcp.Props.GenDispatch4", ["GEN_peer4_eq", "GEN_pinIf4_eq", "GEN_woob4_eq"]),
    "C12": ("CoreDhcp.Props.GenDispatch6", ["GEN_replyKind6_eq", "GEN_stub6_eq", "GEN_replyKind6_spec", "GEN_replyKind6_table", "GEN_replyKind6_all", "GEN_pinIf6_eq", "GEN_woob6_eq", "GEN_dispatch6_eq"]),
    "C14": ("CoreDhcp.Props.GenServerID6", ["GEN_sidDecision_spec", "GEN_sidDecision_table", "GEN_sidDecision_all", "GEN_sidDecision_model", "GEN_sidDecision_rel6"]),
    "C19": ("CoreDhcp.Props.GenNetmask", ["GEN_checkValidNetmask_eq", "GEN_checkValidNetmask_masks"]),
    # the DHCPv4 request handlers of all twelve option plugins, regenerated (unit handlers4)
    "C17": ("CoreDhcp.Props.GenHandlers4", ["GEN_h4_mtu_eq", "GEN_h4_netmask_eq", "GEN_h4_router_eq", "GEN_h4_dns_eq", "GEN_h4_leasetime_eq", "GEN_h4_searchdomains_eq",
                                            "GEN_h4_staticroute_eq", "GEN_h4_ipv6only_eq", "GEN_h4_autoconfigure_eq", "GEN_h4_sleep_eq", "GEN_h4_nbp_eq", "GEN_h4_nbp_unset"]),
    # bitmap_ipv4.go, regenerated as a whole (unit alloc4): the IPv4 halves of C04-C07 rest on it
    "C04": ("CoreDhcp.Props.GenAlloc4", ["GEN_a4_allocate_eq", "GEN_a4_free_eq"]),
    "C05": ("CoreDhcp.Props.GenAlloc4", ["GEN_a4_allocate_eq'", "GEN_a4_new_eq", "GEN_a4_toIP_eq", "GEN_a4_toIP_ofNat", "GEN_a4_toIP_panic_iff"]),
    "C06": ("CoreDhcp.Props.GenAlloc4", ["GEN_a4_free_eq", "GEN_a4_toOffset_eq"]),
    "C07": ("CoreDhcp.Props.GenAlloc4", ["GEN_a4_allocate_eq", "GEN_a4_toOffset_eq"]),
}
GEN_THEOREMS_MORE = [
    # the bitset library at word level (Model/BitsWords.lean): refinement to the list model the allocator models use; tied by engine bits
    ("C04", "CoreDhcp.Props.BitsWords", ['WBits.BITSW_wf_new', 'WBits.BITSW_wf_set', 'WBits.BITSW_wf_clear', 'WBits.BITSW_test_refines', 'WBits.BITSW_set_refines', 'WBits.BITSW_clear_refines', 'WBits.BITSW_run_refines']),
    ("C05", "CoreDhcp.Props.BitsWords", ['WBits.BITSW_new_refines', 'WBits.BITSW_len_refines', 'WBits.BITSW_nextClear_refines', 'WBits.BITSW_nextClearFrom_zero', 'WBits.BITSW_nextClear0_refines', 'WBits.BITSW_nextClear_least']),
    ("C06", "CoreDhcp.Props.BitsWords", ['WBits.BITSW_test_refines', 'WBits.BITSW_clear_refines', 'WBits.BITSW_wf_clear']),
    ("C07", "CoreDhcp.Props.BitsWords", ['WBits.BITSW_test_refines', 'WBits.BITSW_set_refines', 'WBits.BITSW_nextClear_refines']),
    # histories of datagrams through the whole server with a lease plugin in the chain (Model/ServerState.lean)
    ("C02", "CoreDhcp.Props.ServerState", ['SYSST_range_steps_are_handles', 'SYSST_C02_history', 'SYSST_C02_history_explicit', 'SYSST_reply_is_event', 'SYSST_sent_replies_are_events', 'SYSST_C02_wire', 'SYSST_unreached_keeps_state', 'SYSST_junk_keeps_state', 'SYSST_progress']),
    ("C08", "CoreDhcp.Props.ServerState", ['SYSST_prefix_steps_are_handles', 'SYSST_C08_history', 'SYSST_reply_is_event6', 'SYSST_unreached_keeps_state6']),
    ("C09", "CoreDhcp.Props.ServerState", ['SYSST_prefix_steps_are_handles', 'SYSST_C08_history']),
    # the front of config.Load regenerated (unit configload): a fresh viper instance, always decoded as YAML, the path of -c verbatim, the search directories in order
    ("C18", "CoreDhcp.Props.GenConfigLoad", ['GEN_configload_load_eq', 'GEN_configload_tail_eq', 'CONFIGLOAD_asked', 'CONFIGLOAD_type_is_yaml_always', 'CONFIGLOAD_explicit_path_verbatim', 'CONFIGLOAD_search_order', 'CONFIGLOAD_reads_once_with_these_settings', 'CONFIGLOAD_read_error_aborts', 'CONFIGLOAD_parses_what_was_read', 'CONFIGLOAD_fresh_instance', 'CONFIGLOAD_tail_is_unit_config', 'CONFIGLOAD_load_is_C18_model', 'CONFIGLOAD_C18', 'CONFIGLOAD_never_panics', 'CONFIGLOAD_main_reads_conf_flag']),
    # the program as one function (Model/Server.lean): main, config.Load, LoadPlugins, server.Start and the listeners composed
    ("C13", "CoreDhcp.Props.Server", ['SERVER_trace_is_main', 'SERVER_listeners_get_configured_chain', 'SERVER_started_run_waits', 'SERVER_bad_config_opens_nothing', 'SERVER_C13_end_to_end4', 'SERVER_C13_end_to_end6']),
    ("C18", "CoreDhcp.Props.Server", ['SERVER_bad_config_opens_nothing']),
    ("C11", "CoreDhcp.Props.Server", ['SERVER_builtin_chain_is_sys4']),
    ("C15", "CoreDhcp.Props.Server", ['SERVER_builtin_chain_is_sys4']),
    ("C12", "CoreDhcp.Props.Server", ['SERVER_builtin_chain_is_sys6']),
    # cmds/coredhcp/main.go, plugins.RegisterPlugin and the Plugin declaration of every built-in plugin regenerated (unit mainreg)
    ("C13", "CoreDhcp.Props.GenMainReg", ['GEN_mainreg_register_eq', 'GEN_mainreg_printLoop_eq', 'GEN_mainreg_regLoop_eq', 'GEN_mainreg_registry0', 'GEN_mainreg_main_eq', 'MAINREG_protocol_support', 'MAINREG_protocol_support_models', 'MAINREG_names_distinct', 'MAINREG_registration_never_panics', 'MAINREG_registry_exact', 'MAINREG_second_registration_panics', 'MAINREG_view4', 'MAINREG_view6', 'MAINREG_unknown_name_rejected', 'MAINREG_unsupported_skipped', 'MAINREG_load_exact4', 'MAINREG_load_exact6', 'MAINREG_run']),
    ("C18", "CoreDhcp.Props.GenMainReg", ['GEN_mainreg_main_eq', 'MAINREG_flag_table', 'MAINREG_log_levels', 'MAINREG_config_before_sockets', 'MAINREG_config_before_sockets_gen', 'MAINREG_run', 'MAINREG_list_plugins_is_pure']),
    # the argument and start-up part of setupRange regenerated (unit rangesetup): which argument goes where, the order of the tests, the lease-time test of D21
    ("C19", "CoreDhcp.Props.GenRangeSetup", ['GEN_rangesetup_setup_eq', 'GEN_rangesetup_plugin_eq', 'RANGESETUP_accepts_iff', 'RANGESETUP_no_partial_state', 'RANGESETUP_argument_roles', 'RANGESETUP_range_wellformed', 'RANGESETUP_one_address_range_rejected', 'RANGESETUP_extra_args_ignored', 'RANGESETUP_plugin_decl', 'RANGESETUP_allocator_never_refuses']),
    ("C02", "CoreDhcp.Props.GenRangeSetup", ['GEN_rangesetup_setup_eq', 'RANGESETUP_range_wellformed', 'RANGESETUP_accepted_starts_handler', 'RANGESETUP_accepted_serves_C02_C03']),
    ("C03", "CoreDhcp.Props.GenRangeSetup", ['GEN_rangesetup_setup_eq', 'RANGESETUP_lease_is_kept_lease', 'RANGESETUP_accepted_lease_fits_wire', 'RANGESETUP_accepted_starts_handler', 'RANGESETUP_accepted_serves_C02_C03']),
    # setupFile of plugins/file regenerated (unit filesetup): arguments, initial load, the autorefresh watcher and its goroutine, the handlers returned
    ("C10", "CoreDhcp.Props.GenFileSetup", ['GEN_filesetup_setup_eq', 'GEN_filesetup_refresh_eq', 'GEN_filesetup_reg_eq', 'FILESETUP_watches_the_configured_name', 'FILESETUP_every_event_reloads', 'FILESETUP_failed_reload_keeps_watching', 'FILESETUP_serves_own_table', 'FILESETUP_no_autorefresh_no_watcher', 'FILESETUP_initial_load_error_aborts', 'FILESETUP_refresh_is_load', 'FILESETUP_later_good_version_picked_up', 'FILESETUP_replaced_file_is_watched_again', 'FILESETUP_watch_survives_replacements']),
    # the receive side of server/handle.go regenerated (unit serveloop): buffer pool, both Serve loops, the buffer hand-back in HandleMsg4/6
    ("C16", "CoreDhcp.Props.GenServeLoop", ['GEN_serve_pool_new', 'GEN_serve_iter6_eq', 'GEN_serve_iter4_eq', 'GEN_serve_head6_eq', 'GEN_serve_head4_eq', 'GEN_serve_code_eq', 'SERVE_reads_full_buffer', 'SERVE_spawn_own_values', 'SERVE_spawn_own_values_run', 'SERVE_one_spawn_per_datagram', 'SERVE_one_spawn_per_datagram_run', 'SERVE_buffer_back_once', 'SERVE_buffer_back_once_gen', 'SERVE_no_two_owners', 'SERVE_no_two_owners_gen', 'SERVE_no_two_owners_apart', 'SERVE_read_into_unshared']),
    ("C01", "CoreDhcp.Props.GenServeLoop", ['GEN_serve_code_eq', 'SERVE_no_two_owners_gen', 'SERVE_one_spawn_per_datagram']),
    # server/sendEthernet.go regenerated (unit ethernet)
    ("C15", "CoreDhcp.Props.GenEthernet", ['GEN_eth_layers', 'GEN_eth_sendEthernet_eq', 'C15_frame', 'C15_frame_fields', 'C15_frame_none_iff', 'GEN_eth_frame', 'GEN_eth_payload_probes', 'GEN_eth_payload_not_toBytes']),
    # server.Start, listen4/6 and Close regenerated (unit start)
    ("C13", "CoreDhcp.Props.GenStart", ['GEN_start_start_eq', 'GEN_start_loop6_acc', 'GEN_start_loop4_acc', 'GEN_start_close_eq', 'GEN_start_closeLoop_acc', 'START_every_section_listens', 'START_whole_chain', 'START_cleanup', 'START_failed_listen_leaks_socket', 'START_load_error_opens_nothing']),
    ("C15", "CoreDhcp.Props.GenStart", ['GEN_start_listen4_eq', 'GEN_start_start_eq', 'START_unbound_has_pktinfo']),
    ("C12", "CoreDhcp.Props.GenStart", ['GEN_start_listen6_eq', 'GEN_start_start_eq', 'START_unbound_has_pktinfo']),
    # plugins/range/storage.go regenerated (unit storage)
    ("C03", "CoreDhcp.Props.GenStorage", ['GEN_storage_parseHWAddr_eq', 'GEN_storage_parseHWAddr_nopanic', 'GEN_storage_parseUint_probes', 'GEN_storage_split_probes', 'GEN_storage_loadRecords_spec', 'GEN_storage_loadRecords_eq', 'GEN_storage_loadRecords_concrete', 'GEN_storage_query_cols', 'GEN_storage_save_eq', 'GEN_storage_schema', 'GEN_storage_loadDB_eq', 'GEN_storage_register_eq', 'GEN_storage_key_roundtrip']),
    # the set-up (argument validation) functions of all option plugins regenerated (unit setups)
    ("C19", "CoreDhcp.Props.GenSetups", ['GEN_setup_mtu4_eq', 'GEN_setup_sleep4_eq', 'GEN_setup_sleep6_eq', 'GEN_setup_leasetime4_eq', 'GEN_setup_ipv6only4_eq', 'GEN_setup_autoconfigure4_eq', 'GEN_setup_nbp4_eq', 'GEN_setup_nbp6_eq', 'GEN_setup_netmask4_eq', 'GEN_setup_netmask4_eq_wf', 'GEN_setup_netmask4_needs_len', 'GEN_setup_router4_eq', 'GEN_setup_dns4_eq', 'GEN_setup_dns6_eq', 'GEN_setup_staticroute4_eq', 'GEN_setup_searchdomains4_eq', 'GEN_setup_searchdomains6_eq', 'GEN_setup_router4_accumulates', 'GEN_setup_ipv6only4_keeps', 'GEN_setup_autoconfigure4_keeps', 'GEN_setup_nbp4_keeps66', 'GEN_setup_nbp6_keeps60']),
    ("C14", "CoreDhcp.Props.GenSetups", ['GEN_setup_serverid4_eq', 'GEN_setup_serverid6_eq']),
    # the DHCPv6 request handlers of the option plugins regenerated (unit handlers6)
    ("C17", "CoreDhcp.Props.GenHandlers6", ['GEN_h6_dns_eq', 'GEN_h6_dns_undecap', 'GEN_h6_searchdomains_eq', 'GEN_h6_searchdomains_blind', 'GEN_h6_sleep_eq', 'GEN_h6_sleep_blind', 'GEN_h6_nbp_loop', 'GEN_h6_nbp_eq', 'GEN_h6_nbp_unset', 'GEN_h6_nbp_unset_differs', 'GEN_h6_nbp_undecap']),
    ("C14", "CoreDhcp.Props.GenHandlers6", ['GEN_h6_serverid_eq', 'GEN_h6_serverid_undecap', 'GEN_h6_serverid_decision']),
    # plugins/prefix: Handle with its three loops and setupPrefix regenerated (unit prefix6)
    ("C08", "CoreDhcp.Props.GenPrefix6", ['GEN_pd_loop1_eq', 'GEN_pd_loop2_eq', 'GEN_pd_loop3_model', 'GEN_pd_loop3_eq', 'GEN_pd_handleIAPD_model', 'GEN_pd_handleIAPD_gen', 'GEN_pd_handleIAPD_eq', 'GEN_pd_handleMsg_model', 'GEN_pd_handleMsg_gen', 'GEN_pd_handleMsg_eq', 'GEN_pd_handle_undecapsulated', 'GEN_pd_handle_total', 'GEN_pd_setup_eq', 'GEN_pd_setup_arity']),
    ("C09", "CoreDhcp.Props.GenPrefix6", ['GEN_pd_loop1_eq', 'GEN_pd_loop2_eq', 'GEN_pd_loop3_model', 'GEN_pd_loop3_eq', 'GEN_pd_handleIAPD_model', 'GEN_pd_handleIAPD_gen', 'GEN_pd_handleIAPD_eq', 'GEN_pd_handleMsg_model', 'GEN_pd_handleMsg_gen', 'GEN_pd_handleMsg_eq', 'GEN_pd_handle_undecapsulated', 'GEN_pd_handle_total', 'GEN_pd_setup_eq', 'GEN_pd_setup_arity']),
    # config/config.go from splitHostPort to Load regenerated (unit config)
    ("C18", "CoreDhcp.Props.GenConfig", ['GEN_cfg_splitHostPort_eq', 'GEN_cfg_getListenAddress_eq', 'GEN_cfg_getListenAddress_no_panic', 'GEN_cfg_expand_eq', 'GEN_cfg_expand_no_panic', 'GEN_cfg_defaultListen_eq', 'GEN_cfg_defaultListen_no_panic', 'GEN_cfg_listenLoop_acc', 'GEN_cfg_listenLoop_eq', 'GEN_cfg_listenLoop_no_panic', 'GEN_cfg_parseListen_eq', 'GEN_cfg_parseListen_no_panic', 'GEN_cfg_pluginsLoop_acc', 'GEN_cfg_pluginsLoop_no_panic', 'GEN_cfg_parsePlugins_eq', 'GEN_cfg_parsePlugins_no_panic', 'GEN_cfg_getPlugins_eq', 'GEN_cfg_getPlugins_no_panic', 'GEN_cfg_parseSection_eq', 'GEN_cfg_parseSection_absent', 'GEN_cfg_parseConfig_no_panic', 'GEN_cfg_load_eq', 'GEN_cfg_load_no_panic', 'GEN_cfg_bad_version', 'GEN_cfg_load_v6_first', 'GEN_cfg_parseConfig_plugins_first']),
    # plugins/file: both loaders, handle4/handle6, loadFromFile regenerated (unit fileplugin)
    ("C10", "CoreDhcp.Props.GenFilePlugin", ['GEN_file_body4_eq', 'GEN_file_body6_eq', 'GEN_file_loop4_eq', 'GEN_file_loop6_eq', 'GEN_file_load4_eq', 'GEN_file_load6_eq', 'GEN_file_load4_model', 'GEN_file_load6_model', 'GEN_file_load_unreadable', 'GEN_file_loadFromFile_eq', 'GEN_file_loadFromFile_model', 'GEN_file_loadFromFile_unreadable', 'GEN_file_loadFromFile_error_unchanged', 'GEN_file_handle4_raw', 'GEN_file_handle4_eq', 'GEN_file_served4_eq', 'GEN_file_handle4_other', 'GEN_file_handle6_raw', 'GEN_file_handle6_eq', 'GEN_file_served6_eq', 'GEN_file_handle6_undecapsulated', 'GEN_file_handle6_other', 'GEN_file_exported', 'GEN_file_static_after_load', 'Gen7.wf_init', 'Gen7.wf_load']),
    # plugins.LoadPlugins regenerated (unit loadplugins)
    ("C13", "CoreDhcp.Props.GenLoadPlugins", ["GEN_lp_chain6_eq", "GEN_lp_chain4_eq", "GEN_lp_loop6_acc", "GEN_lp_loop4_acc", "GEN_lp_load_eq", "GEN_lp_load_tagged", "GEN_lp_load_ok"]),
    # range Handler4 and the re-marking loop of setupRange regenerated (unit range4)
    ("C02", "CoreDhcp.Props.GenRange4", ["GEN_range_handler4_eq", "GEN_range_remark_eq"]),
    ("C03", "CoreDhcp.Props.GenRange4", ["GEN_range_handler4_eq'", "GEN_range_remarkBody_eq", "GEN_range_remark_eq", "GEN_range_setup_remark"]),
    ("C14", "CoreDhcp.Props.GenHandlers4", ["GEN_h4_serverid_eq"]),
    # bitmap.go (the IPv6 prefix allocator), regenerated as a whole (unit alloc6)
    ("C04", "CoreDhcp.Props.GenAlloc6", ["GEN_a6_allocate_eq", "GEN_a6_free_eq"]),
    ("C05", "CoreDhcp.Props.GenAlloc6", ["GEN_a6_allocate_eq'", "GEN_a6_new_eq", "GEN_a6_new_outside_domain", "GEN_a6_new_other", "GEN_a6_toPrefix_eq"]),
    ("C06", "CoreDhcp.Props.GenAlloc6", ["GEN_a6_free_eq", "GEN_a6_free_other", "GEN_a6_free_outside", "GEN_a6_contains_eq", "GEN_a6_contains_none", "GEN_a6_toIndex_eq", "GEN_a6_toIndex_none"]),
    ("C07", "CoreDhcp.Props.GenAlloc6", ["GEN_a6_allocate_eq", "GEN_a6_contains_eq", "GEN_a6_toIndex_eq"]),
]
for _p, (_m, _t) in GEN_THEOREMS.items():
    PROPS[_p]["theorems"] = PROPS[_p]["theorems"] + _t
    PROPS[_p]["modules"] = PROPS[_p]["modules"] + [_m]
for _p, _m, _t in GEN_THEOREMS_MORE:
    PROPS[_p]["theorems"] = PROPS[_p]["theorems"] + _t
    PROPS[_p]["modules"] = PROPS[_p]["modules"] + [_m]
