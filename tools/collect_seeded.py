#!/usr/bin/env python3
"""collect_seeded.py <id> [<id>…] : builds /verif/seeded/<id>/ (patch.diff, demonstration, meta.json)
from the deliverables of the independent sub-agent in /tmp/seeded/<id>/ and the recorded seedtest runs."""
import sys, os, json, shutil, re
def needs(notes):
    """the section of the author's notes that says what it takes for the change to show"""
    lines = notes.split("\n")
    out, on = [], False
    for l in lines:
        if re.match(r"^\s*(#+|\*\*)", l):
            if on:
                break
            if re.search(r"(?i)manifest|needs|takes|show up|to trigger", l) and not re.match(r"^\s*#\s", l):
                on = True
                # text after a bold heading on the same line
                t = re.sub(r"^\s*\*\*[^*]*\*\*:?", "", l).strip() if l.lstrip().startswith("**") else ""
                if t:
                    out.append(t)
                continue
        if on:
            out.append(l)
    return "\n".join(out).strip()[:2000]

args = sys.argv[1:]
rnd = 1
if args and args[0] == "--round":
    rnd = int(args[1])
    args = args[2:]
for pid in args:
    src = "/tmp/seeded%s/%s" % ("" if rnd == 1 else str(rnd), pid)
    dst = "/verif/seeded/%s%s" % (pid, "" if rnd == 1 else "-r%d" % rnd)
    os.makedirs(dst, exist_ok=True)
    shutil.copy(os.path.join(src, "patch.diff"), dst)
    demos = [f for f in os.listdir(src) if f.endswith(".go")]
    for f in demos:
        shutil.copy(os.path.join(src, f), os.path.join(dst, f + ".txt"))   # .txt: must not be compiled as part of /verif
    for f in ("demo_path.txt", "notes.md"):
        if os.path.exists(os.path.join(src, f)):
            shutil.copy(os.path.join(src, f), dst)
    runs = json.load(open(os.path.join(src, "seedtest.json"))) if os.path.exists(os.path.join(src, "seedtest.json")) else []
    notes = open(os.path.join(src, "notes.md")).read() if os.path.exists(os.path.join(src, "notes.md")) else ""
    last = runs[-1] if runs else {}
    if not notes:
        notes = ""
    meta = {
        "property": pid,
        "round": rnd,
        "written_by": "independent sub-agent given only the property text and a scratch worktree of /repo",
        "needs_to_manifest": needs(notes),
        "confirmed": {k: last.get(k) for k in ("applies", "builds", "suite_passes_with_change", "demo_fails_with_change", "demo_passes_without_change", "demo_cmd")},
        "checks_run": [r for run in runs for r in run.get("ran", [])],
        # (round 1 runs were not recorded from the start: which changes were missed at first is in DESIGN.md 7.1)
        "caught_at_first_run": (bool(runs) and any(r["exit"] == 1 for r in runs[0].get("ran", []))) if rnd > 1 else "see DESIGN.md 7.1",
        "caught_by": sorted(set(r["check"] for run in runs for r in run.get("ran", []) if r["exit"] == 1)),
    }
    json.dump(meta, open(os.path.join(dst, "meta.json"), "w"), indent=1)
    print(pid, "caught_by", meta["caught_by"], "confirmed", meta["confirmed"])
