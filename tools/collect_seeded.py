#!/usr/bin/env python3
"""collect_seeded.py <id> [<id>…] : builds /verif/seeded/<id>/ (patch.diff, demonstration, meta.json)
from the deliverables of the independent sub-agent in /tmp/seeded/<id>/ and the recorded seedtest runs."""
import sys, os, json, shutil, re
for pid in sys.argv[1:]:
    src = "/tmp/seeded/%s" % pid
    dst = "/verif/seeded/%s" % pid
    os.makedirs(dst, exist_ok=True)
    shutil.copy(os.path.join(src, "patch.diff"), dst)
    demos = [f for f in os.listdir(src) if f.endswith(".go")]
    for f in demos:
        shutil.copy(os.path.join(src, f), os.path.join(dst, f + ".txt"))   # .txt: must not be compiled as part of /verif
    for f in ("demo_path.txt", "notes.md"):
        if os.path.exists(os.path.join(src, f)):
            shutil.copy(os.path.join(src, f), dst)
    runs = json.load(open(os.path.join(src, "seedtest.json"))) if os.path.exists(os.path.join(src, "seedtest.json")) else []
    notes = open(os.path.join(src, "notes.md")).read() if os.path.exists(os.path.join(src, "notes.md")) else ""
    last = runs[-1] if runs else {}
    meta = {
        "property": pid,
        "written_by": "independent sub-agent given only the property text and a scratch worktree of /repo",
        "needs_to_manifest": (re.search(r"(?is)(what (?:it )?(?:takes|needs)[^\n]*\n.*?)(?:\n#|\n\*\*[A-Z]|\Z)", notes) or [None, ""])[1][:1500].strip(),
        "confirmed": {k: last.get(k) for k in ("applies", "builds", "suite_passes_with_change", "demo_fails_with_change", "demo_passes_without_change", "demo_cmd")},
        "checks_run": [r for run in runs for r in run.get("ran", [])],
        "caught_by": sorted(set(r["check"] for run in runs for r in run.get("ran", []) if r["exit"] == 1)),
    }
    json.dump(meta, open(os.path.join(dst, "meta.json"), "w"), indent=1)
    print(pid, "caught_by", meta["caught_by"], "confirmed", meta["confirmed"])
