import Driver.Util
open CoreDhcp
namespace Drv.Plugins

/-- the synthetic registry of the harness (plugins.go `synth`) -/
def synth : List (String × Bool × Bool) :=
  [("dual", true, true), ("only4", true, false), ("only6", false, true), ("dualb", true, true), ("none", false, false)]

def setupOf (idx : Nat) : Setup Nat := fun args =>
  match args with
  | "fail" :: _ => .error ()
  | "nil" :: _ => .ok none
  | _ => .ok (some (idx * 8 + args.length % 8))

def reg (v4 : Bool) : Registry Nat := fun name =>
  match (synth.zip (List.range synth.length)).find? (fun p => p.1.1 == name) with
  | none => none
  | some ((_, h4, h6), idx) => if (if v4 then h4 else h6) then some (some (setupOf idx)) else some none

def parseList (s : String) : Option (List (String × List String)) :=
  if s == "-" then none else
  let body := ((s.drop 1).toString.dropEnd 1).toString
  if body == "" then some [] else
  some ((body.splitOn ",").map (fun item => match item.splitOn ":" with | n :: args => (n, args) | [] => ("", [])))

/-- C13 (loading), stated without the loop: every name known, every supporting setup succeeds
with a handler ⇒ exactly those, in order; otherwise an error -/
def specLoad (r : Registry Nat) (ps : List (String × List String)) : Option (List Nat) :=
  if ps.all (fun p => (r p.1).isSome) then
    let sup := ps.filterMap (fun p => match r p.1 with | some (some f) => some (f p.2) | _ => none)
    if sup.all (fun x => match x with | .ok (some _) => true | _ => false) then
      some (sup.filterMap (fun x => match x with | .ok (some h) => some h | _ => none))
    else none
  else none

def fmtIds (ids : List Nat) : String := if ids.isEmpty then "-" else String.join (ids.map (fun i => natHex i 2))

def step (op res : String) : List String :=
  match words op, (res.splitOn " ; ").map words with
  | ["load", s4, s6], [r, _] =>
    let c4 := parseList s4
    let c6 := parseList s6
    let m := loadPlugins (reg true) (reg false) c4 c6
    let mstr := match m with
      | .ok (h4, h6) => s!"ok {h4.length} {fmtIds h4} {h6.length} {fmtIds h6}"
      | .error .noConfig => "err noconfig"
      | .error (.unknown _) => "err unknown"
      | .error (.setup _) => "err setup"
      | .error (.nilHandler _) => "err nil"
    let spec : Option (List Nat × List Nat) :=
      if c4.isNone && c6.isNone then none else
      match (match c6 with | some ps => specLoad (reg false) ps | none => some []),
            (match c4 with | some ps => specLoad (reg true) ps | none => some []) with
      | some h6, some h4 => some (h4, h6)
      | _, _ => none
    let sstr := match spec with | some (h4, h6) => s!"ok {h4.length} {fmtIds h4} {h6.length} {fmtIds h6}" | none => "err"
    let rr := " ".intercalate r
    let rcanon := if rr.startsWith "err" then "err" else rr
    let br := match m with
      | .ok _ => "br:load.ok" | .error .noConfig => "br:load.noconfig" | .error (.unknown _) => "br:load.unknown"
      | .error (.setup _) => "br:load.setup-error" | .error (.nilHandler _) => "br:load.nil-handler"
    br :: (if mstr == rr then [] else [s!"DIVERGE dom model={mstr}"]) ++ (if sstr == rcanon then [] else [s!"FAIL C13 LoadPlugins: expected {sstr} got {rr}"])
  | _, _ => ["DIVERGE drift unparsed-op"]

end Drv.Plugins
