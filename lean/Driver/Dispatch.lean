import Driver.Util
open CoreDhcp
namespace Drv.Dispatch

def optBytes (s : String) : Option (Option (List Nat)) :=
  if s == "-" then some none else if s == "e" then some (some []) else (parseHex s).map some

def ip4 (s : String) : Option (BitVec 32) :=
  (parseHex s).bind (fun b => if b.length == 4 then some (BitVec.ofNat 32 (bytesToNat b)) else none)

/-- scripted DHCPv4 handlers of the harness (dispatch.go `script4`) -/
def script4 (tok : String) (idx : Nat) : Handler4 := fun req resp =>
  let c := tok.toList.headD 'p'
  if c == 'x' then (none, true)
  else if c == 'z' then (none, false)
  else if c == 'r' then
    match stub4 req with
    | some r => (some { r with tags := [idx] }, false)
    | none => (none, true)
  else match resp with
    | none => (none, c == 's')
    | some r =>
      if c == 'p' then (some r, false)
      else if c == 't' then (some { r with tags := r.tags ++ [idx] }, false)
      else if c == 'y' then
        (some { r with yiaddr := (ip4 (String.ofList (tok.toList.drop 1))).getD 0#32, tags := r.tags ++ [idx] }, false)
      else if c == 'n' then (some { r with mt := if r.mt == 5 then 6 else r.mt, tags := r.tags ++ [idx] }, false)
      else (some { r with tags := r.tags ++ [idx] }, true)      -- 's'

def script6 (tok : String) (idx : Nat) : Handler6 := fun d resp =>
  let c := tok.toList.headD 'p'
  if c == 'x' then (none, true)
  else if c == 'z' then (none, false)
  else match resp with
    | none =>
      if c == 'r' then
        match d.msg.bind stub6 with
        | some r => (some { r with tags := [idx] }, false)
        | none => (none, true)
      else (none, c == 's')
    | some r =>
      if c == 'p' then (some r, false)
      else if c == 't' then (some { r with tags := r.tags ++ [idx] }, false)
      else if c == 'r' then (some { r with tags := [idx] }, false)
      else (some { r with tags := r.tags ++ [idx] }, true)

def chainOf {H} (mk : String → Nat → H) (s : String) : List H :=
  if s == "-" then [] else
  let toks := s.splitOn ","
  (toks.zip (List.range toks.length)).map (fun (t, i) => mk t i)

def parseReq4 : List String → Option Req4
  | [op, mt, xid, htype, chaddr, flags, ci, gi, o82, o61] =>
    match op.toNat?, mt.toNat?, (parseHex xid).map bytesToNat, htype.toNat?, parseHex chaddr, flags.toNat?, ip4 ci, ip4 gi, optBytes o82, optBytes o61 with
    | some op, some mt, some xid, some ht, some ch, some fl, some ci, some gi, some o82, some o61 =>
      some ⟨op, mt, xid, ht, ch, fl, ci, gi, o82, o61⟩
    | _, _, _, _, _, _, _, _, _, _ => none
  | _ => none

def tagsOf (s : String) : Option (List Nat) := if s == "-" then some [] else parseHex s

def parseOut4 : List String → Option Out4
  | ["drop"] => some .drop
  | ["send", peer, port, ifi, l2, op, mt, xid, htype, chaddr, flags, gi, yi, o82, o61, tags] =>
    match ip4 peer, port.toNat?, (if ifi == "-" then some none else ifi.toNat?.map some), op.toNat?, mt.toNat?,
          (parseHex xid).map bytesToNat, htype.toNat?, parseHex chaddr, flags.toNat?, ip4 gi, ip4 yi, optBytes o82, optBytes o61, tagsOf tags with
    | some peer, some port, some ifi, some op, some mt, some xid, some ht, some ch, some fl, some gi, some yi, some o82, some o61, some tags =>
      some (.send ⟨op, mt, xid, ht, ch, fl, gi, yi, o82, o61, tags⟩ peer port ifi (l2 == "1"))
    | _, _, _, _, _, _, _, _, _, _, _, _, _, _ => none
  | _ => none

def parseInv (s : String) : Option (List Inv) :=
  if s == "-" then some [] else
  (s.splitOn ",").mapM (fun e =>
    match e.splitOn ":" with
    | [i, a, b, st, fp] =>
      let t (x : String) : Option (Option (List Nat)) := if x == "nil" then some none else (tagsOf x).map some
      match i.toNat?, t a, t b, parseHex fp with
      | some i, some a, some b, some fp => some ⟨i, a, b, st == "1", fp⟩
      | _, _, _, _ => none
    | _ => none)

def splitSemi (res : String) : List (List String) := (res.splitOn " ; ").map words

def oobOf (s : String) : Option Nat := match s.toInt? with | some i => if i < 0 then none else some i.toNat | none => none

def fmtOut4 : Out4 → String
  | .drop => "drop"
  | .panicNoIf => "PANIC(no interface)"
  | .send r p port i l2 => s!"send {u32Hex p} {port} {i} {l2} mt={r.mt} yi={u32Hex r.yiaddr} tags={r.tags}"

def step4 (op res : String) : List String :=
  match words op, splitSemi res with
  | "dg4" :: bound :: oob :: chain :: _, [parsed, outW, invW] =>    -- optional: UDP source address and port (no model input)
    match bound.toNat?, parsed with
    | some bound, tag :: fields0 =>
      let fields := fields0.take 10
      let orig : List Nat := ((fields0.drop 10).headD "-" |> parseHex).getD []
      let input : Option (Option Req4) := if tag == "U" then some none else (parseReq4 fields).map some
      match input with
      | none => ["DIVERGE drift unparsed-view"]
      | some input =>
        let oob := oobOf oob
        let hs := chainOf script4 chain
        let n := hs.length
        let m := dispatch4 bound oob hs input
        let brs := (match input with
                    | none => ["br:dg4.unparsable"]
                    | some r => (if r.op != 1 then ["br:dg4.not-bootrequest"] else
                                 if r.mt != 1 && r.mt != 3 then ["br:dg4.other-type"] else ["br:dg4.request"])) ++
                   (match m with
                    | .drop => ["br:dg4.drop"]
                    | .panicNoIf => ["br:dg4.l2-no-interface"]
                    | .send r p _ i l2 =>
                      (if l2 then ["br:dg4.l2"] else if p == bcast4 then ["br:dg4.broadcast"] else
                       if (input.map (·.giaddr != 0#32)).getD false then ["br:dg4.relay"] else ["br:dg4.unicast"]) ++
                      (if i.isSome then ["br:dg4.pinned"] else ["br:dg4.unpinned"]) ++ (if r.mt == 6 then ["br:dg4.nak"] else []))
        match outW with
        | "PANIC" :: _ | "HANG" :: _ =>
          if m == .panicNoIf then brs   -- cannot be observed: the capture hook returns before that line
          else brs ++ ["DIVERGE dom model does not panic", s!"FAIL C01 HandleMsg4: {" ".intercalate outW}"]
        | _ =>
        match parseOut4 outW, parseInv ((invW.drop 1).headD "-") with
        | some out, some inv =>
          -- the capture hook returns before the nil-woob dereference: the model's panicNoIf shows as a send with no interface
          let mAdj : Out4 := m
          let same := match m, out with
            | .panicNoIf, .send _ _ _ none true => true
            | _, _ => mAdj == out
          let sentTags : Option (List Nat) := match out with | .send r _ _ _ _ => some r.tags | _ => none
          let ranChain := match input with | some r => (stub4 r).isSome | none => false
          let f11 := if C11.holds input out then [] else [s!"FAIL C11 {res}"]
          let f15 := if C15.holds bound oob input out then [] else [s!"FAIL C15 expected {(input.bind (fun r => match out with | .send resp _ _ _ _ => some (C15.expected bound oob r resp) | _ => none)).map (fun e => (u32Hex e.1, e.2.1, e.2.2.1, e.2.2.2))} got {fmtOut4 out}"]
          let f13 := if !ranChain then (if inv.isEmpty then [] else ["FAIL C13 handlers ran for a datagram that is not answered"])
                     else if C13.holdsLog n inv sentTags orig then [] else [s!"FAIL C13 chain={chain} log={invW} sent={sentTags}"]
          brs ++ (if same then [] else [s!"DIVERGE dom model={fmtOut4 m}"]) ++ f11 ++ f15 ++ f13
        | _, _ => brs ++ [s!"DIVERGE dom unparsed-result {" ".intercalate outW}", s!"FAIL C01 HandleMsg4: {" ".intercalate outW}"]
    | _, _ => ["DIVERGE drift unparsed-op"]
  | _, _ => ["DIVERGE drift unparsed-op"]

/-! DHCPv6 -/

def addr16 (s : String) : Option Addr := (parseHex s).bind addrOfBytes

/-- `L t link peer iid rid ... (M mt xid cid rapid tags | NOINNER)` -/
partial def parseTree : List String → List Layer6 → Option (List Layer6 × Option (Msg6 × List Nat))
  | "L" :: t :: link :: peer :: iid :: rid :: rest, acc =>
    match t.toNat?, addr16 link, addr16 peer, optBytes iid, optBytes rid with
    | some t, some l, some p, some i, some r => parseTree rest (acc ++ [⟨t, l, p, i, r⟩])
    | _, _, _, _, _ => none
  | ["NOINNER"], acc => some (acc, none)
  | ["M", mt, xid, cid, rapid, tags], acc =>
    match mt.toNat?, (parseHex xid).map bytesToNat, optBytes cid, tagsOf tags with
    | some mt, some xid, some cid, some tags => some (acc, some (⟨mt, xid, cid, rapid == "1"⟩, tags))
    | _, _, _, _ => none
  | _, _ => none

def fmtOut6 : Out6 → String
  | .drop => "drop"
  | .send ls r i => s!"send if={i} layers={ls.length} mt={r.mt} xid={r.xid} rapid={r.rapid} tags={r.tags}"

def step6 (op res : String) : List String :=
  match words op, splitSemi res with
  | ["dg6", bound, oob, chain, src, srcPort, _], [parsed, outW, invW] =>
    match bound.toNat?, addr16 src, parsed with
    | some bound, some src, tag :: fields0 =>
      let orig : List Nat := (fields0.headD "-" |> parseHex).getD []
      let fields := fields0.drop 1
      let input : Option (Option Pkt6) :=
        if tag == "U" then some none else (parseTree fields []).map (fun (ls, m) => some ⟨ls, m.map (·.1)⟩)
      match input with
      | none => ["DIVERGE drift unparsed-view"]
      | some input =>
        let oob := oobOf oob
        let hs := chainOf script6 chain
        let m := dispatch6 bound oob src hs input
        let brs := (match input with
                    | none => ["br:dg6.unparsable"]
                    | some d => (if d.layers.isEmpty then ["br:dg6.direct"] else [s!"br:dg6.relay-depth-{min d.layers.length 5}"]) ++
                                (match d.msg with
                                 | none => ["br:dg6.no-inner"]
                                 | some mm => if (replyType6 mm).isSome then ["br:dg6.supported-type"] else ["br:dg6.unsupported-type"])) ++
                   (match m with
                    | .drop => ["br:dg6.drop"]
                    | .send _ r i => (if i.isSome then ["br:dg6.pinned"] else ["br:dg6.unpinned"]) ++ (if r.mt == 2 then ["br:dg6.advertise"] else ["br:dg6.reply"]))
        match outW with
        | "PANIC" :: _ | "HANG" :: _ => brs ++ ["DIVERGE dom model does not panic", s!"FAIL C01 HandleMsg6: {" ".intercalate outW}"]
        | ["drop"] =>
          let inv := parseInv ((invW.drop 1).headD "-")
          let ranChain := match input with | some d => (d.msg.bind stub6).isSome | none => false
          let f13 := match inv with
            | some inv =>
              if !ranChain then (if inv.isEmpty then [] else ["FAIL C13 handlers ran for a datagram that is not answered"])
              else
                -- a drop after the chain ran: nil response, or the outer layer is not a Relay-Forward
                let relayDrop := match input with | some d => (match d.layers with | l :: _ => l.mt != 12 | [] => false) | none => false
                if relayDrop then [] else
                if C13.holdsLog hs.length inv none orig then [] else [s!"FAIL C13 chain={chain} log={invW} sent=none"]
            | none => ["DIVERGE drift unparsed-inv"]
          brs ++ (if m == .drop then [] else [s!"DIVERGE dom model={fmtOut6 m}"]) ++ f13
        | "send" :: ifi :: peer :: port :: tree =>
          match (if ifi == "-" then some none else ifi.toNat?.map some), parseTree tree [], parseInv ((invW.drop 1).headD "-") with
          | some ifi, some (ls, some (mm, tags)), some inv =>
            let out : Out6 := .send ls ⟨mm.mt, mm.xid, mm.cid, mm.rapid, tags⟩ ifi
            let f12 := (if C12.holds bound oob src input out then [] else [s!"FAIL C12 {res}"]) ++
                       (if addr16 peer == some src then [] else ["FAIL C12 reply not sent to the source address"]) ++
                       (if port == srcPort then [] else [s!"FAIL C12 reply sent to port {port}, the datagram came from port {srcPort}"])
            let f13 := if C13.holdsLog hs.length inv (some tags) orig then [] else [s!"FAIL C13 chain={chain} log={invW} sent={tags}"]
            -- C12, relayed: the Relay-Reply layers enclose THE SERVER'S ANSWER to the innermost message — the response the chain
            -- returned last, not an earlier stage of it (round 8: the envelope was built around the prepared reply before the chain ran)
            let last : Option (List Nat) := match inv.getLast? with | some a => a.outp | none => some []
            let f12r := if !ls.isEmpty && last != some tags then
                [s!"FAIL C12 relayed request: the Relay-Reply encloses a message with tags {tags}, the answer the chain returned last has {last}"] else []
            brs ++ (if m == out then [] else [s!"DIVERGE dom model={fmtOut6 m}"]) ++ f12 ++ f12r ++ f13
          | _, _, _ => brs ++ ["DIVERGE dom unparsed-result"]
        | _ => brs ++ [s!"DIVERGE dom unparsed-result {" ".intercalate outW}", s!"FAIL C01 HandleMsg6: {" ".intercalate outW}"]
    | _, _, _ => ["DIVERGE drift unparsed-op"]
  | _, _ => ["DIVERGE drift unparsed-op"]

end Drv.Dispatch
