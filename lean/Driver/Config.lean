import Driver.Util
import Driver.File
open CoreDhcp
namespace Drv.Config

/-- bytes as a string (Latin-1, one char per byte) -/
def hstr (s : String) : Option String := (parseHex s).map (fun bs => String.ofList (bs.map Char.ofNat))
def strHex (s : String) : String := if s.isEmpty then "-" else String.join (s.toList.map (fun c => natHex c.toNat 2))

def kv (pref : String) (t : String) : Option String := if t.startsWith pref then some (t.drop pref.length).toString else none

def parseAddrOracle : List String → Option AddrOracle
  | [s, shp, shp0, ip, atoi] =>
    match hstr s, kv "shp=" shp, kv "shp0=" shp0, kv "ip=" ip, kv "atoi=" atoi with
    | some s, some shp, some shp0, some ip, some atoi =>
      let shpV : Option (Option (String × String)) :=
        if shp == "!" then some none else
        match shp.splitOn "_" with
        | [h, p] => match hstr h, hstr p with | some h, some p => some (some (h, p)) | _, _ => none
        | _ => none
      let shp0V : Option (Option String) := if shp0 == "!" then some none else (hstr shp0).map some
      let ips : List (String × IPKind) := (ip.splitOn ",").filterMap (fun e =>
        match e.splitOn "=" with
        | [k, v] => (hstr k).map (fun k => (k, Drv.File.parseIPKind v))
        | _ => none)
      match shpV, shp0V with
      | some a, some b => some ⟨s, a, b, ips, if atoi == "-" then none else atoi.toInt?⟩
      | _, _ => none
    | _, _, _, _, _ => none
  | _ => none

/-- parse one `S<v> …` section -/
partial def parseSection (ws : List String) : Option (Option SectionView) :=
  match ws with
  | [_, "absent"] => some none
  | _ :: "present" :: rest =>
    -- plugins
    let rec items : Nat → List String → List ItemView → Option (List ItemView × List String)
      | 0, r, acc => some (acc.reverse, r)
      | n+1, "I" :: "nil" :: r, acc => items n r (.notMap :: acc)
      | n+1, "I" :: "1" :: name :: k :: r, acc =>
        match hstr name, k.toNat? with
        | some name, some k =>
          match (r.take k).mapM hstr with
          | some args => if (r.take k).length == k then items n (r.drop k) (.one name args :: acc) else none
          | none => none
        | _, _ => none
      | n+1, "I" :: m :: r, acc => match m.toNat? with | some m => items n r (.keys m :: acc) | none => none
      | _, _, _ => none
    let pl : Option (Option (List ItemView) × List String) := match rest with
      | "plugins" :: "nil" :: r => some (none, r)
      | "plugins" :: n :: r => (n.toNat?.bind (fun n => items n r [])).map (fun (l, r') => (some l, r'))
      | _ => none
    match pl with
    | none => none
    | some (plugins, r) =>
      match r with
      | "iface" :: i :: "listen" :: l :: r2 =>
        let iface : Option (Option String) := if i == "nil" then some none else (hstr i).map some
        -- the A … oracles follow: 6 tokens each
        let rec oracles : List String → List AddrOracle → Option (List AddrOracle)
          | [], acc => some acc.reverse
          | "A" :: a :: b :: c :: d :: e :: r, acc =>
            match parseAddrOracle [a, b, c, d, e] with
            | some o => oracles r (o :: acc)
            | none => none
          | _, _ => none
        match iface, oracles r2 [] with
        | some iface, some os =>
          let listen : Option (List String) := if l == "nil" then none else some ((if iface.isSome then [] else os).map (·.s))
          -- when `interface` and `listen` are both present the harness still lists the listen strings
          let listen := if l != "nil" && iface.isSome then some (os.map (·.s)) else listen
          -- the alias alone: the harness lists the strings cast.ToStringSliceE("%" + interface) yields
          let alias : List String := if l == "nil" && iface.isSome then os.map (·.s) else []
          some (some ⟨plugins, iface, listen, alias, os⟩)
        | _, _ => none
      | _ => none
  | _ => none

def parseIfs : List String → List Iface
  | "ifs" :: rest => rest.filterMap (fun t => match t.splitOn ":" with
      | [n, m, b] => (hstr n).map (fun n => ⟨n, m == "1", b == "1"⟩)
      | _ => none)
  | _ => []

def parseCfg (ws : List String) : Option (Option ServerConfig × List String) :=
  match ws with
  | "nil" :: r => some (none, r)
  | "addrs" :: a :: "plugins" :: p :: r =>
    let addrs : Option (List UDPAddr) := if a == "-" then some [] else
      (a.splitOn ",").mapM (fun e => match e.splitOn "/" with
        | [ip, port, zone] => match port.toInt?, hstr zone with
          | some port, some zone => some ⟨(if ip == "-" then IPKind.none else Drv.File.parseIPKind ip), port, zone⟩
          | _, _ => none
        | _ => none)
    let plugs : Option (List (String × List String)) := if p == "-" then some [] else
      (p.splitOn ",").mapM (fun e => match e.splitOn ":" with
        | n :: args => match hstr n, args.mapM hstr with | some n, some args => some (n, args) | _, _ => none
        | [] => none)
    match addrs, plugs with
    | some a, some p => some (some ⟨a, p⟩, r)
    | _, _ => none
  | _ => none

def fmtCfg : Option ServerConfig → String
  | none => "nil"
  | some c => s!"addrs {c.addrs.map (fun a => (repr a.ip, a.port, a.zone))} plugins {c.plugins}"

def step (op res : String) : List String :=
  match (res.splitOn " ; ") with
  | [view, outS] =>
    let outW := words outS
    if outW.headD "" == "PANIC" then ["br:cload.panic", "DIVERGE dom model does not panic", s!"FAIL C18 config.Load panicked: {outS}"] else
    if view == "unreadable" then
      "br:cload.unreadable" :: (if outS == "err" then [] else ["DIVERGE dom model=err", "FAIL C18 an unreadable document was accepted"])
    else
    match (view.splitOn " | ").map words with
    | [w6, w4, wifs] =>
      match parseSection w6, parseSection w4 with
      | some s6, some s4 =>
        let ifs := parseIfs wifs
        let m := loadConfig ifs s6 s4
        let obs : Option LoadOut :=
          if outS == "err" then some none else
          match outW with
          | "ok" :: "s6" :: r =>
            match parseCfg r with
            | some (c6, "s4" :: r2) => match parseCfg r2 with
              | some (c4, []) => some (some (c6, c4))
              | _ => none
            | _ => none
          | _ => none
        match obs with
        | none => ["DIVERGE dom unparsed-result"]
        | some obs =>
          let same := match m, obs with
            | none, none => true
            | some (a6, a4), some (b6, b4) => sameCfg a6 b6 && sameCfg a4 b4
            | _, _ => false
          let brs := [if m.isSome then "br:cload.ok" else "br:cload.err"] ++
            (if s6.isSome && s4.isSome then ["br:cload.dual"] else []) ++
            ((([s6, s4].filterMap id).map (fun (s : SectionView) =>
              (if s.plugins.isNone then ["br:cload.plugins-nil"] else if !(itemsOk (s.plugins.getD [])) then ["br:cload.bad-item"] else []) ++
              (if s.iface.isSome && s.listen.isSome then ["br:cload.iface+listen"] else if s.iface.isSome then ["br:cload.iface"] else
               if s.listen.isNone then ["br:cload.default-listen"] else ["br:cload.listen"]))).flatten) ++
            (match m with | some (c6, c4) => (if ((c6.map (·.addrs)).getD [] ++ (c4.map (·.addrs)).getD []).any (fun a => a.zone != "") then ["br:cload.zoned"] else []) | none => [])
          brs ++ (if same then [] else [s!"DIVERGE dom model={match m with | none => "err" | some (a, b) => s!"ok s6 {fmtCfg a} s4 {fmtCfg b}"}"]) ++
                 (if C18.holds ifs s6 s4 obs then [] else [s!"FAIL C18 Load returned {outS.take 300}"]) ++
                 -- both accept, but a plugin is handed other arguments than the file lists: whatever the plugin then sends is not
                 -- "the configured value" (C17) — round 8: environment variables expanded in the argument string
                 (match m, obs with
                  | some (a6, a4), some (b6, b4) =>
                    let pl (c : Option ServerConfig) : List (String × List String) := (c.map (·.plugins)).getD []
                    if pl a6 == pl b6 && pl a4 == pl b4 then [] else
                      [s!"FAIL C17 the plugins are configured with {pl b6} / {pl b4}, the file lists {pl a6} / {pl a4}"]
                  | _, _ => [])
      | _, _ => ["DIVERGE drift unparsed-view"]
    | _ => ["DIVERGE drift unparsed-view"]
  | _ => ["DIVERGE drift unparsed-op " ++ op.take 20]

end Drv.Config
