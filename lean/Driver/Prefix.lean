import Driver.Util
open CoreDhcp
namespace Drv.Prefix

structure St where
  s    : Option PState := none
  wf   : Bool := false
  held : List Held := []

/-- parse `k { iapd <iaid> <h> { hint e | hint p <ip> <len> } }` -/
partial def parseIAPDs : Nat → List String → Option (List IAPDReq × List String)
  | 0, rest => some ([], rest)
  | k+1, "iapd" :: iaid :: nh :: rest =>
    match (parseHex iaid).map bytesToNat, nh.toNat? with
    | some iaid, some nh =>
      let rec hints : Nat → List String → Option (List HintP × List String)
        | 0, r => some ([], r)
        | n+1, "hint" :: "e" :: r => (hints n r).map (fun (hs, r') => (HintP.empty :: hs, r'))
        | n+1, "hint" :: "p" :: ip :: len :: r =>
          match parseHex ip, len.toNat? with
          | some ipb, some len =>
            match addrOfBytes ipb with
            | some a =>
              let h : HintP := if len == 0 then .empty else if len ≤ 128 then .pfx a (isV4Mapped ipb) len else .nomask a (isV4Mapped ipb)
              (hints n r).map (fun (hs, r') => (h :: hs, r'))
            | none => none
          | _, _ => none
        | _, _ => none
      match hints nh rest with
      | some (hs, rest') => (parseIAPDs k rest').map (fun (qs, r) => (⟨iaid, hs⟩ :: qs, r))
      | none => none
    | _, _ => none
  | _, _ => none

/-- parse `reply k { iapd <iaid> <m> { <ip> <ones> <bits> <pref> <valid> } status <s> }`;
also returns whether the shape is what C08 states (128-bit masks, 0 < preferred ≤ valid, NoPrefixAvail iff empty) -/
partial def parseResp : Nat → List String → Option (List IAPDResp × Bool)
  | 0, [] => some ([], true)
  | 0, _ => none
  | k+1, "iapd" :: iaid :: m :: rest =>
    match (parseHex iaid).map bytesToNat, m.toNat? with
    | some iaid, some m =>
      let rec pf : Nat → List String → Option (List (Block × Int) × Bool × List String)
        | 0, r => some ([], true, r)
        | n+1, ip :: ones :: bits :: pref :: valid :: r =>
          match (parseHex ip).bind addrOfBytes, ones.toNat?, pref.toInt?, valid.toInt? with
          | some a, some ones, some p, some v =>
            (pf n r).map (fun (l, ok, r') => ((⟨a, ones⟩, v) :: l, ok && bits == "128" && decide (0 < p) && decide (p ≤ v), r'))
          | _, _, _, _ => none
        | _, _ => none
      match pf m rest with
      | some (l, ok, "status" :: st :: rest') =>
        let stOk := if m == 0 then st == "6" else st == "-"
        (parseResp k rest').map (fun (rs, ok') => (⟨iaid, l⟩ :: rs, ok && ok' && stOk))
      | _ => none
    | _, _ => none
  | _, _ => none

def blocksOf (rs : List IAPDResp) : List Block := rs.flatMap (fun r => r.pfxs.map (·.1))

def step (st : St) (op res : String) : St × List String :=
  match words op with
  | ["psetup", _, _] =>
    match words res with
    | [cidr, atoi, r] =>
      let pool : Option (Addr × Nat) × Bool :=     -- (pool, well-formed IPv6 pool)
        match (cidr.drop 5).toString.splitOn "/" with
        | [b, ones, "128"] =>
          match (parseHex b), ones.toNat? with
          | some bb, some o => if isV4Mapped bb then (none, false) else ((addrOfBytes bb).map (fun a => (a, o)), true)
          | _, _ => (none, false)
        | _ => (none, false)          -- parse error, or an IPv4 network
      let size : Option Int := if atoi.startsWith "atoi:err" then none else (atoi.drop 5).toString.toInt?
      match PState.setup pool.1 size with
      | .ok s =>
        let wf := pool.2 && decide s.alloc.pool.WF
        if s.alloc.pool.page - s.alloc.pool.poolLen > 24 then ({}, ["br:psetup.too-big-for-driver"]) else
        ({ s := some s, wf := wf, held := [] }, "br:psetup.ok" :: (if r == "ok" then [] else [s!"DIVERGE {if wf then "dom" else "drift"} model=ok"]))
      | .error _ => ({}, "br:psetup.err" :: (if r == "err" then [] else ["DIVERGE dom model=err", "FAIL C19 prefix: setup accepted arguments it cannot honour (pool is not an IPv6 network of a usable size)"]))
    | _ => ({}, ["DIVERGE drift unparsed-result"])
  | ["prace", _, _] =>
    -- copies of a new client's first SOLICIT in flight at once (harness/prefix.go): in every
    -- one-at-a-time order the first copy is delegated a prefix and every other copy, and the repeat
    -- afterwards, is answered with that same prefix (C09). The history ends here.
    if res == "ok" then (st, ["br:prefix.prace"])
    else (st, ["br:prefix.prace", "DIVERGE dom model=same-prefix-for-every-copy",
               s!"FAIL C09 copies of one SOLICIT in flight at once: {res}",
               s!"FAIL C16 copies of one SOLICIT in flight at once (no one-at-a-time order does that): {res}",
               s!"FAIL C08 copies of one SOLICIT in flight at once: {res}"])
  | ["page", _] => (st, ["br:prefix.time-passes"])     -- time is read off the timestamps of the lines that follow
  | "pmsg" :: client :: _depth :: k :: rest =>
    match st.s, k.toNat? with
    | some s, some k =>
      -- the last word says whether the reply survived the wire (harness/prefix.go, `wireRT6`)
      let (resW, frt) : List String × List String := match (words res).getLast? with
        | some "rt-ok" => ((words res).dropLast, [])
        | some "rt-differs" | some "rt-unparsable" =>
          ((words res).dropLast, [s!"FAIL C19 prefix: the reply does not serialise and parse back to the same IA_PDs: {res}"])
        | _ => (words res, [])
      match parseIAPDs k rest, resW with
      | some (iapds, []), t0 :: t1 :: out =>
        match t0.toInt?, t1.toInt? with
        | some t0, some t1 =>
          let cl : Option ClientKey := if client == "-" then none else parseHex client
          let dom := if st.wf then "dom" else "drift"
          let brs := (if iapds.any (fun q => q.hints.isEmpty) then ["br:pmsg.hintless"] else []) ++
                     (if iapds.any (fun q => q.hints.any (· == .empty)) then ["br:pmsg.hint-len0"] else []) ++
                     (if iapds.any (fun q => q.hints.any (fun h => match h with | .nomask _ _ => true | _ => false)) then ["br:pmsg.hint-len>128"] else []) ++
                     (if iapds.any (fun q => q.hints.length > 1) then ["br:pmsg.multi-hint"] else []) ++
                     (if iapds.length > 1 then ["br:pmsg.multi-iapd"] else []) ++
                     (if cl.isNone then ["br:pmsg.no-client-id"] else [])
          match out with
          | "PANIC" :: m => ({}, brs ++ [s!"DIVERGE {dom} model does not panic", s!"FAIL C01 prefix handler panicked: {" ".intercalate m}"])
          | "HANG" :: _ => ({}, brs ++ [s!"DIVERGE {dom} model does not block", "FAIL C01 prefix handler blocked forever (lock left held)"])
          | "drop" :: _ =>
            let mon := PMon.step s.alloc.pool st.held ⟨cl, iapds, t0, t1, none⟩
            let fails := if st.wf && !mon.2.c08 then ["FAIL C08 IA_PDs went unanswered"] else []
            (st, "br:pmsg.drop" :: brs ++ (if cl.isNone then [] else [s!"DIVERGE {dom} model replies"]) ++ fails)
          | "reply" :: n :: body =>
            match n.toNat?.bind (fun n => parseResp n body) with
            | none => (st, brs ++ [s!"DIVERGE {dom} unparsed-reply"])
            | some (rs, canon) =>
              let mon := PMon.step s.alloc.pool st.held ⟨cl, iapds, t0, t1, some rs⟩
              let fails := if st.wf then
                  (if mon.2.c08 && canon then [] else [s!"FAIL C08 reply {res}"]) ++
                  (if mon.2.c09 then [] else [s!"FAIL C09 reply {res} ; held={(heldOf st.held (cl.getD [])).map (fun h => (addrHex h.pfx.base, h.pfx.len))}"])
                else []
              let fails := fails ++ (if st.wf then frt else [])
              -- choices: the blocks in the reply that the client did not hold, in order
              let known := (s.leasesOf (cl.getD [])).map (·.pfx)
              let fresh := ((blocksOf rs).filter (fun b => !(known.contains b))).eraseDups
              let freshIdx := fresh.map (fun b => match s.alloc.toIndex b.base with | .ok i => some i | .error _ => some s.alloc.bm.length)
              let nh := (iapds.map (fun q => q.hints.length + 1)).foldl (· + ·) 0
              let cs := freshIdx ++ List.replicate nh none
              match s.handleMsg cl iapds t0 cs with
              | none => ({ st with held := mon.1 }, "br:pmsg.reply" :: brs ++ [s!"DIVERGE {dom} inadmissible-choice"] ++ fails)
              | some (s', mr, _) =>
                let slack := t1 - t0
                let same := match mr with
                  | none => false
                  | some ms =>
                    ms.length == rs.length &&
                    (ms.zip rs).all (fun (m, r) => m.iaid == r.iaid && m.pfxs.length == r.pfxs.length &&
                      (m.pfxs.zip r.pfxs).all (fun (a, b) => a.1 == b.1 && decide (a.2 - slack ≤ b.2) && decide (b.2 ≤ a.2 + slack)))
                let br2 := match mr with
                  | some ms => (if ms.any (fun m => m.pfxs.isEmpty) then ["br:pmsg.noprefixavail"] else []) ++
                               (if !fresh.isEmpty then ["br:pmsg.new-lease"] else []) ++
                               (if (blocksOf ms).any (fun b => known.contains b) then ["br:pmsg.known-lease"] else [])
                  | none => []
                ({ st with s := some s', held := mon.1 },
                 "br:pmsg.reply" :: brs ++ br2 ++ (if same then [] else [s!"DIVERGE {dom} model={toString (mr.map (fun ms => ms.map (fun m => (m.iaid, m.pfxs.map (fun p => (addrHex p.1.base, p.1.len))))))}"]) ++ fails)
          | _ => (st, brs ++ [s!"DIVERGE {dom} unparsed-result"])
        | _, _ => (st, ["DIVERGE drift unparsed-result"])
      | _, _ => (st, ["DIVERGE drift unparsed-op"])
    | none, _ => (st, ["br:skipped.no-setup"])
    | _, _ => (st, ["DIVERGE drift unparsed-op"])
  | _ => (st, ["DIVERGE drift unparsed-op"])

end Drv.Prefix
