import CoreDhcp
open CoreDhcp
namespace Drv

def hexVal (c : Char) : Option Nat :=
  if '0' ≤ c ∧ c ≤ '9' then some (c.toNat - '0'.toNat)
  else if 'a' ≤ c ∧ c ≤ 'f' then some (c.toNat - 'a'.toNat + 10)
  else if 'A' ≤ c ∧ c ≤ 'F' then some (c.toNat - 'A'.toNat + 10)
  else none

/-- "-" is the empty byte string -/
def parseHex (s : String) : Option (List Nat) :=
  if s == "-" then some [] else
  let rec go : List Char → List Nat → Option (List Nat)
    | [], acc => some acc.reverse
    | [_], _ => none
    | a :: b :: rest, acc =>
      match hexVal a, hexVal b with
      | some x, some y => go rest ((x * 16 + y) :: acc)
      | _, _ => none
  go s.toList []

def bytesToNat (bs : List Nat) : Nat := bs.foldl (fun a b => a * 256 + b) 0

def addrOfBytes (bs : List Nat) : Option Addr :=
  if bs.length == 16 then
    some ⟨BitVec.ofNat 64 (bytesToNat (bs.take 8)), BitVec.ofNat 64 (bytesToNat (bs.drop 8))⟩
  else none

def isV4Mapped (bs : List Nat) : Bool :=
  bs.length == 16 && (bs.take 10).all (· == 0) && bs.getD 10 0 == 255 && bs.getD 11 0 == 255

/-- `ip.To4()` as a 32-bit number -/
def to4 (bs : List Nat) : Option (BitVec 32) :=
  if bs.length == 4 then some (BitVec.ofNat 32 (bytesToNat bs))
  else if isV4Mapped bs then some (BitVec.ofNat 32 (bytesToNat (bs.drop 12)))
  else none

/-- a 16-byte address that is not IPv4-mapped -/
def addr6 (bs : List Nat) : Option Addr :=
  if isV4Mapped bs then none else addrOfBytes bs

def hexDigit (n : Nat) : Char := if n < 10 then Char.ofNat (48 + n) else Char.ofNat (87 + n)

def natHex (n : Nat) (digits : Nat) : String :=
  String.ofList ((List.range digits).reverse.map (fun i => hexDigit ((n / 16^i) % 16)))

def addrHex (a : Addr) : String := natHex a.hi.toNat 16 ++ natHex a.lo.toNat 16
def u32Hex (a : BitVec 32) : String := natHex a.toNat 8

def splitArrow (line : String) : String × String :=
  match line.splitOn " => " with
  | [a, b] => (a, b)
  | a :: rest => (a, " => ".intercalate rest)
  | [] => ("", "")

def words (s : String) : List String := (s.splitOn " ").filter (· ≠ "")

end Drv
