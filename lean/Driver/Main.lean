import Driver.IPCalc
import Driver.Alloc
import Driver.Range
import Driver.Prefix
import Driver.Dispatch
import Driver.Plugins
import Driver.File
import Driver.Config
import Driver.Chain
import Driver.Plug
import Driver.Sys
import Driver.Serve
import Driver.L2Frame
import Driver.Bits
import Std.Data.HashMap
open Drv

/-- per-engine state machine over trace lines -/
structure Engine (σ : Type) where
  init : σ
  step : σ → String → String → σ × List String

/-- messages that make a step unacceptable inside a concurrent batch -/
def bad (msgs : List String) : Bool := msgs.any (fun m => m.startsWith "DIVERGE dom" || m.startsWith "FAIL")

/-- Search a one-at-a-time order of the batch's operations under which the engine accepts every
outcome (depth-first, pruned at the first unacceptable step). Returns the state and the messages
(with their line numbers) of the accepted order. -/
partial def linearise {σ} (e : Engine σ) (st : σ) (todo : List (Nat × String × String))
    (acc : List (Nat × List String)) (fuel : IO.Ref Nat) : IO (Option (σ × List (Nat × List String))) := do
  match todo with
  | [] => return some (st, acc.reverse)
  | _ =>
    for i in List.range todo.length do
      let f ← fuel.get
      if f == 0 then return none
      fuel.set (f - 1)
      match todo[i]? with
      | none => pure ()
      | some (n, op, res) =>
        let (st', msgs) := e.step st op res
        if !(bad msgs) then
          let rest := todo.take i ++ todo.drop (i + 1)
          match ← linearise e st' rest ((n, msgs) :: acc) fuel with
          | some r => return some r
          | none => pure ()
    return none

partial def readBatch (h : IO.FS.Stream) (k : Nat) (n : Nat) (acc : List (Nat × String × String)) :
    IO (List (Nat × String × String) × Nat) := do
  if k == 0 then return (acc.reverse, n)
  let line ← h.getLine
  if line.isEmpty then return (acc.reverse, n)
  let line := String.ofList (line.toList.reverse.dropWhile (fun c => c == '\n' || c == '\r')).reverse
  if line.startsWith "#" || line.isEmpty then readBatch h k (n+1) acc
  else
    let (op, res) := splitArrow line
    readBatch h (k-1) (n+1) ((n, op, res) :: acc)

partial def loop {σ} (e : Engine σ) (h : IO.FS.Stream) (st : σ) (n : Nat)
    (br : Std.HashMap String Nat) (ops div drift fails : Nat) : IO Unit := do
  let line ← h.getLine
  if line.isEmpty then
    let brs := br.toList.toArray.qsort (fun a b => a.1 < b.1)
    for (k, v) in brs do IO.println s!"BRANCH {k} {v}"
    IO.println s!"SUMMARY ops={ops} diverged={div} drift={drift} fails={fails}"
    return ()
  let line := String.ofList (line.toList.reverse.dropWhile (fun c => c == '\n' || c == '\r')).reverse
  if line.startsWith "#" || line.isEmpty then
    loop e h st (n+1) br ops div drift fails
  else if line.startsWith "batch " then
    -- a concurrent batch: the next k lines are outcomes of operations issued together
    let k := ((line.drop 6).toString.toNat?).getD 0
    let (items, n') ← readBatch h k (n+1) []
    let fuel ← IO.mkRef 200000
    let found ← linearise e st items [] fuel
    let (st', results, extra) ← match found with
      | some (s', rs) => pure (s', rs, ([] : List String))
      | none =>
        -- no order works: report, and continue along the recorded order
        let mut s := st
        let mut rs : List (Nat × List String) := []
        for (ln, op, res) in items do
          let (s2, msgs) := e.step s op res
          s := s2
          rs := (ln, msgs) :: rs
        pure (s, rs.reverse, [s!"{n} FAIL C16 no one-at-a-time order of this concurrent batch of {k} operations explains their outcomes"])
    let mut br := br
    let mut div := div
    let mut drift := drift
    let mut fails := fails
    for x in extra do
      IO.println x
      fails := fails + 1
    br := br.insert "br:batch" ((br.getD "br:batch" 0) + 1)
    for (ln, msgs) in results do
      for m in msgs do
        if m.startsWith "br:" then
          br := br.insert m ((br.getD m 0) + 1)
        else
          IO.println s!"{ln} {m}"
          if m.startsWith "DIVERGE dom" then div := div + 1
          else if m.startsWith "DIVERGE" then drift := drift + 1
          else if m.startsWith "FAIL" then fails := fails + 1
    loop e h st' n' br (ops + items.length) div drift fails
  else
    let (op, res) := splitArrow line
    let (st', msgs) := e.step st op res
    let mut br := br
    let mut div := div
    let mut drift := drift
    let mut fails := fails
    for m in msgs do
      if m.startsWith "br:" then
        br := br.insert m ((br.getD m 0) + 1)
      else
        IO.println s!"{n} {m}"
        if m.startsWith "DIVERGE dom" then div := div + 1
        else if m.startsWith "DIVERGE" then drift := drift + 1
        else if m.startsWith "FAIL" then fails := fails + 1
    loop e h st' (n+1) br (ops+1) div drift fails

def run {σ} (e : Engine σ) : IO Unit := do
  loop e (← IO.getStdin) e.init 1 {} 0 0 0 0

def main (args : List String) : IO UInt32 := do
  match args with
  | ["ipcalc"] => run ⟨(), fun _ op res => ((), IPCalc.step op res)⟩; return 0
  | ["alloc6"] | ["alloc4"] | ["alloc"] => run ⟨Alloc.St.none, Alloc.step⟩; return 0
  | ["range"] => run ⟨({} : Range.St), Range.step⟩; return 0
  | ["prefix"] => run ⟨({} : Prefix.St), Prefix.step⟩; return 0
  | ["dispatch4"] => run ⟨(), fun _ op res => ((), Dispatch.step4 op res)⟩; return 0
  | ["dispatch6"] => run ⟨(), fun _ op res => ((), Dispatch.step6 op res)⟩; return 0
  | ["plugins"] => run ⟨(), fun _ op res => ((), Plugins.step op res)⟩; return 0
  | ["file"] => run ⟨({} : File.St), File.step⟩; return 0
  | ["filec"] => run ⟨({} : File.St), File.step⟩; return 0
  | ["config"] => run ⟨(), fun _ op res => ((), Config.step op res)⟩; return 0
  | ["chain"] => run ⟨(), fun _ op res => ((), Chain.step op res)⟩; return 0
  | ["plug"] => run ⟨({} : Plug.St), Plug.step⟩; return 0
  | ["sys"] => run ⟨({} : SysE.St), SysE.step⟩; return 0
  | ["serve"] => run ⟨(), fun _ op res => ((), Serve.step op res)⟩; return 0
  | ["l2frame"] => run ⟨(), fun _ op res => ((), L2Frame.step op res)⟩; return 0
  | ["bits"] => run ⟨({} : BitsE.St), BitsE.step⟩; return 0
  | _ => IO.eprintln "usage: drv <engine> < trace"; return 2
