import Driver.IPCalc
import Driver.Alloc
import Driver.Range
import Driver.Prefix
import Driver.Dispatch
import Driver.Plugins
import Driver.File
import Std.Data.HashMap
open Drv

/-- per-engine state machine over trace lines -/
structure Engine (σ : Type) where
  init : σ
  step : σ → String → String → σ × List String

partial def loop {σ} (e : Engine σ) (h : IO.FS.Stream) (st : σ) (n : Nat)
    (br : Std.HashMap String Nat) (ops div drift fails : Nat) : IO Unit := do
  let line ← h.getLine
  if line.isEmpty then
    let brs := br.toList.toArray.qsort (fun a b => a.1 < b.1)
    for (k, v) in brs do IO.println s!"BRANCH {k} {v}"
    IO.println s!"SUMMARY ops={ops} diverged={div} drift={drift} fails={fails}"
    return ()
  let line := String.ofList (line.toList.reverse.dropWhile (fun c => c == '\n' || c == '\r')).reverse
  if line.startsWith "#" || line.isEmpty then
    loop e h st (n+1) br ops div drift fails
  else
    let (op, res) := splitArrow line
    let (st', msgs) := e.step st op res
    let mut br := br
    let mut div := div
    let mut drift := drift
    let mut fails := fails
    for m in msgs do
      if m.startsWith "br:" then
        br := br.insert m ((br.getD m 0) + 1)
      else
        IO.println s!"{n} {m}"
        if m.startsWith "DIVERGE dom" then div := div + 1
        else if m.startsWith "DIVERGE" then drift := drift + 1
        else if m.startsWith "FAIL" then fails := fails + 1
    loop e h st' (n+1) br (ops+1) div drift fails

def run {σ} (e : Engine σ) : IO Unit := do
  loop e (← IO.getStdin) e.init 1 {} 0 0 0 0

def main (args : List String) : IO UInt32 := do
  match args with
  | ["ipcalc"] => run ⟨(), fun _ op res => ((), IPCalc.step op res)⟩; return 0
  | ["alloc6"] | ["alloc4"] | ["alloc"] => run ⟨Alloc.St.none, Alloc.step⟩; return 0
  | ["range"] => run ⟨({} : Range.St), Range.step⟩; return 0
  | ["prefix"] => run ⟨({} : Prefix.St), Prefix.step⟩; return 0
  | ["dispatch4"] => run ⟨(), fun _ op res => ((), Dispatch.step4 op res)⟩; return 0
  | ["dispatch6"] => run ⟨(), fun _ op res => ((), Dispatch.step6 op res)⟩; return 0
  | ["plugins"] => run ⟨(), fun _ op res => ((), Plugins.step op res)⟩; return 0
  | ["file"] => run ⟨({} : File.St), File.step⟩; return 0
  | _ => IO.eprintln "usage: drv <engine> < trace"; return 2
