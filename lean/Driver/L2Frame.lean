import Driver.Util
open CoreDhcp
namespace Drv.L2Frame

/-- an IPv4 address of the trace: four bytes; a nil address is 0.0.0.0 on the wire -/
def ip4 (s : String) : Option (List Nat) :=
  match parseHex s with
  | some [] => some [0, 0, 0, 0]
  | some b => if b.length == 4 then some b else none
  | none => none

def hexB (b : List Nat) : String := if b.isEmpty then "-" else String.join (b.map (fun x => natHex x 2))

/-- Engine `l2frame` (harness/l2frame.go): the real `sendEthernet` on the loopback interface, the frame read back from a
packet socket. The model is `Eth.sendEthernet` (Model/Ethernet.lean); C15's link-level clause is `Eth.frameOK`, evaluated
on the observed frame. -/
def step (op res : String) : List String :=
  if res == "unparsable" then ["br:l2.unparsable"] else
  if res.startsWith "skip" then ["br:l2.skip", s!"DIVERGE drift l2frame engine could not run: {res}"] else
  match (res.splitOn " ; ").map words with
  | [[_first], out] =>
    -- `l2after` (harness/l2frame.go): after a link-level send that failed, a plain DISCOVER (no relay, no ciaddr, broadcast
    -- flag clear) is still answered by a link-level unicast to the offered address on the client port (C15's last clause;
    -- `C15.expected` of Spec/Dispatch.lean for such a request): a listener or the process may not remember the failure
    if out == ["00000000", "68", "1"] then ["br:l2.after-failed-send"]
    else ["br:l2.after-failed-send", "DIVERGE dom model=send 00000000 68 l2",
          s!"FAIL C15 after a failed link-level send, the reply to a plain DISCOVER goes to {" ".intercalate out} (address port link-level), not to the offered address on port 68 at link level"]
  | [["args", ifi, ifmac, ch, si, yi, wire], out] =>
    match ifi.toNat?, parseHex ifmac, parseHex ch, ip4 si, ip4 yi, parseHex wire with
    | some ifi, some ifmac, some ch, some si, some yi, some wire =>
      -- what goes out is the reply as gopacket's DHCPv4 layer re-encodes it (no BOOTP padding): `Eth.dhcpLayerBytes`, which this
      -- engine compares with the real bytes on every frame
      let a : Eth.Args := ⟨ifi, ifmac, ch, si, yi, Eth.dhcpLayerBytes wire⟩
      let m := Eth.sendEthernet a
      let brs := [if ch.length == 6 then "br:l2.chaddr6" else "br:l2.chaddr-other", if yi == [0,0,0,0] then "br:l2.yiaddr-zero" else "br:l2.yiaddr-set"]
      match out with
      | ["frame", dm, sm, et, ver, ttl, df, proto, sip, dip, sp, dp, pl] =>
        match parseHex dm, parseHex sm, (parseHex et).map bytesToNat, ver.toNat?, ttl.toNat?, proto.toNat?, parseHex sip, parseHex dip, sp.toNat?, dp.toNat?, parseHex pl with
        | some dm, some sm, some et, some ver, some ttl, some proto, some sip, some dip, some sp, some dp, some pl =>
          -- the sniffer is bound to the interface named in the arguments: a frame it sees left on that interface
          let f : Eth.Frame := ⟨dm, sm, et, ver, ttl, df == "1", proto, sip, dip, sp, dp, pl, ifi⟩
          brs ++ ["br:l2.frame"] ++
            (if m == some f then [] else [s!"DIVERGE dom model={match m with | some x => s!"frame to {hexB x.dstMac} / {hexB x.dstIp}:{x.dstPort} from {hexB x.srcMac} / {hexB x.srcIp}:{x.srcPort} ttl {x.ttl}" | none => "no frame"}"]) ++
            (if Eth.frameOK a f then [] else
              [s!"FAIL C15 link-level unicast: the frame goes to {hexB dm} / {hexB dip} port {dp} (from port {sp}, protocol {proto}, ethertype {et}, payload {if pl == a.wire then "= the reply" else "NOT the reply"}); the client's hardware address is {hexB ch}, the offered address {hexB yi}"])
        | _, _, _, _, _, _, _, _, _, _, _ => ["DIVERGE drift unparsed-result"]
      | "none" :: _ | ["lost"] =>
        brs ++ ["br:l2.no-frame"] ++
          (match m with
           | none => []
           | some _ => ["DIVERGE dom model=frame",
               s!"FAIL C15 link-level unicast: no frame was sent for a reply to a six-byte hardware address {hexB ch} ({" ".intercalate out})"])
      | "PANIC" :: _ | "HANG" :: _ =>
        brs ++ ["DIVERGE dom model does not panic", s!"FAIL C01 sendEthernet: {" ".intercalate out}", s!"FAIL C15 sendEthernet: {" ".intercalate out}"]
      | _ => ["DIVERGE drift unparsed-result"]
    | _, _, _, _, _, _ => ["DIVERGE drift unparsed-args"]
  | _ => ["DIVERGE drift unparsed-result"]

end Drv.L2Frame
