import Driver.Util
open CoreDhcp
namespace Drv.File

structure St where
  s   : FState := {}
  mon : FMon := {}

def parseIPKind (s : String) : IPKind :=
  if s.startsWith "4." then
    match parseHex (s.drop 2).toString with
    | some b => if b.length == 4 then .v4 (BitVec.ofNat 32 (bytesToNat b)) else .none
    | none => .none
  else if s.startsWith "6." then
    match (parseHex (s.drop 2).toString).bind addrOfBytes with
    | some a => .v6 a
    | none => .none
  else .none

def parseLine (t : String) : Option FLine :=
  if t == "E" then some .empty
  else if t == "H" then some .comment
  else if t.startsWith "T2:" then
    match t.splitOn ":" with
    | [_, mac, ip] =>
      let m : Option (List Nat) := if mac.startsWith "x" then parseHex (mac.drop 1).toString else none
      some (.fields 2 m (parseIPKind ip))
    | _ => none
  else if t.startsWith "T" then (t.drop 1).toString.toNat?.map (fun n => .fields n none .none)
  else none

def parseLines (s : String) : Option (List FLine) := (s.splitOn ",").mapM parseLine

def stepBasic (st : St) (op res : String) : St × List String :=
  match words op, (res.splitOn " ; ").map words with
  | ["freset"], _ => ({}, ["br:file.fresh-process"])
  | "fsetup" :: proto :: _ :: _ :: _, [[orc], [r]] =>     -- an optional fifth word: how the file is named to the plugin (a symbolic link, ./ and //): no model input
    match parseLines orc with
    | none => (st, ["DIVERGE drift unparsed-oracle"])
    | some lines =>
      let v6 := proto == "6"
      let (s', ok) := st.s.load v6 lines
      let mon := st.mon.step (.setup v6 lines (r == "ok"))
      let br := if ok then s!"br:fsetup{proto}.ok" else s!"br:fsetup{proto}.rejected"
      let brd := (if lines.any (fun l => match l with | .comment => true | _ => false) then ["br:file.comment-line"] else []) ++
                 (if lines.any (fun l => match l with | .empty => true | _ => false) then ["br:file.empty-line"] else []) ++
                 (if (lines.filterMap (fun l => match l with | .fields 2 (some m) _ => some m | _ => none)).eraseDups.length <
                     (lines.filterMap (fun l => match l with | .fields 2 (some m) _ => some m | _ => none)).length then ["br:file.duplicate-mac"] else [])
      ({ s := s', mon := mon.1 },
       br :: brd ++ (if (r == "ok") == ok then [] else [s!"DIVERGE dom model={if ok then "ok" else "err"}"]) ++
       (if mon.2 then [] else [s!"FAIL C10 setup {proto}: file {if fileOk v6 lines then "is well-formed but was rejected" else "has a malformed line but was accepted"}"]))
  | [fw, proto, _], [[orc], [seen]] =>      -- fwrite: rewritten in place; fmove: written under another name and moved into place
    if fw != "fwrite" && fw != "fmove" then (st, ["DIVERGE drift unparsed-op"]) else
    match parseLines orc with
    | none => (st, ["DIVERGE drift unparsed-oracle"])
    | some lines =>
      let v6 := proto == "6"
      let (s', ok) := st.s.load v6 lines
      let mon := st.mon.step (.refresh v6 lines)
      -- "eventually": a well-formed update must have been picked up within the harness's wait
      let late := ok && seen != "replaced"
      let early := !ok && seen == "replaced"
      ({ s := s', mon := mon.1 },
       (if ok then s!"br:{fw}.good" else s!"br:{fw}.bad") ::
       (if late then ["DIVERGE dom model=replaced", s!"FAIL C10 a well-formed update of the lease file ({if fw == "fmove" then "a new file moved into its place" else "rewritten in place"}) was not picked up"] else []) ++
       (if early then ["DIVERGE dom model=unchanged", "FAIL C10 a malformed update replaced the mapping"] else []))
  | ["fq4", mac], [r] =>
    match parseHex mac with
    | none => (st, ["DIVERGE drift unparsed-op"])
    | some m =>
      let mr := st.s.query4 m
      let obs : Option FReply4 := match r with
        | ["pass"] => some .pass
        | ["yiaddr", a, "stop"] => ((parseHex a).bind (fun b => if b.length == 4 then some (FReply4.yiaddr (BitVec.ofNat 32 (bytesToNat b))) else none))
        | _ => none
      match obs with
      | none => (st, ["DIVERGE dom unexpected-result", s!"FAIL C10 DHCPv4 query answered {" ".intercalate r}"] ++
          (if r.head? == some "PANIC" || r == ["yiaddr", "-", "stop"] then
            [s!"FAIL C19 file: the DHCPv4 reply cannot be put on the wire (its yiaddr is not an IPv4 address): {" ".intercalate r}",
             s!"FAIL C01 file: the DHCPv4 reply cannot be put on the wire: {" ".intercalate r}"] else []))
      | some o =>
        let mon := st.mon.step (.q4 m o)
        (st, (if mr == .pass then "br:fq4.pass" else "br:fq4.listed") ::
             (if mr == o then [] else [s!"DIVERGE dom model={repr mr}"]) ++
             (if mon.2 then [] else [s!"FAIL C10 DHCPv4 client {mac} served {" ".intercalate r} but the file in force says {repr (listedFor m (st.mon.f4.getD []))}"]))
  | "fq6" :: mac :: hasIANA :: _, [["xm", xm], r] =>
    -- the hardware address is the library's answer (`dhcpv6.ExtractMAC` on the whole datagram): the
    -- relay's Client Link-Layer Address option, the EUI-64 peer address, or the one in the client id
    let _ := mac
    let m : Option (List Nat) := if xm == "-" then none else parseHex xm
    let h := hasIANA == "1"
    let mr := st.s.query6 h m
    let obs : Option FReply6 := match r with
      | ["pass"] => some .pass
      | ["iana", a, "iaid-ok", "3600", "3600"] => ((parseHex a).bind addrOfBytes).map FReply6.iana
      | _ => none
    match obs with
    | none => (st, ["DIVERGE dom unexpected-result", s!"FAIL C10 DHCPv6 query answered {" ".intercalate r}"])
    | some o =>
      let mon := st.mon.step (.q6 h m o)
      (st, (if !h then "br:fq6.no-iana" else if m.isNone then "br:fq6.no-mac" else if mr == .pass then "br:fq6.pass" else "br:fq6.listed") ::
           (if mac != "-" && m != parseHex mac then ["br:fq6.relay-reports-another-mac"] else []) ++
           (if mr == o then [] else [s!"DIVERGE dom model={repr mr}"]) ++
           (if mon.2 then [] else [s!"FAIL C10 DHCPv6 client {mac} served {" ".intercalate r} but the file in force says {repr (m.bind (fun mm => listedFor mm (st.mon.f6.getD [])))}"]))
  | _, _ => (st, ["DIVERGE drift unparsed-op"])

/-- `fhammer`: lookups racing with refreshes that alternate between two well-formed files A and B
(see harness/filec.go). Every answer seen must be accepted — by the model and by the C10 monitor —
in the state where A is in force or in the state where B is; the lookup made after everything went
quiet must be accepted in the state where B is. -/
def step (st : St) (op res : String) : St × List String :=
  match words op with
  | "fpair" :: proto :: mac :: _ =>
    -- pairs of rewrites in quick succession of a long file (harness/filec.go): after each pair the
    -- served table must be the LAST file written — an update may not be lost
    match res.splitOn " ; " with
    | [oa, ob, aft, fin, lastW] =>
      match parseLines oa.trimAscii.toString, parseLines ob.trimAscii.toString with
      | some la, some lb =>
        let v6 := proto == "6"
        let lastIsB := lastW.trimAscii.toString == "last=B"
        let ll := if lastIsB then lb else la
        let (sL, okL) := st.s.load v6 ll
        let stL : St := { s := sL, mon := (st.mon.step (.refresh v6 ll)).1 }
        if !okL then (st, ["DIVERGE drift fpair with a malformed file"]) else
        let qop := if v6 then s!"fq6 {mac} 1 0" else s!"fq4 {mac}"
        let r := (aft.trimAscii.toString.drop 6).toString
        let accepted := !((stepBasic stL qop (if v6 then s!"xm {mac} ; {r}" else r)).2.any (fun m => m.startsWith "DIVERGE" || m.startsWith "FAIL"))
        let fin := fin.trimAscii.toString
        let msgs :=
          (if fin == "settled" then [] else
            ["DIVERGE dom model=last-file-in-force",
             s!"FAIL C10 two rewrites of the lease file in quick succession: the second was never picked up ({fin})",
             s!"FAIL C16 two refreshes in quick succession: the table stays on the older file ({fin}); no one-at-a-time order of the refreshes does that"]) ++
          (if accepted || fin != "settled" then [] else
            ["DIVERGE dom model=answer-of-the-last-file", s!"FAIL C10 after the rewrites the client is served [{r}], not what the file in force lists"])
        (stL, "br:fpair" :: msgs)
      | _, _ => (st, ["DIVERGE drift unparsed-oracle"])
    | _ => (st, ["DIVERGE drift unparsed-result"])
  | "fhammer" :: proto :: mac :: _ =>
    match res.splitOn " ; " with
    | [oa, ob, obs, fin] =>
      match parseLines oa.trimAscii.toString, parseLines ob.trimAscii.toString with
      | some la, some lb =>
        let v6 := proto == "6"
        let (sA, okA) := st.s.load v6 la
        let stA : St := { s := sA, mon := (st.mon.step (.refresh v6 la)).1 }
        let (sB, okB) := stA.s.load v6 lb
        let stB : St := { s := sB, mon := (stA.mon.step (.refresh v6 lb)).1 }
        if !(okA && okB) then (st, ["DIVERGE drift fhammer with a malformed file"])
        else
          let qop := if v6 then s!"fq6 {mac} 1 0" else s!"fq4 {mac}"
          let accepts (c : St) (r : String) : Bool :=
            !((stepBasic c qop (if v6 then s!"xm {mac} ; {r}" else r)).2.any (fun m => m.startsWith "DIVERGE" || m.startsWith "FAIL"))
          let answers := (obs.splitOn " | ").map (fun x => x.trimAscii.toString) |>.filter (· != "-")
          let during := answers.filter (fun a => !a.startsWith "after:")
          let after := (answers.filter (fun a => a.startsWith "after:")).map (fun a => (a.drop 6).toString)
          let badDuring := during.filter (fun r => !(accepts stA r || accepts stB r))
          let badAfter := after.filter (fun r => !accepts stB r)
          let fin := fin.trimAscii.toString
          let msgs :=
            (if fin == "HANG" then
              ["DIVERGE dom model=all-lookups-return",
               "FAIL C01 a lookup in the static lease file, concurrent with refreshes of that file, never returned",
               "FAIL C16 a lookup in the static lease file, concurrent with refreshes of that file, never returned (no serial order blocks)",
               "FAIL C10 the static lease plugin stopped answering while its file was being refreshed"]
             else if fin != "settled" then
              ["DIVERGE dom model=replaced", "FAIL C10 a well-formed update of the lease file was not picked up",
               "FAIL C16 a well-formed update of the lease file was not picked up under concurrent lookups"]
             else []) ++
            (badDuring.map (fun r => s!"FAIL C16 a lookup concurrent with refreshes was answered [{r}]: neither the old nor the new file says so")) ++
            (badDuring.map (fun r => s!"FAIL C10 a lookup concurrent with refreshes was answered [{r}]: neither the old nor the new file says so")) ++
            (badAfter.map (fun r => s!"FAIL C10 after the refreshes the client is served [{r}], not what the file in force lists")) ++
            (badAfter.map (fun r => s!"FAIL C16 after the refreshes the client is served [{r}], not what the file in force lists")) ++
            (if badDuring.isEmpty && badAfter.isEmpty then [] else ["DIVERGE dom model=answer-of-A-or-B"])
          let both := during.any (accepts stA) && during.any (fun r => accepts stB r && !accepts stA r)
          (stB, s!"br:fhammer{proto}" :: (if both then ["br:fhammer.old-and-new-seen"] else []) ++ msgs)
      | _, _ => (st, ["DIVERGE drift unparsed-oracle"])
    | _ => (st, ["DIVERGE drift unparsed-result"])
  | _ => stepBasic st op res

end Drv.File
