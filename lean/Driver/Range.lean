import Driver.Util
open CoreDhcp
namespace Drv.Range

structure St where
  cfg   : Option RCfg := none
  s     : RState := default
  bound : List (Mac × BitVec 32) := []

def ip4 (s : String) : Option (BitVec 32) :=
  (parseHex s).bind (fun b => if b.length == 4 then to4 b else none)

def parseRows : List String → List (BitVec 32 × Int)
  | [] => []
  | w :: ws =>
    match w.splitOn ":" with
    | [ip, e] => match ip4 ip, e.toInt? with
      | some ip, some e => (ip, e) :: parseRows ws
      | _, _ => parseRows ws
    | _ => parseRows ws

def sameRows (a : List Row) (b : List (BitVec 32 × Int)) : Bool :=
  a.length == b.length && a.all (fun r => b.any (fun q => q.1 == r.ip && q.2 == r.expiry))

def fmtReply : RReply → String
  | .reply ip l => s!"reply {u32Hex ip} {l}"
  | .drop => "drop"
  | .panic => "PANIC"

/-- result tokens after "t0 t1": (reply, rows-known, rows) -/
def parseReqRes (ws : List String) : Option (RReply × Option (List (BitVec 32 × Int))) :=
  let rowsOf (r : List String) : Option (List (BitVec 32 × Int)) :=
    match r with
    | "rows" :: "?" :: _ => none
    | "rows" :: _ :: rest => some (parseRows (rest.takeWhile (· != "key")))
    | _ => none
  match ws with
  | "reply" :: ip :: l :: rest =>
    match ip4 ip, l.toNat? with
    | some ip, some l => some (.reply ip l, rowsOf rest)
    | _, _ => none
  | "drop" :: rest => some (.drop, rowsOf rest)
  | "PANIC" :: _ => some (.panic, none)
  | _ => none

def step (st : St) (op res : String) : St × List String :=
  match words op with
  | ["rsetup", s, e, lease] =>
    match ip4 s, ip4 e, lease.toInt? with
    | some s, some e, some l =>
      -- `setupRange` keeps the lease time rounded to whole seconds (D19)
      -- (Go's `Duration.Round` rounds a negative half away from zero)
      let l := if l < 0 then -(keptLease (-l)) else keptLease l
      -- … and refuses one that cannot be announced as an unsigned 32-bit number of seconds (D21)
      if l < 0 || l > 4294967295 * 1000000000 then
        ({}, "br:rsetup.lease-out-of-range" :: (if res == "err" then [] else
          ["DIVERGE dom model=err",
           -- a negative one is announced as 2^32 − |l| seconds while the stored expiry lies in the past (C03); one that is too
           -- long is announced modulo 2^32, i.e. not "the configured lease time" (C02); neither can be honoured on the wire (C19)
           (if l < 0 then s!"FAIL C03 a lease time of {l} ns was accepted at start-up: the lease announced in option 51 is 2^32 s longer than the expiry that is stored"
            else s!"FAIL C02 a lease time of {l} ns was accepted at start-up: option 51 announces it modulo 2^32 s, not the configured lease time"),
           s!"FAIL C19 a lease time of {l} ns was accepted at start-up: it cannot be honoured on the wire"]))
      else
      match RState.setup s e l [] some id with
      | .ok m => ({ cfg := some ⟨s, e, l⟩, s := m, bound := [] },
                  "br:rsetup.ok" :: (if res == "ok" then [] else ["DIVERGE dom model=ok"]))
      | .error _ => ({}, "br:rsetup.err" :: (if res == "err" then [] else ["DIVERGE dom model=err"]))
    | _, _, _ => ({}, ["DIVERGE drift unparsed-op"])
  | "rreq" :: _ :: mac :: _ =>       -- optional further tokens: the request's option 50, a lease time an earlier plugin put in the reply: no model input
    if res == "SKIP after-hang" then (st, ["br:range.skip-after-hang"]) else
    if (words res).getLast? == some "HANG" then
      ({ st with cfg := none }, ["br:range.hang", "DIVERGE dom model does not block",
        s!"FAIL C01 the range handler never returned (a lock left held): {op}",
        s!"FAIL C16 the range handler never returned (no one-at-a-time order explains a call that does not return): {op}",
        s!"FAIL C02 the range handler never returned: {op}"]) else
    match st.cfg, parseHex mac, words res with
    | some cfg, some mac, t0 :: t1 :: rest =>
      match t0.toInt?, t1.toInt?, parseReqRes rest with
      | some t0, some t1, some (obs, rows) =>
        let choice : Option Nat := match obs with
          | .reply ip _ => some (ip - cfg.start).toNat
          | _ => none
        let known := (lookupRec st.s.recs mac).isSome
        let br := match obs, known with
          | .reply _ _, true => "br:rreq.known"
          | .reply _ _, false => "br:rreq.new"
          | .drop, _ => "br:rreq.exhausted"
          | .panic, _ => "br:rreq.panic"
        let brl := if mac.length != 6 then [s!"br:rreq.maclen-other"] else []
        let stored : List Row := match rows with
          | some rs => rs.map (fun q => ⟨mac, q.1, q.2⟩)
          | none => []
        let mon := RMon.step cfg st.bound (.req mac t0 obs stored)
        let monv : RVerdict := if rows.isNone then { mon.2 with c03 := true } else mon.2
        -- the stored form of the hardware address: HardwareAddr.String() through sqlite's column affinity
        let keyMsgs : List String :=
          match (rest.dropWhile (· != "key")) with
          | ["key", k] =>
            if k == "?" || k == "none" then [] else
            let want := sqliteAffinity (macString mac)
            let got := (parseHex k).map (fun bs => String.ofList (bs.map Char.ofNat))
            (if got == some want then [] else [s!"DIVERGE dom stored key: model={want} sqlite={got}"]) ++
            (if mac.all (· < 256) && loadKeyConcrete mac != some mac then ["FAIL C03 the stored hardware address does not read back"] else []) ++
            (if want != macString mac then ["br:rreq.key-rewritten-by-affinity"] else [])
          | _ => []
        -- C03's expiry clause with the promise read off the reply itself (the lease time it carries, whoever wrote it): the
        -- stored expiry is not earlier, beyond the store's one-second resolution, than the end of that lease
        let promised : List String := match obs, rows with
          | .reply ip l, some _ =>
            if stored.any (fun r => r.ip == ip && decide (r.expiry * nsPerSec ≥ t0 + (l : Int) * nsPerSec - nsPerSec)) then []
            else
              let short := (stored.filter (fun r => r.ip == ip)).map (fun r => (t0 + (l : Int) * nsPerSec - r.expiry * nsPerSec) / 1000000)
              [s!"FAIL C03 the reply to {mac} promises a lease of {l} s, the stored expiry ends {short.foldl min (short.headD 0)} ms before it (stored {stored.map (·.expiry)}, request handled at {t0 / nsPerSec})"]
          | _, _ => []
        let fails := keyMsgs ++ (if monv.c02 then [] else [s!"FAIL C02 request from {mac} -> {fmtReply obs}"]) ++
                     (if monv.c03 then [] else [s!"FAIL C03 stored expiry of {mac} is earlier than the lease promised"]) ++ promised
        let tryNow (now : Int) : Option (RState × Bool) :=
          match st.s.handle mac now choice with
          | none => none
          | some (s', r) =>
            let rowsOk := match rows with
              | some rs => sameRows (s'.db.filter (fun x => x.mac == mac)) rs
              | none => true
            some (s', fmtReply r == fmtReply obs && rowsOk)
        match tryNow t0, tryNow t1 with
        | some (s', true), _ => ({ st with s := s', bound := mon.1 }, br :: brl ++ fails)
        | _, some (s', true) => ({ st with s := s', bound := mon.1 }, br :: "br:rreq.clock-edge" :: brl ++ fails)
        | some (s', false), _ =>
          ({ st with s := s', bound := mon.1 }, br :: brl ++ [s!"DIVERGE dom model={fmtReply ((st.s.handle mac t0 choice).map (·.2) |>.getD .panic)} rows={(s'.db.filter (fun x => x.mac == mac)).map (fun r => (r.ip.toNat, r.expiry))}"] ++ fails)
        | none, _ => ({ st with bound := mon.1 }, br :: brl ++ ["DIVERGE dom inadmissible-choice"] ++ fails)
      | _, _, _ =>
        -- a reply whose yiaddr is not an IPv4 address (nil, 0 bytes): an answer with no address of the range
        (st, ["DIVERGE dom unexpected-result"] ++
             (if (words res).drop 2 |>.head? |> (· == some "reply") then
                [s!"FAIL C02 request from {mac} answered with a reply that carries no address of the range: {res}",
                 s!"FAIL C03 request from {mac} answered with a reply that carries no address of the range: {res}"]
              else []))
    | none, _, _ => (st, ["br:skipped.no-setup"])
    | _, _, _ => (st, ["DIVERGE drift unparsed-op"])
  | ["rage", _] => (st, ["br:range.time-passes"])      -- time is read off the timestamps of the lines that follow
  | ["rmoved", ns, ne] =>
    -- a start on a copy of the present database with ANOTHER range (harness/range.go): `setupRange` re-marks every stored
    -- lease in the new allocator and refuses to start when one cannot be re-marked — the model: `RState.setup` on the table
    -- written so far. A lease outside the new range that is tolerated is an address outside the configured range kept in
    -- service (C02, and C05 at the level of the plugin).
    match st.cfg, ip4 ns, ip4 ne with
    | some cfg, some ns, some ne =>
      let outside := st.s.db.any (fun r => r.ip.toNat < ns.toNat || r.ip.toNat > ne.toNat)
      match RState.setup ns ne cfg.lease st.s.db some id with
      | .ok _ => (st, "br:rmoved.ok" :: (if res == "ok" then [] else ["DIVERGE dom model=ok"]))
      | .error _ => (st, "br:rmoved.refused" :: (if res == "err" then [] else
          ["DIVERGE dom model=err"] ++ (if outside then
            [s!"FAIL C02 a start with the range {ns.toNat}..{ne.toNat} accepted a lease table that holds an address outside it: that client keeps an address outside the configured range",
             s!"FAIL C05 a start with the range {ns.toNat}..{ne.toNat} accepted a lease table that holds an address outside it"] else [])))
    | _, _, _ => (st, ["br:range.skip"])
  | "rrestart" :: macs =>
    match st.cfg, words res with
    | some cfg, t0 :: _ :: "ok" :: servedW =>
      match t0.toInt? with
      | none => (st, ["DIVERGE drift unparsed-result"])
      | some t0 =>
      let asked := macs.filterMap parseHex
      let served : List (Mac × Option (BitVec 32)) := (asked.zip servedW).map (fun (m, w) => (m, ip4 w))
      let mon := RMon.step cfg st.bound (.restart true served)
      let fails := if mon.2.c03 then [] else [s!"FAIL C03 restart serves {served.map (fun q => (q.1, q.2.map (·.toNat)))} but bound is {st.bound.map (fun q => (q.1, q.2.toNat))}"]
      match st.s.restart some id with
      | .error _ => (st, ["br:rrestart.model-err", "DIVERGE dom model=err"] ++ fails)
      | .ok s' =>
        -- replay the probe requests on a copy of the restarted model
        let rec go (s : RState) : List (Mac × Option (BitVec 32)) → Bool
          | [] => true
          | (m, o) :: rest =>
            let choice := o.map (fun ip => (ip - cfg.start).toNat)
            match s.handle m t0 choice with
            | none => false
            | some (s2, r) =>
              (match r, o with
               | .reply ip _, some ip' => ip == ip'
               | .drop, none => true
               | _, _ => false) && go s2 rest
        let okServe := served.length == asked.length && go s' served
        ({ st with s := s' }, "br:rrestart.ok" :: (if okServe then [] else ["DIVERGE dom restarted model serves differently"]) ++ fails)
    | some cfg, _ :: _ :: "err" :: msg =>
      let mon := RMon.step cfg st.bound (.restart false [])
      let _ := mon
      ({}, ["br:rrestart.err", s!"DIVERGE dom model=ok impl={" ".intercalate msg}", s!"FAIL C03 restart on the lease database failed: {" ".intercalate msg}"])
    | none, _ => (st, ["br:skipped.no-setup"])
    | _, _ => (st, ["DIVERGE dom unexpected-result"])
  | _ => (st, ["DIVERGE drift unparsed-op"])

end Drv.Range
