import Driver.Util
namespace Drv.Chain

/-- monitor-only engine: whole chains of real plugins; judged directly (C01, C19) -/
def step (op res : String) : List String :=
  let w := words op
  let r := words res
  match w.headD "", r with
  | "ccfg", ["ok"] => [s!"br:chain.cfg{w.getD 1 "?"}.ok"]
  | "ccfg", "err" :: name => ["br:chain.cfg.err", s!"DIVERGE dom a valid configuration was rejected by {name}"]
  | _, ["drop"] => ["br:chain.drop"]
  | _, ["SKIP", _] => ["br:chain.skipped-after-hang"]
  | _, "send" :: "ok" :: _ => ["br:chain.send"]
  | _, "send" :: "rt-unparsable" :: _ => ["br:chain.send", "FAIL C19 the reply of the chain does not parse back"]
  | _, "send" :: "rt-differs" :: _ => ["br:chain.send", "FAIL C19 the reply of the chain parses back to different options"]
  | _, "PANIC" :: m => [s!"FAIL C01 handling panicked: {" ".intercalate m}"]
  | _, ["HANG"] => ["FAIL C01 handling did not terminate (a lock left held, or a handler blocked)"]
  | _, ["CRASH"] => ["FAIL C01 the worker process died while handling this datagram"]
  | _, x :: _ => if x.startsWith "send" then [s!"FAIL C01 more than one reply for one datagram: {x}"] else ["DIVERGE drift unparsed-result"]
  | _, [] => ["DIVERGE drift unparsed-result"]

end Drv.Chain
