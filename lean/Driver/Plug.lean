import Driver.Util
open CoreDhcp
namespace Drv.Plug

abbrev Bytes := CoreDhcp.Plug.Bytes
abbrev Opts := CoreDhcp.Plug.Opts

/-- what is known after a `pcfg` line -/
structure St where
  name   : String := ""
  proto  : Nat := 0
  implOk : Bool := false                       -- the implementation's setup returned a handler
  cfg    : Option Plug.PlugCfg := none         -- the configuration the model accepted
  raw    : List Bytes := []                    -- the arguments as given (bytes of each)
deriving Inhabited

/-! ### parsing -/

def kv (key : String) (s : String) : Option String :=
  if s.startsWith (key ++ "=") then some (s.drop (key.length + 1)).toString else none

def parseIpLit (s : String) : Option (Option Plug.IpLit) :=
  if s == "-" then some none else
  match s.splitOn "." with
  | [t, h] =>
    match parseHex h with
    | some b =>
      if t == "4" && b.length == 4 then some (some (.v4 b))
      else if t == "m" && b.length == 4 then some (some (.mapped b))
      else if t == "6" && b.length == 16 then some (some (.v6 b))
      else none
    | none => none
  | _ => none

def parseCidr (s : String) : Option (Option Plug.Cidr) :=
  if s == "-" then some none else
  match s.splitOn "_" with
  | [ip, ones, bits] =>
    match parseHex ip, ones.toNat?, bits.toNat? with
    | some ip, some ones, some bits => some (some ⟨ip, ones, bits⟩)
    | _, _, _ => none
  | _ => none

def parseSr (s : String) : Option Plug.SrOracle :=
  match s.splitOn ":" with
  | [n] => n.toNat?.map (fun n => { fields := n })
  | ["2", c, r] =>
    match parseCidr c, parseIpLit r with
    | some c, some r => some { fields := 2, cidr := c, router := r }
    | _, _ => none
  | _ => none

def parseUrl (s : String) : Option (Option Plug.UrlOracle) :=
  if s == "-" then some none else
  match s.splitOn "_" with
  | [a, b, c, d, e] =>
    match parseHex a, parseHex b, parseHex c, parseHex d, parseHex e with
    | some a, some b, some c, some d, some e => some (some ⟨a, b, c, d, e⟩)
    | _, _, _, _, _ => none
  | _ => none

def optTok {α} (s : String) (f : String → Option α) : Option (Option α) :=
  if s == "-" then some none else (f s).map some

/-- `ip=…/mac=…/int=…/dur=…/sr=…/url=…` -/
def parseOracle (raw : Bytes) (tok : String) : Option Plug.ArgOracle :=
  match tok.splitOn "/" with
  | [ip, mac, int, dur, sr, url] =>
    match (kv "ip" ip).bind parseIpLit, (kv "mac" mac).bind (optTok · parseHex), (kv "int" int).bind (optTok · String.toInt?),
          (kv "dur" dur).bind (optTok · String.toInt?), (kv "sr" sr).bind parseSr, (kv "url" url).bind parseUrl with
    | some ip, some mac, some int, some dur, some sr, some url =>
      some { raw := raw, ip := ip, mac := mac, int := int, dur := dur, sr := sr, url := url }
    | _, _, _, _, _, _ => none
  | _ => none

def zipOracles : List String → List String → Option (List Plug.ArgOracle)
  | [], [] => some []
  | a :: as, t :: ts =>
    match parseHex a, zipOracles as ts with
    | some raw, some rest => (parseOracle raw t).map (· :: rest)
    | _, _ => none
  | _, _ => none

/-- `code:hex,code:hex` (`code:` = zero-length value), `-` = none -/
def parseOpts (s : String) : Option Opts :=
  if s == "-" then some [] else
  (s.splitOn ",").mapM (fun e =>
    match e.splitOn ":" with
    | [c, v] =>
      match c.toNat?, (if v == "" then some [] else parseHex v) with
      | some c, some v => some (c, v)
      | _, _ => none
    | _ => none)

def bytesHex (b : Bytes) : String := if b.isEmpty then "-" else String.join (b.map (fun x => natHex x 2))

def fmtOpts (o : Opts) : String :=
  if o.isEmpty then "-" else ",".intercalate (o.map (fun (c, v) => s!"{c}:{if v.isEmpty then "" else bytesHex v}"))

def fmtOut4 : Plug.Out4 → String
  | (none, stop) => s!"nil {if stop then 1 else 0}"
  | (some r, stop) => s!"resp {if stop then 1 else 0} {r.mt} {bytesHex r.yiaddr} {bytesHex r.siaddr} {fmtOpts r.opts}"

def fmtOut6 : Plug.Out6 → String
  | (none, stop) => s!"nil {if stop then 1 else 0}"
  | (some r, stop) => s!"resp {if stop then 1 else 0} {r.mt} {fmtOpts r.opts}"

def short (s : String) : String := if s.length > 240 then (s.take 240).toString ++ "…" else s

def stopOf (s : String) : Option Bool := if s == "1" then some true else if s == "0" then some false else none

def parseView4 : List String → Option Plug.ReqView4
  | ["view", op, mt, si, ci, opts] =>
    match op.toNat?, mt.toNat?, parseHex si, parseHex ci, parseOpts opts with
    | some op, some mt, some si, some ci, some opts => some ⟨op, mt, si, ci, opts⟩
    | _, _, _, _, _ => none
  | _ => none

def parseResp4 : List String → Option Plug.Resp4
  | [mt, yi, si, opts] =>
    match mt.toNat?, parseHex yi, parseHex si, parseOpts opts with
    | some mt, some yi, some si, some opts => some ⟨mt, yi, si, opts⟩
    | _, _, _, _ => none
  | _ => none

def parseOut4 : List String → Option Plug.Out4
  | ["out", "nil", stop] => (stopOf stop).map (fun s => (none, s))
  | "out" :: "resp" :: stop :: rest =>
    match stopOf stop, parseResp4 rest with
    | some s, some r => some (some r, s)
    | _, _ => none
  | _ => none

def parseView6 : List String → Option Plug.ReqView6
  | ["view", depth, mt, opts] =>
    match depth.toNat?, mt.toNat?, parseOpts opts with
    | some d, some mt, some opts => some ⟨d, mt, opts⟩
    | _, _, _ => none
  | _ => none

def parseResp6 : List String → Option Plug.Resp6
  | [mt, opts] =>
    match mt.toNat?, parseOpts opts with
    | some mt, some opts => some ⟨mt, opts⟩
    | _, _ => none
  | _ => none

/-- `some none` = the handler returned a relay message -/
def parseOut6 : List String → Option (Option Plug.Out6)
  | ["out", "nil", stop] => (stopOf stop).map (fun s => some (none, s))
  | ["out", "relay", _] => some none
  | "out" :: "resp" :: stop :: rest =>
    match stopOf stop, parseResp6 rest with
    | some s, some r => some (some (some r, s))
    | _, _ => none
  | _ => none

/-! ### pcfg -/

def fmtSetup : Option (Except Unit Plug.PlugCfg) → String
  | none => "unsupported"
  | some (.ok _) => "ok"
  | some (.error _) => "err"

/-- what makes an accepted configuration violate `C19.wireOK` -/
def wireDetail (name : String) (cfg : Plug.PlugCfg) : String :=
  match cfg with
  | .v6 (.dns ips) =>
    if C19.fits6 (Plug.encIPs ips) then s!"{name} accepted configuration cannot be encoded"
    else s!"{name} oversize DHCPv6 option 23 ({(Plug.encIPs ips).length} bytes > 65535) accepted at setup"
  | .v6 (.search names) =>
    if C19.fits6 (Plug.encLabels names) then s!"{name} accepted search domain cannot be encoded as RFC 1035 labels"
    else s!"{name} oversize DHCPv6 option 24 ({(Plug.encLabels names).length} bytes > 65535) accepted at setup"
  | .v6 (.nbp c) =>
    if C19.fits6 c.o59 then s!"{name} oversize DHCPv6 option 60 (parameters of {(c.o60.getD []).length} bytes) accepted at setup"
    else s!"{name} oversize DHCPv6 option 59 ({c.o59.length} bytes > 65535) accepted at setup"
  | .v6 (.serverid d) => s!"{name} oversize DHCPv6 option 2 ({d.length} bytes > 65535) accepted at setup"
  | .v4 (.staticroute _) => s!"{name} accepted static route cannot be encoded (RFC 3442: IPv4, prefix length ≤ 32)"
  | .v4 (.search _) => s!"{name} accepted search domain cannot be encoded as RFC 1035 labels"
  | _ => s!"{name} accepted configuration cannot be encoded"

/-- D22–D24: what the set-ups of mtu, lease_time and ipv6only made of the arguments BEFORE they tested the range (the
model's `setupOld`). The model refuses a number that does not fit the option; an implementation that accepts it gets
this configuration, so that the verdict can name the value and the replies can still be followed. -/
def acceptedOutOfRange (p : Nat) (name : String) (oracles : List Plug.ArgOracle) : Option Plug.Cfg4 :=
  if p != 4 then none
  else if name == "mtu" then (Plug.mtu.setupOld oracles).toOption.map .mtu
  else if name == "lease_time" then (Plug.leasetime.setupOld oracles).toOption.map .leasetime
  else if name == "ipv6only" then (Plug.ipv6only.setupOld oracles).toOption.map .ipv6only
  else none

def showDecoded (k : Nat) (b : Bytes) : String := match Plug.decBe k b with | some v => toString v | none => "?"

/-- the configured number, the field it has to fit, and what a client would read -/
def rangeDetail : Plug.Cfg4 → String
  | .mtu n => s!"an MTU of {n}: option 26 carries 0..65535, a client would read {showDecoded 2 (Plug.encU16 n)}"
  | .leasetime d => s!"a lease time of {d} ns: option 51 carries 0..4294967295 whole seconds, a client would read {showDecoded 4 (Plug.encSecs d)} s"
  | .ipv6only d => s!"a V6ONLY_WAIT of {d} ns: option 108 carries 0..4294967295 whole seconds, a client would read {showDecoded 4 (Plug.encSecs d)} s"
  | _ => "a value outside the wire range"

def stepCfg (proto name : String) (args : List String) (res : String) : St × List String :=
  match proto.toNat? with
  | none => ({}, ["DIVERGE drift unparsed-op"])
  | some p =>
  let tag := s!"plug.{name}.{p}"
  let crash (what : String) : St × List String :=
    ({ name := name, proto := p }, [s!"br:{tag}.setup-panic", "DIVERGE dom model does not panic",
      s!"FAIL C19 {name} setup: {short what}", s!"FAIL C01 {name} setup: {short what}"])
  if res == "CRASH" || res.startsWith "PANIC" || res.startsWith "HANG" then crash res else
  match res.splitOn " ; " with
  | [orc, result] =>
    let toks := if args.isEmpty then [] else words orc
    match zipOracles args toks with
    | none => ({ name := name, proto := p }, ["DIVERGE drift unparsed-oracle"])
    | some oracles =>
      if !(oracles.all Plug.ArgOracle.wf) then ({ name := name, proto := p }, ["DIVERGE drift oracle-not-wellformed"]) else
      let m := Plug.plugSetup p name oracles
      -- `strings.ToLower` of a non-ASCII DUID type is outside the model
      let nonAscii := name == "server_id" && p == 6 && (match oracles with | a :: _ => a.raw.any (· ≥ 128) | [] => false)
      let dv := if nonAscii then "DIVERGE drift non-ascii-duid-type" else "DIVERGE dom"
      let result := words result
      match result with
      | ["ok"] =>
        match m with
        | some (.ok cfg) =>
          let c19 := if C19.wireOK cfg then [] else [s!"FAIL C19 {wireDetail name cfg}"]
          -- C17 "exactly the configured value": never fires for what the model accepts (`C17_accepted_exact`)
          let rng := match cfg with
            | .v4 c => if C17.exact4 c then [] else [s!"FAIL C17 {name} accepted {rangeDetail c}"]
            | .v6 _ => []
          ({ name := name, proto := p, implOk := true, cfg := some cfg }, [s!"br:{tag}.setup-ok"] ++ c19 ++ rng)
        | _ =>
          match (acceptedOutOfRange p name oracles).filter (fun c => !C17.exact4 c) with
          | some c =>
            -- D22–D24 on the observation: the set-up returned a handler for a number that does not fit the option
            ({ name := name, proto := p, implOk := true, cfg := some (.v4 c) },
              [s!"br:{tag}.setup-ok", s!"br:{tag}.accepted-out-of-range", s!"{dv} model={fmtSetup m}",
               s!"FAIL C17 {name} set-up accepted {rangeDetail c}",
               s!"FAIL C19 {name} an argument that cannot be honoured on the wire was accepted at start-up: {rangeDetail c}"])
          | none =>
          ({ name := name, proto := p, implOk := true, raw := args.filterMap parseHex }, [s!"br:{tag}.setup-ok", s!"{dv} model={fmtSetup m}"] ++
            (if nonAscii then [] else [s!"FAIL C19 {name} implementation accepts a configuration the model rejects"]))
      | ["err"] =>
        ({ name := name, proto := p }, [s!"br:{tag}.setup-err"] ++
          (match m with | some (.error _) => [] | _ => [s!"{dv} model={fmtSetup m}"]))
      | ["unsupported"] =>
        ({ name := name, proto := p }, [s!"br:{tag}.unsupported"] ++
          (match m with | none => [] | _ => [s!"DIVERGE dom model={fmtSetup m}"]))
      | ["nilhandler"] =>
        ({ name := name, proto := p }, [s!"br:{tag}.setup-nil", s!"DIVERGE dom model={fmtSetup m}",
          s!"FAIL C19 {name} setup returned neither an error nor a handler"])
      | "PANIC" :: _ | "HANG" :: _ | "CRASH" :: _ => crash (" ".intercalate result)
      | _ => ({ name := name, proto := p }, ["DIVERGE drift unparsed-result"])
  | _ => ({ name := name, proto := p }, ["DIVERGE drift unparsed-result"])

/-! ### preq -/

def rtMsgs (st : St) (rt : List String) : List String :=
  match rt with
  | ["rt", "ok"] | ["rt", "-"] => []
  | "rt" :: rest =>
    let over := match st.cfg with
      | none => false
      | some cfg => match cfg with
      | (.v6 (.dns ips)) => !C19.fits6 (Plug.encIPs ips)
      | (.v6 (.search names)) => !C19.fits6 (Plug.encLabels names)
      | (.v6 (.nbp _)) => !C19.wireOK cfg
      | (.v6 (.serverid d)) => !C19.fits6 d
      | _ => false
    [s!"FAIL C19 {st.name} {if over then "oversize DHCPv6 option " else ""}round trip: {short (" ".intercalate rest)}"] ++
      (match rest with | "PANIC" :: _ => [s!"FAIL C01 {st.name} serialising the reply: {short (" ".intercalate rest)}"] | _ => [])
  | _ => ["DIVERGE drift unparsed-rt"]

def panicMsgs (st : St) (res : String) : List String :=
  [s!"br:plug.{st.name}.{st.proto}.panic", "DIVERGE dom model does not panic",
   s!"FAIL C19 {st.name} handler: {short res}", s!"FAIL C01 {st.name} handler: {short res}"]

def isAbort (res : String) : Bool := res == "CRASH" || res == "HANG" || res.startsWith "PANIC"

/-- `MessageType()` of the response: option 53 when it is one byte long -/
def mtOfOpts (o : Opts) : Nat := match Plug.lookup 53 o with | some [b] => b | _ => 0

/-- RFC 1035 names as a client reads an option 119 / 24 value: each name is a sequence of length-prefixed labels ended by
a zero length (no compression: the server does not compress); `none` when the bytes do not end on a name boundary -/
def decodeNames : Nat → Bytes → List Bytes → Option (List (List Bytes))
  | 0, _, _ => none
  | _, [], [] => some []
  | _, [], _ :: _ => none
  | fuel + 1, n :: rest, cur =>
    if n == 0 then (decodeNames fuel rest []).map (fun ns => cur.reverse :: ns)
    else if n > 63 || rest.length < n then none
    else decodeNames fuel (rest.drop n) (rest.take n :: cur)

def stripDot (b : Bytes) : Bytes := if b.getLast? == some 46 then b.dropLast else b

/-- searchdomains with a configuration the implementation accepted although the model refuses it: C17 on the observation alone —
the option that is sent must decode to exactly the names given as arguments (a trailing dot apart), each once, in order -/
def searchWire (st : St) (code : Nat) (opts : Opts) (res : String) : List String :=
  if st.name != "searchdomains" || st.raw.isEmpty then [] else
  match Plug.lookup code opts with
  | none => []
  | some v =>
    let want := st.raw.map stripDot
    match decodeNames (v.length + 1) v [] with
    | some names =>
      let got := names.map (fun ls => (ls.foldl (fun acc l => if acc.isEmpty then l else acc ++ [46] ++ l) ([] : Bytes)))
      if got == want && !(names.any (·.isEmpty)) then [] else
        [s!"FAIL C17 searchdomains: the accepted arguments are {want.length} name(s) {want.map bytesHex}; the option that is sent reads as {got.length} name(s) {got.map bytesHex}: {short res}"]
    | none => [s!"FAIL C17 searchdomains: the option that is sent is not a sequence of RFC 1035 names: {short res}"]

def step4 (st : St) (res : String) : List String :=
  let tag := s!"plug.{st.name}.4"
  if res == "skip" then (if st.implOk then ["DIVERGE drift skip-after-ok"] else [s!"br:plug.skip"]) else
  if res == "unparsable" then ["br:plug.unparsable"] else
  if isAbort res then panicMsgs st res else
  if !st.implOk then ["DIVERGE drift result-without-handler"] else
  match st.cfg, (res.splitOn " ; ").map words with
  | some (.v4 cfg), [view, "pre" :: pre, outW, rt] =>
    match parseView4 view, parseResp4 pre, parseOut4 outW with
    | some view, some pre, some out =>
      let m := Plug.plugHandle4 cfg view pre
      let dv := if m == out then [] else [s!"DIVERGE dom model={short (fmtOut4 m)}"]
      let cons := if mtOfOpts pre.opts == pre.mt then [] else ["DIVERGE drift response-type-inconsistent"]
      let brs := [if (Plug.prl4 view).isSome then "br:plug.prl-present" else "br:plug.prl-absent"] ++
        (match out with
         | (none, _) => [s!"br:{tag}.dropped"]
         | (some r, stop) => (if r == pre then [s!"br:{tag}.not-added"] else [s!"br:{tag}.added"]) ++
                             (if stop then [s!"br:{tag}.stopped"] else [])) ++
        (if view.op != 1 then ["br:plug.not-bootrequest"] else [])
      let mon := match cfg with
        | .serverid a =>
          (if C14.namesOther4 a view then ["br:plug.sid4.other-server"] else ["br:plug.sid4.for-us"]) ++
          (if C14.holds4 a view pre out then [] else [s!"FAIL C14 {st.name} {short res}"])
        | _ => (if C17.holds4 cfg view pre out then [] else [s!"FAIL C17 {st.name} {short res}"]) ++
               -- a configuration outside the wire range (D22–D24; the verdict was given at its pcfg): every reply the plugin changes
               -- announces something else than what was configured
               (match out with
                | (some r, _) => if !C17.exact4 cfg && r != pre then [s!"FAIL C17 {st.name} the reply does not carry the configured value ({rangeDetail cfg}): {short res}"] else []
                | _ => [])
      brs ++ dv ++ cons ++ mon ++ rtMsgs st rt
    | _, _, _ => ["DIVERGE drift unparsed-result"]
  | some (.v6 _), _ => ["DIVERGE drift protocol-mismatch"]
  | none, [_, _, outW, _] =>
    "DIVERGE drift no-model-configuration" :: (match parseOut4 outW with | some (some r, _) => searchWire st 119 r.opts res | _ => [])
  | none, _ => ["DIVERGE drift no-model-configuration"]
  | _, _ => ["DIVERGE drift unparsed-result"]

def relName : C14.Rel → String
  | .absent => "no-sid" | .same => "same-sid" | .other => "other-sid"

def step6 (st : St) (res : String) : List String :=
  let tag := s!"plug.{st.name}.6"
  if res == "skip" then (if st.implOk then ["DIVERGE drift skip-after-ok"] else [s!"br:plug.skip"]) else
  if res == "unparsable" then ["br:plug.unparsable"] else
  if isAbort res then panicMsgs st res else
  if !st.implOk then ["DIVERGE drift result-without-handler"] else
  match st.cfg, (res.splitOn " ; ").map words with
  | some (.v6 cfg), [view, "pre" :: pre, outW, rt] =>
    match parseView6 view, parseResp6 pre, parseOut6 outW with
    | some view, some pre, some (some out) =>
      let m := Plug.plugHandle6 cfg view pre
      let dv := if m == out then [] else [s!"DIVERGE dom model={short (fmtOut6 m)}"]
      let brs := [if (view.opts.any (·.1 == 6)) then "br:plug.oro-present" else "br:plug.oro-absent",
                  if view.depth == 0 then "br:plug.direct" else "br:plug.relayed"] ++
        (match out with
         | (none, _) => [s!"br:{tag}.dropped"]
         | (some r, stop) => (if r == pre then [s!"br:{tag}.not-added"] else [s!"br:{tag}.added"]) ++
                             (if stop then [s!"br:{tag}.stopped"] else []))
      let mon := match cfg with
        | .serverid d =>
          [s!"br:plug.sid6.{relName (C14.rel6 d view)}.{if C14.mustDiscard6 view.mt (C14.rel6 d view) then "discard" else "stamp"}"] ++
          (if !C17.dom6 cfg view pre then ["DIVERGE drift response with several server identifiers"]
           else if C14.holds6 d view pre out then [] else [s!"FAIL C14 {st.name} {short res}"])
        | _ =>
          if !C17.dom6 cfg view pre then ["DIVERGE drift repeated option codes (outside C17)"]
          else if C17.holds6 cfg view pre out then [] else [s!"FAIL C17 {st.name} {short res}"]
      brs ++ dv ++ mon ++ rtMsgs st rt
    | some _, some _, some none => ["DIVERGE dom model does not return a relay message", s!"FAIL C17 {st.name} handler returned a relay message"]
    | _, _, _ => ["DIVERGE drift unparsed-result"]
  | some (.v4 _), _ => ["DIVERGE drift protocol-mismatch"]
  | none, [_, _, outW, _] =>
    "DIVERGE drift no-model-configuration" :: (match parseOut6 outW with | some (some (some r, _)) => searchWire st 24 r.opts res | _ => [])
  | none, _ => ["DIVERGE drift no-model-configuration"]
  | _, _ => ["DIVERGE drift unparsed-result"]

def step (st : St) (op res : String) : St × List String :=
  match words op with
  | "pcfg" :: proto :: name :: _k :: args => stepCfg proto name args res
  | "preq4" :: _ => (st, if st.proto == 4 then step4 st res else ["DIVERGE drift protocol-mismatch"])
  | "preq6" :: _ => (st, if st.proto == 6 then step6 st res else ["DIVERGE drift protocol-mismatch"])
  | _ => (st, ["DIVERGE drift unparsed-op"])

end Drv.Plug
