import Driver.Util
open CoreDhcp
namespace Drv.Serve

/-- The `serve` engine (harness/serve.go) compares the real server with itself: the replies to k
datagrams sent as a burst through the real Serve loop against the replies to the same datagrams
sent one at a time. That comparison IS C16's statement ("the set of replies equals that of some
one-at-a-time order"); for the stateless chain used, every order gives the same replies. A reply
reaching another client than its own also breaks C12 / C11 (sent back to the source / echoing the
request). The driver only turns the harness's verdict into messages. -/
def step (op res : String) : List String :=
  match words op with
  | ["svstart", secs, chain] =>
    -- the whole server through `server.Start` (harness/start.go): every configured section must answer a request a chain of
    -- no handler or of one pass-through handler cannot refuse — the ADVERTISE (type 2) / OFFER (type 2) the server itself
    -- prepared (C13: with no handler, what is sent is the response the server built)
    let has6 := secs == "6" || secs == "46"
    let has4 := secs == "4" || secs == "46"
    if res.startsWith "skip" then ["br:serve.skip", s!"DIVERGE drift serve engine could not run: {res}"]
    else if res.startsWith "start-err" then
      ["DIVERGE dom model=starts", s!"FAIL C13 server.Start refused a valid configuration (sections {secs}, chain {chain}): {res}"]
    else match words res with
      | ["ok2", a, b, a2] =>
        -- two DHCPv4 listeners, `range` named once (harness/start.go, startRange2): one instance serves both — client A on the
        -- first listener and client B on the second get different addresses, A asking on the second keeps its own
        let v (t : String) : String := ((t.splitOn "=").getD 1 "")
        if v a != "none" && v b != "none" && v a != v b && v a == v a2 then ["br:serve.start.range2"]
        else ["DIVERGE dom model=one-chain-for-all-listeners",
              s!"FAIL C02 two listeners, one range plugin: client A got {v a} on the first listener, client B {v b} on the second, A again on the second {v a2} (an address bound to two clients, or a client given another address than its first)",
              s!"FAIL C13 two listeners of one protocol do not serve with the one chain that was loaded: {res}"]
      | ["ok", r6, _r4, during] =>
        -- `verifprobe`: a plugin whose set-up sends a SOLICIT to the configured address (harness/start.go). Nothing may answer
        -- while the plugins are being set up; afterwards the server answers with the prepared ADVERTISE
        if during == "during-setup:quiet" && r6 == "6:2" then ["br:serve.start.probe"]
        else if during != "during-setup:quiet" then
          ["DIVERGE dom model=nothing-answers-before-the-chain-is-loaded",
           s!"FAIL C13 a request that arrived while the plugins were being set up was answered: not by the configured handlers ({res})"]
        else ["DIVERGE dom model=every-configured-section-answers",
              s!"FAIL C13 the server was started with a pass-through plugin: a request was answered {r6}, the prepared ADVERTISE was expected"]
      | ["ok", r6, r4] =>
        let want6 := if has6 then "6:2" else "6:-"
        let want4 := if has4 then "4:2" else "4:-"
        if r6 == want6 && r4 == want4 then [s!"br:serve.start.{chain}"]
        else ["DIVERGE dom model=every-configured-section-answers",
              s!"FAIL C13 the server was started with sections {secs} and a chain that is {chain}: a request was answered {r6} {r4}, the prepared ADVERTISE / OFFER was expected ({want6} {want4})"]
      | _ => ["DIVERGE drift unparsed-result"]
  | ["svl2", _k] =>
    -- a burst of direct DISCOVERs whose replies leave as link-layer unicasts through the real send path (harness/start.go).
    -- On the loopback interface the frames cannot be built (no hardware address), so nothing is observed but the race
    -- detector's report, which `./check` reads off the -race build's output.
    if res.startsWith "ok" then ["br:serve.l2-burst"]
    else if res.startsWith "skip" then ["br:serve.skip", s!"DIVERGE drift serve engine could not run: {res}"]
    else ["DIVERGE dom model=serves", s!"FAIL C01 a burst of link-layer replies: {res}", s!"FAIL C16 a burst of link-layer replies: {res}"]
  | ["svbig", proto, _seed] =>
    -- datagrams of up to 65 000 bytes, one at a time through the real Serve loop (harness/serve.go, bigOp), whose right answer
    -- is known by construction and hangs on the LAST option: a Server Identifier / option 54 naming another server (no reply:
    -- C14, `SYS_C14_drop4/6` with server_id first) or a request for the DNS servers (a reply carrying them: C17,
    -- `SYS_C17_delivered4`). A receive path that sees only the head of a long datagram gets both wrong.
    if res.startsWith "ok" then [s!"br:serve.big{proto}"]
    else if res.startsWith "skip" then ["br:serve.skip", s!"DIVERGE drift serve engine could not run: {res}"]
    else if res.startsWith "wrong" then
      let ws := words res
      let a := ws.any (fun w => (w.splitOn "A-len").length > 1)
      let b := ws.any (fun w => (w.splitOn "B-len").length > 1)
      ["DIVERGE dom model=whole-datagram-is-read"] ++
      (if a then [s!"FAIL C14 a long datagram ending in a server identifier that names another server was answered: {res}"] else []) ++
      (if b then [s!"FAIL C17 a long datagram ending in a request for the DNS servers was not answered with them: {res}"] else [])
    else ["DIVERGE dom model=serves", s!"FAIL C01 the Serve loop on long datagrams: {res}", s!"FAIL C16 the Serve loop on long datagrams: {res}"]
  | proto :: _k :: mode :: procs :: _ =>
    let tag := s!"br:serve.{proto}.{mode}.procs{if procs == "1" then "1" else "n"}"
    if res.startsWith "ok" then
      [tag] ++ (if (res.splitOn "n=0/").length > 1 then ["br:serve.nothing-answered"] else ["br:serve.answered"])
    else if res.startsWith "skip" then ["br:serve.skip", s!"DIVERGE drift serve engine could not run: {res}"]
    else if res.startsWith "differs" then
      [tag, "DIVERGE dom model=same-replies-as-one-at-a-time",
       s!"FAIL C16 a burst through the real Serve loop is answered differently from the same datagrams one at a time: {res}",
       (if proto == "sv6" then s!"FAIL C12 in a burst, DHCPv6 clients do not get their own replies: {res}"
        else s!"FAIL C11 in a burst, DHCPv4 clients do not get their own replies: {res}"),
       s!"FAIL C01 in a burst, datagrams are lost or answered wrongly: {res}"]
    else
      [tag, "DIVERGE dom model=serves", s!"FAIL C01 the Serve loop: {res}", s!"FAIL C16 the Serve loop: {res}"]
  | _ => ["DIVERGE drift unparsed-op"]

end Drv.Serve
