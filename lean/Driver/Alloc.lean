import Driver.Util
open CoreDhcp
namespace Drv.Alloc

inductive St
  | none
  | v6 (a : A6) (wf : Bool) (out : List Block)
  | v4 (a : A4) (out : List (BitVec 32))
  /-- a range too large for the list-based bitset of the model: judged by the monitors only -/
  | v4mon (s e : BitVec 32) (out : List (BitVec 32))

def fmtA6 : Except AErr Block → String
  | .ok b => s!"ok {addrHex b.base} {b.len} 128"
  | .error .noaddr => "err noaddr"
  | .error _ => "err other"

def fmtF6 : Except FErr Unit → String
  | .ok _ => "ok"
  | .error _ => "err"

def fmtA4 : A4Res → String
  | .ok ip => s!"ok {u32Hex ip} 32 32"
  | .noaddr => "err noaddr"
  | .panic => "PANIC"

def fmtF4 : F4Res → String
  | .ok => "ok"
  | _ => "err"

def verdictMsgs (v : Verdict) (what : String) : List String :=
  (if v.c04 then [] else [s!"FAIL C04 {what}"]) ++ (if v.c05 then [] else [s!"FAIL C05 {what}"]) ++
  (if v.c06 then [] else [s!"FAIL C06 {what}"]) ++ (if v.c07 then [] else [s!"FAIL C07 {what}"])

def parseA6Res (res : String) : Option (Except AErr Block) :=
  match words res with
  | ["ok", ip, ones, "128"] =>
    match (parseHex ip).bind addrOfBytes, ones.toNat? with
    | some a, some n => some (.ok ⟨a, n⟩)
    | _, _ => none
  | ["err", "noaddr"] => some (.error .noaddr)
  | ["err", "other"] => some (.error .bug)
  | _ => none

def step (st : St) (op res : String) : St × List String :=
  -- an operation that never came back (harness/alloc.go): the allocator blocks for ever, which no one-at-a-time order explains
  if res == "HANG" then
    (.none, ["br:alloc.hang", "DIVERGE dom model does not block",
             s!"FAIL C01 the allocator never returned from: {op} (a lock left held)",
             s!"FAIL C16 the allocator never returned from: {op} (a lock left held; no one-at-a-time order explains a call that does not return)"]) else
  if res == "SKIP after-hang" then (st, ["br:alloc.skip-after-hang"]) else
  match words op, st with
  | ["new6", base, poolLen, page], _ =>
    match (parseHex base).bind addrOfBytes, poolLen.toNat?, page.toNat? with
    | some b, some pl, some pg =>
      let p : Pool6 := ⟨b, pl, pg⟩
      if pg - pl > 24 then
        -- the model's bitset is a list: pools this large are executed but not modelled
        (.none, ["br:new6.too-big-for-driver"])
      else
      let wf := decide p.WF && (addrOfBytes ((parseHex base).getD [])).isSome
      match A6.new p with
      | .ok a =>
        (.v6 a wf [], "br:new6.ok" :: (if res == "ok" then [] else [s!"DIVERGE {if wf then "dom" else "drift"} model=ok"]))
      | .error e =>
        let m := match e with | .tooSmall => "err small" | .tooLarge => "err large"
        (.none, "br:new6.err" :: (if res == m then [] else [s!"DIVERGE dom model={m}"]))
    | _, _, _ => (.none, ["DIVERGE drift unparsed-op"])
  | ["alloc", ip, ones, bits], .v6 a wf out =>
    match parseHex ip, ones.toNat?, bits.toNat? with
    | some ipb, some ones, some bits =>
      let h : Hint6 := ⟨addrOfBytes ipb, ones, bits⟩
      let dom := if wf then "dom" else "drift"
      match parseA6Res res with
      | none => (.none, [s!"DIVERGE {dom} unexpected-result"] ++ (if wf then [s!"FAIL C05 Allocate returned {res}"] else []))
      | some obs =>
        -- the implementation's choice, recovered from the block it returned
        let choice : Option Nat := match obs with
          | .ok b => (match a.toIndex b.base with | .ok i => some i | .error _ => some a.bm.length)
          | .error _ => none
        let hinted := (a.hintIdx h).isSome
        let br := if hinted then "br:alloc6.hint-honoured" else
                  match obs with
                  | .ok _ => if h.ip.isSome && a.pool.contains (h.ip.getD default) then "br:alloc6.hint-taken" else
                             if h.ip.isSome then "br:alloc6.hint-outside" else "br:alloc6.free-step"
                  | .error _ => "br:alloc6.noaddr"
        let br2 := if a.reqSize h != a.pool.page then ["br:alloc6.longer-than-page"] else []
        let mon := Mon6.step a.pool out (.alloc h obs)
        let fails := if wf then verdictMsgs mon.2 s!"alloc {ip}/{ones} -> {res}" else []
        match a.allocate h choice with
        | none => (.v6 a wf mon.1, br :: br2 ++ [s!"DIVERGE {dom} inadmissible-choice {res}"] ++ fails)
        | some (a', r) =>
          let m := fmtA6 r
          (.v6 a' wf mon.1, br :: br2 ++ (if m == res then [] else [s!"DIVERGE {dom} model={m}"]) ++ fails)
    | _, _, _ => (st, ["DIVERGE drift unparsed-op"])
  | ["free", ip, ones, bits], .v6 a wf out =>
    match parseHex ip, ones.toNat?, bits.toNat? with
    | some ipb, some ones, some bits =>
      match addrOfBytes ipb with
      | some x =>
        let inDom := wf && bits == 128 && a.pool.page ≤ ones && ones ≤ 128
        let dom := if inDom then "dom" else "drift"
        let (a', r) := a.free x ones
        let m := fmtF6 r
        let res := if res.startsWith "err" then "err" else res
        let obs : Except FErr Unit := if res == "ok" then .ok () else .error .doubleFree
        let mon := Mon6.step a.pool out (.free x ones obs)
        let held := out.any (fun o => (freedPrefix x ones).within (a.pool.unit o))
        let br := if !inDom then "br:free6.outside-domain" else
                  if held then "br:free6.outstanding" else
                  if a.pool.contains (maskAddr x ones) then "br:free6.in-pool-not-held" else "br:free6.outside-pool"
        let fails := if inDom then verdictMsgs mon.2 s!"free {ip}/{ones} -> {res}" else []
        -- follow the implementation's outcome for the history, the model's for the state
        (.v6 a' wf mon.1, br :: (if m == res then [] else [s!"DIVERGE {dom} model={m}"]) ++ fails)
      | none => (st, ["br:free6.unmodelled-ip"])
    | _, _, _ => (st, ["DIVERGE drift unparsed-op"])
  | ["new4", s, e], _ =>
    match parseHex s, parseHex e with
    | some sb, some eb =>
      let big := match to4 sb, to4 eb with
        | some s, some e => decide (e.toNat - s.toNat > 2^24)
        | _, _ => false
      if big then
        match to4 sb, to4 eb with
        | some s, some e => (.v4mon s e [], ["br:new4.monitor-only"])
        | _, _ => (.none, [])
      else
      match A4.new (to4 sb) (to4 eb) with
      | .ok a => (.v4 a [], "br:new4.ok" :: (if res == "ok" then [] else ["DIVERGE dom model=ok"]))
      | .error er =>
        let m := match er with | .invalid => "err invalid" | .empty => "err empty"
        (.none, "br:new4.err" :: (if res == m then [] else [s!"DIVERGE dom model={m}"]))
    | _, _ => (.none, ["DIVERGE drift unparsed-op"])
  | ["alloc", ip, _, _], .v4 a out =>
    match parseHex ip with
    | some ipb =>
      let h := to4 ipb
      let obs : Option A4Res := match words res with
        | ["ok", x, "32", "32"] => ((parseHex x).bind (fun b => if b.length == 4 then to4 b else none)).map A4Res.ok
        | ["err", "noaddr"] => some .noaddr
        | "PANIC" :: _ => some .panic
        | _ => none
      match obs with
      | none => (.none, ["DIVERGE dom unexpected-result", s!"FAIL C05 Allocate returned {res}"])
      | some obs =>
        let choice : Option Nat := match obs with
          | .ok x => some (x - a.start).toNat
          | _ => none
        let hintOff : Option Nat := match a.toOffset h with | .ok o => some o | .error _ => none
        let br := match hintOff, obs with
          | some o, .ok _ => if !a.bm.test o then "br:alloc4.hint-honoured" else "br:alloc4.hint-taken"
          | none, .ok _ => if h.isSome then "br:alloc4.hint-outside" else "br:alloc4.no-hint"
          | _, _ => "br:alloc4.noaddr"
        let mon := Mon4.step a.start a.stop out (.alloc h obs)
        let fails := verdictMsgs mon.2 s!"alloc {ip} -> {res}"
        match a.allocate h choice with
        | none => (.v4 a mon.1, br :: [s!"DIVERGE dom inadmissible-choice {res}"] ++ fails)
        | some (a', r) =>
          let m := fmtA4 r
          let same := m == res || (m == "PANIC" && res.startsWith "PANIC")
          (.v4 a' mon.1, br :: (if same then [] else [s!"DIVERGE dom model={m}"]) ++ fails)
    | none => (st, ["DIVERGE drift unparsed-op"])
  | ["free", ip, _, _], .v4 a out =>
    match parseHex ip with
    | some ipb =>
      let x := to4 ipb
      let (a', r) := a.free x
      let m := fmtF4 r
      let res := if res.startsWith "err" then "err" else res
      let obs : F4Res := if res == "ok" then .ok else .doubleFree
      let mon := Mon4.step a.start a.stop out (.free x obs)
      let br := match r with | .ok => "br:free4.outstanding" | .doubleFree => "br:free4.not-held" | .notInRange => "br:free4.outside"
      (.v4 a' mon.1, br :: (if m == res then [] else [s!"DIVERGE dom model={m}"]) ++ verdictMsgs mon.2 s!"free {ip} -> {res}")
    | none => (st, ["DIVERGE drift unparsed-op"])
  | ["alloc", ip, _, _], .v4mon s e out =>
    let h := (parseHex ip).bind to4
    let obs : Option A4Res := match words res with
      | ["ok", x, "32", "32"] => ((parseHex x).bind (fun b => if b.length == 4 then to4 b else none)).map A4Res.ok
      | ["err", "noaddr"] => some .noaddr
      | "PANIC" :: _ => some .panic
      | _ => none
    match obs with
    | none => (.none, [s!"FAIL C05 Allocate returned {res}"])
    | some obs =>
      let mon := Mon4.step s e out (.alloc h obs)
      (.v4mon s e mon.1, "br:alloc4.monitor-only" :: verdictMsgs mon.2 s!"alloc {ip} -> {res}")
  | ["free", ip, _, _], .v4mon s e out =>
    let x := (parseHex ip).bind to4
    let obs : F4Res := if res == "ok" then .ok else .doubleFree
    let mon := Mon4.step s e out (.free x obs)
    (.v4mon s e mon.1, "br:free4.monitor-only" :: verdictMsgs mon.2 s!"free {ip} -> {res}")
  | ["acap6", _, poolLen, page], _ =>
    -- a pool filled to the brim outside the trace (harness/alloc.go): C05's capacity clause on the
    -- observation — exactly N = 2^(page - poolLen) allocations succeed, all different, in the pool,
    -- aligned, of the configured length; then 'no address available'; a freed block is handed out again
    match poolLen.toNat?, page.toNat? with
    | some pl, some pg =>
      let n := 2 ^ (pg - pl)
      let toks := words res
      let get (k : String) : String := ((toks.find? (·.startsWith (k ++ "="))).map (fun t => (t.drop (k.length + 1)).toString)).getD "?"
      let fails :=
        (if get "n" == toString n then [] else [s!"FAIL C05 a pool of {n} blocks satisfied {get "n"} allocations before refusing"]) ++
        (if get "bad" == "-" then [] else
          [s!"FAIL C05 large pool: {get "bad"}"] ++ (if (get "bad").startsWith "dup" then [s!"FAIL C04 large pool: {get "bad"}"] else [])) ++
        (if get "refusal" == "noaddr" then [] else [s!"FAIL C05 a full pool refuses with another error than 'no address available'"]) ++
        (if get "refill" == "ok" || get "refill" == "-" then [] else ["FAIL C06 large pool: a freed block was not handed out again (or the pool was not full afterwards)", "FAIL C05 large pool: a freed block was not handed out again (or the pool was not full afterwards)"])
      (st, "br:acap6" :: (if fails.isEmpty then [] else "DIVERGE dom model=exact-capacity" :: fails))
    | _, _ => (st, ["DIVERGE drift unparsed-op"])
  | "ahchurn" :: _, .none => (st, ["br:skipped.no-allocator"])
  | "ahchurn" :: _, _ =>
    -- k callers at once, each naming its own free block (neighbours in the bitmap) as a hint, taking it and freeing it: in every
    -- one-at-a-time order each hint names a free block and is answered with exactly that block (C07), and each Free is of an
    -- outstanding block and succeeds (C06)
    if res == "ok" || res == "full" then (st, ["br:ahchurn"])
    else (st, ["br:ahchurn", "DIVERGE dom model=hint-naming-a-free-block-is-honoured"] ++
              (if res.startsWith "hint" then [s!"FAIL C07 callers taking and freeing their own hinted blocks at once: {res}"] else
               if res.startsWith "free" then [s!"FAIL C06 callers taking and freeing their own hinted blocks at once: {res}"] else
               [s!"FAIL C01 callers taking and freeing their own hinted blocks at once: {res}"]) ++
              [s!"FAIL C16 callers taking and freeing their own hinted blocks at once (no one-at-a-time order does that): {res}"])
  | "achurn" :: _, .none => (st, ["br:skipped.no-allocator"])
  | "achurn" :: _, _ =>
    -- k callers at once, each taking a block and freeing its own (harness/alloc.go): in every one-at-a-time order no block is
    -- handed out while another caller holds it (C04) and every Free of an outstanding block succeeds (C06); all is freed again
    if res == "ok" then (st, ["br:achurn"])
    else (st, ["br:achurn", "DIVERGE dom model=no-block-handed-out-twice",
               s!"FAIL C04 callers allocating and freeing at once: {res}",
               s!"FAIL C16 callers allocating and freeing at once (no one-at-a-time order does that): {res}",
               s!"FAIL C06 callers allocating and freeing at once: {res}"])
  | "afrace" :: _, .none => (st, ["br:skipped.no-allocator"])
  | "afrace" :: _, _ =>
    -- one block handed out, then freed by k callers at once: exactly one Free succeeds (C06 for every schedule)
    if res == "ok" || res == "full" then (st, ["br:afrace"])
    else (st, ["br:afrace", "DIVERGE dom model=exactly-one-free-succeeds",
               s!"FAIL C06 concurrent Free of one outstanding block: {res}",
               s!"FAIL C16 concurrent Free of one outstanding block (no one-at-a-time order does that): {res}",
               s!"FAIL C04 concurrent Free of one outstanding block: {res}"])
  | "arace" :: _, .none => (st, ["br:skipped.no-allocator"])
  | "arace" :: _, _ =>
    -- rounds of callers naming the same block at once (harness/alloc.go): the blocks handed out in a
    -- round are pairwise different in every one-at-a-time order (C04 for every schedule), and all of
    -- them are freed again, so the state is as before
    if res == "ok" then (st, ["br:arace"])
    else if res.startsWith "dup" then
      (st, ["br:arace", "DIVERGE dom model=pairwise-different",
            s!"FAIL C04 concurrent callers were handed the same block without a Free in between: {res}",
            s!"FAIL C16 concurrent callers were handed the same block (no one-at-a-time order does that): {res}",
            s!"FAIL C07 concurrent callers were handed the same block: {res}"])
    else if res.startsWith "HANG" then
      (st, ["br:arace", "DIVERGE dom model=returns", "FAIL C01 concurrent Allocate calls never returned", "FAIL C16 concurrent Allocate calls never returned"])
    else (st, ["br:arace", s!"DIVERGE dom model=ok", s!"FAIL C06 a block handed out a moment ago could not be freed: {res}", s!"FAIL C16 a block handed out a moment ago could not be freed: {res}"])
  | _, .none => (st, ["br:skipped.no-allocator"])
  | _, _ => (st, ["DIVERGE drift unparsed-op"])

end Drv.Alloc
