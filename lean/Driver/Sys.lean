import Driver.Util
import Driver.Plug
import Driver.File
import Driver.Dispatch
import Driver.Prefix
open CoreDhcp
namespace Drv.SysE

/-- the chain configured so far; `known = false` once model and implementation disagreed about
a set-up (what the implementation serves is then not what the model would) -/
structure St where
  chain4 : List Sys.Elem4 := []
  chain6 : List Sys.Elem6 := []
  /-- state of the `range` plugin when it is in the chain (as the placeholder `.lease none`) -/
  range  : Option RState := none
  /-- state of the `prefix` plugin when it is in the chain (as the placeholder `.pd []`), whether its pool is
  well-formed, and what the observed replies told which client so far -/
  pfx    : Option PState := none
  pwf    : Bool := false
  held   : List Held := []
  /-- clients one of whose requests with IA_PDs went without a reply: `prefix` may have delegated blocks to them that no
  observed reply shows, so "answered from what it was told, and nothing else" (C09) cannot be judged for them any more -/
  tainted : List ClientKey := []
  known  : Bool := true
deriving Inhabited

def oobOf (s : String) : Option Nat := match s.toInt? with | some i => if i < 0 then none else some i.toNat | none => none

def b4 (s : String) : Option (List Nat) := (parseHex s).bind (fun b => if b.length == 4 then some b else none)

def parseReq4 : List String → Option Sys.Req4
  | [op, xid, htype, chaddr, flags, ci, gi, si, opts] =>
    match op.toNat?, (parseHex xid).map bytesToNat, htype.toNat?, parseHex chaddr, flags.toNat?, b4 ci, b4 gi, b4 si, Plug.parseOpts opts with
    | some op, some xid, some ht, some ch, some fl, some ci, some gi, some si, some opts => some ⟨op, xid, ht, ch, fl, ci, gi, si, opts⟩
    | _, _, _, _, _, _, _, _, _ => none
  | _ => none

def parseResp4 : List String → Option Sys.Resp4
  | [op, xid, htype, chaddr, flags, gi, yi, si, opts] =>
    match op.toNat?, (parseHex xid).map bytesToNat, htype.toNat?, parseHex chaddr, flags.toNat?, b4 gi, b4 yi, b4 si, Plug.parseOpts opts with
    | some op, some xid, some ht, some ch, some fl, some gi, some yi, some si, some opts => some ⟨op, xid, ht, ch, fl, gi, yi, si, opts⟩
    | _, _, _, _, _, _, _, _, _ => none
  | _ => none

/-- `send <peer> <port> <ifi> <l2> <resp: 9 fields> <hdr> <rt>` -/
def parseOut4 : List String → Option (Sys.Out4 × String × String)
  | ["drop"] => some (.drop, "0.0.00000000.-.-", "rt-ok")
  | "send" :: peer :: port :: ifi :: l2 :: rest =>
    match Dispatch.ip4 peer, port.toNat?, (if ifi == "-" then some none else ifi.toNat?.map some), rest with
    | some peer, some port, some ifi, [a, b, c, d, e, f, g, h, i, hdr, rt] =>
      (parseResp4 [a, b, c, d, e, f, g, h, i]).map (fun r => (.send r peer port ifi (l2 == "1"), hdr, rt))
    | _, _, _, _ => none
  | _ => none

def hexB (b : List Nat) : String := Plug.bytesHex b

def fmtResp4 (r : Sys.Resp4) : String :=
  s!"{r.op} {natHex r.xid 8} {r.htype} {hexB r.chaddr} {r.flags} {hexB r.giaddr} {hexB r.yiaddr} {hexB r.siaddr} {Plug.fmtOpts r.opts}"

def fmtOut4 : Sys.Out4 → String
  | .drop => "drop"
  | .panicNoIf => "send to the client's hardware address without an interface (nil dereference)"
  | .send r p port i l2 => s!"send {u32Hex p} {port} {match i with | some i => toString i | none => "-"} {if l2 then 1 else 0} {fmtResp4 r}"

/-- which parts of the reply differ: sent (answered or not), header, dest, opts -/
def diff4 (m o : Sys.Out4) : List String :=
  match m, o with
  | .send rm pm portm im l2m, .send ro po porto io l2o =>
    (if (rm.op, rm.xid, rm.htype, rm.chaddr, rm.flags, rm.giaddr) != (ro.op, ro.xid, ro.htype, ro.chaddr, ro.flags, ro.giaddr) then ["header"] else []) ++
    (if (rm.yiaddr, rm.siaddr) != (ro.yiaddr, ro.siaddr) then ["addr"] else []) ++
    (if rm.opts != ro.opts then "opts" :: ((rm.opts ++ ro.opts).map (·.1)).eraseDups.filterMap (fun c =>
        if Plug.lookup c rm.opts != Plug.lookup c ro.opts then some s!"o{c}" else none) else []) ++
    (if (pm, portm, im, l2m) != (po, porto, io, l2o) then ["dest"] else [])
  | .panicNoIf, .send _ _ _ none true => []      -- the capture hook returns before the dereference
  | a, b => if a == b then [] else ["sent"]

def stepDg4 (st : St) (chain : List Sys.Elem4) (bound oob : String) (res : String) : List String :=
  match (res.splitOn " ; ").map words with
  | [parsed, outW] =>
    match bound.toNat? with
    | none => ["DIVERGE drift unparsed-op"]
    | some bound =>
    let oob := oobOf oob
    let input : Option (Option Sys.Req4) := match parsed with
      | ["U"] => some none
      | "P" :: fields => (parseReq4 fields).map some
      | _ => none
    match input with
    | none => ["DIVERGE drift unparsed-view"]
    | some input =>
      let m := Sys.serve4 bound oob chain input
      let brs := (match input with
          | none => ["br:sys4.unparsable"]
          | some r => if r.op != 1 then ["br:sys4.not-bootrequest"] else
                      if Sys.mtOf r.opts != 1 && Sys.mtOf r.opts != 3 then ["br:sys4.other-type"] else ["br:sys4.request"]) ++
        (match m with
          | .drop => (match input.bind Sys.stub4 with | some _ => ["br:sys4.dropped-by-plugin"] | none => ["br:sys4.drop"])
          | .panicNoIf => ["br:sys4.l2-no-interface"]
          | .send r _ _ i l2 => [if l2 then "br:sys4.l2" else "br:sys4.routed", if i.isSome then "br:sys4.pinned" else "br:sys4.unpinned"] ++
              (if r.yiaddr != [0,0,0,0] then ["br:sys4.address-assigned"] else []) ++
              (if r.opts.length > 3 then ["br:sys4.options-added"] else [])) ++
        [s!"br:sys4.chain-len-{min chain.length 4}"]
      match outW with
      | "PANIC" :: _ | "HANG" :: _ | "CRASH" :: _ | ["SKIP", _] =>
        if outW.head? == some "SKIP" then ["br:sys.skip"] else
        if m == .panicNoIf then brs else
        brs ++ ["DIVERGE dom[sent] model does not panic", s!"FAIL C01 HandleMsg4 with the configured chain: {" ".intercalate outW}",
                s!"FAIL C19 HandleMsg4 with the configured chain: {" ".intercalate outW}"]
      | _ =>
      match parseOut4 outW with
      | none => brs ++ [s!"DIVERGE dom[sent] unparsed-result {Plug.short (" ".intercalate outW)}", s!"FAIL C01 HandleMsg4: {Plug.short (" ".intercalate outW)}"]
      | some (out, hdr, rt) =>
        let ain := input.map Sys.absReq4
        let aout := Sys.absOut4 out
        let f11 := if C11.holds ain aout then [] else [s!"FAIL C11 whole chain: {Plug.short res}"]
        let f15 := if C15.holds bound oob ain aout then [] else [s!"FAIL C15 whole chain: expected {(ain.bind (fun r => match aout with | .send resp _ _ _ _ => some (C15.expected bound oob r resp) | _ => none)).map (fun e => (u32Hex e.1, e.2.1, e.2.2.1, e.2.2.2))} got {Plug.short (" ".intercalate outW)}"]
        let frt := if rt == "rt-ok" then [] else [s!"FAIL C19 the reply of the whole chain does not survive the wire: {rt}"]
        let fhdr := if hdr == "0.0.00000000.-.-" then [] else [s!"DIVERGE dom[header] reply header fields hops.secs.ciaddr.sname.file = {hdr}"]
        if !st.known then brs ++ f11 ++ f15 ++ frt ++ ["br:sys.chain-unknown"] else
        let d := diff4 m out
        -- SYS_C14_drop4 on the observation: `server_id` first in the chain and the request names another server
        let f14 := match chain, input with
          | .plug (.serverid c) :: _, some req =>
            if C14.namesOther4 c (Sys.viewReq4 req) && out != .drop then
              [s!"FAIL C14 whole chain (server_id first): a request naming another server was answered: {Plug.short res}"] else []
          | _, _ => []
        -- SYS_file_address4 on the observation: only plugins that never end the chain before `file`, client listed
        let f10 := match chain.span (fun e => Sys.neverStops4 e || Sys.isLease e), input with
          | (pre, .file t :: _), some req =>
            match t.get req.chaddr, Sys.stub4 req, out with
            | some (.v4 a), some _, .send r _ _ _ _ => if r.yiaddr == Sys.be4 a then [] else [s!"FAIL C10 whole chain: listed client answered with {hexB r.yiaddr}, the lease file says {u32Hex a}"]
            | some (.v4 a), some _, _ =>
              -- `range` before `file` may have run out of addresses: then nothing is sent (SYS_file_address4_lease speaks of sent replies)
              if pre.any Sys.isLease then [] else [s!"FAIL C10 whole chain: listed client ({u32Hex a}) not answered"]
            | _, _, _ => []
          | _, _ => []
        -- SYS_C14_stamped4 on the observation: `server_id` first (and only once): every reply carries its address in option 54 and siaddr
        let f14s := match chain, out with
          | .plug (.serverid c) :: rest, .send r _ _ _ _ =>
            if rest.all (fun e => !Sys.isServerId4 e) && !(Plug.lookup 54 r.opts == some c && r.siaddr == c) then
              [s!"FAIL C14 whole chain (server_id first): the reply carries option 54 = {(Plug.lookup 54 r.opts).map hexB} and siaddr = {hexB r.siaddr}, this server is {hexB c}"] else []
          | _, _ => []
        -- SYS_C02_lease4 / SYS_C02_addr4 on the observation: `range` reached (only never-stopping plugins before it): a reply that is
        -- sent carries the lease time `range` is configured with, and (no `file` behind it) an address of its range
        let f02 := match chain.span Sys.neverStops4, st.range, out with
          | (_, .lease _ :: post), some rs, .send r _ _ _ _ =>
            (if post.all (fun e => !Sys.isLease e) && Plug.lookup 51 r.opts != some (Plug.be 4 (leaseOpt rs.lease)) then
              [s!"FAIL C02 whole chain: the reply carries lease time {(Plug.lookup 51 r.opts).map hexB}, range is configured with {leaseOpt rs.lease} s"] else []) ++
            (if post.all (fun e => match e with | .file _ => false | .lease _ => false | _ => true) &&
                !(decide (rs.alloc.start.toNat ≤ bytesToNat r.yiaddr) && decide (bytesToNat r.yiaddr ≤ rs.alloc.stop.toNat)) then
              [s!"FAIL C02 whole chain: the reply carries address {hexB r.yiaddr}, outside the configured range"] else [])
          | _, _, _ => []
        let f14 := f14 ++ f14s ++ f02
        let f13 : List String := []
        let f14 := f14 ++ f10
        brs ++ (if d.isEmpty then [] else [s!"DIVERGE dom[{",".intercalate d}] model={Plug.short (fmtOut4 m)}"]) ++ f11 ++ f15 ++ frt ++ fhdr ++ f14 ++ f13
  | _ => ["DIVERGE drift unparsed-result"]

/-! DHCPv6 -/

def addr16 (s : String) : Option Addr := (parseHex s).bind addrOfBytes

partial def parseTree : List String → List Layer6 → Option (List Layer6 × Option Sys.Msg6)
  | "L" :: t :: link :: peer :: iid :: rid :: rest, acc =>
    match t.toNat?, addr16 link, addr16 peer, Dispatch.optBytes iid, Dispatch.optBytes rid with
    | some t, some l, some p, some i, some r => parseTree rest (acc ++ [⟨t, l, p, i, r⟩])
    | _, _, _, _, _ => none
  | ["NOINNER"], acc => some (acc, none)
  | ["M", mt, xid, opts], acc =>
    match mt.toNat?, (parseHex xid).map bytesToNat, Plug.parseOpts opts with
    | some mt, some xid, some opts => some (acc, some ⟨mt, xid, opts⟩)
    | _, _, _ => none
  | _, _ => none

/-- `send <ifi> <peer> <port> <tree> <rt>`: also where the datagram was sent -/
def parseOut6 : List String → Option (Sys.Out6 × String × String × String)
  | ["drop"] => some (.drop, "rt-ok", "-", "-")
  | "send" :: ifi :: peer :: port :: rest =>
    match (if ifi == "-" then some none else ifi.toNat?.map some), rest.reverse with
    | some ifi, rt :: treeRev =>
      match parseTree treeRev.reverse [] with
      | some (ls, some m) => some (.send ls ⟨m.mt, m.xid, m.opts⟩ ifi, rt, peer, port)
      | _ => none
    | _, _ => none
  | _ => none

def fmtOut6 : Sys.Out6 → String
  | .drop => "drop"
  | .send ls r i => s!"send if={i} layers={ls.length} mt={r.mt} xid={natHex r.xid 6} opts={Plug.fmtOpts r.opts}"

def diff6 (m o : Sys.Out6) : List String :=
  match m, o with
  | .send lm rm im, .send lo ro io =>
    (if (rm.mt, rm.xid) != (ro.mt, ro.xid) then ["header"] else []) ++
    (let is25 := fun (o : Nat × List Nat) => o.1 == 25
     if rm.opts.filter is25 != ro.opts.filter is25 then ["pd"] else []) ++
    (let not25 := fun (o : Nat × List Nat) => !(o.1 == 25)
     if rm.opts.filter not25 != ro.opts.filter not25 then ["opts"]
     else if rm.opts != ro.opts && rm.opts.filter (fun o => o.1 == 25) == ro.opts.filter (fun o => o.1 == 25) then ["opts"] else []) ++
    (if lm != lo then ["relay"] else []) ++
    (if im != io then ["dest"] else [])
  | a, b => if a == b then [] else ["sent"]

/-- the request as the library parsed it: `U`, or `P <mac> <tree>` -/
def parseIn6 (parsed : List String) : Option (Option Sys.Pkt6) :=
  match parsed with
  | ["U"] => some none
  | "P" :: mac :: tree =>
    let mac : Option (Option (List Nat)) := if mac == "-" then some none else if mac == "e" then some (some []) else (parseHex mac).map some
    match mac, parseTree tree [] with
    | some mac, some (ls, m) => some (some ⟨ls, m, mac⟩)
    | _, _ => none
  | _ => none

/-- lifetimes are read off the wall clock: a fresh or renewed lease has 3600 s less the time the
handler took (the harness gives up after 8 s) -/
def canonLife (n : Nat) : Nat := if 3592 ≤ n ∧ n ≤ 3600 then 3600 else n

/-- an IA_PD option in canonical wire form (IAID, T1 = T2 = 0, IAPrefix sub-options with preferred =
valid, or the bare NoPrefixAvail status) with its lifetimes canonicalised; anything else is left as it is -/
def canonPd (o : Nat × List Nat) : Nat × List Nat :=
  if o.1 != 25 then o else
  match Sys.decIAPD o.2 with
  | some a => if Sys.encIAPD a == o.2 then (25, Sys.encIAPD { a with pfxs := a.pfxs.map (fun p => (p.1, canonLife p.2)) }) else o
  | none => o

def canonOut6 : Sys.Out6 → Sys.Out6
  | .send ls r i => .send ls { r with opts := r.opts.map canonPd } i
  | o => o

/-- the IA_PDs of the request as the library hands them to `prefix`:
`k { iapd <iaid> <h> { hint e | hint p <ip> <ones> <bits> } }` -/
partial def parseIAPDs6 : Nat → List String → Option (List IAPDReq)
  | 0, [] => some []
  | 0, _ => none
  | k+1, "iapd" :: iaid :: nh :: rest =>
    match (parseHex iaid).map bytesToNat, nh.toNat? with
    | some iaid, some nh =>
      let rec hints : Nat → List String → Option (List HintP × List String)
        | 0, r => some ([], r)
        | n+1, "hint" :: "e" :: r => (hints n r).map (fun (hs, r') => (HintP.empty :: hs, r'))
        | n+1, "hint" :: "p" :: ip :: ones :: bits :: r =>
          match parseHex ip, ones.toNat?, bits.toNat? with
          | some ipb, some ones, some bits =>
            match addrOfBytes ipb with
            | some a =>
              let h : HintP := if bits == 0 then .nomask a (isV4Mapped ipb) else .pfx a (isV4Mapped ipb) ones
              (hints n r).map (fun (hs, r') => (h :: hs, r'))
            | none => none
          | _, _, _ => none
        | _, _ => none
      match hints nh rest with
      | some (hs, rest') => (parseIAPDs6 k rest').map (fun qs => ⟨iaid, hs⟩ :: qs)
      | none => none
    | _, _ => none
  | _, _ => none

/-- `PState.handleMsg` with the allocator policy of the code (`NextClear(0)`): used when a reply was not sent, so that
the blocks `prefix` took cannot be read off it. Same loops as `PState.handleIAPD`; each `Allocate` is offered the first fit. -/
def handleMsgFF (s : PState) (c : ClientKey) (now : Int) : List IAPDReq → PState
  | [] => s
  | iapd :: rest =>
    let hints := if iapd.hints.isEmpty then [HintP.empty] else iapd.hints
    let known := s.leasesOf c
    let st0 : LoopSt := ⟨s.alloc, known.map (fun l => (l, false)), hints.map (fun h => (h, false)), [], false⟩
    let st2 := loop2 now (loop1 now st0)
    let st3 := st2.hs.foldl (fun (st : LoopSt) q =>
      match loop3Step now (some (st, [st.alloc.firstFit])) q with
      | some (st', _) => st'
      | none => st) st2
    let recs' := if st3.fresh || !known.isEmpty then s.put c (st3.ls.map (·.1)) else s.recs
    handleMsgFF ⟨st3.alloc, recs'⟩ c now rest

def stepDg6 (st : St) (chain6 : List Sys.Elem6) (bound oob src : String) (res : String) : List String :=
  match ((res.splitOn " ; ").map words).take 2 with
  | [parsed, outW] =>
    match bound.toNat?, addr16 src with
    | none, _ | _, none => ["DIVERGE drift unparsed-op"]
    | some bound, some src =>
    let oob := oobOf oob
    let input : Option (Option Sys.Pkt6) := parseIn6 parsed
    match input with
    | none => ["DIVERGE drift unparsed-view"]
    | some input =>
      let m := Sys.serve6 bound oob src chain6 input
      let brs := (match input with
          | none => ["br:sys6.unparsable"]
          | some d => [if d.layers.isEmpty then "br:sys6.direct" else "br:sys6.relayed"] ++
                      (match d.msg with | none => ["br:sys6.no-inner"] | some mm => if (Sys.stub6 mm).isSome then ["br:sys6.supported"] else ["br:sys6.unsupported"])) ++
        (match m with
          | .drop => (match input.bind (fun d => d.msg.bind Sys.stub6) with | some _ => ["br:sys6.dropped-after-stub"] | none => ["br:sys6.drop"])
          | .send _ r i => [if i.isSome then "br:sys6.pinned" else "br:sys6.unpinned"] ++ (if r.opts.length > 1 then ["br:sys6.options-added"] else []) ++
              (if r.opts.any (·.1 == 3) then ["br:sys6.address-assigned"] else [])) ++
        [s!"br:sys6.chain-len-{min chain6.length 4}"]
      match outW with
      | "PANIC" :: _ | "HANG" :: _ | "CRASH" :: _ | ["SKIP", _] =>
        if outW.head? == some "SKIP" then ["br:sys.skip"] else
        brs ++ ["DIVERGE dom[sent] model does not panic", s!"FAIL C01 HandleMsg6 with the configured chain: {" ".intercalate outW}",
                s!"FAIL C19 HandleMsg6 with the configured chain: {" ".intercalate outW}"]
      | _ =>
      match parseOut6 outW with
      | none => brs ++ [s!"DIVERGE dom[sent] unparsed-result {Plug.short (" ".intercalate outW)}", s!"FAIL C01 HandleMsg6: {Plug.short (" ".intercalate outW)}"]
      | some (out, rt, peer, port) =>
        let f12 := (if C12.holds bound oob src (input.map Sys.absPkt6) (Sys.absOut6 out) then [] else [s!"FAIL C12 whole chain: {Plug.short res}"]) ++
          (if out == .drop || (addr16 peer == some src && port == "546") then [] else
            [s!"FAIL C12 whole chain: reply sent to {peer} port {port}, the datagram came from {addrHex src} port 546"])
        let frt := if rt == "rt-ok" then [] else [s!"FAIL C19 the reply of the whole chain does not survive the wire: {rt}"]
        if !st.known then brs ++ f12 ++ frt ++ ["br:sys.chain-unknown"] else
        let d := diff6 m (canonOut6 out)
        -- SYS_C14_drop6 on the observation
        let f14 := match chain6, input with
          | .plug (.serverid c) :: _, some dd =>
            (match dd.msg with
             | some mm => if C14.mustDiscard6 mm.mt (C14.rel6 c ⟨dd.layers.length, mm.mt, mm.opts⟩) && out != .drop then
                 [s!"FAIL C14 whole chain (server_id first): a message the Server-ID rules discard was answered: {Plug.short res}"] else []
             | none => [])
          | _, _ => []
        -- SYS_C14_stamped6 on the observation: `server_id` first (and only once): every reply carries exactly one Server Identifier, this server's
        let f14s := match chain6, out with
          | .plug (.serverid c) :: rest, .send _ r _ =>
            if rest.all (fun e => match e with | .plug (.serverid _) => false | _ => true) && r.opts.filter (fun o => o.1 == 2) != [(2, c)] then
              [s!"FAIL C14 whole chain (server_id first): the reply carries Server Identifier options {(r.opts.filter (fun o => o.1 == 2)).map (fun o => hexB o.2)}, this server's DUID is {hexB c}"] else []
          | _, _ => []
        let f13 : List String := []
        brs ++ (if d.isEmpty then [] else [s!"DIVERGE dom[{",".intercalate d}] model={Plug.short (fmtOut6 m)}"]) ++ f12 ++ frt ++ f14 ++ f14s ++ f13
  | _ => ["DIVERGE drift unparsed-result"]

def stepCore (st : St) (op res : String) : St × List String :=
  match words op with
  | ["sreset"] => ({}, ["br:sys.fresh-process"])
  | "sadd" :: proto :: name :: _k :: args =>
    if res == "SKIP after-hang" then (st, ["br:sys.skip"]) else
    let (ps, msgs) := Plug.stepCfg proto name args res
    -- the implementation appended a handler iff its set-up returned one
    if !ps.implOk then (st, msgs) else
    match ps.cfg with
    | some (.v4 c) => ({ st with chain4 := st.chain4 ++ [.plug c] }, msgs)
    | some (.v6 c) => ({ st with chain6 := st.chain6 ++ [.plug c] }, msgs)
    | none => ({ st with known := false }, msgs)
  | ["sfile", proto, _] =>
    if res == "SKIP after-hang" then (st, ["br:sys.skip"]) else
    match (res.splitOn " ; ").map words with
    | [[orc], [r]] =>
      match File.parseLines orc with
      | none => (st, ["DIVERGE drift unparsed-oracle"])
      | some lines =>
        let v6 := proto == "6"
        match loadFile v6 lines [], r == "ok" with
        | some t, true => ((if v6 then { st with chain6 := st.chain6 ++ [.file t] } else { st with chain4 := st.chain4 ++ [.file t] }), ["br:sys.file-ok"])
        | none, false => (st, ["br:sys.file-rejected"])
        | some _, false => (st, ["DIVERGE dom[sent] model=ok", "FAIL C10 a well-formed lease file was rejected at set-up"])
        | none, true => ({ st with known := false }, ["DIVERGE dom[sent] model=err", "FAIL C10 a malformed lease file was accepted at set-up"])
    | _ => (st, ["DIVERGE drift unparsed-result"])
  | ["srange", s, e, lease] =>
    if res == "SKIP after-hang" then (st, ["br:sys.skip"]) else
    match Dispatch.ip4 s, Dispatch.ip4 e, lease.toInt? with
    | some s, some e, some l =>
      match RState.setup s e (keptLease l) [] some id, res == "ok" with
      | .ok m, true => ({ st with chain4 := st.chain4 ++ [.lease none], range := some m }, ["br:sys.range-ok"])
      | .error _, false => (st, ["br:sys.range-rejected"])
      | .ok _, false => (st, ["DIVERGE dom[sent] model=ok"])
      | .error _, true => ({ st with known := false }, ["DIVERGE dom[sent] model=err"])
    | _, _, _ => (st, ["DIVERGE drift unparsed-op"])
  | ["sdg4", bound, oob, _] =>
    -- what `range` answers this client in its present state (first-fit allocator, as the code's)
    let reqOf : Option Sys.Req4 := match (res.splitOn " ; ").map words with
      | ("P" :: fields) :: _ => parseReq4 fields
      | _ => none
    match st.range, reqOf with
    | some rs, some req =>
      match rs.handle req.chaddr 0 rs.alloc.firstFit with
      | none => (st, ["DIVERGE drift range model refuses first fit"])
      | some (rs', rr) =>
        let out : Option (BitVec 32 × Nat) := match rr with | .reply ip o => some (ip, o) | _ => none
        let chain := st.chain4.map (fun e => match e with | .lease _ => Sys.Elem4.lease out | e => e)
        -- `range` ran iff its position is in the invocation log of the model's chain
        let pos := (st.chain4.findIdx? (fun e => match e with | .lease _ => true | _ => false)).getD 0
        let reached := match Sys.stub4 req with
          | some r0 => ((runChain (chain.map Sys.handle4) req 0 (some r0)).2.any (fun p => p.1 == pos))
          | none => false
        let msgs := stepDg4 st chain bound oob res
        ({ st with range := some (if reached then rs' else rs) },
         msgs ++ (if reached then [match rr with | .reply _ _ => (if (lookupRec rs.recs req.chaddr).isSome then "br:sys.range-known" else "br:sys.range-new") | _ => "br:sys.range-exhausted"] else ["br:sys.range-not-reached"]))
    | _, _ => (st, stepDg4 st st.chain4 bound oob res)
  | ["sprefix", a, b] =>
    if res == "SKIP after-hang" then (st, ["br:sys.skip"]) else
    -- the set-up rule is the one of the prefix engine (Driver/Prefix.lean, `psetup`)
    let (ps, msgs) := Prefix.step {} s!"psetup {a} {b}" res
    let msgs := msgs.map (fun m => if m.startsWith "DIVERGE dom " then "DIVERGE dom[pd] " ++ (m.drop 12).toString else m)
    let implOk := (words res).getLast? == some "ok"
    match ps.s, implOk with
    | some s, true => ({ st with chain6 := st.chain6 ++ [.pd []], pfx := some s, pwf := ps.wf, held := [], tainted := [] }, msgs ++ ["br:sys.prefix-ok"])
    | none, false => (st, msgs ++ ["br:sys.prefix-rejected"])
    | some _, false => (st, msgs)
    | none, true => ({ st with known := false, chain6 := st.chain6 ++ [.pd []] }, msgs)
  | ["sdg6", bound, oob, src, _] =>
    match st.pfx with
    | none => (st, stepDg6 st st.chain6 bound oob src res)
    | some ps =>
      let secs := (res.splitOn " ; ").map words
      let pdReq : Option (List IAPDReq) := match secs.getD 2 [] with
        | ["pd", "-"] => some []           -- no inner message: nothing reaches the handlers
        | "pd" :: k :: rest => k.toNat?.bind (fun k => parseIAPDs6 k rest)
        | _ => none
      match parseIn6 (secs.getD 0 []), pdReq with
      | some (some d), some iapds =>
        let cl : Option ClientKey := d.msg.bind (fun m => Plug.lookup 1 m.opts)
        -- what the reply that was sent says (canonical lifetimes), as a client decodes it
        let sentOpts : Option (List (Nat × List Nat)) := match parseOut6 (secs.getD 1 []) with
          | some (.send _ r _, _, _, _) => some ((r.opts.map canonPd).filter (fun o => o.1 == 25))
          | _ => none
        let obs : List Sys.PdAns := (sentOpts.getD []).filterMap (fun o => Sys.decIAPD o.2)
        let obsRs : List IAPDResp := obs.map (fun a => ⟨bytesToNat a.iaid, a.pfxs.map (fun p => (p.1, (p.2 : Int) * 1000000000))⟩)
        -- choices: the blocks in the reply that the client did not hold, in order (as the prefix engine does)
        let known := (ps.leasesOf (cl.getD [])).map (·.pfx)
        let fresh := ((obs.flatMap (fun a => a.pfxs.map (·.1))).filter (fun b => !(known.contains b))).eraseDups
        let freshIdx := fresh.map (fun b => match ps.alloc.toIndex b.base with | .ok i => some i | .error _ => some ps.alloc.bm.length)
        let nh := (iapds.map (fun q => q.hints.length + 1)).foldl (· + ·) 0
        -- monitors on the observation: C08/C09 of Spec/Prefix.lean on what the wire carries. Evaluated when the reply has
        -- IA_PDs, or must have them by SYS_pd_delivered6 (before `prefix` only plugins that never end the chain)
        let pre := st.chain6.takeWhile (fun e => !Sys.isPd e)
        let must := pre.all Sys.neverStops6
        let (held', fmon) : List Held × List String :=
          match sentOpts with
          | some so =>
            if st.pwf && st.known && (must || !so.isEmpty) && cl.isSome then
              let mon := PMon.step ps.alloc.pool st.held ⟨cl, iapds, 0, 0, some obsRs⟩
              (mon.1,
               (if mon.2.c08 && so.length == obs.length then [] else [s!"FAIL C08 whole chain: the reply that was sent does not answer the IA_PDs of the request as C08 demands: {Plug.short res}"]) ++
               (if mon.2.c09 || st.tainted.contains (cl.getD []) then [] else [s!"FAIL C09 whole chain: the reply that was sent does not return what the client holds: {Plug.short res} ; held={(heldOf st.held (cl.getD [])).map (fun h => (addrHex h.pfx.base, h.pfx.len))}"]))
            else (st.held, [])
          | none => (st.held, [])
        -- `prefix` runs iff its position is in the invocation log of the model's chain (what it answers plays no part in that)
        let pos := (st.chain6.findIdx? Sys.isPd).getD 0
        let reached := match d.msg.bind Sys.stub6 with
          | some r0 => ((runChain (st.chain6.map Sys.handle6) d 0 (some r0)).2.any (fun p => p.1 == pos))
          | none => false
        let st := match cl, sentOpts with
          | some c, none => if iapds.isEmpty || st.tainted.contains c then st else { st with tainted := c :: st.tainted }
          | _, _ => st
        if !reached then ({ st with held := held' }, stepDg6 st st.chain6 bound oob src res ++ ["br:sys.pd-not-reached"] ++ fmon) else
        -- nothing was sent (an element after `prefix` discarded the message): what `prefix` did is not observable
        if sentOpts.isNone then
          let ps' := match cl with | some c => handleMsgFF ps c 0 iapds | none => ps
          ({ st with pfx := some ps', held := held' }, stepDg6 st st.chain6 bound oob src res ++ ["br:sys.pd-reply-discarded"]) else
        match ps.handleMsg cl iapds 0 (freshIdx ++ List.replicate nh none) with
        | none =>
          ({ st with known := false, held := held' }, stepDg6 st st.chain6 bound oob src res ++ ["br:sys.pd-request", "DIVERGE dom[pd] inadmissible-choice"] ++ fmon)
        | some (ps', mr, _) =>
          let out : List Sys.PdAns := match mr with | some rs => Sys.pdOf rs | none => []
          let chain := st.chain6.map (fun e => match e with | .pd _ => Sys.Elem6.pd out | e => e)
          let msgs := stepDg6 st chain bound oob src res
          let brs :=
            (if iapds.isEmpty then ["br:sys.pd-no-iapd"] else ["br:sys.pd-request"]) ++
            (if out.any (fun a => a.pfxs.isEmpty) then ["br:sys.pd-noprefixavail"] else []) ++
            (if !fresh.isEmpty then ["br:sys.pd-new-lease"] else []) ++
            (if !known.isEmpty && !iapds.isEmpty then ["br:sys.pd-known-client"] else []) ++
            (if iapds.length > 1 then ["br:sys.pd-multi-iapd"] else [])
          ({ st with pfx := some ps', held := held' }, msgs ++ brs ++ fmon)
      | some none, _ => (st, stepDg6 st st.chain6 bound oob src res)
      | _, _ => (st, stepDg6 st st.chain6 bound oob src res ++ ["DIVERGE drift unparsed-pd-view"])
  | _ => (st, ["DIVERGE drift unparsed-op"])

/-- A trailing section ` ; nns i j …` of a datagram's result lists the positions in the chain of the handlers that returned
a nil response WITHOUT stop (harness/sys.go wraps every handler of the real chain). C13's last sentence: built-in handlers
only ever return a nil response together with stop. Judged on the observation alone; the rest of the line goes to the model. -/
def step (st : St) (op res : String) : St × List String :=
  match res.splitOn " ; nns " with
  | [body, poss] =>
    let (st', msgs) := stepCore st op body
    (st', msgs ++ [s!"FAIL C13 the built-in handler(s) at position {poss} of the chain returned a nil response without stop; the next handler is handed nil ({Plug.short op})"])
  | _ => stepCore st op res

end Drv.SysE
