import Driver.Util
open CoreDhcp
namespace Drv.IPCalc

def fmtOff : Except CalcErr (BitVec 64) → String
  | .ok v => s!"ok {v.toNat}"
  | .error .overflow => "err overflow"
  | .error .prefixRange => "err range"
  | .error .need128 => "err need128"

def fmtAdd : Except CalcErr Addr → String
  | .ok a => s!"ok {addrHex a}"
  | .error .overflow => "err overflow"
  | .error .prefixRange => "err range"
  | .error .need128 => "err need128"

/-- one trace line; messages: "br:<id>" branch marks, "DIVERGE dom|drift …", "FAIL C20 …" -/
def step (op res : String) : List String :=
  match words op with
  | ["offset", a, b, p] =>
    match (parseHex a).bind addrOfBytes, (parseHex b).bind addrOfBytes, p.toInt? with
    | some a, some b, some p =>
      let m := fmtOff (offset a b p)
      let dom := offsetInDomain a b p
      let br := if !dom then "br:offset.outside" else
                if a == b then "br:offset.equal" else
                if p ≤ 64 then "br:offset.high" else
                if m == "err overflow" then "br:offset.low.overflow" else "br:offset.low"
      let d := if m == res then [] else [s!"DIVERGE {if dom then "dom" else "drift"} model={m}"]
      let f := if dom then
                 let s := fmtOff (offsetSpec a b p.toNat)
                 if s == res then [] else [s!"FAIL C20 Offset: spec={s}"]
               else []
      br :: d ++ f
    | _, _, _ => ["br:offset.unmodelled"]
  | ["addpfx", ip, n, u] =>
    match (parseHex ip).bind addrOfBytes, n.toNat?, u.toNat? with
    | some ip, some n, some u =>
      -- unit > 128 is outside every theorem's domain (and `128 - unit` wraps to a shift count the
      -- compiled model cannot evaluate): executed on the implementation, not modelled
      if u > 128 then ["br:addpfx.outside"] else
      let m := fmtAdd (addPrefixes ip (BitVec.ofNat 64 n) (BitVec.ofNat 64 u))
      let dom := u ≤ 128
      let br := if !dom then "br:addpfx.outside" else
                if n == 0 then "br:addpfx.zero" else
                if u ≤ 64 then (if m == "err overflow" then "br:addpfx.high.overflow" else "br:addpfx.high")
                else (if m == "err overflow" then "br:addpfx.low.overflow" else "br:addpfx.low")
      let d := if m == res then [] else [s!"DIVERGE {if dom then "dom" else "drift"} model={m}"]
      let f := if dom then
                 let s := fmtAdd (addPrefixesSpec ip n u)
                 let inv := -- inverse law, judged on the implementation's own answer
                   match (words res) with
                   | ["ok", y] =>
                     match (parseHex y).bind addrOfBytes with
                     | some y => if n == 0 then true else fmtOff (offsetSpec y ip u) == s!"ok {n}"
                     | none => false
                   | _ => true
                 (if s == res then [] else [s!"FAIL C20 AddPrefixes: spec={s}"]) ++
                 (if inv then [] else ["FAIL C20 inverse: Offset(AddPrefixes(base,n,p),base,p) ≠ n"])
               else []
      br :: d ++ f
    | _, _, _ => ["br:addpfx.unmodelled"]
  | _ => ["DIVERGE drift unparsed-op"]

end Drv.IPCalc
