import Driver.Util
import CoreDhcp.Model.BitsWords
open CoreDhcp
namespace Drv.BitsE

/-- both models side by side: the word-level one and the list one -/
structure St where
  w : WBits := WBits.new 0
  l : Bits := Bits.new 0

def fmtNC : Option Nat → String
  | some i => s!"{i} true"
  | none => "0 false"

def cmp (what : String) (m res : String) : List String :=
  if m == res then [] else [s!"DIVERGE dom {what} model={m}"]

/-- one trace line -/
def step (st : St) (op res : String) : St × List String :=
  match words op with
  | [o, a] =>
    match a.toNat? with
    | none => (st, ["DIVERGE drift unparsed-op"])
    | some i =>
      let wb := if i % 64 == 63 || i % 64 == 0 then ["br:bits.word-boundary"] else []
      let beyond := if i ≥ st.w.length then ["br:bits.beyond-length"] else []
      match o with
      | "new" =>
        let w := WBits.new i
        let l := Bits.new i
        let tail := if i == 0 then ["br:bits.new.empty"] else
                    if i % 64 == 0 then ["br:bits.new.whole-words"] else ["br:bits.new.partial-word"]
        (⟨w, l⟩, "br:bits.new" :: tail ++
          cmp "words" s!"len {w.length} words {w.words.length}" res ++
          cmp "list" s!"len {l.length}" ((res.splitOn " words").headD ""))
      | "set" =>
        let w := st.w.set i
        let l := st.l.set i
        let ext := if i ≥ st.w.length then
                     (if w.words.length > st.w.words.length then ["br:bits.set.extend-words"]
                      else ["br:bits.set.extend-in-word"])
                   else ["br:bits.set.inside"]
        (⟨w, l⟩, "br:bits.set" :: ext ++ wb ++
          cmp "words" s!"len {w.length} words {w.words.length}" res ++
          cmp "list" s!"len {l.length}" ((res.splitOn " words").headD ""))
      | "clear" =>
        let w := st.w.clear i
        let l := st.l.clear i
        (⟨w, l⟩, "br:bits.clear" :: beyond ++ wb ++
          cmp "words" s!"len {w.length} words {w.words.length}" res ++
          cmp "list" s!"len {l.length}" ((res.splitOn " words").headD ""))
      | "test" =>
        (st, "br:bits.test" :: beyond ++ wb ++
          cmp "words" (toString (st.w.test i)) res ++ cmp "list" (toString (st.l.test i)) res)
      | "nextclear" =>
        let mw := st.w.nextClear i
        let ml := st.l.nextClearFrom i
        let kind := match ml with
          | none => if st.l.length == 0 then "br:bits.nextclear.empty"
                    else if st.l.full then "br:bits.nextclear.full" else "br:bits.nextclear.none-after"
          | some j => if j / 64 == i / 64 then "br:bits.nextclear.first-word" else "br:bits.nextclear.later-word"
        let zero := if i == 0 then
                      cmp "list0" (fmtNC st.l.nextClear) res
                    else []
        (st, "br:bits.nextclear" :: kind :: beyond ++ wb ++
          cmp "words" (fmtNC mw) res ++ cmp "list" (fmtNC ml) res ++ zero)
      | "len" =>
        (st, "br:bits.len" :: cmp "words" (toString st.w.len) res ++ cmp "list" (toString st.l.length) res)
      | _ => (st, ["DIVERGE drift unparsed-op"])
  | _ => (st, ["DIVERGE drift unparsed-op"])

end Drv.BitsE
