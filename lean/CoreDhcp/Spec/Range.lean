/-
What C02 and C03 mean, as history monitors over the observable events of the range plugin:
requests with their replies, and restarts on the lease database (crash points).
`bound` — the client → address bindings handed out so far — is computed from replies alone.
-/
import CoreDhcp.Model.Range
namespace CoreDhcp

inductive REv
  /-- a DISCOVER/REQUEST from `mac` handled at time `now`, its outcome, and the rows of the
  lease table stored for `mac` right after it -/
  | req (mac : Mac) (now : Int) (r : RReply) (stored : List Row)
  /-- the plugin was restarted on (a copy of) the lease database at this point; `served` is what
  the restarted instance answers to each client asked (`none` = no reply) -/
  | restart (ok : Bool) (served : List (Mac × Option (BitVec 32)))
deriving Repr

structure RVerdict where
  c02 : Bool := true
  c03 : Bool := true
deriving Repr, DecidableEq

def RVerdict.all (v : RVerdict) : Bool := v.c02 && v.c03

structure RCfg where
  start : BitVec 32
  stop  : BitVec 32
  lease : Int
deriving Repr

def RCfg.size (c : RCfg) : Nat := c.stop.toNat - c.start.toNat + 1

def lookupBound (bound : List (Mac × BitVec 32)) (m : Mac) : Option (BitVec 32) :=
  (bound.find? (fun p => p.1 == m)).map (·.2)

def RMon.step (c : RCfg) (bound : List (Mac × BitVec 32)) : REv → List (Mac × BitVec 32) × RVerdict
  | .req mac now (.reply ip l) stored =>
    let inRange := decide (c.start.toNat ≤ ip.toNat) && decide (ip.toNat ≤ c.stop.toNat)
    let expiryOk := stored.any (fun r => r.ip == ip && decide (r.expiry * nsPerSec ≥ now + c.lease - nsPerSec))
    match lookupBound bound mac with
    | some ip0 => (bound, { c02 := inRange && ip == ip0 && l == leaseOpt c.lease, c03 := expiryOk })
    | none => ((mac, ip) :: bound,
               { c02 := inRange && !(bound.any (fun p => p.2 == ip)) && l == leaseOpt c.lease, c03 := expiryOk })
  | .req mac _ .drop _ =>
    (bound, { c02 := (lookupBound bound mac).isNone && decide (c.size ≤ bound.length) })
  | .req _ _ .panic _ => (bound, { c02 := false })
  | .restart ok served =>
    (bound,
     { c03 := ok &&
        -- none lost or changed: every client bound so far that was asked is served its address
        served.all (fun q => match lookupBound bound q.1 with
                             | some ip => q.2 == some ip
                             | none => true) &&
        -- none duplicated: a client not bound so far is not given a bound address
        served.all (fun q => match lookupBound bound q.1, q.2 with
                             | none, some ip => !(bound.any (fun p => p.2 == ip))
                             | _, _ => true) })

def RMon.run (c : RCfg) : List (Mac × BitVec 32) → List REv → List RVerdict
  | _, [] => []
  | b, ev :: evs => let r := RMon.step c b ev; r.2 :: RMon.run c r.1 evs

def C02.holds (c : RCfg) (evs : List REv) : Bool := (RMon.run c [] evs).all (·.c02)
def C03.holds (c : RCfg) (evs : List REv) : Bool := (RMon.run c [] evs).all (·.c03)

/-! ### model runs -/

inductive ROp
  /-- request from `mac` at time `now` -/
  | req (mac : Mac) (now : Int)
  /-- crash/restart point: the plugin is set up again on the current table and keeps running;
  `ask` are the clients queried right after (at time `now`) to observe what it serves -/
  | restart (ask : List Mac) (now : Int)
deriving Repr

/-- ask the clients `ask` in order; returns the new state and what each was served -/
def RState.serve (s : RState) : List Mac → Int → List (Option Nat) →
    Option (RState × List (Mac × Option (BitVec 32)) × List (Option Nat))
  | [], _, cs => some (s, [], cs)
  | _ :: _, _, [] => none
  | m :: ms, now, c :: cs =>
    match s.handle m now c with
    | none => none
    | some (s', r) =>
      match RState.serve s' ms now cs with
      | none => none
      | some (s'', l, cs') =>
        some (s'', (m, match r with | .reply ip _ => some ip | _ => none) :: l, cs')

/-- Run the model. Each `req` consumes one choice; a `restart` consumes one per client asked.
A restart is observed on a *copy*: the clients asked are served by the restarted copy, the
run continues from the restarted state itself (without the probe requests). -/
def RState.run (loadKey : Mac → Option Mac) (order : List (Mac × Rec) → List (Mac × Rec))
    (s : RState) : List ROp → List (Option Nat) → Option (List REv × RState)
  | [], _ => some ([], s)
  | .req mac now :: ops, c :: cs =>
    match s.handle mac now c with
    | none => none
    | some (s', r) =>
      (RState.run loadKey order s' ops cs).map
        (fun (evs, z) => (REv.req mac now r (s'.db.filter (fun x => x.mac == mac)) :: evs, z))
  | .req _ _ :: _, [] => none
  | .restart ask now :: ops, cs =>
    match s.restart loadKey order with
    | .error _ => some ([REv.restart false []], s)
    | .ok s' =>
      match RState.serve s' ask now cs with
      | none => none
      | some (_, served, cs') =>
        (RState.run loadKey order s' ops cs').map (fun (evs, z) => (REv.restart true served :: evs, z))

end CoreDhcp
