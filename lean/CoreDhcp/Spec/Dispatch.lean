/-
What C11, C12, C13 and C15 mean, as predicates over one observed exchange
(parsed datagram in, what was sent out) — evaluated by the driver on the implementation's
behaviour and proved of the model in Props/.
-/
import CoreDhcp.Model.Dispatch
import CoreDhcp.Model.Plugins
namespace CoreDhcp

/-! ### C11 -/

/-- the reply fields that must echo the request -/
def echo4 (req : Req4) (resp : Resp4) : Bool :=
  resp.op == 2 && resp.xid == req.xid && resp.htype == req.htype && resp.chaddr == req.chaddr &&
  resp.flags == req.flags && resp.giaddr == req.giaddr && resp.opt82 == req.opt82 && resp.opt61 == req.opt61

/-- OFFER for DISCOVER, ACK or NAK for REQUEST -/
def typeOk4 (req : Req4) (resp : Resp4) : Bool :=
  (req.mt == 1 && resp.mt == 2) || (req.mt == 3 && (resp.mt == 5 || resp.mt == 6))

def C11.holds (input : Option Req4) (out : Out4) : Bool :=
  match out with
  | .send resp _ _ _ _ =>
    match input with
    | some req => req.op == 1 && (req.mt == 1 || req.mt == 3) && echo4 req resp && typeOk4 req resp
    | none => false                 -- an unparseable datagram was answered
  | _ => true

/-- A handler that leaves the echoed fields alone and keeps the reply type within
OFFER-for-DISCOVER / ACK-or-NAK-for-REQUEST (every built-in plugin; the scripted handlers of
the conformance run). -/
def Handler4.Preserving (h : Handler4) : Prop :=
  ∀ req r r' stop, h req (some r) = (some r', stop) →
    (echo4 req r = true → echo4 req r' = true) ∧ (typeOk4 req r = true → typeOk4 req r' = true)

/-- … and that does not conjure a response out of nothing -/
def Handler4.NilPreserving (h : Handler4) : Prop := ∀ req stop r', h req none = (r', stop) → r' = none

/-! ### C15 -/

/-- RFC 2131 §4.1 as the property states it -/
def C15.expected (bound : Nat) (oob : Option Nat) (req : Req4) (resp : Resp4) :
    BitVec 32 × Nat × Option Nat × Bool :=
  let relayed := req.giaddr != 0#32
  let nak := resp.mt == 6
  let hasCi := req.ciaddr != 0#32
  let bflag := req.flags / 32768 % 2 == 1
  let onIf : Option Nat := if bound != 0 then some bound else oob.bind (fun i => if i != 0 then some i else none)
  match relayed, nak, hasCi, bflag with
  | true, _, _, _ => (req.giaddr, 67, if isLinkLocal4 req.giaddr || req.giaddr == bcast4 then onIf else none, false)
  | false, true, _, _ => (bcast4, 68, onIf, false)
  | false, false, true, _ => (req.ciaddr, 68, if isLinkLocal4 req.ciaddr || req.ciaddr == bcast4 then onIf else none, false)
  | false, false, false, true => (bcast4, 68, onIf, false)
  | false, false, false, false => (resp.yiaddr, 68, onIf, true)

def C15.holds (bound : Nat) (oob : Option Nat) (input : Option Req4) (out : Out4) : Bool :=
  match out, input with
  | .send resp peer port ifidx l2, some req => C15.expected bound oob req resp == (peer, port, ifidx, l2)
  | .send _ _ _ _ _, none => false
  | .panicNoIf, _ => decide (bound = 0) && (oob.getD 0 == 0)      -- outside the configuration space of the property
  | .drop, _ => true

/-! ### C12 -/

def replyType6 (m : Msg6) : Option Nat :=
  if m.mt = 1 then some (if m.rapid then 7 else 2)
  else if m.mt ∈ [3, 4, 5, 6, 8, 11] then some 7
  else none

def C12.holds (bound : Nat) (oob : Option Nat) (src : Addr) (input : Option Pkt6) (out : Out6) : Bool :=
  match out with
  | .drop => true
  | .send layers resp ifidx =>
    match input with
    | none => false
    | some d =>
      match d.msg with
      | none => false
      | some m =>
        -- supported type, right reply type, transaction id and client id echoed, rapid commit echoed
        replyType6 m == some resp.mt && resp.xid == m.xid && m.cid.isSome && resp.cid == m.cid &&
        (resp.rapid == (m.mt == 1 && m.rapid)) &&
        -- n Relay-Forward layers are answered by n mirrored Relay-Reply layers
        layers.length == d.layers.length &&
        (layers.zip d.layers).all (fun (a, b) => a.mt == 13 && a.link == b.link && a.peer == b.peer && a.iid == b.iid) &&
        -- pinned to an interface iff the source is link-local
        ifidx == (if isLinkLocal6 src then
                    (if bound != 0 then some bound else oob.bind (fun i => if i != 0 then some i else none))
                  else none)

def Handler6.Preserving (h : Handler6) : Prop :=
  ∀ d r r' stop, h d (some r) = (some r', stop) → r'.mt = r.mt ∧ r'.xid = r.xid ∧ r'.cid = r.cid ∧ r'.rapid = r.rapid

def Handler6.NilPreserving (h : Handler6) : Prop := ∀ d stop r', h d none = (r', stop) → r' = none

/-! ### C13 : the chain, specified without recursion over the list -/

section chain
variable {Req Resp : Type}

/-- response handed to the handler at position `i` if every earlier handler ran -/
def chainIn (hs : List (Req → Option Resp → Option Resp × Bool)) (req : Req) (r0 : Option Resp) : Nat → Option Resp
  | 0 => r0
  | i + 1 => match hs[i]? with
    | some h => (h req (chainIn hs req r0 i)).1
    | none => chainIn hs req r0 i

/-- does the handler at position `i` signal stop (given every earlier handler ran)? -/
def chainStops (hs : List (Req → Option Resp → Option Resp × Bool)) (req : Req) (r0 : Option Resp) (i : Nat) : Bool :=
  match hs[i]? with
  | some h => (h req (chainIn hs req r0 i)).2
  | none => false

/-- number of handlers invoked: up to and including the first that stops -/
def chainLen (hs : List (Req → Option Resp → Option Resp × Bool)) (req : Req) (r0 : Option Resp) : Nat :=
  match (List.range hs.length).find? (chainStops hs req r0) with
  | some i => i + 1
  | none => hs.length
end chain

/-- the invocation log the scripted handlers of the conformance run write: position, the tags of
the response received (`none` = nil), the tags returned, stop -/
structure Inv where
  idx  : Nat
  inp  : Option (List Nat)
  outp : Option (List Nat)
  stop : Bool
  req  : List Nat := []        -- fingerprint of the request the handler was given
deriving Repr, DecidableEq

/-- C13 on an observed invocation log of a chain of `n` handlers started with response tags `[]`,
and the tags of what was sent (`none` = nothing sent) -/
def C13.holdsLog (n : Nat) (log : List Inv) (sent : Option (List Nat)) (orig : List Nat := []) : Bool :=
  -- configured order, each at most once
  log.map (·.idx) == List.range log.length && decide (log.length ≤ n) &&
  -- each receives the original request
  log.all (fun a => a.req == orig) &&
  -- each receives its predecessor's response
  (log.zip (some [] :: log.map (·.outp))).all (fun (a, prev) => a.inp == prev) &&
  -- nothing runs after the first stop; the chain runs on while nobody stops
  (log.dropLast.all (fun a => !a.stop)) &&
  (log.length == n || (match log.getLast? with | some a => a.stop | none => false)) &&
  -- what is sent is the response returned last; nil means nothing is sent
  sent == (match log.getLast? with | some a => a.outp | none => some [])

end CoreDhcp
