/-
What C10 means, as a history monitor over the observable events of the file plugin: the mapping
served must be the one *written in the file currently in force* — computed here directly from the
file's lines, with no table.
-/
import CoreDhcp.Model.File
namespace CoreDhcp

/-- a line that is neither skipped nor well-formed for this protocol rejects the file -/
def FLine.ok (v6 : Bool) : FLine → Bool
  | .empty => true
  | .comment => true
  | .fields n mac ip => n == 2 && mac.isSome && (match v6, ip with | false, .v4 _ => true | true, .v6 _ => true | _, _ => false)

def fileOk (v6 : Bool) (lines : List FLine) : Bool := lines.all (FLine.ok v6)

/-- the address listed for `m`: last occurrence wins -/
def listedFor (m : List Nat) (lines : List FLine) : Option IPKind :=
  (lines.reverse.findSome? (fun l => match l with
    | .fields _ (some m') ip => if m' == m then some ip else none
    | _ => none))

inductive FEv
  | setup (v6 : Bool) (lines : List FLine) (ok : Bool)
  /-- a change of the watched file was picked up (autorefresh) -/
  | refresh (v6 : Bool) (lines : List FLine)
  | q4 (mac : List Nat) (r : FReply4)
  | q6 (hasIANA : Bool) (mac : Option (List Nat)) (r : FReply6)
deriving Repr

/-- the file in force per protocol (`none` before a successful setup) -/
structure FMon where
  f4 : Option (List FLine) := none
  f6 : Option (List FLine) := none
deriving Repr

def FMon.step (m : FMon) : FEv → FMon × Bool
  | .setup v6 lines ok =>
    let good := fileOk v6 lines
    ((if good then (if v6 then { m with f6 := some lines } else { m with f4 := some lines }) else m), ok == good)
  | .refresh v6 lines =>
    -- a well-formed update replaces the whole mapping, a malformed one leaves it in force
    ((if fileOk v6 lines then (if v6 then { m with f6 := some lines } else { m with f4 := some lines }) else m), true)
  | .q4 mac r =>
    (m, match (m.f4.getD []) |> listedFor mac with
        | some (.v4 a) => r == .yiaddr a
        | _ => r == .pass)
  | .q6 hasIANA mac r =>
    (m, if !hasIANA then r == .pass
        else match mac with
          | none => r == .pass
          | some mm => match (m.f6.getD []) |> listedFor mm with
            | some (.v6 a) => r == .iana a
            | _ => r == .pass)

def FMon.run : FMon → List FEv → List Bool
  | _, [] => []
  | m, ev :: evs => let r := m.step ev; r.2 :: FMon.run r.1 evs

def C10.holds (evs : List FEv) : Bool := (FMon.run {} evs).all id

/-! ### model runs -/
inductive FOp
  | setup (v6 : Bool) (lines : List FLine)
  | refresh (v6 : Bool) (lines : List FLine)
  | q4 (mac : List Nat)
  | q6 (hasIANA : Bool) (mac : Option (List Nat))
deriving Repr

def FState.run (s : FState) : List FOp → List FEv
  | [] => []
  | .setup v6 lines :: ops => let r := s.load v6 lines; .setup v6 lines r.2 :: FState.run r.1 ops
  | .refresh v6 lines :: ops => let r := s.load v6 lines; .refresh v6 lines :: FState.run r.1 ops
  | .q4 mac :: ops => .q4 mac (s.query4 mac) :: FState.run s ops
  | .q6 h mac :: ops => .q6 h mac (s.query6 h mac) :: FState.run s ops

end CoreDhcp
