/-
What C20 means: the mathematical (Nat-level) result of the two prefix-arithmetic functions.
Used by the theorems in Props/C20.lean and evaluated by the driver on the implementation's results.
-/
import CoreDhcp.Model.IPCalc
namespace CoreDhcp

/-- index of the /p block containing the larger of the two addresses, counted from the smaller
(which is the aligned base in the property's domain); overflow when it needs more than 64 bits -/
def offsetSpec (a b : Addr) (p : Nat) : Except CalcErr (BitVec 64) :=
  let d := (max a.val b.val - min a.val b.val) / 2^(128 - p)
  if d < 2^64 then .ok (BitVec.ofNat 64 d) else .error .overflow

/-- base of the n-th /unit block after `base`; overflow when beyond the end of the address space -/
def addPrefixesSpec (base : Addr) (n unit : Nat) : Except CalcErr Addr :=
  let v := base.val + n * 2^(128 - unit)
  if v < 2^128 then .ok (Addr.ofVal v) else .error .overflow

/-- the domain of C20 for Offset: p in range and the smaller address aligned to /p -/
def offsetInDomain (a b : Addr) (p : Int) : Bool :=
  decide (0 ≤ p) && decide (p ≤ 128) && (min a.val b.val % 2^(128 - p.toNat) == 0)

end CoreDhcp
