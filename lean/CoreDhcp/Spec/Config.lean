/-
What C18 means, as a predicate over (what viper/cast deliver for the document, what `Load`
returned), in the vocabulary of the property: exact plugin lists, `[address][%zone][:port]`
with defaults, multicast expansion, and the listed error cases. Written independently of the
loader model (no shared helper except the oracle lookup and the multicast classifiers).
-/
import CoreDhcp.Model.Config
namespace CoreDhcp

abbrev LoadOut := Option (Option ServerConfig × Option ServerConfig)

/-- the items name exactly one plugin each -/
def itemsOk (items : List ItemView) : Bool := items.all (fun i => match i with | .one _ _ => true | _ => false)

def itemsList (items : List ItemView) : List (String × List String) :=
  items.filterMap (fun i => match i with | .one n a => some (n, a) | _ => none)

/-- `[address][%zone][:port]` of one listen string, or none when it must be rejected -/
def specAddr (v6 : Bool) (o : AddrOracle) : Option UDPAddr :=
  -- host and port as the stdlib splits them; a string without port is retried with ":0" appended
  let hostPort : Option (String × String) := o.shp.orElse (fun _ => o.shp0.map (fun h => (h, "")))
  hostPort.bind fun (host, port) =>
    -- the zone is what follows the last '%'
    let parts := host.splitOn "%"
    let addr := if parts.length ≤ 1 then host else "%".intercalate parts.dropLast
    let zone := if parts.length ≤ 1 then "" else parts.getLast!
    let ip : IPKind := if addr == "" then (if v6 then .v6 ⟨0#64, 0#64⟩ else .v4 0#32) else lookupIP o addr
    let famOk := match ip, v6 with | .v4 _, false => true | .v6 _, true => true | _, _ => false
    if !famOk then none
    else if port == "" then some ⟨ip, if v6 then 547 else 67, zone⟩
    else o.atoi.map (fun p => ⟨ip, p, zone⟩)

/-- listeners a listen string stands for: itself, or one per suitable interface for an unzoned
link-local multicast address -/
def specExpand (ifs : List Iface) (a : UDPAddr) : Option (List UDPAddr) :=
  if a.zone == "" && (isLLMulticast a.ip || isIfaceLocalMulticast a.ip) then
    let is4 := match a.ip with | .v4 _ => true | _ => false
    let suit := ifs.filter (fun i => i.multi && (i.bcast || !is4))
    if suit.isEmpty then none else some (suit.map (fun i => ⟨a.ip, a.port, i.name⟩))
  else some [a]

/-- the listeners of one section, none = must be rejected -/
def specListeners (v6 : Bool) (ifs : List Iface) (sec : SectionView) : Option (List UDPAddr) :=
  let strs : Option (List String) := match sec.iface, sec.listen with
    | some _, some _ => none
    | some _, none => some sec.alias
    | none, some l => some l
    | none, none => some []
  match sec.iface, sec.listen with
  | none, none =>
    if v6 then (specExpand ifs ⟨allRelayAgentsAndServers, 547, ""⟩).map (· ++ [⟨allServers, 547, ""⟩])
    else some [⟨.none, 67, ""⟩]
  | _, _ =>
    strs.bind fun l =>
      l.foldr (fun s acc =>
        match findOracle sec.oracles s, acc with
        | some o, some rest => ((specAddr v6 o).bind (specExpand ifs)).map (· ++ rest)
        | _, _ => none) (some [])

def specSection (v6 : Bool) (ifs : List Iface) (sec : SectionView) : Option ServerConfig :=
  match sec.plugins with
  | none => none
  | some items =>
    if !itemsOk items then none
    else (specListeners v6 ifs sec).map (fun ls => ⟨ls, itemsList items⟩)

def sameCfg (a b : Option ServerConfig) : Bool :=
  match a, b with
  | none, none => true
  | some x, some y => x.addrs == y.addrs && x.plugins == y.plugins
  | _, _ => false

def C18.holds (ifs : List Iface) (s6 s4 : Option SectionView) (out : LoadOut) : Bool :=
  let e6 : Option (Option ServerConfig) := match s6 with | none => some none | some s => (specSection true ifs s).map some
  let e4 : Option (Option ServerConfig) := match s4 with | none => some none | some s => (specSection false ifs s).map some
  match e6, e4 with
  | some c6, some c4 =>
    if c6.isNone && c4.isNone then out.isNone
    else match out with
      | some (o6, o4) => sameCfg o6 c6 && sameCfg o4 c4
      | none => false
  | _, _ => out.isNone

end CoreDhcp
