/-
What C08 and C09 mean, as history monitors over the observable exchanges of the prefix plugin.
`held` — every prefix a reply ever told a client it holds, with the time that promise runs
until — is computed from replies alone.
-/
import CoreDhcp.Model.Prefix
import CoreDhcp.Spec.Alloc
namespace CoreDhcp

/-- one exchange: the inner message's client id (none = absent) and IA_PDs, the instants
bracketing its handling (`t0 ≤ t1`; equal in model runs), and the reply's IA_PDs
(`none` = nothing was sent) -/
structure PEv where
  client : Option ClientKey
  iapds  : List IAPDReq
  t0     : Int
  t1     : Int
  resp   : Option (List IAPDResp)
deriving Repr

structure PVerdict where
  c08 : Bool := true
  c09 : Bool := true
deriving Repr, DecidableEq

def PVerdict.all (v : PVerdict) : Bool := v.c08 && v.c09

structure Held where
  client : ClientKey
  pfx    : Block
  until_ : Int
deriving Repr, DecidableEq

def heldOf (held : List Held) (c : ClientKey) : List Held := held.filter (fun h => h.client == c)

/-- record the prefixes of one reply IA_PD -/
def heldAdd (held : List Held) (c : ClientKey) (t0 : Int) (r : IAPDResp) : List Held :=
  r.pfxs.foldl (fun acc (p : Block × Int) =>
    if acc.any (fun h => h.client == c && h.pfx == p.1)
    then acc.map (fun h => if h.client == c && h.pfx == p.1 && h.until_ < t0 + p.2 then { h with until_ := t0 + p.2 } else h)
    else ⟨c, p.1, t0 + p.2⟩ :: acc) held

/-- C08 for one reply IA_PD of client `c` -/
def c08IAPD (p : Pool6) (held : List Held) (c : ClientKey) (q : IAPDReq) (r : IAPDResp) : Bool :=
  r.iaid == q.iaid &&
  r.pfxs.all (fun (b, life) =>
    b.within p.block && b.base.val % 2^(128 - p.page) == 0 && decide (p.page ≤ b.len) && decide (b.len ≤ 128) &&
    decide (0 < life) && decide (life ≤ leaseDur) &&
    held.all (fun h => h.client == c || b.disjoint h.pfx))

/-- the IA_PD carries no prefix hint at all: no IAPrefix option, or only the unspecified ::/0 -/
def IAPDReq.hintless (q : IAPDReq) : Bool := q.hints.all (· == HintP.empty)

/-- C09 for one IA_PD of client `c` -/
def c09IAPD (held : List Held) (c : ClientKey) (t1 : Int) (q : IAPDReq) (r : IAPDResp) : Bool :=
  let mine := heldOf held c
  let again (h : Held) : Bool := r.pfxs.any (fun (b, life) => b == h.pfx && decide (h.until_ - t1 ≤ life))
  -- asked for exactly P, and holds P: answered with P again
  q.hints.all (fun hint => match hint with
    | .pfx ip _ len => mine.all (fun h => !(h.pfx == ⟨ip, len⟩) || again h)
    | _ => true) &&
  -- no hint at all and holds something: answered with what it holds, nothing else
  (!(q.hintless && !mine.isEmpty) ||
    (mine.all again && r.pfxs.all (fun (b, _) => mine.any (fun h => h.pfx == b)))) &&
  -- every hint is the unspecified prefix or names exactly a prefix the client holds (and it holds
  -- something): answered from what it holds — such a request never consumes a further block
  (!(q.hints.all (fun hint => match hint with
        | .empty => true
        | .pfx ip _ len => mine.any (fun h => h.pfx == ⟨ip, len⟩)
        | .nomask _ _ => false) && !mine.isEmpty) ||
    r.pfxs.all (fun (b, _) => mine.any (fun h => h.pfx == b)))

def PMon.goIAPDs (p : Pool6) (c : ClientKey) (t0 t1 : Int) :
    List Held → List IAPDReq → List IAPDResp → List Held × PVerdict
  | held, [], [] => (held, {})
  | held, q :: qs, r :: rs =>
    let v : PVerdict := { c08 := c08IAPD p held c q r, c09 := c09IAPD held c t1 q r }
    let rest := PMon.goIAPDs p c t0 t1 (heldAdd held c t0 r) qs rs
    (rest.1, { c08 := v.c08 && rest.2.c08, c09 := v.c09 && rest.2.c09 })
  | held, qs, _ =>      -- not one reply IA_PD per request IA_PD (C08); an IA_PD left without an answer is, for C09, one
                        -- answered with no prefix: it may not have asked for a prefix the client holds, or for nothing in particular
    (held, { c08 := false, c09 := qs.all (fun q => c09IAPD held c t1 q { iaid := q.iaid, pfxs := [] }) })

def PMon.step (p : Pool6) (held : List Held) (ev : PEv) : List Held × PVerdict :=
  match ev.client, ev.resp with
  | some c, some rs => PMon.goIAPDs p c ev.t0 ev.t1 held ev.iapds rs
  | some c, none =>                                        -- IA_PDs went unanswered
    (held, { c08 := ev.iapds.isEmpty,
             c09 := ev.iapds.all (fun q => c09IAPD held c ev.t1 q { iaid := q.iaid, pfxs := [] }) })
  | none, _ => (held, {})

def PMon.run (p : Pool6) : List Held → List PEv → List PVerdict
  | _, [] => []
  | held, ev :: evs => let r := PMon.step p held ev; r.2 :: PMon.run p r.1 evs

def C08.holds (p : Pool6) (evs : List PEv) : Bool := (PMon.run p [] evs).all (·.c08)
def C09.holds (p : Pool6) (evs : List PEv) : Bool := (PMon.run p [] evs).all (·.c09)

/-! ### model runs -/

structure POp where
  client : Option ClientKey
  iapds  : List IAPDReq
  now    : Int
deriving Repr

def PState.run (s : PState) : List POp → List (Option Nat) → Option (List PEv × PState)
  | [], _ => some ([], s)
  | op :: ops, cs =>
    match s.handleMsg op.client op.iapds op.now cs with
    | none => none
    | some (s', resp, cs') =>
      (PState.run s' ops cs').map (fun (evs, z) => (⟨op.client, op.iapds, op.now, op.now, resp⟩ :: evs, z))

/-- the clock does not run backwards over the history -/
def POp.monotone : List POp → Bool
  | [] => true
  | [_] => true
  | a :: b :: rest => decide (a.now ≤ b.now) && POp.monotone (b :: rest)

end CoreDhcp
