/-
What C04–C07 mean, as history monitors over the *observable* events of an allocator
(operations and their results). They never look at allocator state: `out`, the
outstanding allocations, is computed from the history alone (returned by a successful
Allocate, minus successfully freed).

The same definitions are (1) what the theorems in Props/ prove of every model run and
(2) what the driver evaluates on the implementation's recorded trace.
-/
import CoreDhcp.Model.Alloc6
import CoreDhcp.Model.Alloc4
namespace CoreDhcp

/-! ### IPv6 -/

/-- observable event of the IPv6 allocator -/
inductive Ev6
  | alloc (h : Hint6) (r : Except AErr Block)
  | free (ip : Addr) (ones : Nat) (r : Except FErr Unit)
deriving Repr

def Block.disjoint (a b : Block) : Bool := a.hi ≤ b.lo || b.hi ≤ a.lo
/-- `inner` lies inside `outer` (as address intervals) -/
def Block.within (inner outer : Block) : Bool := outer.lo ≤ inner.lo && inner.hi ≤ outer.hi
def Block.hasAddr (b : Block) (x : Nat) : Bool := b.lo ≤ x && x < b.hi

/-- the pool as a block -/
def Pool6.block (p : Pool6) : Block := ⟨p.base, p.poolLen⟩
/-- the allocation unit (page-sized block) an allocated block occupies -/
def Pool6.unit (p : Pool6) (b : Block) : Block := ⟨b.base, p.page⟩

structure Verdict where
  c04 : Bool := true
  c05 : Bool := true
  c06 : Bool := true
  c07 : Bool := true
deriving Repr, DecidableEq

def Verdict.all (v : Verdict) : Bool := v.c04 && v.c05 && v.c06 && v.c07

/-- the length C05 demands of a successful allocation -/
def Pool6.wantLen (p : Pool6) (h : Hint6) : Nat :=
  if h.bits = 128 then max p.page h.ones else p.page

/-- does the hint name a block of the pool that is free in history state `out`? -/
def Pool6.hintNamesFree (p : Pool6) (out : List Block) (h : Hint6) : Bool :=
  match h.ip with
  | none => false
  | some x => p.block.hasAddr x.val && out.all (fun o => !(p.unit o).hasAddr x.val)

/-- the prefix named by a Free -/
def freedPrefix (ip : Addr) (ones : Nat) : Block := ⟨maskAddr ip ones, ones⟩

def Mon6.step (p : Pool6) (out : List Block) : Ev6 → List Block × Verdict
  | .alloc h (.ok b) =>
    (b :: out,
     { c04 := out.all (fun o => b.disjoint o)
       c05 := b.len == p.wantLen h && b.base.val % 2^(128 - p.page) == 0 && b.within p.block
              && decide (p.page ≤ b.len) && decide (b.len ≤ 128)
       c07 := match h.ip with
              | some x => !(p.hintNamesFree out h) || (p.unit b).hasAddr x.val
              | none => true })
  | .alloc h (.error .noaddr) =>
    (out, { c05 := decide (p.nblocks ≤ out.length), c07 := !(p.hintNamesFree out h) })
  | .alloc _ (.error _) => (out, { c05 := false })
  | .free ip ones r =>
    let P := freedPrefix ip ones
    let held := out.any (fun o => P.within (p.unit o))
    match r with
    | .ok _    => (out.filter (fun o => !(P.within (p.unit o))), { c06 := held })
    | .error _ => (out, { c06 := !held })

def Mon6.run (p : Pool6) : List Block → List Ev6 → List Verdict
  | _, [] => []
  | out, ev :: evs => let r := Mon6.step p out ev; r.2 :: Mon6.run p r.1 evs

/-- final outstanding list of a history -/
def Mon6.outstanding (p : Pool6) : List Block → List Ev6 → List Block
  | out, [] => out
  | out, ev :: evs => Mon6.outstanding p (Mon6.step p out ev).1 evs

def C04.holds6 (p : Pool6) (evs : List Ev6) : Bool := (Mon6.run p [] evs).all (·.c04)
def C05.holds6 (p : Pool6) (evs : List Ev6) : Bool := (Mon6.run p [] evs).all (·.c05)
def C06.holds6 (p : Pool6) (evs : List Ev6) : Bool := (Mon6.run p [] evs).all (·.c06)
def C07.holds6 (p : Pool6) (evs : List Ev6) : Bool := (Mon6.run p [] evs).all (·.c07)

/-- the domain C06 quantifies over: well-formed prefixes no shorter than the allocation size -/
def Ev6.inDomain (p : Pool6) : Ev6 → Bool
  | .alloc h _ => decide (h.ones ≤ h.bits)      -- what `net.IPMask.Size()` can return
  | .free _ ones _ => decide (p.page ≤ ones) && decide (ones ≤ 128)

/-! ### IPv4 -/

inductive Ev4
  | alloc (hint : Option (BitVec 32)) (r : A4Res)
  | free (ip : Option (BitVec 32)) (r : F4Res)
deriving Repr

def Mon4.step (start stop : BitVec 32) (out : List (BitVec 32)) : Ev4 → List (BitVec 32) × Verdict
  | .alloc h (.ok x) =>
    (x :: out,
     { c04 := !out.contains x
       c05 := decide (start.toNat ≤ x.toNat) && decide (x.toNat ≤ stop.toNat)
       c07 := match h with
              | some y => !(decide (start.toNat ≤ y.toNat) && decide (y.toNat ≤ stop.toNat) && !out.contains y) || x == y
              | none => true })
  | .alloc h .noaddr =>
    (out, { c05 := decide (stop.toNat - start.toNat + 1 ≤ out.length)
            c07 := match h with
              | some y => !(decide (start.toNat ≤ y.toNat) && decide (y.toNat ≤ stop.toNat) && !out.contains y)
              | none => true })
  | .alloc _ .panic => (out, { c05 := false })
  | .free ip r =>
    let held := match ip with | some x => out.contains x | none => false
    match r with
    | .ok => (match ip with | some x => out.filter (· != x) | none => out, { c06 := held })
    | _   => (out, { c06 := !held })

def Mon4.run (start stop : BitVec 32) : List (BitVec 32) → List Ev4 → List Verdict
  | _, [] => []
  | out, ev :: evs => let r := Mon4.step start stop out ev; r.2 :: Mon4.run start stop r.1 evs

def C04.holds4 (s e : BitVec 32) (evs : List Ev4) : Bool := (Mon4.run s e [] evs).all (·.c04)
def C05.holds4 (s e : BitVec 32) (evs : List Ev4) : Bool := (Mon4.run s e [] evs).all (·.c05)
def C06.holds4 (s e : BitVec 32) (evs : List Ev4) : Bool := (Mon4.run s e [] evs).all (·.c06)
def C07.holds4 (s e : BitVec 32) (evs : List Ev4) : Bool := (Mon4.run s e [] evs).all (·.c07)

/-! ### Model runs as event lists -/

inductive Op6
  | alloc (h : Hint6)
  | free (ip : Addr) (ones : Nat)
deriving Repr

/-- run the model on `ops`; each `alloc` consumes one entry of `cs` (the choice the
free-block step makes if it is reached). `none` = some choice was inadmissible or `cs` too short. -/
def A6.run (a : A6) : List Op6 → List (Option Nat) → Option (List Ev6 × A6)
  | [], _ => some ([], a)
  | .alloc h :: ops, c :: cs =>
    match a.allocate h c with
    | none => none
    | some (a', r) => (A6.run a' ops cs).map (fun (evs, z) => (Ev6.alloc h r :: evs, z))
  | .alloc _ :: _, [] => none
  | .free ip ones :: ops, cs =>
    let (a', r) := a.free ip ones
    (A6.run a' ops cs).map (fun (evs, z) => (Ev6.free ip ones r :: evs, z))

def Op6.inDomain (p : Pool6) : Op6 → Bool
  | .alloc h => decide (h.ones ≤ h.bits)        -- what `net.IPMask.Size()` can return
  | .free _ ones => decide (p.page ≤ ones) && decide (ones ≤ 128)

inductive Op4
  | alloc (hint : Option (BitVec 32))
  | free (ip : Option (BitVec 32))
deriving Repr

def A4.run (a : A4) : List Op4 → List (Option Nat) → Option (List Ev4 × A4)
  | [], _ => some ([], a)
  | .alloc h :: ops, c :: cs =>
    match a.allocate h c with
    | none => none
    | some (a', r) => (A4.run a' ops cs).map (fun (evs, z) => (Ev4.alloc h r :: evs, z))
  | .alloc _ :: _, [] => none
  | .free ip :: ops, cs =>
    let (a', r) := a.free ip
    (A4.run a' ops cs).map (fun (evs, z) => (Ev4.free ip r :: evs, z))

end CoreDhcp
