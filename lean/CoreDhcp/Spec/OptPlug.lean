/-
What C14, C17 and C19 mean for the built-in option plugins and server_id, as Bool predicates
over one observed exchange: the configuration the plugin accepted, the parsed request, the response
it was handed (`pre`) and what it returned (`out` = response or nil, stop flag).
Written in the vocabulary of the property statements, not of the handlers: the driver evaluates
them on the implementation's behaviour, Props/C14, C17, C19 prove them of the model.
Shared with the model: the option containers (`lookup`, `oro6`), and the wire encoders `enc*`
("correct wire encoding" = the value a client decodes back, see the round-trip theorems of C19).
-/
import CoreDhcp.Model.OptPlug
namespace CoreDhcp
open Plug

/-- codes for which the two DHCPv4 option maps may differ: every other code has the same value -/
def sameExcept (codes : List Nat) (pre out : Opts) : Bool :=
  (pre ++ out).all (fun o => codes.contains o.1 || lookup o.1 out == lookup o.1 pre)

/-- response `r` is `pre` with exactly the options `want` set, and nothing else touched: message
type, yiaddr, siaddr, every other option -/
def setOnly4 (want : Opts) (pre r : Resp4) : Bool :=
  r.mt == pre.mt && r.yiaddr == pre.yiaddr && r.siaddr == pre.siaddr &&
  want.all (fun o => lookup o.1 r.opts == some o.2) &&
  sameExcept (want.map (·.1)) pre.opts r.opts

/-- DHCPv6: the options with code `c` are exactly `vals` (in order), all others and the message
type are as in `pre` -/
def setOnly6 (c : Nat) (vals : List Bytes) (pre r : Resp6) : Bool :=
  r.mt == pre.mt &&
  r.opts.filter (fun o => o.1 != c) == pre.opts.filter (fun o => o.1 != c) &&
  r.opts.filter (fun o => o.1 == c) == vals.map (fun v => (c, v))

/-- the handler returned a response satisfying `p` and lets the chain continue -/
def continues {R : Type} (out : Option R × Bool) (p : R → Bool) : Bool :=
  match out with
  | (some r, false) => p r
  | _ => false

/-- the handler returned a response satisfying `p` and ended the chain -/
def stops {R : Type} (out : Option R × Bool) (p : R → Bool) : Bool :=
  match out with
  | (some r, true) => p r
  | _ => false

/-! ### C14 — server identity -/
namespace C14

/-- how the request's Server Identifier relates to this server's -/
inductive Rel
  | absent | same | other
deriving DecidableEq, Repr

/-- by the first Server Identifier option of the message (RFC 8415 allows only one) -/
def rel6 (duid : Bytes) (req : ReqView6) : Rel :=
  match (req.opts.filter (fun o => o.1 == 2)).head? with
  | none => .absent
  | some o => if o.2 == duid then .same else .other

/-- RFC 8415 §16: SOLICIT (1), CONFIRM (4), REBIND (6) must not carry a Server Identifier;
REQUEST (3), RENEW (5), RELEASE (8), DECLINE (9) must carry one; any Server Identifier that
is not ours is not for us. -/
def mustDiscard6 (mt : Nat) : Rel → Bool
  | .absent => mt == 3 || mt == 5 || mt == 8 || mt == 9
  | .same => mt == 1 || mt == 4 || mt == 6
  | .other => true

/-- the reply carries exactly one Server Identifier, ours; nothing else changed -/
def stamped6 (duid : Bytes) (pre r : Resp6) : Bool := setOnly6 2 [duid] pre r

def holds6 (duid : Bytes) (req : ReqView6) (pre : Resp6) (out : Out6) : Bool :=
  if mustDiscard6 req.mt (rel6 duid req) then out == (none, true)
  else match out with
    | (some r, _) => stamped6 duid pre r
    | (none, _) => false

/-- a BOOTREQUEST naming another server: a non-zero siaddr, or a (well-formed, four byte)
server identifier option that is non-zero, different from this server's address -/
def namesOther4 (addr : Bytes) (req : ReqView4) : Bool :=
  let differs (a : Bytes) : Bool := a != [0, 0, 0, 0] && a != addr
  req.op == 1 &&
  (differs req.siaddr ||
   (match lookup 54 req.opts with
    | some v => v.length == 4 && differs v
    | none => false))

/-- siaddr and option 54 are this server's address; everything else as before -/
def stamped4 (addr : Bytes) (pre r : Resp4) : Bool :=
  r.siaddr == addr && lookup 54 r.opts == some addr &&
  r.mt == pre.mt && r.yiaddr == pre.yiaddr && sameExcept [54] pre.opts r.opts

/-- Discarded (nil response, chain ended) iff the request names another server; every reply to
a BOOTREQUEST is stamped. Datagrams that are not BOOTREQUESTs are not requests: `HandleMsg4`
never runs the chain for them (C11); the plugin must merely not drop them. -/
def holds4 (addr : Bytes) (req : ReqView4) (pre : Resp4) (out : Out4) : Bool :=
  if namesOther4 addr req then out == (none, true)
  else match out with
    | (some r, _) => req.op != 1 || stamped4 addr pre r
    | (none, _) => false

end C14

/-! ### C17 — option plugins -/
namespace C17

/-- the client's parameter request list; a missing and an empty option 55 are both "no list" -/
def reqList (req : ReqView4) : Option Bytes :=
  match lookup 55 req.opts with
  | none => none
  | some [] => none
  | some l => some l

/-- "the parameter request list asks for it, or is absent" -/
def asks4 (req : ReqView4) (c : Nat) : Bool :=
  match reqList req with
  | none => true
  | some l => decide (c ∈ l)

/-- "explicitly lists it" -/
def lists4 (req : ReqView4) (c : Nat) : Bool :=
  match reqList req with
  | none => false
  | some l => decide (c ∈ l)

/-- "the client sent the auto-configure option": one byte, as RFC 2563 defines it -/
def sentAutoConfigure (req : ReqView4) : Bool :=
  match lookup 116 req.opts with
  | some v => v.length == 1
  | none => false

def when (b : Bool) (o : Opts) : Opts := if b then o else []

/-- The quantifier of C17 is over requests: BOOTREQUESTs (nothing else reaches a handler, C11). -/
def holds4 (cfg : Cfg4) (req : ReqView4) (pre : Resp4) (out : Out4) : Bool :=
  req.op != 1 ||
  match cfg with
  -- unconditionally
  | .netmask m => continues out (setOnly4 [(1, m)] pre)
  | .router rs => continues out (setOnly4 [(3, encIPs rs)] pre)
  | .search names => continues out (setOnly4 [(119, encLabels names)] pre)
  | .staticroute rs => continues out (setOnly4 [(121, encRoutes rs)] pre)
  -- only when asked for (or no list)
  | .dns ips => continues out (setOnly4 (when (asks4 req 6) [(6, encIPs ips)]) pre)
  | .mtu n => continues out (setOnly4 (when (asks4 req 26) [(26, encU16 n)]) pre)
  -- nbp: TFTP server name (when the URL is not http/https/ftp) and boot file name, each when
  -- asked for. As the code does, the plugin ends the chain in every case.
  | .nbp c =>
    stops out (setOnly4 (when (asks4 req 66) (match c.o66 with | some h => [(66, h)] | none => []) ++
                         when (asks4 req 67) [(67, c.o67)]) pre)
  -- only when no lease time is set yet
  | .leasetime d => continues out (setOnly4 (when (lookup 51 pre.opts).isNone [(51, encSecs d)]) pre)
  -- sent, and processing stopped (so that no address gets assigned), only for clients listing it
  | .ipv6only d =>
    if lists4 req 108 then stops out (setOnly4 [(108, encSecs d)] pre)
    else continues out (setOnly4 [] pre)
  -- an address-less OFFER is answered only for clients that sent the option, dropped otherwise
  | .autoconfigure v =>
    if pre.mt == 2 && pre.yiaddr == [0, 0, 0, 0] then
      if sentAutoConfigure req then continues out (setOnly4 [(116, [v])] pre)
      else out == (none, true)
    else continues out (setOnly4 [] pre)
  | .sleep _ => out == (some pre, false)
  | .serverid _ => true                       -- C14

/-- Numbers that fit the field they are sent in: an MTU of 0..65535 (two bytes), a duration whose
whole seconds are 0..2^32-1 (four bytes). C17 speaks of every ACCEPTED configuration, and C19 says
that what cannot be honoured on the wire is rejected at start-up: an accepted configuration must be
of this kind (`C17_accepted_in_range`; before the repair of D22–D24 the three set-ups accepted every
number and the handlers sent it modulo 2^16 / 2^32). -/
def inRange4 : Cfg4 → Bool
  | .mtu n => decide (0 ≤ n) && decide (n ≤ 65535)
  | .leasetime d => decide (0 ≤ d) && decide (d < 4294967296 * 1000000000)
  | .ipv6only d => decide (0 ≤ d) && decide (d < 4294967296 * 1000000000)
  | _ => true

/-- "exactly the configured value", for the plugins whose value is a number: what a client decodes
from the option the plugin adds (the library's `Uint16.FromBytes` / `Duration.FromBytes`) is the
configured number — the MTU itself; of a duration (nanoseconds) its whole seconds, the wire format
having no parts of a second. Compared as integers: a negative configured value is never what a
client reads. -/
def exact4 : Cfg4 → Bool
  | .mtu n => (decBe 2 (encU16 n)).map Int.ofNat == some n
  | .leasetime d => (decBe 4 (encSecs d)).map Int.ofNat == some (d / 1000000000)
  | .ipv6only d => (decBe 4 (encSecs d)).map Int.ofNat == some (d / 1000000000)
  | _ => true

/-- number of options with that code -/
def count (c : Nat) (o : Opts) : Nat := (o.filter (fun x => x.1 == c)).length

/-- The responses C17 quantifies over hold at most one option of each kind (DHCPv6 options are
a list), and none of the boot file options before nbp runs; a client's option request list
names a code at most once ("all subsets of the relevant codes"). Outside of this the DHCPv6 nbp
plugin, which appends, would repeat its options. -/
def dom6 (cfg : Cfg6) (req : ReqView6) (pre : Resp6) : Bool :=
  match cfg with
  | .dns _ => decide (count 23 pre.opts ≤ 1)
  | .search _ => decide (count 24 pre.opts ≤ 1)
  | .nbp _ => count 59 pre.opts == 0 && count 60 pre.opts == 0 &&
              decide ((oro6 req).count 59 ≤ 1) && decide ((oro6 req).count 60 ≤ 1)
  | .sleep _ => true
  | .serverid _ => decide (count 2 pre.opts ≤ 1)

def holds6 (cfg : Cfg6) (req : ReqView6) (pre : Resp6) (out : Out6) : Bool :=
  match cfg with
  | .dns ips =>
    if (oro6 req).contains 23 then continues out (setOnly6 23 [encIPs ips] pre)
    else out == (some pre, false)
  | .search names => continues out (setOnly6 24 [encLabels names] pre)
  -- boot file URL when asked for, its parameters when asked for and configured, encoded as
  -- RFC 5970 §3.2 defines option 60 (16-bit length, parameter); as the code does, the plugin
  -- ends the chain in every case
  | .nbp c =>
    stops out (fun r =>
      r.mt == pre.mt &&
      r.opts.filter (fun o => o.1 != 59 && o.1 != 60) == pre.opts.filter (fun o => o.1 != 59 && o.1 != 60) &&
      r.opts.filter (fun o => o.1 == 59) == (if (oro6 req).contains 59 then [(59, c.o59)] else []) &&
      r.opts.filter (fun o => o.1 == 60) ==
        (match c.o60 with
         | some p => if (oro6 req).contains 60 then [(60, encBootParams [p])] else []
         | none => []))
  | .sleep _ => out == (some pre, false)
  | .serverid _ => true                       -- C14

end C17

/-! ### C19 — what is accepted can be put on the wire -/
namespace C19

/-- a search domain that survives RFC 1035 encoding: at most 253 bytes, labels of 1 to 63 bytes -/
def nameOK (name : Bytes) : Bool :=
  decide (name.length ≤ 253) && (splitOn 46 name).all (fun l => decide (0 < l.length ∧ l.length ≤ 63))

/-- an RFC 3442 route: IPv4 destination with a prefix length of at most 32 and no bits outside
the bytes that are transmitted, IPv4 router -/
def routeOK (r : Route) : Bool :=
  decide (r.ones ≤ 32) && r.dest.length == 4 && r.router.length == 4 &&
  allZero (r.dest.drop ((r.ones + 7) / 8))

/-- a DHCPv6 option body must fit its 16-bit length field (DHCPv4 options longer than 255 bytes
are split and re-joined, RFC 3396) -/
def fits6 (body : Bytes) : Bool := decide (body.length ≤ 65535)

/-- the condition under which what the plugin emits decodes back to what was configured -/
def wireOK : PlugCfg → Bool
  | .v4 (.dns ips) => !ips.isEmpty && ips.all (·.length == 4)
  | .v4 (.router ips) => !ips.isEmpty && ips.all (·.length == 4)
  | .v4 (.netmask m) => m.length == 4
  | .v4 (.mtu n) => C17.inRange4 (.mtu n)              -- two bytes: 0..65535
  | .v4 (.leasetime d) => C17.inRange4 (.leasetime d)  -- four bytes: 0..2^32-1 whole seconds
  | .v4 (.ipv6only d) => C17.inRange4 (.ipv6only d)
  | .v4 (.search names) => names.all nameOK
  | .v4 (.staticroute rs) => !rs.isEmpty && rs.all routeOK
  | .v4 (.autoconfigure v) => decide (v < 256)
  | .v4 (.nbp _) => true                         -- opaque strings
  | .v4 (.sleep _) => true
  | .v4 (.serverid a) => a.length == 4
  | .v6 (.dns ips) => ips.all (·.length == 16) && fits6 (encIPs ips)
  | .v6 (.search names) => names.all nameOK && fits6 (encLabels names)
  | .v6 (.nbp c) => fits6 c.o59 &&
      (match c.o60 with | some p => decide (p.length < 65536) && fits6 (encBootParams [p]) | none => true)
  | .v6 (.sleep _) => true
  | .v6 (.serverid d) => fits6 d

/-- The part of `wireOK` that no plugin checks at start-up (finding: a DHCPv6 option body of more
than 65535 bytes is accepted, and the length field of the reply wraps around). -/
def fits : PlugCfg → Bool
  | .v6 (.dns ips) => fits6 (encIPs ips)
  | .v6 (.search names) => fits6 (encLabels names)
  | .v6 (.nbp c) => fits6 c.o59 &&
      (match c.o60 with | some p => decide (p.length < 65536) && fits6 (encBootParams [p]) | none => true)
  | _ => true

/-- how one handler invocation ended, as far as C19 is concerned -/
structure Obs where
  panicked : Bool          -- PANIC / HANG / CRASH
  rtOk     : Bool          -- a returned response serialises and parses back to the same options

def holds (cfg : PlugCfg) (o : Obs) : Bool := wireOK cfg && !o.panicked && o.rtOk

end C19
end CoreDhcp
