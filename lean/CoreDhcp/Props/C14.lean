/-
C14 — With server_id configured, replies carry this server's identity, and requests meant for
another server are discarded. Property theorems only (proofs in Proofs/OptPlug.lean).
-/
import CoreDhcp.Proofs.OptPlug
namespace CoreDhcp
open Plug

/-- DHCPv6: for every DUID, inner message and response built so far (holding at most one Server
Identifier, as every response the server constructs does): the message is discarded — nil response,
chain ended — exactly in the cases of RFC 8415 §16 (`C14.mustDiscard6`), and otherwise the reply
carries exactly one Server Identifier, the configured DUID, with everything else unchanged. -/
theorem C14_v6 (duid : Bytes) (req : ReqView6) (pre : Resp6) (hd : C17.count 2 pre.opts ≤ 1) :
    C14.holds6 duid req pre (serverid6.handle duid req pre) = true := c14_v6 duid req pre hd

/-- The RFC 8415 §16 matrix, enumerated: for all 256 message types and a request without Server
Identifier / with this server's / with another one, the model discards exactly REQUEST, RENEW,
RELEASE, DECLINE (3, 5, 8, 9) / SOLICIT, CONFIRM, REBIND (1, 4, 6) / everything. -/
theorem C14_v6_matrix :
    (List.range 256).all (fun t =>
      let own : Bytes := [0, 3, 0, 1, 0, 17, 34, 51, 68, 85]
      let other : Bytes := [0, 3, 0, 1, 0, 1, 2, 3, 4, 9]
      let pre : Resp6 := ⟨7, [(1, [254])]⟩
      let drops (sid : Option Bytes) : Bool :=
        (serverid6.handle own ⟨0, t, (1, [254]) :: (match sid with | some s => [(2, s)] | none => [])⟩ pre).1.isNone
      (drops none == [3, 5, 8, 9].contains t) && (drops (some own) == [1, 4, 6].contains t) && drops (some other)) = true :=
  c14_v6_matrix

/-- the same for every message type, as a statement about `t` -/
theorem C14_v6_matrix_all (t : Nat) (ht : t < 256) :
    let own : Bytes := [0, 3, 0, 1, 0, 17, 34, 51, 68, 85]
    let other : Bytes := [0, 3, 0, 1, 0, 1, 2, 3, 4, 9]
    let pre : Resp6 := ⟨7, [(1, [254])]⟩
    let drops (sid : Option Bytes) : Bool :=
      (serverid6.handle own ⟨0, t, (1, [254]) :: (match sid with | some s => [(2, s)] | none => [])⟩ pre).1.isNone
    ((drops none == [3, 5, 8, 9].contains t) && (drops (some own) == [1, 4, 6].contains t) && drops (some other)) = true :=
  List.all_eq_true.mp c14_v6_matrix t (List.mem_range.mpr ht)

/-- The DUID the accepted configuration stands for: DUID-LL or DUID-LLT (time 0) over Ethernet
with the MAC address `net.ParseMAC` read from the second argument. -/
theorem C14_v6_duid_of_setup (args : List ArgOracle) (duid : Bytes) (h : serverid6.setup args = .ok duid) :
    ∃ t v rest mac, args = t :: v :: rest ∧ v.mac = some mac ∧ (duid = encDuidLL mac ∨ duid = encDuidLLT mac) := by
  unfold serverid6.setup at h
  split at h
  · rename_i t v rest
    split at h
    · simp at h
    · split at h
      · simp at h
      · rename_i mac hmac
        simp only at h
        split at h
        · exact ⟨t, v, rest, mac, rfl, hmac, .inl (by simpa using h.symm)⟩
        · split at h
          · exact ⟨t, v, rest, mac, rfl, hmac, .inr (by simpa using h.symm)⟩
          · simp at h
  · simp at h

/-- DHCPv4: a BOOTREQUEST is discarded — nil response, chain ended — iff it names another server
in siaddr or in a four byte option 54 (non-zero and different from the configured address);
every other BOOTREQUEST's reply has siaddr and option 54 set to the configured address and is
otherwise unchanged. -/
theorem C14_v4 (addr : Bytes) (req : ReqView4) (pre : Resp4) :
    C14.holds4 addr req pre (serverid4.handle addr req pre) = true := c14_v4 addr req pre

/-- the configured address is `net.ParseIP(args[0]).To4()` -/
theorem C14_v4_addr_of_setup (args : List ArgOracle) (addr : Bytes) (h : serverid4.setup args = .ok addr) :
    ∃ a rest ip, args = a :: rest ∧ a.ip = some ip ∧ ip.to4 = some addr := by
  unfold serverid4.setup at h
  split at h
  · simp at h
  · rename_i a rest
    split at h
    · simp at h
    · rename_i ip hip
      split at h
      · rename_i b hb
        injection h with h; subst h
        exact ⟨a, rest, ip, rfl, hip, hb⟩
      · simp at h

/-- non-vacuity: a RENEW naming this server is stamped, a RENEW naming another is discarded -/
example : serverid6.handle [0, 3, 0, 1, 1, 2, 3, 4, 5, 6] ⟨0, 5, [(1, [9]), (2, [0, 3, 0, 1, 1, 2, 3, 4, 5, 6])]⟩ ⟨7, [(1, [9])]⟩ =
    (some ⟨7, [(1, [9]), (2, [0, 3, 0, 1, 1, 2, 3, 4, 5, 6])]⟩, false) := by decide
example : serverid6.handle [0, 3, 0, 1, 1, 2, 3, 4, 5, 6] ⟨0, 5, [(1, [9]), (2, [0, 3, 0, 1, 1, 2, 3, 4, 5, 7])]⟩ ⟨7, [(1, [9])]⟩ =
    (none, true) := by decide

end CoreDhcp
