/-
C03 — the hypothesis `hkey : ∀ m, loadKey m = some m` of C02/C03, discharged for the concrete
path a hardware address takes through the lease table (Model/HwKey.lean):
`HardwareAddr.String()` → column of NUMERIC affinity → `parseHWAddr`.
Property theorems only; the proofs are in CoreDhcp/Proofs/HwKey.lean.

What is trusted here is `sqliteAffinity`: a model of what sqlite does to the texts of the image of
`macString` (a lone pair of decimal digits loses one leading zero, every other text is kept). It is
compared with the real sqlite file by the harness.
-/
import CoreDhcp.Props.C03
import CoreDhcp.Proofs.HwKey
namespace CoreDhcp

/-- The key `saveIPAddress` wrote for a hardware address is read back by `loadRecords` as the same
address — for addresses of every length (no bound), every byte value. -/
theorem C03_key_roundtrip (m : List Nat) (hb : ∀ b ∈ m, b < 256) : loadKeyConcrete m = some m :=
  loadKeyConcrete_roundtrip m hb

/-- The Go map `Recordsv4` is keyed by `HardwareAddr.String()`, the model by the bytes: the two
keyings identify the same clients. -/
theorem C03_macString_injective (m m' : List Nat)
    (hb : ∀ b ∈ m, b < 256) (hb' : ∀ b ∈ m', b < 256) :
    macString m = macString m' → m = m' :=
  macString_injective m m' hb hb'

/-- `parseHWAddr` inverts `HardwareAddr.String()` also without the column in between (what a
column of TEXT affinity would give). -/
theorem C03_parse_macString (m : List Nat) (hb : ∀ b ∈ m, b < 256) :
    parseHWAddr (macString m) = some m :=
  parseHWAddr_macString m hb

/-- The concrete loader on a `Mac` of the model. `Mac = List Nat` only because the model does not
carry a byte type: a hardware address is a list of bytes (`net.HardwareAddr = []byte`; the driver
and the harness only ever produce values below 256), and `macString` reads a `Nat` as the byte
`b % 256`, as a Go `byte` conversion would. -/
def loadKeyBytes (m : Mac) : Option Mac := loadKeyConcrete (m.map (· % 256))

/-- `hkey` of `C02_holds` / `C03_holds` / `C03_restore`, discharged on every byte list. The
hypothesis there quantifies over all `m : List Nat`; lists with an element ≥ 256 are not hardware
addresses and no operation of the driver mentions one. -/
theorem C03_hkey_on_bytes (m : Mac) (hb : ∀ b ∈ m, b < 256) : loadKeyBytes m = some m := by
  have hm : m.map (· % 256) = m := by
    induction m with
    | nil => rfl
    | cons b bs ih =>
      have h1 : b % 256 = b := Nat.mod_eq_of_lt (hb b (by simp))
      have h2 := ih (fun x hx => hb x (List.mem_cons_of_mem _ hx))
      simp only [List.map_cons, h1, h2]
  unfold loadKeyBytes
  rw [hm]
  exact C03_key_roundtrip m hb

/-- A total loader that IS the concrete path on every hardware address (byte list) and the identity
on the junk `List Nat`s that are not hardware addresses. -/
def loadKeyTotal (m : Mac) : Option Mac :=
  if m.all (· < 256) then loadKeyConcrete m else some m

theorem loadKeyTotal_on_bytes (m : Mac) (hb : ∀ b ∈ m, b < 256) :
    loadKeyTotal m = loadKeyConcrete m := by
  have : m.all (· < 256) = true := by
    rw [List.all_eq_true]; intro b hbm; exact decide_eq_true (hb b hbm)
  simp only [loadKeyTotal, this, if_true]

/-- `hkey` for `loadKeyTotal`, with no side condition. -/
theorem C03_hkey_total (m : Mac) : loadKeyTotal m = some m := by
  unfold loadKeyTotal
  split
  · next h =>
    rw [List.all_eq_true] at h
    exact C03_key_roundtrip m (fun b hbm => of_decide_eq_true (h b hbm))
  · rfl

/-- `C03_holds` with the loader instantiated by the concrete path; no `hkey` left. -/
theorem C03_holds_concrete (start stop : BitVec 32) (lease : Int)
    (order : List (Mac × Rec) → List (Mac × Rec)) (hperm : ∀ l, (order l).Perm l)
    (s0 : RState) (hs0 : RState.setup start stop lease [] loadKeyTotal order = .ok s0)
    (ops : List ROp) (cs : List (Option Nat)) (evs : List REv) (z : RState)
    (hrun : RState.run loadKeyTotal order s0 ops cs = some (evs, z)) :
    C03.holds ⟨start, stop, lease⟩ evs = true :=
  C03_holds start stop lease loadKeyTotal order C03_hkey_total hperm s0 hs0 ops cs evs z hrun

/-- `C03_restore` with the loader instantiated by the concrete path; no `hkey` left. -/
theorem C03_restore_concrete (start stop : BitVec 32) (lease : Int)
    (order : List (Mac × Rec) → List (Mac × Rec)) (hperm : ∀ l, (order l).Perm l)
    (s0 : RState) (hs0 : RState.setup start stop lease [] loadKeyTotal order = .ok s0)
    (ops : List ROp) (cs : List (Option Nat)) (evs : List REv) (z : RState)
    (hrun : RState.run loadKeyTotal order s0 ops cs = some (evs, z)) :
    ∃ z', z.restart loadKeyTotal order = .ok z' ∧
      (∀ m, lookupRec z'.recs m = lookupRec z.recs m) ∧
      z'.alloc.bm.length = z.alloc.bm.length ∧ (∀ i, z'.alloc.bm.test i = z.alloc.bm.test i) :=
  C03_restore start stop lease loadKeyTotal order C03_hkey_total hperm s0 hs0 ops cs evs z hrun

/-! ### Worked values -/

-- "07" is stored as the integer 7 and read back as "7"
example : macString [7] = "07" := by decide
example : sqliteAffinity "07" = "7" := by decide
example : parseHWAddr "7" = some [7] := by decide
example : loadKeyConcrete [7] = some [7] := by decide
-- "00" ↦ "0"
example : sqliteAffinity (macString [0]) = "0" := by decide
example : loadKeyConcrete [0] = some [0] := by decide
-- "10" ↦ "10", "99" ↦ "99"
example : sqliteAffinity (macString [0x10]) = "10" := by decide
example : loadKeyConcrete [0x10] = some [0x10] := by decide
example : loadKeyConcrete [0x99] = some [0x99] := by decide
-- "1e" and "0e" are not numbers: kept
example : sqliteAffinity (macString [0x1e]) = "1e" := by decide
example : loadKeyConcrete [0x1e] = some [0x1e] := by decide
example : sqliteAffinity (macString [0x0e]) = "0e" := by decide
example : loadKeyConcrete [0x0e] = some [0x0e] := by decide
-- the 5-byte address of D7
example : macString [1, 2, 3, 4, 5] = "01:02:03:04:05" := by decide
example : loadKeyConcrete [1, 2, 3, 4, 5] = some [1, 2, 3, 4, 5] := by decide
-- the empty address
example : macString [] = "" := by decide
example : loadKeyConcrete [] = some [] := by decide
-- two pairs of decimal digits are not a number
example : sqliteAffinity (macString [7, 8]) = "07:08" := by decide
-- a 16-byte address (the whole chaddr field)
example : loadKeyConcrete [0, 1, 0x2a, 0xff, 0x10, 0x1e, 7, 0x99, 0xab, 0xcd, 0xef, 9, 0x0a, 0xa0, 0x80, 0x7f]
    = some [0, 1, 0x2a, 0xff, 0x10, 0x1e, 7, 0x99, 0xab, 0xcd, 0xef, 9, 0x0a, 0xa0, 0x80, 0x7f] := by
  decide
-- what `parseHWAddr` refuses and accepts
example : parseHWAddr "001" = none := by decide
example : parseHWAddr "01:" = none := by decide
example : parseHWAddr ":" = none := by decide
example : parseHWAddr "0g" = none := by decide
example : parseHWAddr "+1" = none := by decide
example : parseHWAddr "AB:cD:7" = some [0xab, 0xcd, 7] := by decide

end CoreDhcp
