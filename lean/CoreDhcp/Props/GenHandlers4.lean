/-
GEN (DHCPv4 handlers of the option plugins) — the definitions regenerated from the Go source on every
run (Generated/Handlers4.lean, written by `harness gen -unit handlers4` from the go/ast of the
`Handler4` functions of plugins/{mtu,netmask,router,dns,leasetime,searchdomains,staticroute,ipv6only,
autoconfigure,sleep,serverid,nbp}) are equal to the hand-written model (Model/OptPlug.lean,
`Plug.<plugin>.handle`) that the property theorems C16–C19 are about.

Both sides have the same shape, `configuration → ReqView4 → Resp4 → Out4`; every theorem is

    GenH4.<plugin> cfg req pre = Plug.<plugin>.handle cfg req pre        for all cfg, req, pre

with two exceptions, which are stated as they are:

  * nbp: the Go handler starts with `if opt67 == nil { return resp, true }`; the generated definition
    takes both pointers as `Option Bytes`.  The model's configuration always has an option 67
    (`nbp4.Cfg.o67 : Bytes`; `setup4` stores one before it returns the handler), so the equality is
    stated for `some cfg.o67`; `GEN_h4_nbp_unset` says what the code does for a nil `opt67`.
  * serverid: the translator assumes the guard `if v4ServerID == nil { log.Fatal(…) … }` away (it is
    recorded in the generated file), as unit serverid6 does for `v6ServerID`.

What the translation fixes (the vocabulary: `requested4`, `listed4`, `lookup`, `update`, `sid54`,
`clientSent`, the encoders) is listed in the header of gen5.go; what it derives from the source —
control flow, which condition guards which update, the option codes, which configured value goes
through which encoder, the returned pair — is what these theorems compare with the model.  An edit
of the Go logic changes the generated text, makes a statement below false and breaks this file (or
is rejected by the translator); a renamed local, a reformatted source or a moved log statement
generates the same text.
-/
import CoreDhcp.Generated.Handlers4
import CoreDhcp.Model.OptPlug
set_option linter.unusedSimpArgs false
namespace CoreDhcp
open Plug

/-! ## one update, possibly behind a test of the request -/

theorem GEN_h4_mtu_eq (cfg : Int) (req : ReqView4) (pre : Resp4) :
    GenH4.mtu cfg req pre = Plug.mtu.handle cfg req pre := rfl

theorem GEN_h4_netmask_eq (cfg : Bytes) (req : ReqView4) (pre : Resp4) :
    GenH4.netmask cfg req pre = Plug.netmask.handle cfg req pre := rfl

theorem GEN_h4_router_eq (cfg : List Bytes) (req : ReqView4) (pre : Resp4) :
    GenH4.router cfg req pre = Plug.router.handle cfg req pre := rfl

theorem GEN_h4_dns_eq (cfg : List Bytes) (req : ReqView4) (pre : Resp4) :
    GenH4.dns cfg req pre = Plug.dns4.handle cfg req pre := rfl

theorem GEN_h4_searchdomains_eq (cfg : List Bytes) (req : ReqView4) (pre : Resp4) :
    GenH4.searchdomains cfg req pre = Plug.search.handle4 cfg req pre := rfl

theorem GEN_h4_sleep_eq (cfg : Int) (req : ReqView4) (pre : Resp4) :
    GenH4.sleep cfg req pre = Plug.sleep.handle4 cfg req pre := rfl

/-- the code tests `!resp.Options.Has(51)` and updates, the model tests `Has` and keeps -/
theorem GEN_h4_leasetime_eq (cfg : Int) (req : ReqView4) (pre : Resp4) :
    GenH4.leasetime cfg req pre = Plug.leasetime.handle cfg req pre := by
  unfold GenH4.leasetime Plug.leasetime.handle
  simp only [ite_not]

/-- the code tests `len(routes) > 0`, the model `cfg = []` -/
theorem GEN_h4_staticroute_eq (cfg : List Route) (req : ReqView4) (pre : Resp4) :
    GenH4.staticroute cfg req pre = Plug.staticroute.handle cfg req pre := by
  cases cfg <;> rfl

/-! ## the search loop of ipv6only -/

theorem GEN_h4_ipv6only_eq (cfg : Int) (req : ReqView4) (pre : Resp4) :
    GenH4.ipv6only cfg req pre = Plug.ipv6only.handle cfg req pre := rfl

/-! ## autoconfigure: two early returns, one of them without a response -/

theorem GEN_h4_autoconfigure_eq (cfg : Nat) (req : ReqView4) (pre : Resp4) :
    GenH4.autoconfigure cfg req pre = Plug.autoconfigure.handle cfg req pre := rfl

/-! ## serverid -/

/-- `req.ServerIPAddr != nil` is `True` for a parsed request; `sid != nil && …` on the `Option` that
`req.ServerIdentifier()` is in the model is the model's `match`. -/
theorem GEN_h4_serverid_eq (cfg : Bytes) (req : ReqView4) (pre : Resp4) :
    GenH4.serverid cfg req pre = Plug.serverid4.handle cfg req pre := by
  unfold GenH4.serverid Plug.serverid4.handle
  cases h : Plug.serverid4.sid54 req with
  | none =>
    simp only [true_and, Option.isSome_none, Bool.false_eq_true, false_and, if_false, ne_eq]
  | some s =>
    simp only [true_and, Option.isSome_some, GenH4.deref, Option.getD_some, ne_eq]

/-! ## nbp -/

theorem GEN_h4_nbp_eq (cfg : nbp4.Cfg) (req : ReqView4) (pre : Resp4) :
    GenH4.nbp cfg.o66 (some cfg.o67) req pre = Plug.nbp4.handle cfg req pre := by
  unfold GenH4.nbp Plug.nbp4.handle
  cases cfg.o66 with
  | none =>
    simp only [Option.isSome_none, Option.isSome_some, Bool.false_eq_true, and_false, not_true_eq_false,
      if_false, GenH4.deref, Option.getD_some]
  | some v =>
    simp only [Option.isSome_some, and_true, not_true_eq_false, if_false, GenH4.deref, Option.getD_some]

/-- not in the model: with a nil `opt67` (the handler used before `setup4` ran) the code ends the
chain with the response untouched -/
theorem GEN_h4_nbp_unset (o66 : Option Bytes) (req : ReqView4) (pre : Resp4) :
    GenH4.nbp o66 none req pre = (some pre, true) := rfl

end CoreDhcp
