/-
C20 — Prefix arithmetic is exact or reports overflow, never wraps.
Property theorems only; helper lemmas live in CoreDhcp/Proofs/IPCalc.lean.
-/
import CoreDhcp.Proofs.IPCalc
import CoreDhcp.Spec.IPCalc
namespace CoreDhcp

/-- Offset(x, base, p) is the index of the /p block containing x, or overflow when the
index needs more than 64 bits. -/
theorem C20_offset_exact (x base : Addr) (p : Nat) (hp : p ≤ 128)
    (hal : base.val % 2^(128 - p) = 0) (hle : base.val ≤ x.val) :
    offset x base (p : Int) =
      if (x.val - base.val) / 2^(128 - p) < 2^64
      then .ok (BitVec.ofNat 64 ((x.val - base.val) / 2^(128 - p)))
      else .error .overflow := offset_exact x base p hp hal hle

/-- … in either argument order. -/
theorem C20_offset_symm (a b : Addr) (p : Int) : offset a b p = offset b a p := offset_symm a b p

/-- AddPrefixes(base, n, p) is the base of the n-th /p block after base, or overflow when
that lies beyond the end of the address space — never a wrapped address. -/
theorem C20_addPrefixes_exact (base : Addr) (n unit : BitVec 64) (hu : unit.toNat ≤ 128) :
    addPrefixes base n unit =
      if base.val + n.toNat * 2^(128 - unit.toNat) < 2^128
      then .ok (Addr.ofVal (base.val + n.toNat * 2^(128 - unit.toNat)))
      else .error .overflow := addPrefixes_exact base n unit hu

/-- the two are inverse -/
theorem C20_inverse (base y : Addr) (n : BitVec 64) (p : Nat) (hp : p ≤ 128)
    (hal : base.val % 2^(128 - p) = 0)
    (h : addPrefixes base n (BitVec.ofNat 64 p) = .ok y) :
    offset y base (p : Int) = .ok n := inverse base y n p hp hal h


/-- On the whole domain of the property (p in range, the smaller address aligned to /p, either
argument order) the code computes the Nat-level specification `offsetSpec` — the predicate the
driver evaluates on the implementation's answers. -/
theorem C20_offset_spec (a b : Addr) (p : Nat) (hdom : offsetInDomain a b (p : Int) = true) :
    offset a b (p : Int) = offsetSpec a b p := by
  unfold offsetInDomain at hdom
  simp only [Bool.and_eq_true, decide_eq_true_eq, beq_iff_eq, Int.toNat_natCast] at hdom
  obtain ⟨⟨_, hp⟩, hal⟩ := hdom
  have hp : p ≤ 128 := by omega
  unfold offsetSpec
  by_cases h : b.val ≤ a.val
  · rw [Nat.min_eq_right h] at hal
    rw [C20_offset_exact a b p hp hal h, Nat.max_eq_left h, Nat.min_eq_right h]
  · have h' : a.val ≤ b.val := by omega
    rw [Nat.min_eq_left h'] at hal
    rw [C20_offset_symm, C20_offset_exact b a p hp hal h', Nat.max_eq_right h', Nat.min_eq_left h']

theorem C20_addPrefixes_spec (base : Addr) (n unit : BitVec 64) (hu : unit.toNat ≤ 128) :
    addPrefixes base n unit = addPrefixesSpec base n.toNat unit.toNat := by
  unfold addPrefixesSpec
  exact C20_addPrefixes_exact base n unit hu

/-- D1 (repaired by a `fix:` commit): the code before the repair wrapped silently. The same
input is replayed on the implementation by the conformance corpus. -/
theorem C20_D1_prefix_refuted :
    addPrefixesPreFix ⟨0x20010db800000000#64, 0#64⟩ 256#64 8#64 = .ok ⟨0x20010db800000000#64, 0#64⟩ := by rfl

/-- non-vacuity: a concrete aligned base and an address above it -/
example : (⟨0x20010db800000100#64, 0#64⟩ : Addr).val % 2^(128 - 56) = 0 ∧
    (⟨0x20010db800000100#64, 0#64⟩ : Addr).val ≤ (⟨0x20010db800000105#64, 7#64⟩ : Addr).val := by decide

end CoreDhcp
