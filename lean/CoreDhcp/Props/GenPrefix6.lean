/-
GEN (prefix plugin, DHCPv6 prefix delegation) — the definitions regenerated from the Go source on every run
(Generated/Prefix6.lean, written by `harness gen -unit prefix6` from the go/ast of plugins/prefix/plugin.go:
`(*Handler).Handle` with its loops, `samePrefix`, `addPrefix`, `recordKey`, `leaseDuration`, the argument
checks of `setupPrefix`) are equal to the hand-written model (Model/Prefix.lean) that C08 / C09 are about.

The generated side keeps what the code does step by step: nested `for … range` loops as structural recursion
(`forRange`) over the hints and the leases, each on the lists as the iterations before it left them, the
`satisfied` / `givenOut` bits travelling with the elements, the dereferences of `hint.Prefix` (a nil one is a
panic = `none`), the element writes `knownLeases[i].Expire = …` reaching the map through the shared array
(`aliasSync`), the store `h.Records[key] = knownLeases` under `allocatedNew`, the IAPrefix options with both
lifetimes, the status option with its number.  The model says the same with map / filter / fold over the
lists the loops started from and one conditional `put`.

* `GEN_pd_loop1_eq`, `GEN_pd_loop2_eq`: the generated loops 1 and 2, started on (the image of) a model state,
  end in (the image of) `loop1` / `loop2` of it — for every state, no hypothesis.
* `GEN_pd_loop3_eq` (+ `GEN_pd_loop3_model`): at the choices first fit makes (`Gen9.ff3`: one per `Allocate`
  call, the `firstFit` of the allocator as it is at that moment — what the real allocator does, unit alloc6),
  the model's `loop3` is `some`, hands back the choices it did not consume, and its state projects
  (`Gen9.st3`: the `givenOut` bits dropped — the code drops them too, `append` ends the bitset's life) to what
  the generated loop 3 computes.
* `GEN_pd_handleIAPD_eq` (+ `_model`, `_gen`): the body of the loop over the IA_PD options: same new state
  (allocator and records, syntactically the same association list), and the IA_PD option added to the
  response is `Gen9.giapd` of the model's reply (lifetime twice; no prefix ↦ status 6 = NoPrefixAvail).
* `GEN_pd_handleMsg_eq` (+ `_model`, `_gen`, `GEN_pd_handle_undecapsulated`, `GEN_pd_handle_total`): `Handle`:
  `return nil, true` for a request whose inner message cannot be extracted or has no client id, else
  `return resp, false` with one IA_PD option per IA_PD of the request; it never panics.
* `GEN_pd_setup_eq`, `GEN_pd_setup_arity`: the argument checks of `setupPrefix`.

No domain hypothesis is needed: the equalities hold for every state, hint list (also outside `IAPDReq.wf`:
both sides treat a prefix length symbolically) and instant.  What the translation fixes (the vocabulary) is
listed in the header of gen9.go.  An edit of the Go logic changes the generated text, makes a statement below
false and breaks this file (or is rejected by the translator); a renamed local, a reformatted source or a
moved log statement generates the same text.
-/
import CoreDhcp.Generated.Prefix6
import CoreDhcp.Model.Prefix
import CoreDhcp.Proofs.Prefix
import CoreDhcp.Proofs.Alloc6
set_option linter.unusedSimpArgs false
set_option linter.unusedVariables false
namespace CoreDhcp
open GenPD

/-! ## the fixed vocabulary against the model -/

/-- the `net.IPNet` a hint points to once the handler has normalised it -/
def Gen9.hnet : HintP → GNet
  | .empty => ⟨none, none⟩
  | .pfx ip _ len => ⟨some ip, some len⟩
  | .nomask ip _ => ⟨some ip, none⟩

/-- the IAPrefix option `addPrefix` builds from a lease -/
def Gen9.ropt (now : Int) (l : Lease) : ROpt := .iaprefix (l.expire - now) (l.expire - now) l.pfx

/-- the hints with their `satisfied` bits, as the generated loops see them -/
def Gen9.ghs (hs : List (HintP × Bool)) : List (Option GNet × Bool) :=
  hs.map (fun q => (some (Gen9.hnet q.1), q.2))

theorem Gen9.ghs_cons (q : HintP × Bool) (hs : List (HintP × Bool)) :
    Gen9.ghs (q :: hs) = (some (Gen9.hnet q.1), q.2) :: Gen9.ghs hs := rfl

theorem Gen9.same_eq (h : HintP) (l : Lease) :
    samePrefix (some (Gen9.hnet h)) (some (blockNet l.pfx)) = h.same l := by
  cases h <;> simp [samePrefix, Gen9.hnet, blockNet, HintP.same, ipEqual, maskEqual]

theorem Gen9.extend_eq (l : Lease) (now : Int) :
    (if decide (l.expire < now + leaseDuration) then { l with expire := now + leaseDuration } else l)
      = l.extend now := by
  unfold Lease.extend leaseDuration leaseDur
  by_cases h : l.expire < now + 3600 * 1000000000 <;> simp [h]

theorem Gen9.forRange_nil {σ ε : Type} (body : σ → ε → Option (σ × ε)) (s : σ) :
    forRange body s [] = some (s, []) := rfl

theorem Gen9.forRange_cons {σ ε : Type} (body : σ → ε → Option (σ × ε)) (s : σ) (e : ε) (rest : List ε) :
    forRange body s (e :: rest) =
      match body s e with
      | none => none
      | some r =>
        match forRange body r.1 rest with
        | none => none
        | some q => some (q.1, r.2 :: q.2) := rfl

/-! ## loop 1 -/

theorem Gen9.loop1InnerBody_eq (now : Int) (h : HintP) (sat : Bool) (opts : List ROpt) (l : Lease) (g : Bool) :
    loop1InnerBody now (some (Gen9.hnet h)) (sat, opts) (l, g) =
      some (if h.same l then ((true, opts ++ [Gen9.ropt now (l.extend now)]), (l.extend now, true))
            else ((sat, opts), (l, g))) := by
  unfold loop1InnerBody
  simp only [Gen9.same_eq, Gen9.extend_eq, Gen9.ropt]
  cases h.same l <;> rfl

theorem Gen9.loop1Inner (now : Int) (h : HintP) :
    ∀ (ls : List (Lease × Bool)) (sat : Bool) (opts : List ROpt),
      forRange (loop1InnerBody now (some (Gen9.hnet h))) (sat, opts) ls =
        some ((sat || ls.any (fun p => h.same p.1),
               opts ++ (ls.filter (fun p => h.same p.1)).map (fun p => Gen9.ropt now (p.1.extend now))),
              ls.map (fun p => if h.same p.1 then (p.1.extend now, true) else p)) := by
  intro ls
  induction ls with
  | nil => intro sat opts; simp [Gen9.forRange_nil]
  | cons p rest ih =>
    intro sat opts
    obtain ⟨l, g⟩ := p
    rw [Gen9.forRange_cons, Gen9.loop1InnerBody_eq]
    cases hs : h.same l
    · simp [ih, hs]
    · simp [ih, hs]

theorem Gen9.loop1Body_eq (now : Int) (ls : List (Lease × Bool)) (opts : List ROpt) (h : HintP) (b : Bool) :
    loop1Body now (ls, opts) (some (Gen9.hnet h), b) =
      some ((ls.map (fun p => if h.same p.1 then (p.1.extend now, true) else p),
             opts ++ (ls.filter (fun p => h.same p.1)).map (fun p => Gen9.ropt now (p.1.extend now))),
            (some (Gen9.hnet h), b || ls.any (fun p => h.same p.1))) := by
  unfold loop1Body
  simp only [Gen9.loop1Inner]

theorem Gen9.same_extend (h : HintP) (l : Lease) (now : Int) : h.same (l.extend now) = h.same l := by
  cases h <;> simp [HintP.same, PrefixProof.extend_pfx]

theorem Gen9.extend_extend (l : Lease) (now : Int) : (l.extend now).extend now = l.extend now := by
  unfold Lease.extend
  by_cases h : l.expire < now + leaseDur
  · simp [h]
  · simp [h]

/-- the leases as one hint of loop 1 leaves them -/
def Gen9.mark1 (now : Int) (h : HintP) (p : Lease × Bool) : Lease × Bool :=
  if h.same p.1 then (p.1.extend now, true) else p

theorem Gen9.mark1_same (now : Int) (h h' : HintP) (p : Lease × Bool) :
    h'.same (Gen9.mark1 now h p).1 = h'.same p.1 := by
  unfold Gen9.mark1
  split <;> simp [Gen9.same_extend]

theorem Gen9.mark1_extend (now : Int) (h : HintP) (p : Lease × Bool) :
    (Gen9.mark1 now h p).1.extend now = p.1.extend now := by
  unfold Gen9.mark1
  split <;> simp [Gen9.extend_extend]

theorem Gen9.loop1Outer (now : Int) :
    ∀ (hs : List (HintP × Bool)) (ls : List (Lease × Bool)) (opts : List ROpt),
      forRange (loop1Body now) (ls, opts) (Gen9.ghs hs) =
        some ((ls.map (fun p => if hs.any (fun q => q.1.same p.1) then (p.1.extend now, true) else p),
               opts ++ hs.flatMap (fun q =>
                 (ls.filter (fun p => q.1.same p.1)).map (fun p => Gen9.ropt now (p.1.extend now)))),
              Gen9.ghs (hs.map (fun q => (q.1, q.2 || ls.any (fun p => q.1.same p.1))))) := by
  intro hs
  induction hs with
  | nil => intro ls opts; simp [Gen9.ghs, Gen9.forRange_nil]
  | cons q rest ih =>
    intro ls opts
    rw [Gen9.ghs_cons, Gen9.forRange_cons, Gen9.loop1Body_eq]
    simp only []
    rw [show (ls.map (fun p => if q.1.same p.1 then (p.1.extend now, true) else p)) = ls.map (Gen9.mark1 now q.1) from rfl]
    rw [ih]
    simp only [List.map_map, List.filter_map, List.any_map, Function.comp_def, Gen9.mark1_same, Gen9.mark1_extend,
      List.map_cons, Gen9.ghs_cons, List.flatMap_cons, List.append_assoc, List.any_cons]
    congr 3
    apply List.map_congr_left
    intro p _
    by_cases h1 : q.1.same p.1 = true
    · by_cases h2 : (rest.any fun q => q.fst.same p.fst) = true <;> simp [h1, h2, Gen9.mark1]
    · by_cases h2 : (rest.any fun q => q.fst.same p.fst) = true <;> simp [h1, h2, Gen9.mark1]

/-- G-pd-loop1: the generated loop 1 (nested structural recursion over the hints and, for each, over the
leases, on the lists as earlier hints left them) is the model's `loop1` (map / filter over the lists the loop
started from). -/
theorem GEN_pd_loop1_eq (now : Int) (st : LoopSt) :
    forRange (loop1Body now) (st.ls, st.reply.map (Gen9.ropt now)) (Gen9.ghs st.hs) =
      some (((loop1 now st).ls, (loop1 now st).reply.map (Gen9.ropt now)), Gen9.ghs (loop1 now st).hs) := by
  rw [Gen9.loop1Outer]
  unfold loop1
  simp only [List.any_map, List.flatMap_map, List.map_append, List.map_flatMap, List.map_map, Function.comp_def]

/-! ## loop 2 -/

theorem Gen9.maskOnes_hnet (h : HintP) : maskOnes (Gen9.hnet h).mask = h.wantLen := by
  cases h <;> rfl

theorem Gen9.maskOnes_block (b : Block) : maskOnes (blockNet b).mask = b.len := rfl

theorem Gen9.unspec_hnet (h : HintP) :
    (ipLen (Gen9.hnet h).ip != 0 && !ipEqual (Gen9.hnet h).ip (some ⟨0#64, 0#64⟩)) = !h.unspecified := by
  cases h <;> simp [Gen9.hnet, ipLen, ipEqual, HintP.unspecified]

theorem Gen9.loop2InnerBody_eq (now : Int) (h : HintP) (sat : Bool) (opts : List ROpt) (l : Lease) (g : Bool) :
    loop2InnerBody now (Gen9.hnet h) (sat, opts) (l, g) =
      some (if loop2Eligible h (l, g) then ((true, opts ++ [Gen9.ropt now (l.extend now)]), (l.extend now, true))
            else ((sat, opts), (l, g))) := by
  unfold loop2InnerBody loop2Eligible
  simp only [Gen9.maskOnes_hnet, Gen9.extend_eq, Gen9.ropt, Gen9.maskOnes_block]
  cases g
  · by_cases h0 : h.wantLen = 0
    · simp [h0]
    · by_cases h1 : h.wantLen = l.pfx.len
      · simp [h0, h1]
      · simp [h0, h1]
  · simp

theorem Gen9.loop2Inner (now : Int) (h : HintP) :
    ∀ (ls : List (Lease × Bool)) (sat : Bool) (opts : List ROpt),
      forRange (loop2InnerBody now (Gen9.hnet h)) (sat, opts) ls =
        some ((sat || ls.any (loop2Eligible h),
               opts ++ (ls.filter (loop2Eligible h)).map (fun p => Gen9.ropt now (p.1.extend now))),
              ls.map (fun p => if loop2Eligible h p then (p.1.extend now, true) else p)) := by
  intro ls
  induction ls with
  | nil => intro sat opts; simp [Gen9.forRange_nil]
  | cons p rest ih =>
    intro sat opts
    obtain ⟨l, g⟩ := p
    rw [Gen9.forRange_cons, Gen9.loop2InnerBody_eq]
    cases hs : loop2Eligible h (l, g)
    · simp [ih, hs]
    · simp [ih, hs]

theorem Gen9.loop2Body_eq (now : Int) (ls : List (Lease × Bool)) (reply : List Lease) (q : HintP × Bool) :
    loop2Body now (ls, reply.map (Gen9.ropt now)) (some (Gen9.hnet q.1), q.2) =
      some (((loop2Step now (ls, reply, []) q).1, (loop2Step now (ls, reply, []) q).2.1.map (Gen9.ropt now)),
            (some (Gen9.hnet ((loop2Step now (ls, reply, []) q).2.2.headD q).1),
              ((loop2Step now (ls, reply, []) q).2.2.headD q).2)) := by
  unfold loop2Body loop2Step
  obtain ⟨h, b⟩ := q
  cases b
  · simp only [Gen9.unspec_hnet, Gen9.loop2Inner]
    cases hu : h.unspecified
    · simp
    · simp
  · simp

theorem Gen9.loop2Step_split (now : Int) (ls : List (Lease × Bool)) (reply : List Lease)
    (done : List (HintP × Bool)) (q : HintP × Bool) :
    loop2Step now (ls, reply, done) q =
      ((loop2Step now (ls, reply, []) q).1, (loop2Step now (ls, reply, []) q).2.1,
        done ++ [(loop2Step now (ls, reply, []) q).2.2.headD q]) := by
  unfold loop2Step
  simp only
  split <;> simp

theorem Gen9.loop2_fold_split (now : Int) :
    ∀ (hs : List (HintP × Bool)) (ls : List (Lease × Bool)) (reply : List Lease) (done : List (HintP × Bool)),
      hs.foldl (loop2Step now) (ls, reply, done) =
        ((hs.foldl (loop2Step now) (ls, reply, [])).1, (hs.foldl (loop2Step now) (ls, reply, [])).2.1,
          done ++ (hs.foldl (loop2Step now) (ls, reply, [])).2.2) := by
  intro hs
  induction hs with
  | nil => intro ls reply done; simp
  | cons q rest ih =>
    intro ls reply done
    rw [List.foldl_cons, List.foldl_cons, Gen9.loop2Step_split now ls reply done,
      Gen9.loop2Step_split now ls reply [], ih _ _ (done ++ _), ih _ _ ([] ++ _)]
    simp

theorem Gen9.loop2Outer (now : Int) :
    ∀ (hs : List (HintP × Bool)) (ls : List (Lease × Bool)) (reply : List Lease),
      forRange (loop2Body now) (ls, reply.map (Gen9.ropt now)) (Gen9.ghs hs) =
        some (((hs.foldl (loop2Step now) (ls, reply, [])).1,
               (hs.foldl (loop2Step now) (ls, reply, [])).2.1.map (Gen9.ropt now)),
              Gen9.ghs (hs.foldl (loop2Step now) (ls, reply, [])).2.2) := by
  intro hs
  induction hs with
  | nil => intro ls reply; simp [Gen9.ghs, Gen9.forRange_nil]
  | cons q rest ih =>
    intro ls reply
    rw [Gen9.ghs_cons, Gen9.forRange_cons, Gen9.loop2Body_eq]
    simp only []
    rw [ih, List.foldl_cons, Gen9.loop2Step_split now ls reply [], Gen9.loop2_fold_split now rest _ _ ([] ++ _)]
    simp [Gen9.ghs]

/-- G-pd-loop2: the generated loop 2 is the model's `loop2` (a fold of `loop2Step` over the hints). -/
theorem GEN_pd_loop2_eq (now : Int) (st : LoopSt) :
    forRange (loop2Body now) (st.ls, st.reply.map (Gen9.ropt now)) (Gen9.ghs st.hs) =
      some (((loop2 now st).ls, (loop2 now st).reply.map (Gen9.ropt now)), Gen9.ghs (loop2 now st).hs) := by
  rw [Gen9.loop2Outer]
  rfl

/-! ## loop 3 -/

/-- first fit is always an admissible choice: the `getD` default of `allocFF` is never taken -/
theorem Gen9.allocFF_eq (a : A6) (h : Hint6) : a.allocate h a.firstFit = some (allocFF a h) := by
  have hh := A6.firstFit_admissible a h
  unfold allocFF
  cases hal : a.allocate h a.firstFit with
  | none => rw [hal] at hh; cases hh
  | some p => rfl

theorem Gen9.netHint_hnet (h : HintP) : netHint (Gen9.hnet h) = h.toHint6 := by
  cases h <;> rfl

/-- one hint of loop 3 on the model's side when the allocator's choice is first fit: the new state and the
choices consumed (one per `Allocate` call: the first fit of the allocator as it is at that moment) -/
def Gen9.step3 (now : Int) (st : LoopSt) (q : HintP × Bool) : LoopSt × List (Option Nat) :=
  if q.2 || (q.1 == .empty && !st.reply.isEmpty) then (st, [])
  else
    match allocFF st.alloc q.1.toHint6 with
    | (a', .error _) => ({ st with alloc := a' }, [st.alloc.firstFit])
    | (a', .ok b) =>
      ({ st with alloc := a', ls := st.ls ++ [((⟨b, now + leaseDur⟩ : Lease), true)],
                 reply := st.reply ++ [⟨b, now + leaseDur⟩], fresh := true }, [st.alloc.firstFit])

def Gen9.run3 (now : Int) : LoopSt → List (HintP × Bool) → LoopSt × List (Option Nat)
  | st, [] => (st, [])
  | st, q :: rest =>
    ((Gen9.run3 now (Gen9.step3 now st q).1 rest).1,
      (Gen9.step3 now st q).2 ++ (Gen9.run3 now (Gen9.step3 now st q).1 rest).2)

theorem Gen9.step3_model (now : Int) (st : LoopSt) (q : HintP × Bool) (cs : List (Option Nat)) :
    loop3Step now (some (st, (Gen9.step3 now st q).2 ++ cs)) q = some ((Gen9.step3 now st q).1, cs) := by
  unfold loop3Step Gen9.step3
  obtain ⟨h, b⟩ := q
  cases b
  · cases hc : (h == HintP.empty && !st.reply.isEmpty)
    · simp only [Bool.false_or, hc, Bool.false_eq_true, if_false]
      generalize hr : allocFF st.alloc h.toHint6 = r
      obtain ⟨a', res⟩ := r
      cases res with
      | error e => simp [Gen9.allocFF_eq, hr]
      | ok blk => simp [Gen9.allocFF_eq, hr]
    · simp [hc]
  · simp

theorem Gen9.run3_model (now : Int) :
    ∀ (hs : List (HintP × Bool)) (st : LoopSt) (cs : List (Option Nat)),
      hs.foldl (loop3Step now) (some (st, (Gen9.run3 now st hs).2 ++ cs)) = some ((Gen9.run3 now st hs).1, cs) := by
  intro hs
  induction hs with
  | nil => intro st cs; simp [Gen9.run3]
  | cons q rest ih =>
    intro st cs
    rw [List.foldl_cons, Gen9.run3]
    simp only [List.append_assoc]
    rw [Gen9.step3_model, ih]

/-- what the generated loop 3 threads, read off a model state: the handler state (allocator + records), the
leases without their `givenOut` bits, the options added so far, `allocatedNew` -/
def Gen9.st3 (now : Int) (recs : List (ClientKey × List Lease)) (st : LoopSt) :
    List ROpt × PState × List Lease × Bool :=
  (st.reply.map (Gen9.ropt now), ⟨st.alloc, recs⟩, st.ls.map (·.1), st.fresh)

theorem Gen9.loop3Body_eq (now : Int) (recs : List (ClientKey × List Lease)) (st : LoopSt) (q : HintP × Bool) :
    loop3Body now (Gen9.st3 now recs st) (some (Gen9.hnet q.1), q.2) =
      some (Gen9.st3 now recs (Gen9.step3 now st q).1, (some (Gen9.hnet q.1), q.2)) := by
  unfold loop3Body Gen9.step3 Gen9.st3
  obtain ⟨h, b⟩ := q
  cases b
  · have hc : (ipLen (Gen9.hnet h).ip == 0 && (Gen9.hnet h).mask.isNone &&
        decide ((st.reply.map (Gen9.ropt now)).length > 0)) = (h == HintP.empty && !st.reply.isEmpty) := by
      cases h <;> cases st.reply <;> simp [Gen9.hnet, ipLen]
    simp only [hc, Bool.false_or, Bool.false_eq_true, if_false, Option.isNone_some, Gen9.netHint_hnet]
    cases hc2 : (h == HintP.empty && !st.reply.isEmpty)
    · simp only [Bool.false_eq_true, if_false]
      generalize hr : allocFF st.alloc h.toHint6 = r
      obtain ⟨a', res⟩ := r
      cases res with
      | error e => simp
      | ok blk => simp [Gen9.ropt, leaseDuration, leaseDur]
    · simp
  · simp

theorem Gen9.loop3Outer (now : Int) (recs : List (ClientKey × List Lease)) :
    ∀ (hs : List (HintP × Bool)) (st : LoopSt),
      forRange (loop3Body now) (Gen9.st3 now recs st) (Gen9.ghs hs) =
        some (Gen9.st3 now recs (Gen9.run3 now st hs).1, Gen9.ghs hs) := by
  intro hs
  induction hs with
  | nil => intro st; simp [Gen9.ghs, Gen9.forRange_nil, Gen9.run3]
  | cons q rest ih =>
    intro st
    rw [Gen9.ghs_cons, Gen9.forRange_cons, Gen9.loop3Body_eq]
    simp only []
    rw [ih, Gen9.run3]

theorem Gen9.step3_hs (now : Int) (st : LoopSt) (q : HintP × Bool) : (Gen9.step3 now st q).1.hs = st.hs := by
  unfold Gen9.step3
  split
  · rfl
  · split <;> rfl

theorem Gen9.run3_hs (now : Int) : ∀ (hs : List (HintP × Bool)) (st : LoopSt), (Gen9.run3 now st hs).1.hs = st.hs := by
  intro hs
  induction hs with
  | nil => intro st; rfl
  | cons q rest ih => intro st; rw [Gen9.run3]; simp only []; rw [ih, Gen9.step3_hs]

/-- the choices first fit makes in loop 3 started from `st` -/
def Gen9.ff3 (now : Int) (st : LoopSt) : List (Option Nat) := (Gen9.run3 now st st.hs).2

/-- G-pd-loop3, the model's side: driven by the first-fit choices the model's `loop3` ends in
`(run3 …).1` and hands back the choices it did not need. -/
theorem GEN_pd_loop3_model (now : Int) (st : LoopSt) (cs : List (Option Nat)) :
    loop3 now st (Gen9.ff3 now st ++ cs) = some ((Gen9.run3 now st st.hs).1, cs) :=
  Gen9.run3_model now st.hs st cs

/-- G-pd-loop3: the generated loop 3 computes the projection `st3` of the state the model's `loop3` ends in
when the allocator's choices are first fit (what the real allocator does, unit alloc6). -/
theorem GEN_pd_loop3_eq (now : Int) (recs : List (ClientKey × List Lease)) (st : LoopSt) (cs : List (Option Nat)) :
    (loop3 now st (Gen9.ff3 now st ++ cs)).map (fun r => ((Gen9.st3 now recs r.1, Gen9.ghs r.1.hs), r.2)) =
      (forRange (loop3Body now) (Gen9.st3 now recs st) (Gen9.ghs st.hs)).map (fun g => (g, cs)) := by
  rw [GEN_pd_loop3_model, Gen9.loop3Outer]
  have := Gen9.run3_hs now st.hs st
  simp [this]

/-! ## one IA_PD -/

theorem Gen9.normalizeBody_eq (now : Int) (h : HintP) :
    normalizeBody now () (parsedPrefix h) = some ((), some (Gen9.hnet h)) := by
  cases h <;> rfl

theorem Gen9.normalize_parsed (now : Int) :
    ∀ (l : List HintP), forRange (normalizeBody now) () (l.map parsedPrefix) = some ((), l.map (fun h => some (Gen9.hnet h))) := by
  intro l
  induction l with
  | nil => rfl
  | cons h rest ih =>
    rw [List.map_cons, Gen9.forRange_cons, Gen9.normalizeBody_eq]
    simp only []
    rw [ih]
    rfl

/-- the hints of an IA_PD as the handler has them after its first two steps (a synthetic `&net.IPNet{}` for an
IA_PD without IAPrefix option, `&net.IPNet{}` in place of every nil `Prefix`): the model's `hintsOf` -/
theorem Gen9.normalize_eq (now : Int) (q : IAPDReq) :
    forRange (normalizeBody now) ()
        (if (q.hints.map parsedPrefix).length == 0 then [some (GNet.mk none none)] else q.hints.map parsedPrefix) =
      some ((), (PrefixProof.hintsOf q).map (fun h => some (Gen9.hnet h))) := by
  unfold PrefixProof.hintsOf
  cases hq : q.hints with
  | nil => rfl
  | cons h rest =>
    simp only [List.map_cons, List.length_cons, List.isEmpty_cons, Bool.false_eq_true, if_false]
    rw [if_neg (by simp)]
    exact Gen9.normalize_parsed now (h :: rest)

theorem Gen9.loop2_fold_len (now : Int) :
    ∀ (hs : List (HintP × Bool)) (acc : List (Lease × Bool) × List Lease × List (HintP × Bool)),
      (hs.foldl (loop2Step now) acc).1.length = acc.1.length := by
  intro hs
  induction hs with
  | nil => intro acc; rfl
  | cons q rest ih =>
    intro acc
    rw [List.foldl_cons, ih]
    obtain ⟨ls, reply, done⟩ := acc
    unfold loop2Step
    simp only
    split <;> simp

theorem Gen9.loop12_len (now : Int) (st : LoopSt) : (loop2 now (loop1 now st)).ls.length = st.ls.length := by
  unfold loop2
  simp only
  rw [Gen9.loop2_fold_len]
  unfold loop1
  simp

theorem Gen9.loop1_len (now : Int) (st : LoopSt) : (loop1 now st).ls.length = st.ls.length := by
  unfold loop1
  simp

theorem Gen9.step3_fresh_mono (now : Int) (st : LoopSt) (q : HintP × Bool) (h : st.fresh = true) :
    (Gen9.step3 now st q).1.fresh = true := by
  unfold Gen9.step3
  split
  · exact h
  · split
    · exact h
    · rfl

theorem Gen9.run3_fresh_mono (now : Int) :
    ∀ (hs : List (HintP × Bool)) (st : LoopSt), st.fresh = true → (Gen9.run3 now st hs).1.fresh = true := by
  intro hs
  induction hs with
  | nil => intro st h; exact h
  | cons q rest ih => intro st h; rw [Gen9.run3]; exact ih _ (Gen9.step3_fresh_mono now st q h)

theorem Gen9.step3_nofresh (now : Int) (st : LoopSt) (q : HintP × Bool) :
    (Gen9.step3 now st q).1.fresh = true ∨
      ((Gen9.step3 now st q).1.ls = st.ls ∧ (Gen9.step3 now st q).1.fresh = st.fresh) := by
  unfold Gen9.step3
  split
  · exact Or.inr ⟨rfl, rfl⟩
  · split
    · exact Or.inr ⟨rfl, rfl⟩
    · exact Or.inl rfl

/-- nothing allocated: the leases are the ones loop 3 started from -/
theorem Gen9.run3_nofresh (now : Int) :
    ∀ (hs : List (HintP × Bool)) (st : LoopSt), (Gen9.run3 now st hs).1.fresh = false →
      (Gen9.run3 now st hs).1.ls = st.ls := by
  intro hs
  induction hs with
  | nil => intro st _; rfl
  | cons q rest ih =>
    intro st h
    rw [Gen9.run3] at h ⊢
    simp only [] at h ⊢
    rcases Gen9.step3_nofresh now st q with h1 | ⟨h1, _⟩
    · rw [Gen9.run3_fresh_mono now rest _ h1] at h
      cases h
    · rw [ih _ h, h1]

theorem Gen9.isEmpty_of_len {α β : Type} (a : List α) (b : List β) (h : a.length = b.length) :
    a.isEmpty = b.isEmpty := by
  cases a <;> cases b <;> simp at h ⊢

theorem Gen9.filter_put (s : PState) (c : ClientKey) (ls : List Lease) :
    (s.put c ls).filter (fun p => !(p.1 == c)) = s.recs.filter (fun p => !(p.1 == c)) := by
  unfold PState.put
  simp [List.filter_cons, List.filter_filter]

/-- the store absorbs the write-throughs to the same key that came before it -/
theorem Gen9.put_sync (s : PState) (a : A6) (c : ClientKey) (l1 ls : List Lease) :
    PState.put ⟨a, aliasSync s c l1⟩ c ls = s.put c ls := by
  unfold aliasSync
  split
  · rfl
  · show (c, ls) :: (s.put c l1).filter (fun p => !(p.1 == c)) = _
    rw [Gen9.filter_put]
    rfl

theorem Gen9.sync_sync (s : PState) (a : A6) (c : ClientKey) (l1 l2 : List Lease) (h : l1.isEmpty = l2.isEmpty) :
    aliasSync ⟨a, aliasSync s c l1⟩ c l2 = aliasSync s c l2 := by
  cases h2 : l2.isEmpty
  · have e : ∀ t : PState, aliasSync t c l2 = t.put c l2 := by
      intro t; unfold aliasSync; rw [h2]; rfl
    rw [e, e, Gen9.put_sync]
  · have e : ∀ (t : PState) (l : List Lease), l.isEmpty = true → aliasSync t c l = t.recs := by
      intro t l hl; unfold aliasSync; rw [hl]; rfl
    rw [e _ l2 h2, e _ l2 h2, e _ l1 (h.trans h2)]

/-- the state loop 3 ends in for one IA_PD, and the choices consumed, when the allocator's choices are first fit -/
def Gen9.endIAPD (s : PState) (c : ClientKey) (q : IAPDReq) (now : Int) : LoopSt × List (Option Nat) :=
  Gen9.run3 now (loop2 now (loop1 now (PrefixProof.st0 s c q))) (loop2 now (loop1 now (PrefixProof.st0 s c q))).hs

/-- the choices first fit makes while one IA_PD is handled -/
def Gen9.ffIAPD (s : PState) (c : ClientKey) (q : IAPDReq) (now : Int) : List (Option Nat) :=
  (Gen9.endIAPD s c q now).2

/-- the model's `handleIAPD` at those choices: the new state and the reply -/
def Gen9.outIAPD (s : PState) (c : ClientKey) (q : IAPDReq) (now : Int) : PState × IAPDResp :=
  (⟨(Gen9.endIAPD s c q now).1.alloc,
      if (Gen9.endIAPD s c q now).1.fresh || !(s.leasesOf c).isEmpty
      then s.put c ((Gen9.endIAPD s c q now).1.ls.map (·.1)) else s.recs⟩,
    ⟨q.iaid, (Gen9.endIAPD s c q now).1.reply.map (fun l => (l.pfx, l.expire - now))⟩)

/-- the IA_PD option of the reply as the code builds it, from the model's: the IAPrefix options carry the
lifetime twice (preferred = valid); a reply without prefix carries the status code NoPrefixAvail (6) -/
def Gen9.giapd (r : IAPDResp) : GIAPD :=
  ⟨r.iaid, if r.pfxs.isEmpty then [ROpt.status 6] else r.pfxs.map (fun x => ROpt.iaprefix x.2 x.2 x.1)⟩

theorem GEN_pd_handleIAPD_model (s : PState) (c : ClientKey) (q : IAPDReq) (now : Int) (cs : List (Option Nat)) :
    s.handleIAPD c q now (Gen9.ffIAPD s c q now ++ cs) =
      some ((Gen9.outIAPD s c q now).1, (Gen9.outIAPD s c q now).2, cs) := by
  rw [PrefixProof.handleIAPD_eq]
  unfold Gen9.ffIAPD Gen9.endIAPD
  rw [show (Gen9.run3 now (loop2 now (loop1 now (PrefixProof.st0 s c q)))
      (loop2 now (loop1 now (PrefixProof.st0 s c q))).hs).2 =
        Gen9.ff3 now (loop2 now (loop1 now (PrefixProof.st0 s c q))) from rfl, GEN_pd_loop3_model]
  rfl

theorem GEN_pd_handleIAPD_gen (s : PState) (c : ClientKey) (q : IAPDReq) (now : Int) (added : List GIAPD) :
    iapdBody now c (s, added) q =
      some (((Gen9.outIAPD s c q now).1, added ++ [Gen9.giapd (Gen9.outIAPD s c q now).2]), q) := by
  unfold iapdBody
  simp only []
  rw [Gen9.normalize_eq]
  simp only []
  have e1 : ((PrefixProof.hintsOf q).map (fun h => some (Gen9.hnet h))).map (fun x => (x, false)) =
      Gen9.ghs (PrefixProof.st0 s c q).hs := by
    simp [PrefixProof.st0, Gen9.ghs, List.map_map, Function.comp_def]
  rw [e1]
  erw [GEN_pd_loop1_eq now (PrefixProof.st0 s c q)]
  simp only []
  erw [GEN_pd_loop2_eq now (loop1 now (PrefixProof.st0 s c q))]
  simp only []
  have hl1 : ((loop1 now (PrefixProof.st0 s c q)).ls.map (fun x => x.fst)).isEmpty = (s.leasesOf c).isEmpty :=
    Gen9.isEmpty_of_len _ _ (by simp [Gen9.loop1_len, PrefixProof.st0])
  have hl2 : ((loop2 now (loop1 now (PrefixProof.st0 s c q))).ls.map (fun x => x.fst)).isEmpty = (s.leasesOf c).isEmpty :=
    Gen9.isEmpty_of_len _ _ (by simp [Gen9.loop12_len, PrefixProof.st0])
  rw [Gen9.sync_sync s s.alloc c _ _ (hl1.trans hl2.symm)]
  erw [Gen9.loop3Outer now _ (loop2 now (loop1 now (PrefixProof.st0 s c q))).hs (loop2 now (loop1 now (PrefixProof.st0 s c q)))]
  simp only [Gen9.st3]
  have hnf := Gen9.run3_nofresh now (loop2 now (loop1 now (PrefixProof.st0 s c q))).hs
    (loop2 now (loop1 now (PrefixProof.st0 s c q)))
  unfold Gen9.outIAPD Gen9.endIAPD Gen9.giapd
  generalize Gen9.run3 now (loop2 now (loop1 now (PrefixProof.st0 s c q)))
    (loop2 now (loop1 now (PrefixProof.st0 s c q))).hs = R at hnf ⊢
  generalize loop2 now (loop1 now (PrefixProof.st0 s c q)) = st2 at hnf hl2 ⊢
  have hopts : (if ((R.1.reply.map (Gen9.ropt now)).length == 0) = true
        then R.1.reply.map (Gen9.ropt now) ++ [ROpt.status 6] else R.1.reply.map (Gen9.ropt now)) =
      (if (R.1.reply.map (fun l => (l.pfx, l.expire - now))).isEmpty = true then [ROpt.status 6]
        else (R.1.reply.map (fun l => (l.pfx, l.expire - now))).map (fun x => ROpt.iaprefix x.2 x.2 x.1)) := by
    cases R.1.reply with
    | nil => rfl
    | cons l rest => simp [Gen9.ropt, List.map_map, Function.comp_def]
  have hrecs : (if R.1.fresh = true then
        ({ alloc := R.1.alloc, recs := PState.put ⟨R.1.alloc, aliasSync s c (st2.ls.map (fun x => x.fst))⟩
            c (R.1.ls.map (fun x => x.fst)) } : PState)
      else { alloc := R.1.alloc, recs := aliasSync s c (st2.ls.map (fun x => x.fst)) }) =
      { alloc := R.1.alloc, recs := if (R.1.fresh || !(s.leasesOf c).isEmpty) = true
          then s.put c (R.1.ls.map (fun x => x.fst)) else s.recs } := by
    cases hf : R.1.fresh
    · simp only [Bool.false_eq_true, if_false, Bool.false_or]
      rw [hnf hf]
      unfold aliasSync
      rw [hl2]
      cases (s.leasesOf c).isEmpty <;> rfl
    · simp only [if_true, Bool.true_or]
      rw [Gen9.put_sync]
  refine congrArg some (Prod.ext (Prod.ext ?_ ?_) rfl)
  · exact hrecs
  · exact congrArg (fun o => added ++ [GIAPD.mk q.iaid o]) hopts

/-- G-pd-handleIAPD: with the allocator's choices taken first fit, the body of the loop over the IA_PD options
generated from the source leaves the state the model's `handleIAPD` leaves and adds to the response the IA_PD
option the model's reply stands for. -/
theorem GEN_pd_handleIAPD_eq (s : PState) (c : ClientKey) (q : IAPDReq) (now : Int) (added : List GIAPD)
    (cs : List (Option Nat)) :
    (s.handleIAPD c q now (Gen9.ffIAPD s c q now ++ cs)).map
        (fun r => (((r.1, added ++ [Gen9.giapd r.2.1]), q), r.2.2)) =
      (iapdBody now c (s, added) q).map (fun g => (g, cs)) := by
  rw [GEN_pd_handleIAPD_model, GEN_pd_handleIAPD_gen]
  rfl

/-! ## one message -/

/-- the model's loop over the IA_PDs at first fit: the final state, the replies, the choices consumed -/
def Gen9.runGo (now : Int) (c : ClientKey) :
    PState → List IAPDResp → List IAPDReq → (PState × List IAPDResp) × List (Option Nat)
  | s, acc, [] => ((s, acc), [])
  | s, acc, i :: rest =>
    ((Gen9.runGo now c (Gen9.outIAPD s c i now).1 (acc ++ [(Gen9.outIAPD s c i now).2]) rest).1,
      Gen9.ffIAPD s c i now ++
        (Gen9.runGo now c (Gen9.outIAPD s c i now).1 (acc ++ [(Gen9.outIAPD s c i now).2]) rest).2)

theorem Gen9.runGo_model (now : Int) (c : ClientKey) :
    ∀ (iapds : List IAPDReq) (s : PState) (acc : List IAPDResp) (cs : List (Option Nat)),
      PState.handleMsg.go now c s acc ((Gen9.runGo now c s acc iapds).2 ++ cs) iapds =
        some ((Gen9.runGo now c s acc iapds).1.1, some (Gen9.runGo now c s acc iapds).1.2, cs) := by
  intro iapds
  induction iapds with
  | nil => intro s acc cs; rfl
  | cons i rest ih =>
    intro s acc cs
    rw [PrefixProof.go_cons, Gen9.runGo]
    simp only [List.append_assoc]
    rw [GEN_pd_handleIAPD_model]
    simp only []
    rw [ih]

theorem Gen9.runGo_gen (now : Int) (c : ClientKey) :
    ∀ (iapds : List IAPDReq) (s : PState) (acc : List IAPDResp),
      forRange (iapdBody now c) (s, acc.map Gen9.giapd) iapds =
        some (((Gen9.runGo now c s acc iapds).1.1, (Gen9.runGo now c s acc iapds).1.2.map Gen9.giapd), iapds) := by
  intro iapds
  induction iapds with
  | nil => intro s acc; rfl
  | cons i rest ih =>
    intro s acc
    rw [Gen9.forRange_cons, GEN_pd_handleIAPD_gen]
    simp only []
    rw [show acc.map Gen9.giapd ++ [Gen9.giapd (Gen9.outIAPD s c i now).2] =
      (acc ++ [(Gen9.outIAPD s c i now).2]).map Gen9.giapd by simp]
    rw [ih, Gen9.runGo]

/-- the choices first fit makes while one message is handled -/
def Gen9.ffMsg (s : PState) (client : Option ClientKey) (iapds : List IAPDReq) (now : Int) : List (Option Nat) :=
  match client with
  | none => []
  | some c => (Gen9.runGo now c s [] iapds).2

/-- the model's `handleMsg` at those choices -/
def Gen9.outMsg (s : PState) (client : Option ClientKey) (iapds : List IAPDReq) (now : Int) :
    PState × Option (List IAPDResp) :=
  match client with
  | none => (s, none)
  | some c => ((Gen9.runGo now c s [] iapds).1.1, some (Gen9.runGo now c s [] iapds).1.2)

/-- what `Handle` returns, from the model's reply: nothing sent ↦ `return nil, true`; the IA_PD options ↦
`return resp, false` with these options added to `resp` -/
def Gen9.ret : Option (List IAPDResp) → Ret
  | none => .ret none true
  | some l => .ret (some (l.map Gen9.giapd)) false

theorem GEN_pd_handleMsg_model (s : PState) (client : Option ClientKey) (iapds : List IAPDReq) (now : Int)
    (cs : List (Option Nat)) :
    s.handleMsg client iapds now (Gen9.ffMsg s client iapds now ++ cs) =
      some ((Gen9.outMsg s client iapds now).1, (Gen9.outMsg s client iapds now).2, cs) := by
  cases client with
  | none => rfl
  | some c => exact Gen9.runGo_model now c iapds s [] cs

theorem GEN_pd_handleMsg_gen (s : PState) (client : Option ClientKey) (iapds : List IAPDReq) (now : Int) :
    handle now s ⟨some ⟨client, iapds⟩⟩ =
      some ((Gen9.outMsg s client iapds now).1, Gen9.ret (Gen9.outMsg s client iapds now).2) := by
  cases client with
  | none => rfl
  | some c =>
    unfold handle
    simp only []
    rw [show ([] : List GIAPD) = ([] : List IAPDResp).map Gen9.giapd from rfl, Gen9.runGo_gen]
    rfl

/-- G-pd-handleMsg: with the allocator's choices taken first fit, `Handle` generated from the source, on a
request whose inner message has the client id `client` (`none` = absent) and the IA_PD options `iapds`, leaves
the state the model's `handleMsg` leaves and returns what the model's reply stands for. -/
theorem GEN_pd_handleMsg_eq (s : PState) (client : Option ClientKey) (iapds : List IAPDReq) (now : Int)
    (cs : List (Option Nat)) :
    (s.handleMsg client iapds now (Gen9.ffMsg s client iapds now ++ cs)).map
        (fun r => ((r.1, Gen9.ret r.2.1), r.2.2)) =
      (handle now s ⟨some ⟨client, iapds⟩⟩).map (fun g => (g, cs)) := by
  rw [GEN_pd_handleMsg_model, GEN_pd_handleMsg_gen]
  rfl

/-- a request whose inner message cannot be extracted: `return nil, true`, the state untouched — the model's
`handleMsg` with `client := none` -/
theorem GEN_pd_handle_undecapsulated (s : PState) (now : Int) (iapds : List IAPDReq) (cs : List (Option Nat)) :
    (s.handleMsg none iapds now cs).map (fun r => ((r.1, Gen9.ret r.2.1), r.2.2)) =
      (handle now s ⟨none⟩).map (fun g => (g, cs)) := rfl

/-- the generated handler never panics (no nil dereference, no inadmissible choice) -/
theorem GEN_pd_handle_total (s : PState) (req : ReqV) (now : Int) : (handle now s req).isSome = true := by
  obtain ⟨inner⟩ := req
  cases inner with
  | none => rfl
  | some m =>
    obtain ⟨client, iapds⟩ := m
    rw [GEN_pd_handleMsg_gen]
    rfl

/-! ## setupPrefix -/

/-- the model's error classes from the error texts of the source: the model does not tell an IPv4 pool from an
unparsable one -/
def Gen9.setupErr : SetupErr → PSetupErr
  | .arity => .arity
  | .cidr => .cidr
  | .notV6 => .cidr
  | .size => .size
  | .alloc => .alloc

/-- the model's `pool` from what `net.ParseCIDR` returned: nothing for an error and for an IPv4 network -/
def Gen9.poolOf : Option CidrV → Option (Addr × Nat)
  | none => none
  | some c => if c.v4 then none else some (c.base, c.len)

/-- G-pd-setup: the argument checks of `setupPrefix` generated from the source are the model's `PState.setup`
(given at least two arguments; the model starts from the parsed arguments). -/
theorem GEN_pd_setup_eq (nargs : Nat) (cidr : Option CidrV) (size : Option Int) (h : 2 ≤ nargs) :
    (setup nargs cidr size).mapError Gen9.setupErr = PState.setup (Gen9.poolOf cidr) size := by
  unfold setup PState.setup Gen9.poolOf
  have h2 : ¬ nargs < 2 := by omega
  simp only [h2, decide_false, Bool.false_eq_true, if_false]
  cases cidr with
  | none => rfl
  | some c =>
    cases hv : c.v4
    · simp only [hv, Bool.false_eq_true, if_false]
      cases size with
      | none => rfl
      | some z =>
        by_cases hz : z > 128 ∨ z < 0
        · have : (decide (z > 128) || decide (z < 0)) = true := by
            rcases hz with hz | hz <;> simp [hz]
          simp only [this, if_true, if_pos hz]
          rfl
        · have : (decide (z > 128) || decide (z < 0)) = false := by
            simp only [not_or] at hz
            simp [hz.1, hz.2]
          simp only [this, Bool.false_eq_true, if_false, if_neg hz]
          cases A6.new ⟨c.base, c.len, z.toNat⟩ <;> rfl
    · simp only [hv, if_true]
      rfl

/-- fewer than two arguments: the arity error, before anything is parsed -/
theorem GEN_pd_setup_arity (nargs : Nat) (cidr : Option CidrV) (size : Option Int) (h : nargs < 2) :
    setup nargs cidr size = .error .arity := by
  unfold setup
  simp [h]

end CoreDhcp
