/-
C10 — Static lease file: served mapping equals the file, updates are all-or-nothing.
Property theorems only (proofs in Proofs/File.lean).
-/
import CoreDhcp.Proofs.File
namespace CoreDhcp

/-- Every history of set-ups, file rewrites picked up under autorefresh (well-formed or not) and
queries, for both protocols in any order: every answer is the address the file currently in force
lists for that hardware address (last occurrence wins; DHCPv4: yiaddr + stop; DHCPv6: in an IA_NA
when one was requested and a MAC could be extracted), unlisted clients get nothing, a file is
accepted exactly when all its lines are well-formed. -/
theorem C10_holds (ops : List FOp) : C10.holds (FState.run {} ops) = true := C10_run ops

theorem C10_accept_iff_wellformed (v6 : Bool) (lines : List FLine) :
    (loadFile v6 lines []).isSome = fileOk v6 lines := C10_load_ok_iff v6 lines

theorem C10_mapping_is_file (v6 : Bool) (lines : List FLine) (t : FTable)
    (h : loadFile v6 lines [] = some t) : ∀ m, t.get m = listedFor m lines := C10_load_map v6 lines t h

/-- a malformed update leaves the previous mapping in force -/
theorem C10_all_or_nothing (s : FState) (v6 : Bool) (lines : List FLine) (h : fileOk v6 lines = false) :
    (s.load v6 lines) = (s, false) := C10_bad_update s v6 lines h

/-- the DHCPv4 and DHCPv6 instances each serve from their own file -/
theorem C10_own_file (s : FState) (v6 : Bool) (lines : List FLine) :
    (s.load v6 lines).1.table (!v6) = s.table (!v6) := C10_separate s v6 lines

/-- D8 (repaired by a `fix:` commit): with the single shared table of the code before the repair,
setting up DHCPv4 after DHCPv6 replaced what DHCPv6 served. One table, as it was: -/
theorem C10_D8_prefix_refuted :
    let f6 := [FLine.fields 2 (some [1,2,3,4,5,6]) (.v6 ⟨0x20010db800000000#64, 5#64⟩)]
    let f4 := [FLine.fields 2 (some [1,2,3,4,5,6]) (.v4 0x0a000005#32)]
    -- shared table: the table loaded last is the one both protocols read
    (loadFile false f4 []).bind (fun shared => shared.get [1,2,3,4,5,6]) = some (.v4 0x0a000005#32) ∧
    listedFor [1,2,3,4,5,6] f6 = some (.v6 ⟨0x20010db800000000#64, 5#64⟩) := by
  refine ⟨?_, ?_⟩ <;> rfl

end CoreDhcp
