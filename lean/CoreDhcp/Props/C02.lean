/-
C02 — DHCPv4 dynamic leases: in range, one client per address, stable per client.
Property theorems only; the invariant proof is in CoreDhcp/Proofs/Range.lean.
-/
import CoreDhcp.Proofs.Range
import CoreDhcp.Proofs.MonLemmas
namespace CoreDhcp

/-- For every range `start < end`, every lease time, every history of requests (any hardware
addresses of any length, any times) interleaved with restarts on the lease table written so far,
every admissible allocator policy and every map-iteration order of the re-marking loop:
every reply carries an address inside the range and the configured lease time, a client always
gets the address it was first given, no address is given to two clients, and a request goes
unanswered only when the client is unknown and all addresses are bound.
(`hkey`: a stored hardware address is read back as the same address — see C03.) -/
theorem C02_holds (start stop : BitVec 32) (lease : Int)
    (loadKey : Mac → Option Mac) (order : List (Mac × Rec) → List (Mac × Rec))
    (hkey : ∀ m, loadKey m = some m) (hperm : ∀ l, (order l).Perm l)
    (s0 : RState) (hs0 : RState.setup start stop lease [] loadKey order = .ok s0)
    (ops : List ROp) (cs : List (Option Nat)) (evs : List REv) (z : RState)
    (hrun : RState.run loadKey order s0 ops cs = some (evs, z)) :
    C02.holds ⟨start, stop, lease⟩ evs = true := by
  unfold C02.holds
  exact all_of_all_imp (RState.run_verdicts start stop lease loadKey order hkey hperm s0 hs0 ops cs evs z hrun)
    (fun v hv => by unfold RVerdict.all at hv; simp only [Bool.and_eq_true] at hv; exact hv.1)

/-- The model is never stuck: the choice the code makes (first fit) is admissible in every state,
so `C02_holds` speaks about every request sequence. -/
theorem C02_progress (s : RState) (mac : Mac) (now : Int) :
    (s.handle mac now s.alloc.firstFit).isSome = true :=
  RState.firstFit_admissible s mac now

/-- non-vacuity: a concrete history (new client, renewal, second client, exhaustion, restart)
is a run of the model and its monitor verdicts are all true -/
example :
    ∃ s0 evs z, RState.setup 0x0a000001#32 0x0a000002#32 3600000000000 [] some id = .ok s0 ∧
      RState.run some id s0
        [.req [1,2,3,4,5,6] 1000, .req [1,2,3,4,5,6] 2000, .req [7] 3000, .req [9,9] 4000,
         .restart [[7], [1,2,3,4,5,6], [8,8,8]] 5000]
        [some 0, none, some 1, none, none, none, none] = some (evs, z) ∧
      evs.length = 5 ∧ C02.holds ⟨0x0a000001#32, 0x0a000002#32, 3600000000000⟩ evs = true :=
  ⟨_, _, _, rfl, rfl, rfl, rfl⟩

end CoreDhcp
