/-
GEN (DHCPv6 handlers of the option plugins) — the definitions regenerated from the Go source on every
run (Generated/Handlers6.lean, written by `harness gen -unit handlers6` from the go/ast of the
`Handler6`-typed functions of plugins/{dns,searchdomains,nbp,sleep,serverid}) are equal to the
hand-written model (Model/OptPlug.lean, `Plug.<plugin>.handle…`) that the property theorems C14, C16–C19
are about.

Every handler is generated twice: `GenH6.<plugin>On … (pkt : GenH6.Pkt) pre` is the translation, over the
first parameter of the Go function (the datagram as parsed, of which a handler may only ask
`GetInnerMessage()`: `pkt.inner`, `none` = error); `GenH6.<plugin> … (req : ReqView6) pre` is that function at
`GenH6.served req = ⟨some req⟩`, what the server hands over (HandleMsg6 has already decapsulated, and drops
the datagram if that fails: the model has no request without an inner message).  Both sides then have the
same shape, `configuration → ReqView6 → Resp6 → Out6`, and every theorem is

    GenH6.<plugin> cfg req pre = Plug.<plugin>.handle… cfg req pre        for all cfg, req, pre

with two exceptions, which are stated as they are:

  * nbp: the Go handler starts with `if opt59 == nil { return resp, true }`; the generated definition takes
    both configured options as `Option Bytes` (the argument `setup6` gave the constructor, `none` = nil).
    The model's configuration always has an option 59 (`nbp6.Cfg.o59 : Bytes`; `setup6` stores one before
    it returns the handler), so the equality is stated for `some cfg.o59`; `GEN_h6_nbp_unset` says what the
    code does for a nil `opt59` — an input outside the model, where the two sides cannot be compared at all.
  * serverid: the translator assumes the guard `if v6ServerID == nil { log.Fatal(…) … }` away (it is
    recorded in the generated file), as units serverid6 and handlers4 do.

What the model does not have — a request whose inner message cannot be extracted — is pinned on the
generated side: `GEN_h6_<plugin>_undecap` (dns, nbp, serverid: `return nil, true`), and
`GEN_h6_<plugin>_blind` (searchdomains, sleep: the request is not looked at).

`GEN_h6_serverid_decision` ties the whole-handler translation to the decision-only translation of unit
serverid6 (`Generated.sidDecision`).

What the translation fixes (the vocabulary: `pkt.inner`, `oro6`, `lookup`, `update` / `add`, the encoders) is
listed in the header of gen12.go; what it derives from the source — control flow, which condition guards
which effect, the option codes and message types, UPDATE versus ADD, the loop over the requested options,
which configured value goes through which encoder, the returned pair — is what these theorems compare with
the model.  An edit of the Go logic changes the generated text, makes a statement below false and breaks
this file (or is rejected by the translator); a renamed local, a reformatted source or a moved log statement
generates the same text.
-/
import CoreDhcp.Generated.Handlers6
import CoreDhcp.Generated.ServerID6
import CoreDhcp.Model.OptPlug
set_option linter.unusedSimpArgs false
namespace CoreDhcp
open Plug

/-! ## dns: one update behind a test of the ORO -/

theorem GEN_h6_dns_eq (cfg : List Bytes) (req : ReqView6) (pre : Resp6) :
    GenH6.dns cfg req pre = Plug.dns6.handle cfg req pre := rfl

/-- outside the model: `GetInnerMessage` fails ⇒ `return nil, true` -/
theorem GEN_h6_dns_undecap (cfg : List Bytes) (pre : Resp6) :
    GenH6.dnsOn cfg ⟨none⟩ pre = (none, true) := rfl

/-! ## searchdomains, sleep: the request is not looked at -/

theorem GEN_h6_searchdomains_eq (cfg : List Bytes) (req : ReqView6) (pre : Resp6) :
    GenH6.searchdomains cfg req pre = Plug.search.handle6 cfg req pre := rfl

theorem GEN_h6_searchdomains_blind (cfg : List Bytes) (pkt : GenH6.Pkt) (pre : Resp6) :
    GenH6.searchdomainsOn cfg pkt pre = (some (pre.update 24 (encLabels cfg)), false) := rfl

theorem GEN_h6_sleep_eq (cfg : Int) (req : ReqView6) (pre : Resp6) :
    GenH6.sleep cfg req pre = Plug.sleep.handle6 cfg req pre := rfl

theorem GEN_h6_sleep_blind (cfg : Int) (pkt : GenH6.Pkt) (pre : Resp6) :
    GenH6.sleepOn cfg pkt pre = (some pre, false) := rfl

/-! ## nbp: the loop over the requested options, ADD not UPDATE -/

/-- the generated loop (a left fold of the translated body, started at any response) appends what the
model's `added` lists, one option per occurrence of 59 / 60 in the ORO -/
theorem GEN_h6_nbp_loop (cfg : nbp6.Cfg) (l : List Nat) (r : Resp6) :
    l.foldl (fun (a : Resp6) c =>
        if c = 59 then a.add 59 (GenH6.deref (some cfg.o59))
        else if c = 60 then (if cfg.o60.isSome then a.add 60 (encBootParams [GenH6.deref cfg.o60]) else a)
        else a) r
      = { r with opts := r.opts ++ nbp6.added cfg l } := by
  induction l generalizing r with
  | nil => simp only [List.foldl_nil, nbp6.added, List.append_nil]
  | cons c rest ih =>
    rw [List.foldl_cons, ih]
    by_cases h59 : c = 59
    · simp only [h59, if_true, nbp6.added, Resp6.add, GenH6.deref, Option.getD_some, List.append_assoc,
        List.singleton_append]
    · by_cases h60 : c = 60
      · cases ho : cfg.o60 with
        | none =>
          simp only [h60, nbp6.added, ho, Option.isSome_none, Bool.false_eq_true, if_false,
            show ¬((60 : Nat) = 59) by decide, if_true]
        | some p =>
          simp only [h60, nbp6.added, ho, Option.isSome_some, if_true, Resp6.add, GenH6.deref, Option.getD_some,
            show ¬((60 : Nat) = 59) by decide, if_false, List.append_assoc, List.singleton_append]
      · simp only [h59, h60, if_false, nbp6.added]

theorem GEN_h6_nbp_eq (cfg : nbp6.Cfg) (req : ReqView6) (pre : Resp6) :
    GenH6.nbp (some cfg.o59) cfg.o60 req pre = Plug.nbp6.handle cfg req pre := by
  unfold GenH6.nbp GenH6.nbpOn GenH6.served Plug.nbp6.handle
  simp only [Option.isSome_some, not_true_eq_false, if_false]
  rw [GEN_h6_nbp_loop]

/-- not in the model: with a nil `opt59` (the handler used before `setup6` ran) the code ends the chain
with the response untouched, whatever the request -/
theorem GEN_h6_nbp_unset (o60 : Option Bytes) (pkt : GenH6.Pkt) (pre : Resp6) :
    GenH6.nbpOn none o60 pkt pre = (some pre, true) := rfl

/-- why `GEN_h6_nbp_eq` is stated at `some cfg.o59` and not for every first argument: at `none` (no model
configuration corresponds to it) the two sides differ for EVERY `cfg`, e.g. on a request whose ORO asks for
option 59 — the model appends the boot file URL, the unconfigured code appends nothing -/
theorem GEN_h6_nbp_unset_differs (cfg : nbp6.Cfg) :
    GenH6.nbp none cfg.o60 ⟨0, 1, [(6, [0, 59])]⟩ ⟨7, []⟩ ≠ Plug.nbp6.handle cfg ⟨0, 1, [(6, [0, 59])]⟩ ⟨7, []⟩ := by
  intro h
  have h2 : ([] : Opts) = [(59, cfg.o59)] := by
    simpa [GenH6.nbp, GenH6.nbpOn, Plug.nbp6.handle, Plug.oro6, Plug.codes16, Plug.nbp6.added] using h
  cases h2

/-- outside the model: `GetInnerMessage` fails (and the plugin is set up) ⇒ `return nil, true` -/
theorem GEN_h6_nbp_undecap (o59 : Bytes) (o60 : Option Bytes) (pre : Resp6) :
    GenH6.nbpOn (some o59) o60 ⟨none⟩ pre = (none, true) := rfl

/-! ## serverid: decapsulation, the decision, the stamp -/

/-- `sid := msg.Options.ServerID(); sid != nil` on the `Option` that the first Server Identifier option is in
the model is the model's `match`; `!sid.Equal(v6ServerID)` is `sid ≠ cfg`; the stamp
`dhcpv6.WithServerID(v6ServerID)(resp)` is `UpdateOption` of option 2 (read from dhcpv6/modifiers.go). -/
theorem GEN_h6_serverid_eq (cfg : Bytes) (req : ReqView6) (pre : Resp6) :
    GenH6.serverid cfg req pre = Plug.serverid6.handle cfg req pre := by
  unfold GenH6.serverid GenH6.serveridOn GenH6.served Plug.serverid6.handle
  cases h : Plug.lookup 2 req.opts with
  | none =>
    simp only [h, Option.isSome_none, Bool.false_eq_true, if_false, or_assoc]
  | some s =>
    simp only [h, Option.isSome_some, if_true, if_false, GenH6.deref, Option.getD_some, or_assoc, ne_eq]

/-- outside the model: `GetInnerMessage` fails ⇒ `return nil, true` -/
theorem GEN_h6_serverid_undecap (cfg : Bytes) (pre : Resp6) :
    GenH6.serveridOn cfg ⟨none⟩ pre = (none, true) := rfl

/-- the whole-handler translation agrees with the decision-only translation of unit serverid6: it discards
exactly when `Generated.sidDecision` says so, and otherwise stamps the response and lets the chain go on -/
theorem GEN_h6_serverid_decision (cfg : Bytes) (req : ReqView6) (pre : Resp6) :
    GenH6.serverid cfg req pre =
      if Generated.sidDecision req.mt (Plug.lookup 2 req.opts).isSome (Plug.lookup 2 req.opts == some cfg)
      then (none, true) else (some (pre.update 2 cfg), false) := by
  unfold GenH6.serverid GenH6.serveridOn GenH6.served Generated.sidDecision
  cases h : Plug.lookup 2 req.opts with
  | none =>
    by_cases h3 : req.mt = 3 <;> by_cases h5 : req.mt = 5 <;> by_cases h8 : req.mt = 8 <;> by_cases h9 : req.mt = 9 <;>
      simp [h, h3, h5, h8, h9]
  | some sid =>
    by_cases hs : sid = cfg <;> by_cases h1 : req.mt = 1 <;> by_cases h4 : req.mt = 4 <;> by_cases h6 : req.mt = 6 <;>
      simp [h, GenH6.deref, hs, h1, h4, h6]

end CoreDhcp
