/-
Stateful plugins in the composed server (Model/ServerState.lean): a history of datagrams through the
whole DHCPv4 server projects onto a history of the `range` plugin, so C02 — proved for the plugin's
state machine over its own histories (Props/C02.lean) — holds for the server over histories of datagrams.
-/
import CoreDhcp.Model.ServerState
import CoreDhcp.Props.System
import CoreDhcp.Props.C02
import CoreDhcp.Props.C08
import CoreDhcp.Props.C09
namespace CoreDhcp
open Sys
open Plug (lookup)

/-! ## helper lemmas (about `Sys.step4` / `Sys.run4` only) -/

/-- what a step is, when the server has a range state and the datagram parses -/
theorem step4_some (bound : Nat) (oob : Option Nat) (chain : List Elem4) (rs : RState) (now : Int)
    (choice : Option Nat) (req : Sys.Req4) (r : Step4)
    (h : step4 bound oob chain ⟨some rs⟩ now choice (some req) = some r) :
    ∃ rs' rr, rs.handle req.chaddr now choice = some (rs', rr) ∧
      r.out = serve4 bound oob (inst4 (leaseOut rr) chain) (some req) ∧
      ((reached4 chain (inst4 (leaseOut rr) chain) req = true ∧ r.st = ⟨some rs'⟩ ∧
          r.ev = some (.req req.chaddr now rr (rs'.db.filter (fun x => x.mac == req.chaddr)))) ∨
       (reached4 chain (inst4 (leaseOut rr) chain) req = false ∧ r.st = ⟨some rs⟩ ∧ r.ev = none)) := by
  simp only [step4] at h
  cases hh : rs.handle req.chaddr now choice with
  | none => rw [hh] at h; cases h
  | some p =>
    obtain ⟨rs', rr⟩ := p
    rw [hh] at h
    dsimp only at h
    refine ⟨rs', rr, rfl, ?_⟩
    cases hr : reached4 chain (inst4 (leaseOut rr) chain) req
    · rw [hr] at h
      simp only [Bool.false_eq_true, if_false, Option.some.injEq] at h
      subst h
      exact ⟨rfl, Or.inr ⟨rfl, rfl, rfl⟩⟩
    · rw [hr] at h
      simp only [if_true, Option.some.injEq] at h
      subst h
      exact ⟨rfl, Or.inl ⟨rfl, rfl, rfl⟩⟩

/-- a step keeps "the server has a range state", and an event of the step is one `RState.handle` of the
state before it -/
theorem step4_handle (bound : Nat) (oob : Option Nat) (chain : List Elem4) (rs : RState) (now : Int)
    (choice : Option Nat) (input : Option Sys.Req4) (r : Step4)
    (h : step4 bound oob chain ⟨some rs⟩ now choice input = some r) :
    (r.ev = none ∧ r.st = ⟨some rs⟩) ∨
    (∃ req rs' rr, input = some req ∧ rs.handle req.chaddr now choice = some (rs', rr) ∧ r.st = ⟨some rs'⟩ ∧
      r.ev = some (.req req.chaddr now rr (rs'.db.filter (fun x => x.mac == req.chaddr)))) := by
  cases input with
  | none =>
    simp only [step4, Option.some.injEq] at h
    subst h
    exact Or.inl ⟨rfl, rfl⟩
  | some req =>
    obtain ⟨rs', rr, hh, _, hc⟩ := step4_some bound oob chain rs now choice req r h
    rcases hc with ⟨_, h2, h3⟩ | ⟨_, h2, h3⟩
    · exact Or.inr ⟨req, rs', rr, rfl, hh, h2, h3⟩
    · exact Or.inl ⟨h3, h2⟩

/-! ## the refinement lemma -/

/-- **The server-level history projects onto a plugin-level history.** Along any run of the stateful server
over any history of datagrams, the sequence of range states is a run of the range state machine
(`RState.run`, the one `C02_holds`/`C03_holds` speak about) on the sub-history of the requests that
reached `range`, with the allocator choices of exactly those datagrams; the events it produces are the
events recorded in the trace, and its final state is the server's final range state. -/
theorem SYSST_range_steps_are_handles (loadKey : Mac → Option Mac) (order : List (Mac × Rec) → List (Mac × Rec))
    (bound : Nat) (oob : Option Nat) (chain : List Elem4) (s0 : RState) (dgs : List Dg4)
    (tr : List Step4) (z : St4)
    (h : run4 bound oob chain ⟨some s0⟩ dgs = some (tr, z)) :
    ∃ z', z.range = some z' ∧ tr.length = dgs.length ∧
      RState.run loadKey order s0 (projOps tr) (projChoices dgs tr) = some (projEvs tr, z') := by
  induction dgs generalizing s0 tr z with
  | nil =>
    simp only [run4, Option.some.injEq, Prod.mk.injEq] at h
    obtain ⟨rfl, rfl⟩ := h
    exact ⟨s0, rfl, rfl, rfl⟩
  | cons d ds ih =>
    simp only [run4] at h
    cases hs : step4 bound oob chain ⟨some s0⟩ d.now d.choice d.input with
    | none => rw [hs] at h; cases h
    | some r =>
      rw [hs] at h
      dsimp only at h
      cases hr : run4 bound oob chain r.st ds with
      | none => rw [hr] at h; cases h
      | some p =>
        obtain ⟨tr', z1⟩ := p
        rw [hr] at h
        simp only [Option.map_some, Option.some.injEq, Prod.mk.injEq] at h
        obtain ⟨rfl, rfl⟩ := h
        rcases step4_handle bound oob chain s0 d.now d.choice d.input r hs with ⟨hev, hst⟩ | ⟨req, rs', rr, _, hh, hst, hev⟩
        · rw [hst] at hr
          obtain ⟨z', hz, hl, hrun⟩ := ih s0 tr' z1 hr
          refine ⟨z', hz, by simp [hl], ?_⟩
          simp only [projOps, projEvs, projChoices, List.filterMap_cons, hev, Option.isSome_none, Bool.false_eq_true, if_false]
          exact hrun
        · rw [hst] at hr
          obtain ⟨z', hz, hl, hrun⟩ := ih rs' tr' z1 hr
          refine ⟨z', hz, by simp [hl], ?_⟩
          simp only [projOps, projEvs, projChoices, List.filterMap_cons, hev, Option.isSome_some, if_true, List.map_cons, opOfEv,
            RState.run, hh]
          simp only [projOps, projEvs] at hrun
          rw [hrun]
          rfl

/-! ## junk traffic cannot consume addresses -/

/-- A datagram that does not reach `range` (no event recorded: it did not parse, `HandleMsg4` dropped it before the
chain, or a plugin before `range` ended the chain) leaves the lease state unchanged, whatever the allocator choice:
junk traffic cannot consume addresses. -/
theorem SYSST_unreached_keeps_state (bound : Nat) (oob : Option Nat) (chain : List Elem4) (st : St4) (now : Int)
    (choice : Option Nat) (input : Option Sys.Req4) (r : Step4)
    (h : step4 bound oob chain st now choice input = some r) (hev : r.ev = none) : r.st = st := by
  cases st with
  | mk range =>
    cases range with
    | none =>
      simp only [step4, Option.some.injEq] at h
      subst h; rfl
    | some rs =>
      rcases step4_handle bound oob chain rs now choice input r h with ⟨_, hst⟩ | ⟨_, _, _, _, _, _, hev'⟩
      · exact hst
      · rw [hev] at hev'; cases hev'

/-- … and these never reach it: a datagram that does not parse, and one `HandleMsg4` drops before the
chain (not a BOOTREQUEST, or neither DISCOVER nor REQUEST). They are dropped and consume nothing,
whatever the allocator choice. -/
theorem SYSST_junk_keeps_state (bound : Nat) (oob : Option Nat) (chain : List Elem4) (st : St4) (now : Int)
    (choice : Option Nat) (input : Option Sys.Req4) (r : Step4)
    (hjunk : input = none ∨ ∃ req, input = some req ∧ Sys.stub4 req = none)
    (h : step4 bound oob chain st now choice input = some r) :
    r.st = st ∧ r.ev = none ∧ r.out = .drop := by
  cases st with
  | mk range =>
    rcases hjunk with rfl | ⟨req, rfl, hstub⟩
    · cases range <;> (simp only [step4, Option.some.injEq] at h; subst h; exact ⟨rfl, rfl, rfl⟩)
    · cases range with
      | none =>
        simp only [step4, Option.some.injEq] at h
        subst h
        exact ⟨rfl, rfl, by simp [serve4, hstub]⟩
      | some rs =>
        obtain ⟨rs', rr, _, hout, hc⟩ := step4_some bound oob chain rs now choice req r h
        have hd : r.out = .drop := by rw [hout]; simp [serve4, hstub]
        rcases hc with ⟨hre, _, _⟩ | ⟨_, h2, h3⟩
        · simp [reached4, hstub] at hre
        · exact ⟨h2, h3, hd⟩

/-- the run is never stuck: the choice the code makes (first fit) is admissible in every state -/
theorem SYSST_progress (bound : Nat) (oob : Option Nat) (chain : List Elem4) (rs : RState) (now : Int)
    (input : Option Sys.Req4) :
    (step4 bound oob chain ⟨some rs⟩ now rs.alloc.firstFit input).isSome = true := by
  cases input with
  | none => rfl
  | some req =>
    have h := C02_progress rs req.chaddr now
    cases hh : rs.handle req.chaddr now rs.alloc.firstFit with
    | none => rw [hh] at h; cases h
    | some p =>
      simp only [step4, hh]
      split <;> rfl


/-! ## a reply that is sent carries what `range` answered -/

section chainlog
variable {Req Resp : Type}

/-- handlers that all hand a response on without stopping: the handler behind them is invoked -/
theorem go_log_through (req : Req) (l1 : List (Req → Option Resp → Option Resp × Bool))
    (hl : ∀ g ∈ l1, ∀ r, ∃ r', g req (some r) = (some r', false))
    (h : Req → Option Resp → Option Resp × Bool) (l2 : List (Req → Option Resp → Option Resp × Bool)) :
    ∀ i r, (runChain.go req (l1 ++ h :: l2) i (some r)).2.any (fun p => p.1 == i + l1.length) = true := by
  induction l1 with
  | nil =>
    intro i r
    simp only [List.nil_append, runChain.go, List.length_nil, Nat.add_zero]
    split <;> simp
  | cons g rest ih =>
    intro i r
    obtain ⟨r', hr'⟩ := hl g (by simp) r
    have := ih (fun g' hm => hl g' (by simp [hm])) (i + 1) r'
    simp only [List.cons_append, runChain.go, hr', Bool.false_eq_true, if_false, List.any_cons, List.length_cons]
    rw [show i + (rest.length + 1) = i + 1 + rest.length by omega]
    simp [this]

end chainlog

theorem neverStops4_notLease (l : List Elem4) (h : l.all neverStops4 = true) : l.all (fun e => !isLease e) = true := by
  apply List.all_eq_true.mpr
  intro e he
  have := List.all_eq_true.mp h e he
  cases e <;> simp_all [neverStops4, isLease]

theorem inst4_noLease (out : Option (BitVec 32 × Nat)) (l : List Elem4) (h : l.all (fun e => !isLease e) = true) :
    inst4 out l = l := by
  induction l with
  | nil => rfl
  | cons e rest ih =>
    simp only [List.all_cons, Bool.and_eq_true] at h
    have := ih h.2
    simp only [inst4, List.map_cons] at this ⊢
    rw [this]
    cases e <;> simp_all [isLease]

theorem leaseIdx_split (pre post : List Elem4) (x : Option (BitVec 32 × Nat))
    (h : pre.all (fun e => !isLease e) = true) :
    (pre ++ Elem4.lease x :: post).findIdx? isLease = some pre.length := by
  induction pre with
  | nil => simp [List.findIdx?_cons, isLease]
  | cons e rest ih =>
    simp only [List.all_cons, Bool.and_eq_true] at h
    have he : isLease e = false := by simpa using h.1
    simp only [List.cons_append, List.findIdx?_cons, he, Bool.false_eq_true, if_false, List.length_cons, ih h.2]
    rfl

theorem leasePos_split (pre post : List Elem4) (x : Option (BitVec 32 × Nat))
    (h : pre.all (fun e => !isLease e) = true) : leasePos (pre ++ .lease x :: post) = pre.length := by
  simp only [leasePos, leaseIdx_split pre post x h]
  rfl

theorem inst4_split (out x : Option (BitVec 32 × Nat)) (pre post : List Elem4)
    (hpre : pre.all neverStops4 = true) (hpost : post.all (fun e => !isLease e) = true) :
    inst4 out (pre ++ .lease x :: post) = pre ++ .lease out :: post := by
  have h1 := inst4_noLease out pre (neverStops4_notLease pre hpre)
  have h2 := inst4_noLease out post hpost
  simp only [inst4, List.map_append, List.map_cons] at h1 h2 ⊢
  rw [h1, h2]

/-- only plugins that never end the chain before `range`: every request `HandleMsg4` hands to the chain reaches it -/
theorem reached4_of_pre (out x : Option (BitVec 32 × Nat)) (pre post : List Elem4)
    (hpre : pre.all neverStops4 = true) (req : Sys.Req4) (r0 : Sys.Resp4) (h0 : Sys.stub4 req = some r0) :
    reached4 (pre ++ .lease x :: post) (pre ++ .lease out :: post) req = true := by
  simp only [reached4, h0, runChain_eq, List.map_append, List.map_cons]
  rw [leasePos_split pre post x (neverStops4_notLease pre hpre)]
  have := go_log_through req (pre.map handle4) (by
      intro g hg r
      obtain ⟨e, he, rfl⟩ := List.mem_map.mp hg
      exact sys_neverStops4 e (List.all_eq_true.mp hpre e he) req r) (handle4 (.lease out)) (post.map handle4) 0 r0
  simpa using this

/-- … and when `range` has no address for the client, nothing is sent -/
theorem serve4_lease_none (bound : Nat) (oob : Option Nat) (pre post : List Elem4)
    (hpre : pre.all neverStops4 = true) (req : Sys.Req4) :
    serve4 bound oob (pre ++ .lease none :: post) (some req) = .drop := by
  cases h0 : Sys.stub4 req with
  | none => simp [serve4, h0]
  | some r0 =>
    rw [serve4_eq bound oob _ req r0 h0]
    obtain ⟨mid, _, hm2⟩ := go_through req (pre.map handle4) (by
      intro g hg r
      obtain ⟨e, he, rfl⟩ := List.mem_map.mp hg
      exact sys_neverStops4 e (List.all_eq_true.mp hpre e he) req r) 0 r0
    have : (runChain ((pre ++ .lease none :: post).map handle4) req 0 (some r0)).1 = none := by
      rw [runChain_eq]
      simp only [List.map_append, List.map_cons]
      rw [hm2]
      simp [runChain.go, handle4]
    rw [this]

/-- **A reply that is sent is an event of `range`.** The chain has one `range`, before it only plugins that never
end the chain, no second `range` behind it: whenever the stateful server sends a reply, `range` was reached, it
answered with an address `ip` and a lease time, the step is recorded as that event (so the range state advanced by
exactly that `RState.handle`), the reply carries that lease time in option 51 (`SYS_C02_lease4`) and — when no
`file` stands behind `range` — that address as `yiaddr` (`SYS_C02_addr4`), to that client (`chaddr` echoed). -/
theorem SYSST_reply_is_event (bound : Nat) (oob : Option Nat) (pre post : List Elem4) (x : Option (BitVec 32 × Nat))
    (hpre : pre.all neverStops4 = true) (hpost : post.all (fun e => !isLease e) = true)
    (rs : RState) (now : Int) (choice : Option Nat) (req : Sys.Req4) (r : Step4)
    (h : step4 bound oob (pre ++ .lease x :: post) ⟨some rs⟩ now choice (some req) = some r)
    (resp : Sys.Resp4) (peer : BitVec 32) (port : Nat) (ifidx : Option Nat) (l2 : Bool)
    (hsend : r.out = .send resp peer port ifidx l2) :
    ∃ ip o51 rs', rs.handle req.chaddr now choice = some (rs', .reply ip o51) ∧ r.st = ⟨some rs'⟩ ∧
      r.ev = some (.req req.chaddr now (.reply ip o51) (rs'.db.filter (fun y => y.mac == req.chaddr))) ∧
      resp.chaddr = req.chaddr ∧
      lookup 51 resp.opts = some (Plug.be 4 o51) ∧
      (post.all (fun e => match e with | .file _ => false | _ => true) = true → resp.yiaddr = be4 ip) := by
  obtain ⟨rs', rr, hh, hout, hc⟩ := step4_some bound oob _ rs now choice req r h
  rw [inst4_split _ x pre post hpre hpost] at hout hc
  rw [hout] at hsend
  obtain ⟨r0, h0, hchain⟩ := serve4_send bound oob _ req resp peer port ifidx l2 hsend
  have hre := reached4_of_pre (leaseOut rr) x pre post hpre req r0 h0
  rcases hc with ⟨_, hst, hev⟩ | ⟨hnr, _, _⟩
  · cases rr with
    | reply ip o51 =>
      refine ⟨ip, o51, rs', hh, hst, hev, ?_, ?_, ?_⟩
      · have hinv := chain4_inv _ req r0 resp hchain
        exact hinv.2.2.2.1.trans (stub4_sys_some req r0 h0).2.2.2.2.1
      · exact SYS_C02_lease4 bound oob pre post ip o51 req hpre hpost resp peer port ifidx l2 hsend
      · intro hfile
        exact SYS_C02_addr4 bound oob pre post ip o51 req hpre hpost hfile resp peer port ifidx l2 hsend
    | drop => rw [show leaseOut RReply.drop = none from rfl, serve4_lease_none bound oob pre post hpre req] at hsend; cases hsend
    | panic => rw [show leaseOut RReply.panic = none from rfl, serve4_lease_none bound oob pre post hpre req] at hsend; cases hsend
  · rw [hre] at hnr; cases hnr

/-! ## C02 for the server over histories of datagrams -/

/-- **C02 at server level (monitor form).** Any chain (wherever `range` stands in it), `range` set up on an empty lease
table as in `C02_holds`, any history of datagrams (parsed or not, any fields and options, any arrival times), any
listener parameters, any admissible sequence of allocator choices: the events of `range` along the run (the requests
that reached it, with what it answered) satisfy the C02 monitor of Spec/Range.lean — every answer inside the range with
the configured lease time, a client always given the address it was first given, no address given to two clients, a
request unanswered only when the client is unknown and every address is bound. -/
theorem SYSST_C02_history (start stop : BitVec 32) (lease : Int)
    (loadKey : Mac → Option Mac) (order : List (Mac × Rec) → List (Mac × Rec))
    (hkey : ∀ m, loadKey m = some m) (hperm : ∀ l, (order l).Perm l)
    (s0 : RState) (hs0 : RState.setup start stop lease [] loadKey order = .ok s0)
    (bound : Nat) (oob : Option Nat) (chain : List Elem4) (dgs : List Dg4) (tr : List Step4) (z : St4)
    (h : run4 bound oob chain ⟨some s0⟩ dgs = some (tr, z)) :
    C02.holds ⟨start, stop, lease⟩ (projEvs tr) = true := by
  obtain ⟨z', _, _, hrun⟩ := SYSST_range_steps_are_handles loadKey order bound oob chain s0 dgs tr z h
  exact C02_holds start stop lease loadKey order hkey hperm s0 hs0 _ _ _ z' hrun

/-! ## what the monitor verdict says, spelled out -/

/-- bindings that form an injective partial function: no client twice, no address twice -/
def InjB (b : List (Mac × BitVec 32)) : Prop := b.Pairwise (fun p q => p.1 ≠ q.1 ∧ p.2 ≠ q.2)

theorem InjB.iff {b : List (Mac × BitVec 32)} (hb : InjB b) {p q : Mac × BitVec 32} (hp : p ∈ b) (hq : q ∈ b) :
    p.1 = q.1 ↔ p.2 = q.2 := by
  induction b with
  | nil => cases hp
  | cons a rest ih =>
    have hb' := List.pairwise_cons.mp hb
    rcases List.mem_cons.mp hp with rfl | hp' <;> rcases List.mem_cons.mp hq with rfl | hq'
    · exact ⟨fun _ => rfl, fun _ => rfl⟩
    · exact ⟨fun h => absurd h (hb'.1 q hq').1, fun h => absurd h (hb'.1 q hq').2⟩
    · exact ⟨fun h => absurd h.symm (hb'.1 p hp').1, fun h => absurd h.symm (hb'.1 p hp').2⟩
    · exact ih hb'.2 hp' hq'

/-- all C02 verdicts true from bindings `b`: there is one injective table of bindings, extending `b`, that every
answered request of the history agrees with; every address lies in the range and every lease time is the configured one -/
theorem mon_c02_explicit (c : RCfg) (evs : List REv) :
    ∀ b, InjB b → (RMon.run c b evs).all (·.c02) = true →
    ∃ B, InjB B ∧ (∀ p ∈ b, p ∈ B) ∧
      ∀ mac now ip l stored, REv.req mac now (.reply ip l) stored ∈ evs →
        (mac, ip) ∈ B ∧ c.start.toNat ≤ ip.toNat ∧ ip.toNat ≤ c.stop.toNat ∧ l = leaseOpt c.lease := by
  induction evs with
  | nil => intro b hb _; exact ⟨b, hb, fun _ h => h, fun _ _ _ _ _ h => by cases h⟩
  | cons ev rest ih =>
    intro b hb hall
    simp only [RMon.run, List.all_cons, Bool.and_eq_true] at hall
    obtain ⟨hv, hrest⟩ := hall
    -- events that leave the bindings alone and are not replies
    have keep : (RMon.step c b ev).1 = b → (∀ mac now ip l stored, ev ≠ REv.req mac now (.reply ip l) stored) →
        ∃ B, InjB B ∧ (∀ p ∈ b, p ∈ B) ∧
          ∀ mac now ip l stored, REv.req mac now (.reply ip l) stored ∈ ev :: rest →
            (mac, ip) ∈ B ∧ c.start.toNat ≤ ip.toNat ∧ ip.toNat ≤ c.stop.toNat ∧ l = leaseOpt c.lease := by
      intro h1 hne
      rw [h1] at hrest
      obtain ⟨B, hB, hsub, hall'⟩ := ih b hb hrest
      refine ⟨B, hB, hsub, ?_⟩
      intro mac now ip l stored hm
      rcases List.mem_cons.mp hm with rfl | hm'
      · exact absurd rfl (hne mac now ip l stored)
      · exact hall' mac now ip l stored hm'
    cases ev with
    | restart ok served => exact keep rfl (fun _ _ _ _ _ h => by cases h)
    | req mac now r stored =>
      cases r with
      | drop => exact keep rfl (fun _ _ _ _ _ h => by cases h)
      | panic => exact keep rfl (fun _ _ _ _ _ h => by cases h)
      | reply ip l =>
        cases hlk : lookupBound b mac with
        | some ip0 =>
          simp only [RMon.step, hlk, Bool.and_eq_true, decide_eq_true_eq, beq_iff_eq] at hv hrest
          obtain ⟨⟨⟨hlo, hhi⟩, hip⟩, hl⟩ := hv
          subst hip
          obtain ⟨B, hB, hsub, hall'⟩ := ih b hb hrest
          refine ⟨B, hB, hsub, ?_⟩
          intro mac' now' ip' l' stored' hm
          rcases List.mem_cons.mp hm with heq | hm'
          · cases heq
            refine ⟨hsub _ ?_, hlo, hhi, hl⟩
            unfold lookupBound at hlk
            cases hf : b.find? (fun p => p.1 == mac) with
            | none => rw [hf] at hlk; cases hlk
            | some q =>
              rw [hf] at hlk
              simp only [Option.map_some, Option.some.injEq] at hlk
              have h1 := List.find?_some hf
              have h2 := List.mem_of_find?_eq_some hf
              simp only [beq_iff_eq] at h1
              obtain ⟨q1, q2⟩ := q
              simp only at h1 hlk
              subst h1; subst hlk
              exact h2
          · exact hall' mac' now' ip' l' stored' hm'
        | none =>
          simp only [RMon.step, hlk, Bool.and_eq_true, decide_eq_true_eq, beq_iff_eq, Bool.not_eq_true',
            List.any_eq_false] at hv hrest
          obtain ⟨⟨⟨hlo, hhi⟩, hfresh⟩, hl⟩ := hv
          have hb' : InjB ((mac, ip) :: b) := by
            refine List.pairwise_cons.mpr ⟨?_, hb⟩
            intro q hq
            refine ⟨?_, ?_⟩
            · intro hmq
              unfold lookupBound at hlk
              cases hf : b.find? (fun p => p.1 == mac) with
              | some q' => rw [hf] at hlk; cases hlk
              | none =>
                have := List.find?_eq_none.mp hf q hq
                simp only [beq_iff_eq] at this
                exact this hmq.symm
            · intro hiq
              exact absurd hiq.symm (by simpa using hfresh q hq)
          obtain ⟨B, hB, hsub, hall'⟩ := ih _ hb' hrest
          refine ⟨B, hB, fun p hp => hsub p (List.mem_cons_of_mem _ hp), ?_⟩
          intro mac' now' ip' l' stored' hm
          rcases List.mem_cons.mp hm with heq | hm'
          · cases heq
            exact ⟨hsub _ (List.mem_cons_self ..), hlo, hhi, hl⟩
          · exact hall' mac' now' ip' l' stored' hm'

/-- **C02 at server level, spelled out.** Same hypotheses as `SYSST_C02_history`. Take any two steps of the trace in
which `range` answered (events `.req mac now (.reply ip l) _`; by `SYSST_reply_is_event` these are exactly the steps
that sent a reply, and the reply carries `ip` and `l`): the address is inside `[start, stop]`, the lease time is the
configured one, and the two addresses are equal **iff** the two clients are — a client is always given the address it
was first given, and two different clients never get the same address. -/
theorem SYSST_C02_history_explicit (start stop : BitVec 32) (lease : Int)
    (loadKey : Mac → Option Mac) (order : List (Mac × Rec) → List (Mac × Rec))
    (hkey : ∀ m, loadKey m = some m) (hperm : ∀ l, (order l).Perm l)
    (s0 : RState) (hs0 : RState.setup start stop lease [] loadKey order = .ok s0)
    (bound : Nat) (oob : Option Nat) (chain : List Elem4) (dgs : List Dg4) (tr : List Step4) (z : St4)
    (h : run4 bound oob chain ⟨some s0⟩ dgs = some (tr, z))
    (r1 r2 : Step4) (h1 : r1 ∈ tr) (h2 : r2 ∈ tr)
    (mac1 mac2 : Mac) (now1 now2 : Int) (ip1 ip2 : BitVec 32) (l1 l2 : Nat) (st1 st2 : List Row)
    (e1 : r1.ev = some (.req mac1 now1 (.reply ip1 l1) st1))
    (e2 : r2.ev = some (.req mac2 now2 (.reply ip2 l2) st2)) :
    start.toNat ≤ ip1.toNat ∧ ip1.toNat ≤ stop.toNat ∧ l1 = leaseOpt lease ∧ (mac1 = mac2 ↔ ip1 = ip2) := by
  have hmon := SYSST_C02_history start stop lease loadKey order hkey hperm s0 hs0 bound oob chain dgs tr z h
  obtain ⟨B, hB, _, hall⟩ := mon_c02_explicit ⟨start, stop, lease⟩ (projEvs tr) [] List.Pairwise.nil hmon
  have m1 : REv.req mac1 now1 (.reply ip1 l1) st1 ∈ projEvs tr := List.mem_filterMap.mpr ⟨r1, h1, e1⟩
  have m2 : REv.req mac2 now2 (.reply ip2 l2) st2 ∈ projEvs tr := List.mem_filterMap.mpr ⟨r2, h2, e2⟩
  obtain ⟨b1, lo, hi, hl⟩ := hall _ _ _ _ _ m1
  obtain ⟨b2, _, _, _⟩ := hall _ _ _ _ _ m2
  exact ⟨lo, hi, hl, hB.iff b1 b2⟩

/-! ## C02 on the wire -/

theorem be4_inj (a b : BitVec 32) (h : be4 a = be4 b) : a = b := by
  apply BitVec.eq_of_toNat_eq
  have ha := a.isLt
  have hb := b.isLt
  simp only [be4, List.cons.injEq, and_true] at h
  omega

/-- every reply sent along a run is an event of `range` (`SYSST_reply_is_event` at every step of a history) -/
theorem SYSST_sent_replies_are_events (bound : Nat) (oob : Option Nat) (pre post : List Elem4) (x : Option (BitVec 32 × Nat))
    (hpre : pre.all neverStops4 = true) (hpost : post.all (fun e => !isLease e) = true)
    (s0 : RState) (dgs : List Dg4) (tr : List Step4) (z : St4)
    (h : run4 bound oob (pre ++ .lease x :: post) ⟨some s0⟩ dgs = some (tr, z))
    (r : Step4) (hr : r ∈ tr)
    (resp : Sys.Resp4) (peer : BitVec 32) (port : Nat) (ifidx : Option Nat) (l2 : Bool)
    (hsend : r.out = .send resp peer port ifidx l2) :
    ∃ now ip o51 stored, r.ev = some (.req resp.chaddr now (.reply ip o51) stored) ∧
      lookup 51 resp.opts = some (Plug.be 4 o51) ∧
      (post.all (fun e => match e with | .file _ => false | _ => true) = true → resp.yiaddr = be4 ip) := by
  induction dgs generalizing s0 tr z with
  | nil =>
    simp only [run4, Option.some.injEq, Prod.mk.injEq] at h
    obtain ⟨rfl, rfl⟩ := h
    cases hr
  | cons d ds ih =>
    simp only [run4] at h
    cases hs : step4 bound oob (pre ++ .lease x :: post) ⟨some s0⟩ d.now d.choice d.input with
    | none => rw [hs] at h; cases h
    | some r' =>
      rw [hs] at h
      dsimp only at h
      cases hrun : run4 bound oob (pre ++ .lease x :: post) r'.st ds with
      | none => rw [hrun] at h; cases h
      | some p =>
        obtain ⟨tr', z1⟩ := p
        rw [hrun] at h
        simp only [Option.map_some, Option.some.injEq, Prod.mk.injEq] at h
        obtain ⟨rfl, rfl⟩ := h
        rcases List.mem_cons.mp hr with rfl | hr'
        · cases hin : d.input with
          | none =>
            rw [hin] at hs
            simp only [step4, Option.some.injEq] at hs
            subst hs
            simp [serve4] at hsend
          | some req =>
            rw [hin] at hs
            obtain ⟨ip, o51, rs', _, _, hev, hch, h51, hyi⟩ :=
              SYSST_reply_is_event bound oob pre post x hpre hpost s0 d.now d.choice req r hs resp peer port ifidx l2 hsend
            rw [← hch] at hev
            exact ⟨d.now, ip, o51, _, hev, h51, hyi⟩
        · rcases step4_handle bound oob _ s0 d.now d.choice d.input r' hs with ⟨_, hst⟩ | ⟨_, rs', _, _, _, hst, _⟩
          · rw [hst] at hrun
            exact ih s0 tr' z1 hrun hr'
          · rw [hst] at hrun
            exact ih rs' tr' z1 hrun hr'

/-- **C02 for the server, on the wire, over histories of datagrams.** The chain has one `range` set up on an empty lease
table for `[start, stop]` and `lease`; before it stand only plugins that never end the chain, behind it no second `range` and
no `file`. For every history of datagrams (parsed or not, any fields and options, any arrival times), every listener
parameters, every admissible sequence of allocator choices, any two replies the server sent along the history:
the address (`yiaddr`) is an address of `[start, stop]`, option 51 is the configured lease time, and the two replies carry
the same address **iff** they go to the same client hardware address — a client keeps the address it was first given, and
no address is given to two clients. -/
theorem SYSST_C02_wire (start stop : BitVec 32) (lease : Int)
    (loadKey : Mac → Option Mac) (order : List (Mac × Rec) → List (Mac × Rec))
    (hkey : ∀ m, loadKey m = some m) (hperm : ∀ l, (order l).Perm l)
    (s0 : RState) (hs0 : RState.setup start stop lease [] loadKey order = .ok s0)
    (bound : Nat) (oob : Option Nat) (pre post : List Elem4) (x : Option (BitVec 32 × Nat))
    (hpre : pre.all neverStops4 = true) (hpost : post.all (fun e => !isLease e) = true)
    (hfile : post.all (fun e => match e with | .file _ => false | _ => true) = true)
    (dgs : List Dg4) (tr : List Step4) (z : St4)
    (h : run4 bound oob (pre ++ .lease x :: post) ⟨some s0⟩ dgs = some (tr, z))
    (r1 r2 : Step4) (h1 : r1 ∈ tr) (h2 : r2 ∈ tr)
    (resp1 resp2 : Sys.Resp4) (peer1 peer2 : BitVec 32) (port1 port2 : Nat) (if1 if2 : Option Nat) (l21 l22 : Bool)
    (hs1 : r1.out = .send resp1 peer1 port1 if1 l21) (hs2 : r2.out = .send resp2 peer2 port2 if2 l22) :
    (∃ ip, resp1.yiaddr = be4 ip ∧ start.toNat ≤ ip.toNat ∧ ip.toNat ≤ stop.toNat) ∧
    lookup 51 resp1.opts = some (Plug.be 4 (leaseOpt lease)) ∧
    (resp1.chaddr = resp2.chaddr ↔ resp1.yiaddr = resp2.yiaddr) := by
  obtain ⟨now1, ip1, o1, st1, e1, h51, hy1⟩ :=
    SYSST_sent_replies_are_events bound oob pre post x hpre hpost s0 dgs tr z h r1 h1 resp1 peer1 port1 if1 l21 hs1
  obtain ⟨now2, ip2, o2, st2, e2, _, hy2⟩ :=
    SYSST_sent_replies_are_events bound oob pre post x hpre hpost s0 dgs tr z h r2 h2 resp2 peer2 port2 if2 l22 hs2
  obtain ⟨lo, hi, hl, hiff⟩ := SYSST_C02_history_explicit start stop lease loadKey order hkey hperm s0 hs0 bound oob _ dgs tr z h
    r1 r2 h1 h2 _ _ _ _ _ _ _ _ _ _ e1 e2
  refine ⟨⟨ip1, hy1 hfile, lo, hi⟩, by rw [h51, hl], ?_⟩
  rw [hy1 hfile, hy2 hfile, hiff]
  exact ⟨fun h => by rw [h], be4_inj ip1 ip2⟩

/-! ## a concrete history -/

/-- `server_id 10.0.0.254`, `range 10.0.0.1 10.0.0.2` (one hour), `router 10.0.0.254` -/
def exChain4 : List Elem4 := [.plug (.serverid [10, 0, 0, 254]), .lease none, .plug (.router [[10, 0, 0, 254]])]

def exDiscover (xid : Nat) (mac : List Nat) : Sys.Req4 :=
  ⟨1, xid, 1, mac, 0, [0,0,0,0], [0,0,0,0], [0,0,0,0], [(53, [1])]⟩

/-- the address a step sent, if it sent something -/
def sentAddr (r : Step4) : Option (List Nat) :=
  match r.out with
  | .send resp _ _ _ _ => some resp.yiaddr
  | _ => none

/-- DISCOVER from A, a datagram that does not parse, a BOOTREPLY (dropped by `HandleMsg4`), a REQUEST from C that
names another server (dropped by `server_id`, before `range`), DISCOVER from B, DISCOVER from A again: A gets
10.0.0.1 both times, B gets 10.0.0.2, the three others get nothing and consume nothing (were C's request to reach
`range`, B would find no address left); the plugin-level history has exactly the three requests that reached `range`. -/
example :
    ∃ s0 tr z, RState.setup 0x0a000001#32 0x0a000002#32 3600000000000 [] some id = .ok s0 ∧
      run4 3 none exChain4 ⟨some s0⟩
        [⟨1000, some 0, some (exDiscover 1 [2,0,0,0,0,0xa])⟩,
         ⟨1500, none, none⟩,
         ⟨1600, some 1, some { exDiscover 2 [2,0,0,0,0,0xd] with op := 2 }⟩,
         ⟨1700, some 1, some { exDiscover 3 [2,0,0,0,0,0xc] with opts := [(53, [3]), (54, [10, 0, 0, 7])] }⟩,
         ⟨2000, some 1, some (exDiscover 4 [2,0,0,0,0,0xb])⟩,
         ⟨3000, none, some (exDiscover 5 [2,0,0,0,0,0xa])⟩] = some (tr, z) ∧
      tr.map sentAddr = [some [10,0,0,1], none, none, none, some [10,0,0,2], some [10,0,0,1]] ∧
      tr.map (fun r => r.ev.isSome) = [true, false, false, false, true, true] ∧
      projOps tr = [.req [2,0,0,0,0,0xa] 1000, .req [2,0,0,0,0,0xb] 2000, .req [2,0,0,0,0,0xa] 3000] ∧
      projChoices [⟨1000, some 0, none⟩, ⟨1500, none, none⟩, ⟨1600, some 1, none⟩, ⟨1700, some 1, none⟩,
        ⟨2000, some 1, none⟩, ⟨3000, none, none⟩] tr = [some 0, some 1, none] ∧
      C02.holds ⟨0x0a000001#32, 0x0a000002#32, 3600000000000⟩ (projEvs tr) = true :=
  ⟨_, _, _, rfl, rfl, by decide, by decide, rfl, by decide, by decide⟩

/-! ## DHCPv6: `prefix` in the composed server over histories -/

/-- a step of the stateful DHCPv6 server: either `prefix` was not reached — no event, state and choices untouched —
or it is one `PState.handleMsg` of the state before it, on the message of the datagram -/
theorem step6_handle (bound : Nat) (oob : Option Nat) (chain : List Elem6) (ps : PState) (d : Dg6)
    (cs : List (Option Nat)) (r : Step6)
    (h : step6 bound oob chain ⟨some ps⟩ d cs = some r) :
    (r.ev = none ∧ r.st = ⟨some ps⟩ ∧ r.cs = cs) ∨
    (∃ ps' resp cs', ps.handleMsg (opOfDg6 d).client d.iapds d.now cs = some (ps', resp, cs') ∧ r.st = ⟨some ps'⟩ ∧
      r.cs = cs' ∧ r.ev = some ⟨(opOfDg6 d).client, d.iapds, d.now, d.now, resp⟩) := by
  cases hin : d.input with
  | none =>
    simp only [step6, hin, Option.some.injEq] at h
    subst h
    exact Or.inl ⟨rfl, rfl, rfl⟩
  | some pkt =>
    simp only [step6, hin] at h
    cases hh : ps.handleMsg (clientOf pkt) d.iapds d.now cs with
    | none => rw [hh] at h; cases h
    | some p =>
      obtain ⟨ps', resp, cs'⟩ := p
      rw [hh] at h
      dsimp only at h
      cases hre : reached6 chain (inst6 (pdOut resp) chain) pkt
      · rw [hre] at h
        simp only [Bool.false_eq_true, if_false, Option.some.injEq] at h
        subst h
        exact Or.inl ⟨rfl, rfl, rfl⟩
      · rw [hre] at h
        simp only [if_true, Option.some.injEq] at h
        subst h
        refine Or.inr ⟨ps', resp, cs', ?_, rfl, rfl, ?_⟩
        · simp only [opOfDg6, hin, Option.bind_some]; exact hh
        · simp only [opOfDg6, hin, Option.bind_some]

/-- **The DHCPv6 server-level history projects onto a history of `prefix`.** Along any run of the stateful server, the
sequence of `prefix` states is a run of `PState.run` (the one `C08_holds`/`C09_holds` speak about) on the sub-history of
the messages that reached `prefix`, over the same stream of allocator choices (a datagram that does not reach `prefix`
consumes none); its events are the events of the trace, and the messages are a sub-list of the messages of the datagrams. -/
theorem SYSST_prefix_steps_are_handles (bound : Nat) (oob : Option Nat) (chain : List Elem6) (s0 : PState)
    (dgs : List Dg6) (cs : List (Option Nat)) (tr : List Step6) (z : St6)
    (h : run6 bound oob chain ⟨some s0⟩ dgs cs = some (tr, z)) :
    ∃ z', z.pfx = some z' ∧ PState.run s0 (projOps6 tr) cs = some (projEvs6 tr, z') ∧
      (projOps6 tr).Sublist (dgs.map opOfDg6) := by
  induction dgs generalizing s0 cs tr z with
  | nil =>
    simp only [run6, Option.some.injEq, Prod.mk.injEq] at h
    obtain ⟨rfl, rfl⟩ := h
    exact ⟨s0, rfl, rfl, List.Sublist.refl _⟩
  | cons d ds ih =>
    simp only [run6] at h
    cases hs : step6 bound oob chain ⟨some s0⟩ d cs with
    | none => rw [hs] at h; cases h
    | some r =>
      rw [hs] at h
      dsimp only at h
      cases hr : run6 bound oob chain r.st ds r.cs with
      | none => rw [hr] at h; cases h
      | some p =>
        obtain ⟨tr', z1⟩ := p
        rw [hr] at h
        simp only [Option.map_some, Option.some.injEq, Prod.mk.injEq] at h
        obtain ⟨rfl, rfl⟩ := h
        rcases step6_handle bound oob chain s0 d cs r hs with ⟨hev, hst, hcs⟩ | ⟨ps', resp, cs', hh, hst, hcs, hev⟩
        · rw [hst, hcs] at hr
          obtain ⟨z', hz, hrun, hsub⟩ := ih s0 cs tr' z1 hr
          refine ⟨z', hz, ?_, ?_⟩
          · simp only [projOps6, projEvs6, List.filterMap_cons, hev]
            exact hrun
          · simp only [projOps6, projEvs6, List.filterMap_cons, hev, List.map_cons]
            exact List.Sublist.cons _ hsub
        · rw [hst, hcs] at hr
          obtain ⟨z', hz, hrun, hsub⟩ := ih ps' cs' tr' z1 hr
          refine ⟨z', hz, ?_, ?_⟩
          · simp only [projOps6, projEvs6, List.filterMap_cons, hev, List.map_cons, opOfEv6, PState.run, hh]
            simp only [projOps6, projEvs6] at hrun
            rw [hrun]
            rfl
          · simp only [projOps6, projEvs6, List.filterMap_cons, hev, List.map_cons, opOfEv6]
            exact List.Sublist.cons_cons _ hsub

/-- a datagram that does not reach `prefix` leaves its records and the allocator untouched and consumes no choice -/
theorem SYSST_unreached_keeps_state6 (bound : Nat) (oob : Option Nat) (chain : List Elem6) (st : St6) (d : Dg6)
    (cs : List (Option Nat)) (r : Step6)
    (h : step6 bound oob chain st d cs = some r) (hev : r.ev = none) : r.st = st ∧ r.cs = cs := by
  cases st with
  | mk pfx =>
    cases pfx with
    | none =>
      simp only [step6, Option.some.injEq] at h
      subst h; exact ⟨rfl, rfl⟩
    | some ps =>
      rcases step6_handle bound oob chain ps d cs r h with ⟨_, hst, hcs⟩ | ⟨_, _, _, _, _, _, hev'⟩
      · exact ⟨hst, hcs⟩
      · rw [hev] at hev'; cases hev'

/-- a message with a Client-ID is answered with a list of IA_PDs -/
theorem handleMsg_some_resp (s s' : PState) (c : ClientKey) (iapds : List IAPDReq) (now : Int)
    (cs cs' : List (Option Nat)) (resp : Option (List IAPDResp))
    (h : s.handleMsg (some c) iapds now cs = some (s', resp, cs')) : ∃ rs, resp = some rs := by
  have hgo : ∀ (qs : List IAPDReq) (s : PState) (acc : List IAPDResp) (cs : List (Option Nat)),
      PState.handleMsg.go now c s acc cs qs = some (s', resp, cs') → ∃ rs, resp = some rs := by
    intro qs
    induction qs with
    | nil =>
      intro s acc cs h
      rw [PrefixProof.go_nil] at h
      simp only [Option.some.injEq, Prod.mk.injEq] at h
      exact ⟨acc, h.2.1.symm⟩
    | cons q rest ih =>
      intro s acc cs h
      rw [PrefixProof.go_cons] at h
      cases hq : s.handleIAPD c q now cs with
      | none => rw [hq] at h; cases h
      | some p =>
        obtain ⟨s1, r, cs1⟩ := p
        rw [hq] at h
        exact ih s1 _ cs1 h
  exact hgo iapds s [] cs h

theorem neverStops6_notPd (l : List Elem6) (h : l.all neverStops6 = true) : l.all (fun e => !isPd e) = true := by
  apply List.all_eq_true.mpr
  intro e he
  have := List.all_eq_true.mp h e he
  cases e <;> simp_all [neverStops6, isPd]

theorem inst6_noPd (out : List PdAns) (l : List Elem6) (h : l.all (fun e => !isPd e) = true) : inst6 out l = l := by
  induction l with
  | nil => rfl
  | cons e rest ih =>
    simp only [List.all_cons, Bool.and_eq_true] at h
    have := ih h.2
    simp only [inst6, List.map_cons] at this ⊢
    rw [this]
    cases e <;> simp_all [isPd]

theorem pdIdx_split (pre post : List Elem6) (x : List PdAns) (h : pre.all (fun e => !isPd e) = true) :
    (pre ++ Elem6.pd x :: post).findIdx? isPd = some pre.length := by
  induction pre with
  | nil => simp [List.findIdx?_cons, isPd]
  | cons e rest ih =>
    simp only [List.all_cons, Bool.and_eq_true] at h
    have he : isPd e = false := by simpa using h.1
    simp only [List.cons_append, List.findIdx?_cons, he, Bool.false_eq_true, if_false, List.length_cons, ih h.2]
    rfl

/-- **A DHCPv6 reply that is sent carries what `prefix` answered.** One `prefix` in the chain, before it only elements that
never end the chain: whenever the stateful server sends a reply, `prefix` was reached, the step is recorded as the event of
that `PState.handleMsg` (so the records advanced by exactly it), and the IA_PD options of the reply are, in order, the
encodings of the IA_PDs it answered (`SYS_pd_delivered6`; `SYS_pd_roundtrip6` reads them back). -/
theorem SYSST_reply_is_event6 (bound : Nat) (oob : Option Nat) (pre post : List Elem6) (x : List PdAns)
    (hpre : pre.all neverStops6 = true) (hone : (pre ++ post).all (fun e => !isPd e) = true)
    (ps : PState) (d : Dg6) (cs : List (Option Nat)) (r : Step6)
    (h : step6 bound oob (pre ++ .pd x :: post) ⟨some ps⟩ d cs = some r)
    (layers : List Layer6) (resp : Sys.Resp6) (ifidx : Option Nat)
    (hsend : r.out = .send layers resp ifidx) :
    ∃ ps' rs cs', ps.handleMsg (opOfDg6 d).client d.iapds d.now cs = some (ps', some rs, cs') ∧
      r.st = ⟨some ps'⟩ ∧ r.cs = cs' ∧ r.ev = some ⟨(opOfDg6 d).client, d.iapds, d.now, d.now, some rs⟩ ∧
      resp.opts.filter (fun o => o.1 == 25) = (pdOf rs).map (fun a => (25, encIAPD a)) := by
  have hpost : post.all (fun e => !isPd e) = true := by
    rw [List.all_append, Bool.and_eq_true] at hone; exact hone.2
  have hinst : ∀ out, inst6 out (pre ++ .pd x :: post) = pre ++ .pd out :: post := by
    intro out
    have h1 := inst6_noPd out pre (neverStops6_notPd pre hpre)
    have h2 := inst6_noPd out post hpost
    simp only [inst6, List.map_append, List.map_cons] at h1 h2 ⊢
    rw [h1, h2]
  cases hin : d.input with
  | none =>
    simp only [step6, hin, Option.some.injEq] at h
    subst h
    simp [serve6] at hsend
  | some pkt =>
    simp only [step6, hin] at h
    cases hh : ps.handleMsg (clientOf pkt) d.iapds d.now cs with
    | none => rw [hh] at h; cases h
    | some p =>
      obtain ⟨ps', mr, cs'⟩ := p
      rw [hh] at h
      dsimp only at h
      rw [hinst] at h
      -- whichever branch: the reply is `serve6` on the instantiated chain
      have hout : r.out = serve6 bound oob d.src (pre ++ .pd (pdOut mr) :: post) (some pkt) := by
        cases hre : reached6 (pre ++ .pd x :: post) (pre ++ .pd (pdOut mr) :: post) pkt <;>
          (rw [hre] at h; simp only [Bool.false_eq_true, if_false, if_true, Option.some.injEq] at h; subst h; rfl)
      rw [hout] at hsend
      obtain ⟨m, r0, hm, h0, _⟩ := serve6_send bound oob d.src _ pkt layers resp ifidx hsend
      have hre : reached6 (pre ++ .pd x :: post) (pre ++ .pd (pdOut mr) :: post) pkt = true := by
        simp only [reached6, hm, Option.bind_some, h0, runChain_eq, List.map_append, List.map_cons, pdPos,
          pdIdx_split pre post x (neverStops6_notPd pre hpre), Option.getD_some]
        have := go_log_through pkt (pre.map handle6) (by
          intro g hg r
          obtain ⟨e, he, rfl⟩ := List.mem_map.mp hg
          exact sys_neverStops6 e (List.all_eq_true.mp hpre e he) pkt m hm r) (handle6 (.pd (pdOut mr))) (post.map handle6) 0 r0
        simpa using this
      rw [hre] at h
      simp only [if_true, Option.some.injEq] at h
      subst h
      -- the message has a Client-ID, so `prefix` answered with IA_PDs
      have hcl : ∃ c, clientOf pkt = some c := by
        simp only [clientOf, hm, Option.bind_some]
        cases hl : lookup 1 m.opts with
        | none => simp [Sys.stub6, hl] at h0
        | some c => exact ⟨c, rfl⟩
      obtain ⟨c, hc⟩ := hcl
      rw [hc] at hh
      obtain ⟨rs, rfl⟩ := handleMsg_some_resp ps ps' c d.iapds d.now cs cs' mr hh
      refine ⟨ps', rs, cs', ?_, rfl, rfl, ?_, ?_⟩
      · simp only [opOfDg6, hin, Option.bind_some, hc]; exact hh
      · simp only [opOfDg6, hin, Option.bind_some]
      · exact SYS_pd_delivered6 bound oob d.src pre post (pdOf rs) pkt hpre hone layers resp ifidx hsend

theorem monotone_iff_pairwise (l : List POp) : POp.monotone l = true ↔ l.Pairwise (fun a b => a.now ≤ b.now) := by
  induction l with
  | nil => simp [POp.monotone]
  | cons a t ih =>
    cases t with
    | nil => simp [POp.monotone]
    | cons b rest =>
      simp only [POp.monotone, Bool.and_eq_true, decide_eq_true_eq, ih]
      constructor
      · rintro ⟨hab, hp⟩
        refine List.pairwise_cons.mpr ⟨?_, hp⟩
        intro x hx
        rcases List.mem_cons.mp hx with rfl | hx'
        · exact hab
        · exact Int.le_trans hab ((List.pairwise_cons.mp hp).1 x hx')
      · intro hp
        have := List.pairwise_cons.mp hp
        exact ⟨this.1 b (List.mem_cons_self ..), this.2⟩

/-- **C08 and C09 for the DHCPv6 server over histories of datagrams (monitor form).** Any chain with `prefix` anywhere in it,
set up on a well-formed pool; any history of datagrams (any layers, messages, options; IA_PDs with hints the library can
deliver; a clock that does not run backwards), any listener parameters, any admissible stream of allocator choices: the
events of `prefix` along the run — the messages that reached it with what it answered — satisfy the C08 monitor (every
delegated prefix in the pool, aligned, with lifetimes 0 < preferred = valid ≤ 1 h, disjoint from every prefix ever delegated
to another client, every IA_PD answered once under its IAID) and the C09 monitor (a client is returned what it holds) of
Spec/Prefix.lean. -/
theorem SYSST_C08_history (pool : Pool6) (hp : pool.WF) (a : A6) (hnew : A6.new pool = .ok a)
    (bound : Nat) (oob : Option Nat) (chain : List Elem6) (dgs : List Dg6)
    (hwf : dgs.all (fun d => d.iapds.all IAPDReq.wf) = true)
    (hmono : POp.monotone (dgs.map opOfDg6) = true)
    (cs : List (Option Nat)) (tr : List Step6) (z : St6)
    (h : run6 bound oob chain ⟨some ⟨a, []⟩⟩ dgs cs = some (tr, z)) :
    C08.holds pool (projEvs6 tr) = true ∧ C09.holds pool (projEvs6 tr) = true := by
  obtain ⟨z', _, hrun, hsub⟩ := SYSST_prefix_steps_are_handles bound oob chain ⟨a, []⟩ dgs cs tr z h
  have hwf' : (projOps6 tr).all (fun op => op.iapds.all IAPDReq.wf) = true := by
    apply List.all_eq_true.mpr
    intro op hop
    obtain ⟨d, hd, rfl⟩ := List.mem_map.mp (hsub.subset hop)
    exact List.all_eq_true.mp hwf d hd
  have hmono' : POp.monotone (projOps6 tr) = true :=
    (monotone_iff_pairwise _).mpr (((monotone_iff_pairwise _).mp hmono).sublist hsub)
  exact ⟨C08_holds pool hp a hnew _ hwf' hmono' cs _ z' hrun, C09_holds pool hp a hnew _ hwf' hmono' cs _ z' hrun⟩

/-- the IA_PD options a step sent -/
def sentPd (r : Step6) : Option Plug.Opts :=
  match r.out with
  | .send _ resp _ => some (resp.opts.filter (fun o => o.1 == 25))
  | .drop => none

def exReq6 (xid : Nat) (cid : List Nat) : Sys.Pkt6 := ⟨[], some ⟨3, xid, [(1, cid), (25, [0, 0, 0, 1, 0, 0, 0, 0, 0, 0, 0, 0])]⟩, none⟩

/-- `dns`, `prefix 2001:db8::/60 62`: a REQUEST with one IA_PD from client 1, a message without Client-ID (dropped by
`HandleMsg6`: consumes neither a block nor a choice), a REQUEST from client 2, client 1 again: client 1 is returned the
block it holds, client 2 another one; the plugin-level history has the three messages that reached `prefix`. -/
example :
    ∃ a tr z, A6.new ⟨⟨0x20010db800000000#64, 0#64⟩, 60, 62⟩ = .ok a ∧
      run6 3 none [.plug (.dns [[32, 1, 13, 184, 0, 0, 0, 0, 0, 0, 0, 0, 0, 0, 0, 83]]), .pd []] ⟨some ⟨a, []⟩⟩
        [⟨10, ⟨0x20010db800000000#64, 2#64⟩, some (exReq6 1 [1]), [⟨1, []⟩]⟩,
         ⟨15, ⟨0x20010db800000000#64, 2#64⟩, some ⟨[], some ⟨3, 2, [(25, [])]⟩, none⟩, [⟨1, []⟩]⟩,
         ⟨20, ⟨0x20010db800000000#64, 2#64⟩, some (exReq6 3 [2]), [⟨1, []⟩]⟩,
         ⟨30, ⟨0x20010db800000000#64, 2#64⟩, some (exReq6 4 [1]), [⟨1, []⟩]⟩]
        [some 0, some 1, none] = some (tr, z) ∧
      tr.map (fun r => r.ev.isSome) = [true, false, true, true] ∧
      (tr.map sentPd).map Option.isSome = [true, false, true, true] ∧
      (tr.map sentPd)[0]? = (tr.map sentPd)[3]? ∧ (tr.map sentPd)[0]? ≠ (tr.map sentPd)[2]? ∧
      (projOps6 tr).map (·.client) = [some [1], some [2], some [1]] ∧
      C08.holds ⟨⟨0x20010db800000000#64, 0#64⟩, 60, 62⟩ (projEvs6 tr) = true ∧
      C09.holds ⟨⟨0x20010db800000000#64, 0#64⟩, 60, 62⟩ (projEvs6 tr) = true :=
  ⟨_, _, _, rfl, rfl, by decide, by decide, by decide, by decide, by decide, by decide, by decide⟩

end CoreDhcp
