/-
C04 — Allocators never hand out overlapping blocks.
Property theorems only; invariant proofs are in Proofs/Alloc6.lean and Proofs/Alloc4.lean.
-/
import CoreDhcp.Proofs.Alloc6
import CoreDhcp.Proofs.Alloc4
import CoreDhcp.Proofs.MonLemmas
namespace CoreDhcp

/-- IPv6 pool: for every well-formed pool, every history of Allocate (any hint) and Free (any
well-formed prefix no shorter than the allocation size) and every admissible allocation policy,
a block returned by Allocate is disjoint (as an address interval) from every block outstanding
at that moment. Holds without assuming that only outstanding blocks are freed, because C06 holds. -/
theorem C04_alloc6 (p : Pool6) (hp : p.WF) (a : A6) (hnew : A6.new p = .ok a)
    (ops : List Op6) (cs : List (Option Nat)) (evs : List Ev6) (z : A6)
    (hdom : ops.all (Op6.inDomain p) = true) (hrun : A6.run a ops cs = some (evs, z)) :
    C04.holds6 p evs = true := by
  unfold C04.holds6
  exact all_of_all_imp (A6.run_verdicts p hp a hnew ops cs evs z hdom hrun)
    (fun v hv => by unfold Verdict.all at hv; simp only [Bool.and_eq_true] at hv; exact hv.1.1.1)

/-- IPv4 range: every range start ≤ end, including 0.0.0.0–255.255.255.255. -/
theorem C04_alloc4 (s e : BitVec 32) (a : A4) (hnew : A4.new (some s) (some e) = .ok a)
    (ops : List Op4) (cs : List (Option Nat)) (evs : List Ev4) (z : A4)
    (hrun : A4.run a ops cs = some (evs, z)) :
    C04.holds4 s e evs = true := by
  unfold C04.holds4
  exact all_of_all_imp (A4.run_verdicts s e a hnew ops cs evs z hrun)
    (fun v hv => by unfold Verdict.all at hv; simp only [Bool.and_eq_true] at hv; exact hv.1.1.1)

/-- non-vacuity: a concrete history is a run of the model -/
example : ∃ a evs z, A4.new (some 0x0a000001#32) (some 0x0a000002#32) = .ok a ∧
    A4.run a [.alloc none, .alloc (some 0x0a000002#32), .alloc none, .free (some 0x0a000001#32), .alloc none]
      [some 0, none, none, some 0] = some (evs, z) ∧ evs.length = 5 := ⟨_, _, _, rfl, rfl, rfl⟩

end CoreDhcp
