/-
C12 — DHCPv6 replies match their request; relayed requests get a mirrored Relay-Reply.
Property theorems only (proofs in Proofs/Dispatch.lean).
-/
import CoreDhcp.Proofs.Dispatch
namespace CoreDhcp

/-- all 256 message types, any client-id / rapid-commit, any relay nesting, any source, any binding -/
theorem C12_holds (bound : Nat) (oob : Option Nat) (src : Addr) (hs : List Handler6) (input : Option Pkt6)
    (hpres : ∀ h ∈ hs, Handler6.Preserving h ∧ Handler6.NilPreserving h) :
    C12.holds bound oob src input (dispatch6 bound oob src hs input) = true :=
  C12_dispatch bound oob src hs input hpres

/-- any nesting depth n: exactly n Relay-Reply layers, each mirroring link-address, peer-address,
Interface-ID (and Remote-ID) of the corresponding Relay-Forward layer — for arbitrary handlers -/
theorem C12_mirror (bound : Nat) (oob : Option Nat) (src : Addr) (hs : List Handler6) (d : Pkt6)
    (layers : List Layer6) (resp : Resp6) (ifidx : Option Nat)
    (h : dispatch6 bound oob src hs (some d) = .send layers resp ifidx) :
    layers.length = d.layers.length ∧
    ∀ i (hi : i < layers.length) (hj : i < d.layers.length),
      layers[i].mt = 13 ∧ layers[i].link = d.layers[i].link ∧ layers[i].peer = d.layers[i].peer ∧
      layers[i].iid = d.layers[i].iid ∧ layers[i].rid = d.layers[i].rid :=
  C12_relay_mirror bound oob src hs d layers resp ifidx h

end CoreDhcp
