/-
The program as one function (Model/Server.lean): end-to-end theorems, composed from the theorems about the parts —
MAINREG_* (Props/GenMainReg.lean), START_* (Props/GenStart.lean), C13_* (Props/C13.lean), SYS_* (Props/System.lean).

Everything here is about `Server.runGen`: `Server.run` at the log levels, the plugin list and the initial registry
GENERATED from cmds/coredhcp/main.go (unit `mainreg`), so that its trace is `GenMainReg.main` — the `main` the
source has now (`SERVER_trace_is_main`).

  SERVER_trace_is_main                    the trace of the run is the generated `main` in the world the components make
  SERVER_started_run_waits                server.Start succeeded: the trace is logger, load, 15 registrations, start, wait
  SERVER_listeners_get_configured_chain   a run whose server.Start succeeds: the chains are what the --conf file lists
  SERVER_bad_config_opens_nothing         unreadable / invalid file, unknown plugin, failing set-up: fatal, no socket
  SERVER_unknown_plugin_opens_nothing     … the "unknown plugin" case from the configuration alone
  SERVER_C13_end_to_end4 / 6              per datagram: a prefix of the configured chain, in order, the last response is sent
  SERVER_builtin_chain_is_sys4 / 6        option plugins only: the listener's function is `Sys.serve4/6` of the configured list
-/
import CoreDhcp.Model.Server
import CoreDhcp.Props.GenMainReg
import CoreDhcp.Props.GenStart
import CoreDhcp.Props.C13
import CoreDhcp.Props.System
set_option linter.unusedSimpArgs false
namespace CoreDhcp
open MainReg Server

/-- the program with the log levels, the plugin list and the initial registry of the source as it is now -/
def Server.runGen {H4 H6 : Type} (f : Flags) (e : Env H4 H6) : Run H4 H6 :=
  Server.run GenMainReg.logLevelNames GenMainReg.desired GenMainReg.registry0 f e

/-- the registry `main` has built when it calls `server.Start` -/
def Server.theReg : Reg := ((regRun GenMainReg.registry0 GenMainReg.desired).2).getD []

theorem Server.theReg_ok :
    registerAll GenMainReg.registry0 GenMainReg.desired = .ok Server.theReg ∧
    (regRun GenMainReg.registry0 GenMainReg.desired).2 = some Server.theReg := by
  obtain ⟨reg, h1, h2, _⟩ := MAINREG_registry_exact
  have : Server.theReg = reg := by unfold Server.theReg; rw [h2]; rfl
  rw [this]
  exact ⟨h1, h2⟩

/-! ## the run, taken apart -/

theorem Server.started_mem : ∀ (t : Trace) (c : Cfg), started t = some c → Step.start c ∈ t
  | [], _, h => by cases h
  | s :: rest, c, h => by
    cases s
    case start c' =>
      simp only [started, Option.some.injEq] at h
      subst h
      exact List.mem_cons_self ..
    all_goals exact List.mem_cons_of_mem _ (Server.started_mem rest c (by simpa only [started] using h))

theorem Server.started_append (a b : Trace) :
    started (a ++ b) = match started a with | some c => some c | none => started b := by
  induction a with
  | nil => rfl
  | cons s rest ih => cases s <;> simp only [List.cons_append, started, ih]

theorem Server.started_none (a : Trace) (h : ∀ c, Step.start c ∉ a) : started a = none := by
  cases hs : started a with
  | none => rfl
  | some c => exact absurd (Server.started_mem a c hs) (h c)

/-- what `Server.run` is made of: its trace is `main` in the world of the components; `server.Start` is recorded
exactly when the trace has a `start` step, with the configuration of that step -/
theorem Server.run_spec {H4 H6 : Type} (f : Flags) (e : Env H4 H6) :
    (runGen f e).trace = GenMainReg.main f (world e theReg) ∧
    (match (started (GenMainReg.main f (world e theReg))).bind (cfgOf e) with
     | none => (runGen f e).start = none ∧ (runGen f e).chain4 = [] ∧ (runGen f e).chain6 = []
     | some cfg => (runGen f e).start = some (Server.start e theReg cfg) ∧
        (match chains e theReg cfg with
         | .ok hs => (runGen f e).chain4 = hs.1 ∧ (runGen f e).chain6 = hs.2
         | .error _ => (runGen f e).chain4 = [] ∧ (runGen f e).chain6 = [])) := by
  rw [GEN_mainreg_main_eq]
  unfold runGen Server.run theReg
  simp only []
  generalize (started (MainReg.main GenMainReg.logLevelNames GenMainReg.desired GenMainReg.registry0 f
      (world e ((regRun GenMainReg.registry0 GenMainReg.desired).2.getD [])))).bind (cfgOf e) = x
  cases x with
  | none => exact ⟨rfl, rfl, rfl, rfl⟩
  | some cfg =>
    simp only []
    generalize chains e ((regRun GenMainReg.registry0 GenMainReg.desired).2.getD []) cfg = y
    cases y <;> exact ⟨rfl, rfl, rfl, rfl⟩

/-- The trace of the program is the `main` generated from the source, run against `config.Load` = Model/Config.lean
on the file the path names, and `server.Start` = Model/Start.lean with the chains Model/Plugins.lean loads from the
registry main has built. -/
theorem SERVER_trace_is_main {H4 H6 : Type} (f : Flags) (e : Env H4 H6) :
    (runGen f e).trace = GenMainReg.main f (world e theReg) := (Server.run_spec f e).1

/-- a `start c` step in the trace: c is the file the --conf path names, and it loaded -/
theorem Server.start_step {H4 H6 : Type} (f : Flags) (e : Env H4 H6) (c : Cfg)
    (h : Step.start c ∈ GenMainReg.main f (world e theReg)) :
    e.file f.conf = some c ∧ ∃ cfg, cfgOf e c = some cfg := by
  have hl := ((MAINREG_config_before_sockets_gen f (world e theReg)).2.2 c h).1
  change load e f.conf = some c at hl
  unfold load at hl
  cases hf : e.file f.conf with
  | none => simp [hf] at hl
  | some c' =>
    simp only [hf] at hl
    cases hc : cfgOf e c' with
    | none => simp [hc] at hl
    | some cfg =>
      simp only [hc, Option.isSome_some, if_true, Option.some.injEq] at hl
      subst hl
      exact ⟨rfl, cfg, hc⟩

theorem Server.loadPlugins_ok {H4 H6 : Type} (r4 : Registry H4) (r6 : Registry H6)
    (s4 s6 : Option (List (String × List String))) (h4 : List H4) (h6 : List H6)
    (h : loadPlugins r4 r6 s4 s6 = .ok (h4, h6)) :
    (match (generalizing := false) s4 with | some ps => loadChain r4 ps = .ok h4 | none => h4 = []) ∧
    (match (generalizing := false) s6 with | some ps => loadChain r6 ps = .ok h6 | none => h6 = []) := by
  unfold loadPlugins at h
  split at h
  · cases h
  · split at h
    · cases h
    · rename_i x6 hx6
      split at h
      · cases h
      · rename_i x4 hx4
        simp only [Except.ok.injEq, Prod.mk.injEq] at h
        obtain ⟨rfl, rfl⟩ := h
        constructor
        · cases s4 with
          | none => simpa using hx4.symm
          | some ps => simpa using hx4
        · cases s6 with
          | none => simpa using hx6.symm
          | some ps => simpa using hx6

theorem Server.loadPlugins_error {H4 H6 : Type} (r4 : Registry H4) (r6 : Registry H6)
    (s4 s6 : Option (List (String × List String)))
    (h : (∃ ps err, s4 = some ps ∧ loadChain r4 ps = .error err) ∨ (∃ ps err, s6 = some ps ∧ loadChain r6 ps = .error err)) :
    ∃ err, loadPlugins r4 r6 s4 s6 = .error err := by
  unfold loadPlugins
  split
  · exact ⟨_, rfl⟩
  · rcases h with ⟨ps, err, rfl, he⟩ | ⟨ps, err, rfl, he⟩
    · cases s6 with
      | none => simp [he]
      | some p6 =>
        cases h6 : loadChain r6 p6 with
        | error e6 => simp [h6]
        | ok hs => simp [h6, he]
    · simp [he]

/-- everything a successful `server.Start` of the run tells -/
theorem Server.ok_run {H4 H6 : Type} (f : Flags) (e : Env H4 H6) (st : St)
    (hs : (runGen f e).start = some (.ok st)) :
    ∃ c cfg, e.file f.conf = some c ∧ cfgOf e c = some cfg ∧ Step.start c ∈ (runGen f e).trace ∧
      chains e theReg cfg = .ok ((runGen f e).chain4, (runGen f e).chain6) ∧
      Start.start (startCfg cfg) true e.net = .ok st := by
  obtain ⟨ht, hm⟩ := Server.run_spec f e
  cases hb : (started (GenMainReg.main f (world e theReg))).bind (cfgOf e) with
  | none =>
    rw [hb] at hm
    rw [hm.1] at hs
    cases hs
  | some cfg =>
    rw [hb] at hm
    simp only at hm
    obtain ⟨c, hc, hcfg⟩ := Option.bind_eq_some_iff.mp hb
    have hmem := Server.started_mem _ c hc
    obtain ⟨hfile, _⟩ := Server.start_step f e c hmem
    rw [hm.1] at hs
    have hst : Server.start e theReg cfg = .ok st := Option.some.inj hs
    unfold Server.start at hst
    cases hch : chains e theReg cfg with
    | error err =>
      rw [hch] at hst
      simp [Server.isOk, Start.start] at hst
    | ok hh =>
      rw [hch] at hst
      have h2 := hm.2
      rw [hch] at h2
      simp only at h2
      refine ⟨c, cfg, hfile, hcfg, by rw [ht]; exact hmem, ?_, hst⟩
      rw [h2.1, h2.2]
      exact hch

/-! ## 1. the listeners of a started server carry the configured chains -/

/-- one listener per address of a section: its protocol, and the socket opened for (protocol, zone of the address,
position of the address in the section counted from `k`) -/
def Server.addrConns (p : Proto) : Nat → List UDPAddr → List (Proto × Option (Proto × String × Nat))
  | _, [] => []
  | k, a :: rest => (p, some (p, a.zone, k)) :: Server.addrConns p (k + 1) rest

theorem Server.addrConns_laddrs (p : Proto) (k : Nat) (as : List UDPAddr) :
    ((laddrs k as).map (fun a => (p, a))).map (fun pa => (pa.1, some (pa.1, pa.2.zone, pa.2.id))) = Server.addrConns p k as := by
  induction as generalizing k with
  | nil => rfl
  | cons a rest ih =>
    simp only [laddrs, List.map_cons, Server.addrConns, ih]

theorem Server.addrConns_proto (p : Proto) (k : Nat) (as : List UDPAddr) : ∀ x ∈ Server.addrConns p k as, x.1 = p := by
  induction as generalizing k with
  | nil => intro x hx; cases hx
  | cons a rest ih =>
    intro x hx
    simp only [Server.addrConns, List.mem_cons] at hx
    rcases hx with rfl | hx
    · rfl
    · exact ih (k + 1) x hx

theorem Server.addrConns_length (p : Proto) (k : Nat) (as : List UDPAddr) : (Server.addrConns p k as).length = as.length := by
  induction as generalizing k with
  | nil => rfl
  | cons a rest ih => simp only [Server.addrConns, List.length_cons, ih]

/-- the listeners the configuration asks for: the addresses of the DHCPv6 section, then those of the DHCPv4 section;
an absent section has none -/
def Server.expected (cfg : Loaded) : List (Proto × Option (Proto × String × Nat)) :=
  (match cfg.1 with | some s => Server.addrConns .v6 0 s.addrs | none => []) ++
  (match cfg.2 with | some s => Server.addrConns .v4 0 s.addrs | none => [])

/-- how the listed names of one section become handlers, read off `desiredPlugins` alone: the set-up function of the
declaration of that name, applied to the listed arguments — when the declaration has one for this protocol -/
def Server.configured {H : Type} (has : PluginDecl → Bool) (setup : PluginDecl → Setup H)
    (ps : List (String × List String)) : List (Except Unit (Option H)) :=
  ps.filterMap (fun q => match GenMainReg.desired.find? (fun p => p.name = q.1) with
    | some d => if has d = true then some (setup d q.2) else none
    | none => none)

/-- **The listeners get the configured chain.**  Take any flags and any environment (files, interfaces, set-up
functions, answers of the socket calls), and suppose the run of the program gets `server.Start` to return without
error (`st`: the state it built).  Then there is a file `c` and a configuration `cfg` such that
 * `c` is the file the --conf path names, `cfg` is what `config.Load` (Model/Config.lean, C18) makes of it, and the
   `start` step of the trace is for it;
 * the registry is the one `main` built from `desiredPlugins`, every registration having succeeded;
 * the DHCPv4 chain of the run is exactly what `loadChain` (C13) yields for the plugin list of the server4 section,
   with that registry — `[]` when there is no such section; every listed name is one of `desiredPlugins`; and the
   handlers are, in file order, what the `Setup4` of the declaration of each listed name returned for the listed
   arguments, names whose declaration has no `Setup4` skipped.  The same for DHCPv6 / server6 / `Setup6`;
 * every listener of the run has, as its handlers, the chain of its own protocol — the whole chain;
 * the listeners are, in order, one per address of the server6 section then one per address of the server4 section,
   each on the socket opened for that address; an absent section has no listener. -/
theorem SERVER_listeners_get_configured_chain {H4 H6 : Type} (f : Flags) (e : Env H4 H6) (st : St)
    (hs : (runGen f e).start = some (.ok st)) :
    ∃ c cfg,
      (e.file f.conf = some c ∧ cfgOf e c = some cfg ∧ Step.start c ∈ (runGen f e).trace) ∧
      registerAll GenMainReg.registry0 GenMainReg.desired = .ok theReg ∧
      (match cfg.2 with
       | some s => loadChain (Reg.view4 e.setup4 theReg) s.plugins = .ok (runGen f e).chain4 ∧
           (∀ q ∈ s.plugins, q.1 ∈ GenMainReg.desired.map (fun p => p.name)) ∧
           Server.configured (·.has4) e.setup4 s.plugins = (runGen f e).chain4.map (fun x => .ok (some x))
       | none => (runGen f e).chain4 = []) ∧
      (match cfg.1 with
       | some s => loadChain (Reg.view6 e.setup6 theReg) s.plugins = .ok (runGen f e).chain6 ∧
           (∀ q ∈ s.plugins, q.1 ∈ GenMainReg.desired.map (fun p => p.name)) ∧
           Server.configured (·.has6) e.setup6 s.plugins = (runGen f e).chain6.map (fun x => .ok (some x))
       | none => (runGen f e).chain6 = []) ∧
      (∀ l ∈ (runGen f e).listeners,
        (l.proto = .v4 → (runGen f e).handlers4 l = (runGen f e).chain4 ∧ (runGen f e).handlers6 l = []) ∧
        (l.proto = .v6 → (runGen f e).handlers6 l = (runGen f e).chain6 ∧ (runGen f e).handlers4 l = [])) ∧
      (runGen f e).listeners.map (fun l => (l.proto, l.conn)) = Server.expected cfg ∧
      (cfg.2 = none → ∀ l ∈ (runGen f e).listeners, l.proto ≠ .v4) ∧
      (cfg.1 = none → ∀ l ∈ (runGen f e).listeners, l.proto ≠ .v6) := by
  obtain ⟨c, cfg, hfile, hcfg, hmem, hch, hst⟩ := Server.ok_run f e st hs
  have hreg := Server.theReg_ok.1
  obtain ⟨h4, h6⟩ := Server.loadPlugins_ok _ _ _ _ _ _ hch
  have hls : (runGen f e).listeners = st.serving := by unfold Run.listeners; rw [hs]
  have hwhole := START_whole_chain _ _ _ hst
  obtain ⟨hconn, _, _⟩ := START_every_section_listens _ _ _ hst
  have hexp : (runGen f e).listeners.map (fun l => (l.proto, l.conn)) = Server.expected cfg := by
    rw [hls, hconn]
    obtain ⟨c6, c4⟩ := cfg
    unfold Start.wanted startCfg Server.expected
    rw [List.map_append]
    cases c6 <;> cases c4 <;>
      simp only [Option.map_none, Option.map_some, Option.getD_none, Option.getD_some, List.map_nil,
        Server.addrConns_laddrs]
  have hproto : ∀ l ∈ (runGen f e).listeners, (l.proto, l.conn) ∈ Server.expected cfg := by
    intro l hl
    rw [← hexp]
    exact List.mem_map.mpr ⟨l, hl, rfl⟩
  refine ⟨c, cfg, ⟨hfile, hcfg, hmem⟩, hreg, ?_, ?_, ?_, hexp, ?_, ?_⟩
  · cases hc4 : cfg.2 with
    | none => rw [hc4] at h4; exact h4
    | some s =>
      rw [hc4] at h4
      simp only [Option.map_some] at h4
      obtain ⟨ha, hb⟩ := MAINREG_load_exact4 e.setup4 theReg hreg s.plugins _ h4
      exact ⟨h4, ha, hb⟩
  · cases hc6 : cfg.1 with
    | none => rw [hc6] at h6; exact h6
    | some s =>
      rw [hc6] at h6
      simp only [Option.map_some] at h6
      obtain ⟨ha, hb⟩ := MAINREG_load_exact6 e.setup6 theReg hreg s.plugins _ h6
      exact ⟨h6, ha, hb⟩
  · intro l hl
    rw [hls] at hl
    have := hwhole l hl
    constructor <;> intro hp <;> rw [hp] at this <;> simp [Run.handlers4, Run.handlers6, this, Chain.of]
  · intro hn l hl hp
    have hm := hproto l hl
    unfold Server.expected at hm
    rw [hn] at hm
    simp only [List.append_nil] at hm
    cases h1 : cfg.1 with
    | none => rw [h1] at hm; cases hm
    | some s =>
      rw [h1] at hm
      have := Server.addrConns_proto _ _ _ _ hm
      simp only at this
      rw [hp] at this
      cases this
  · intro hn l hl hp
    have hm := hproto l hl
    unfold Server.expected at hm
    rw [hn] at hm
    simp only [List.nil_append] at hm
    cases h1 : cfg.2 with
    | none => rw [h1] at hm; cases hm
    | some s =>
      rw [h1] at hm
      have := Server.addrConns_proto _ _ _ _ hm
      simp only at this
      rw [hp] at this
      cases this


/-- "`server.Start` returned without error" seen in the trace: the run is then — whatever the flags were — the
logger set-up, the load of the --conf file, the fifteen registrations, the start of the server with file `c`, and
`srv.Wait()`. -/
theorem SERVER_started_run_waits {H4 H6 : Type} (f : Flags) (e : Env H4 H6) (st : St)
    (hs : (runGen f e).start = some (.ok st)) :
    ∃ c, e.file f.conf = some c ∧
      (runGen f e).trace = [.parseFlags, .getLogger "main"] ++ MainReg.logging f ++ [.load f.conf] ++
        (GenMainReg.desired.map (fun p => Step.registered p.name) ++ [.start c] ++ [.wait, .ret]) := by
  obtain ⟨c, cfg, hfile, hcfg, hmem, hch, hst⟩ := Server.ok_run f e st hs
  have ht := (Server.run_spec f e).1
  rw [ht] at hmem ⊢
  refine ⟨c, hfile, ?_⟩
  have hw : (world e theReg).load f.conf = some c := by
    change load e f.conf = some c
    unfold load
    simp only [hfile, hcfg, Option.isSome_some, if_true]
  have hws : (world e theReg).start c = true := by
    change (match cfgOf e c with | none => false | some cfg => startOk (Server.start e theReg cfg)) = true
    rw [hcfg]
    simp only [Server.start, hch, Server.isOk, hst]
    rfl
  cases hp : f.plugins with
  | true => exact absurd rfl (((MAINREG_list_plugins_is_pure f _ hp).2 _ hmem).2.2.1 c)
  | false =>
    cases hl : GenMainReg.logLevelNames.contains f.loglevel with
    | false =>
      rw [GEN_mainreg_main_eq] at hmem
      unfold MainReg.main at hmem
      simp only [hp, hl, Bool.false_eq_true, if_false, if_true] at hmem
      simp at hmem
    | true =>
      rw [MAINREG_run f _ hp hl, hw]
      simp only [hws, if_true]

/-! ### a concrete run -/

/-- file 7, named /etc/coredhcp.yml: a server4 section listing `server_id`, `prefix` (no DHCPv4 set-up), `dns`, no
`listen` (so: the default listener 0.0.0.0:67); no server6 section -/
def Server.exFile : RawFile :=
  ⟨none, some { plugins := some [.one "server_id" ["10.0.0.1"], .one "prefix" ["2001:db8::/48", "64"], .one "dns" ["8.8.8.8"]],
                iface := none, listen := none, oracles := [] }⟩

/-- an environment with that file and no other, set-up functions that always give a handler (the plugin's name and
its arguments), and socket calls that succeed -/
def Server.exEnv : Env (String × List String) (String × List String) :=
  { file := fun p => if p = "/etc/coredhcp.yml" then some 7 else if p = "/etc/typo.yml" then some 8 else none,
    content := fun c => if c = 7 then Server.exFile else
      ⟨none, some { plugins := some [.one "server_id" ["10.0.0.1"], .one "leasetime" ["1h"]], iface := none, listen := none, oracles := [] }⟩,
    ifs := [], setup4 := fun p args => .ok (some (p.name, args)), setup6 := fun p args => .ok (some (p.name, args)),
    net := fun _ => ⟨true, true, true, true⟩, ifIndex := fun _ => 2 }

def Server.exFlags (conf : String) : Flags := ⟨"", false, "info", conf, false⟩

-- the hypothesis of `SERVER_listeners_get_configured_chain` is satisfiable, and its conclusion on this run: one
-- DHCPv4 listener, on the socket for address 0 of the section, whose handlers are server_id and dns in file order
-- (`prefix` skipped), no DHCPv6 chain
theorem Server.ok_of_startOk {H4 H6 : Type} (r : Run H4 H6) (h : r.start.map startOk = some true) :
    ∃ st, r.start = some (.ok st) := by
  cases hs : r.start with
  | none => rw [hs] at h; cases h
  | some o =>
    cases o with
    | ok st => exact ⟨st, rfl⟩
    | loadErr => rw [hs] at h; cases h
    | listenErr st f => rw [hs] at h; cases h

example : (∃ st, (runGen (Server.exFlags "/etc/coredhcp.yml") Server.exEnv).start = some (.ok st)) ∧
    (runGen (Server.exFlags "/etc/coredhcp.yml") Server.exEnv).chain4 = [("server_id", ["10.0.0.1"]), ("dns", ["8.8.8.8"])] ∧
    (runGen (Server.exFlags "/etc/coredhcp.yml") Server.exEnv).chain6 = [] ∧
    (runGen (Server.exFlags "/etc/coredhcp.yml") Server.exEnv).listeners.map (fun l => (l.proto, l.conn)) = [(.v4, some (.v4, "", 0))] ∧
    (runGen (Server.exFlags "/etc/coredhcp.yml") Server.exEnv).listeners.map
      (fun l => (runGen (Server.exFlags "/etc/coredhcp.yml") Server.exEnv).handlers4 l) = [[("server_id", ["10.0.0.1"]), ("dns", ["8.8.8.8"])]] := by
  refine ⟨Server.ok_of_startOk _ (by decide), by decide, by decide, by decide, by decide⟩

/-! ## 2. a bad configuration opens nothing -/

theorem Server.last_snoc {α : Type} (l : List α) (x : α) : (l ++ [x]).getLast? = some x := by simp

theorem Server.no_start_in_head (f : Flags) (p : String) (ps : List PluginDecl) :
    ∀ c, Step.start c ∉ [Step.parseFlags, Step.getLogger "main"] ++ MainReg.logging f ++ [Step.load p] ++
      ps.map (fun q => Step.registered q.name) := by
  intro c h
  simp only [List.mem_append, List.mem_cons, List.not_mem_nil, or_false, List.mem_map] at h
  rcases h with (((h | h) | h) | h) | ⟨q, _, h⟩
  · cases h
  · cases h
  · have := MainReg.logging_quiet f _ h
    cases this
  · cases h
  · cases h

/-- the configuration file cannot be read or `config.Load` rejects it: `server.Start` is never called, nothing is
registered; and (without --plugins, with a valid log level) the trace ends with the fatal error of the load -/
theorem Server.load_fails {H4 H6 : Type} (f : Flags) (e : Env H4 H6) (h : load e f.conf = none) :
    (runGen f e).start = none ∧
    (∀ s ∈ (runGen f e).trace, (∀ n, s ≠ .registered n) ∧ (∀ c, s ≠ .start c)) ∧
    (f.plugins = false → GenMainReg.logLevelNames.contains f.loglevel = true →
      (runGen f e).trace = [.parseFlags, .getLogger "main"] ++ MainReg.logging f ++ [.load f.conf] ++ [.fatal .load]) := by
  obtain ⟨ht, hm⟩ := Server.run_spec f e
  have hw : (world e theReg).load f.conf = none := h
  have hno := (MAINREG_config_before_sockets_gen f (world e theReg)).2.1 hw
  have hst : started (GenMainReg.main f (world e theReg)) = none :=
    Server.started_none _ (fun c hc => (hno _ hc).2 c rfl)
  rw [hst] at hm
  refine ⟨hm.1, by rw [ht]; exact hno, ?_⟩
  intro hp hl
  rw [ht, MAINREG_run f _ hp hl, hw]

/-- the file loads but `plugins.LoadPlugins` fails on it: `server.Start` — if the run gets that far — returns the
error before any listenN call; and (without --plugins, with a valid log level) it does get that far, and the trace
ends with the fatal error of the start -/
theorem Server.plugins_fail {H4 H6 : Type} (f : Flags) (e : Env H4 H6) (c : Cfg) (cfg : Loaded) (err : LoadErr)
    (hfile : e.file f.conf = some c) (hcfg : cfgOf e c = some cfg) (herr : chains e theReg cfg = .error err) :
    ((runGen f e).start = none ∨ (runGen f e).start = some .loadErr) ∧
    (f.plugins = false → GenMainReg.logLevelNames.contains f.loglevel = true →
      (runGen f e).start = some .loadErr ∧
      (runGen f e).trace = [.parseFlags, .getLogger "main"] ++ MainReg.logging f ++ [.load f.conf] ++
        (GenMainReg.desired.map (fun p => Step.registered p.name) ++ [.start c] ++ [.fatal .start])) := by
  obtain ⟨ht, hm⟩ := Server.run_spec f e
  have hstart : Server.start e theReg cfg = .loadErr := by
    unfold Server.start
    rw [herr]
    exact START_load_error_opens_nothing _ _
  have hw : (world e theReg).load f.conf = some c := by
    change load e f.conf = some c
    unfold load
    simp only [hfile, hcfg, Option.isSome_some, if_true]
  have hws : (world e theReg).start c = false := by
    change (match cfgOf e c with | none => false | some cfg => startOk (Server.start e theReg cfg)) = false
    rw [hcfg]
    simp only [hstart]
    rfl
  have key : ∀ cfg', (started (GenMainReg.main f (world e theReg))).bind (cfgOf e) = some cfg' → cfg' = cfg := by
    intro cfg' hb
    obtain ⟨c', hc', hcfg'⟩ := Option.bind_eq_some_iff.mp hb
    obtain ⟨hf', _⟩ := Server.start_step f e c' (Server.started_mem _ c' hc')
    rw [hfile] at hf'
    have : c = c' := Option.some.inj hf'
    subst this
    rw [hcfg] at hcfg'
    exact (Option.some.inj hcfg').symm
  constructor
  · cases hb : (started (GenMainReg.main f (world e theReg))).bind (cfgOf e) with
    | none => rw [hb] at hm; exact Or.inl hm.1
    | some cfg' =>
      have := key cfg' hb
      subst this
      rw [hb] at hm
      exact Or.inr (by rw [hm.1, hstart])
  · intro hp hl
    have hrun := MAINREG_run f (world e theReg) hp hl
    rw [hw] at hrun
    simp only [hws, Bool.false_eq_true, if_false] at hrun
    have hsd : started (GenMainReg.main f (world e theReg)) = some c := by
      rw [hrun, ← List.append_assoc, ← List.append_assoc, Server.started_append, Server.started_append,
        Server.started_none _ (Server.no_start_in_head f f.conf GenMainReg.desired)]
      rfl
    rw [hsd] at hm
    simp only [Option.bind_some, hcfg] at hm
    exact ⟨by rw [hm.1, hstart], by rw [ht, hrun]⟩

/-- from the configuration alone: `LoadPlugins` fails when a section lists a name that is not one of
`desiredPlugins`, or a listed plugin's set-up function for that protocol returns an error or a nil handler -/
theorem Server.chains_fail {H4 H6 : Type} (e : Env H4 H6) (cfg : Loaded)
    (h : (∃ s, cfg.2 = some s ∧ ((∃ q ∈ s.plugins, q.1 ∉ GenMainReg.desired.map (fun p => p.name)) ∨
            (∃ q ∈ supported (Reg.view4 e.setup4 theReg) s.plugins, q.2 = .error () ∨ q.2 = .ok none))) ∨
         (∃ s, cfg.1 = some s ∧ ((∃ q ∈ s.plugins, q.1 ∉ GenMainReg.desired.map (fun p => p.name)) ∨
            (∃ q ∈ supported (Reg.view6 e.setup6 theReg) s.plugins, q.2 = .error () ∨ q.2 = .ok none)))) :
    ∃ err, chains e theReg cfg = .error err := by
  have hreg := Server.theReg_ok.1
  unfold chains
  apply Server.loadPlugins_error
  rcases h with ⟨s, hs, h⟩ | ⟨s, hs, h⟩
  · left
    rw [hs]
    rcases h with ⟨q, hq, hn⟩ | h
    · obtain ⟨err, he⟩ := (MAINREG_unknown_name_rejected e.setup4 theReg hreg s.plugins q hq hn).1
      exact ⟨_, err, rfl, he⟩
    · obtain ⟨err, he⟩ := C13_load_aborts _ s.plugins (Or.inr h)
      exact ⟨_, err, rfl, he⟩
  · right
    rw [hs]
    rcases h with ⟨q, hq, hn⟩ | h
    · obtain ⟨err, he⟩ := (MAINREG_unknown_name_rejected e.setup6 theReg hreg s.plugins q hq hn).2
      exact ⟨_, err, rfl, he⟩
    · obtain ⟨err, he⟩ := C13_load_aborts _ s.plugins (Or.inr h)
      exact ⟨_, err, rfl, he⟩

/-- **A bad configuration opens nothing.**  For any flags and any environment: if the --conf file cannot be read or
`config.Load` rejects it; or it loads, but a section lists a name that is not one of `desiredPlugins`, or a listed
plugin's set-up function returns an error (or a nil handler) for the listed arguments — then in the whole run no
listenN call is made (no socket is opened) and no listener exists: `server.Start` is either not called at all or
returns the error of `LoadPlugins` before it touches the network.  And when the run gets past the flags (no
--plugins, a valid --loglevel) its trace ENDS with `log.Fatal`: of the load in the first case (nothing registered,
the server not started), of the start in the others (after the load and the fifteen registrations). -/
theorem SERVER_bad_config_opens_nothing {H4 H6 : Type} (f : Flags) (e : Env H4 H6)
    (hbad : load e f.conf = none ∨
      ∃ c cfg, e.file f.conf = some c ∧ cfgOf e c = some cfg ∧
        ((∃ s, cfg.2 = some s ∧ ((∃ q ∈ s.plugins, q.1 ∉ GenMainReg.desired.map (fun p => p.name)) ∨
            (∃ q ∈ supported (Reg.view4 e.setup4 theReg) s.plugins, q.2 = .error () ∨ q.2 = .ok none))) ∨
         (∃ s, cfg.1 = some s ∧ ((∃ q ∈ s.plugins, q.1 ∉ GenMainReg.desired.map (fun p => p.name)) ∨
            (∃ q ∈ supported (Reg.view6 e.setup6 theReg) s.plugins, q.2 = .error () ∨ q.2 = .ok none))))) :
    (runGen f e).listenCalls = 0 ∧ (runGen f e).listeners = [] ∧
    ((runGen f e).start = none ∨ (runGen f e).start = some .loadErr) ∧
    (f.plugins = false → GenMainReg.logLevelNames.contains f.loglevel = true →
      ((runGen f e).trace.getLast? = some (.fatal .load) ∧ (runGen f e).start = none ∧
          ∀ s ∈ (runGen f e).trace, (∀ n, s ≠ .registered n) ∧ (∀ c, s ≠ .start c)) ∨
      ((runGen f e).trace.getLast? = some (.fatal .start) ∧ (runGen f e).start = some .loadErr)) := by
  have fin : ((runGen f e).start = none ∨ (runGen f e).start = some .loadErr) →
      (runGen f e).listenCalls = 0 ∧ (runGen f e).listeners = [] ∧
      ((runGen f e).start = none ∨ (runGen f e).start = some .loadErr) := by
    intro h
    refine ⟨?_, ?_, h⟩ <;> rcases h with h | h <;> simp [Run.listenCalls, Run.listeners, h]
  rcases hbad with h | ⟨c, cfg, hfile, hcfg, h⟩
  · obtain ⟨h1, h2, h3⟩ := Server.load_fails f e h
    obtain ⟨a, b, c⟩ := fin (Or.inl h1)
    refine ⟨a, b, c, fun hp hl => Or.inl ⟨?_, h1, h2⟩⟩
    rw [h3 hp hl, Server.last_snoc]
  · obtain ⟨err, herr⟩ := Server.chains_fail e cfg h
    obtain ⟨h1, h2⟩ := Server.plugins_fail f e c cfg err hfile hcfg herr
    obtain ⟨a, b, c'⟩ := fin h1
    refine ⟨a, b, c', fun hp hl => Or.inr ⟨?_, (h2 hp hl).1⟩⟩
    rw [(h2 hp hl).2, ← List.append_assoc, Server.last_snoc]

-- the three kinds of bad configuration on the example environment: a path that names no file; a file that lists
-- `leasetime` (the plugin is called `lease_time`): both end fatal with no listenN call
example : load Server.exEnv "/nonexistent" = none ∧
    (runGen (Server.exFlags "/nonexistent") Server.exEnv).trace =
      [.parseFlags, .getLogger "main", .setLevel "info", .load "/nonexistent", .fatal .load] ∧
    (runGen (Server.exFlags "/nonexistent") Server.exEnv).listenCalls = 0 := by
  refine ⟨by decide, by decide, by decide⟩
example : (runGen (Server.exFlags "/etc/typo.yml") Server.exEnv).start = some .loadErr ∧
    (runGen (Server.exFlags "/etc/typo.yml") Server.exEnv).trace.getLast? = some (.fatal .start) ∧
    (runGen (Server.exFlags "/etc/typo.yml") Server.exEnv).trace.length = 21 ∧
    (runGen (Server.exFlags "/etc/typo.yml") Server.exEnv).listenCalls = 0 ∧
    (∃ cfg s, cfgOf Server.exEnv 8 = some cfg ∧ cfg.2 = some s ∧ ("leasetime", ["1h"]) ∈ s.plugins ∧
      "leasetime" ∉ GenMainReg.desired.map (fun p => p.name)) := by
  refine ⟨by decide, by decide, by decide, by decide, _, _, rfl, rfl, by decide, by decide⟩
-- and a set-up function that fails: the same good file, but `dns` rejects its arguments
example : (runGen (Server.exFlags "/etc/coredhcp.yml")
      { Server.exEnv with setup4 := fun p args => if p.name = "dns" then .error () else .ok (some (p.name, args)) }).start = some .loadErr := by
  decide


/-! ## 3. C13 for the running server -/

/-- a DHCPv4 listener of a started server: there is a server4 section, and the listener's handlers are the chain
loaded from its plugin list -/
theorem Server.listener4 {H4 H6 : Type} (f : Flags) (e : Env H4 H6) (st : St)
    (hs : (runGen f e).start = some (.ok st)) (l : Listener) (hl : l ∈ (runGen f e).listeners) (hp : l.proto = .v4) :
    ∃ c cfg s, e.file f.conf = some c ∧ cfgOf e c = some cfg ∧ cfg.2 = some s ∧
      loadChain (Reg.view4 e.setup4 theReg) s.plugins = .ok (runGen f e).chain4 ∧
      (runGen f e).handlers4 l = (runGen f e).chain4 := by
  obtain ⟨c, cfg, ⟨hfile, hcfg, _⟩, _, h4, _, hh, _, hn4, _⟩ := SERVER_listeners_get_configured_chain f e st hs
  cases hc : cfg.2 with
  | none => exact absurd hp (hn4 hc l hl)
  | some s =>
    rw [hc] at h4
    exact ⟨c, cfg, s, hfile, hcfg, hc, h4.1, ((hh l hl).1 hp).1⟩

theorem Server.listener6 {H4 H6 : Type} (f : Flags) (e : Env H4 H6) (st : St)
    (hs : (runGen f e).start = some (.ok st)) (l : Listener) (hl : l ∈ (runGen f e).listeners) (hp : l.proto = .v6) :
    ∃ c cfg s, e.file f.conf = some c ∧ cfgOf e c = some cfg ∧ cfg.1 = some s ∧
      loadChain (Reg.view6 e.setup6 theReg) s.plugins = .ok (runGen f e).chain6 ∧
      (runGen f e).handlers6 l = (runGen f e).chain6 := by
  obtain ⟨c, cfg, ⟨hfile, hcfg, _⟩, _, _, h6, hh, _, _, hn6⟩ := SERVER_listeners_get_configured_chain f e st hs
  cases hc : cfg.1 with
  | none => exact absurd hp (hn6 hc l hl)
  | some s =>
    rw [hc] at h6
    exact ⟨c, cfg, s, hfile, hcfg, hc, h6.1, ((hh l hl).2 hp).1⟩

/-- **C13 end to end, DHCPv4.**  A run whose `server.Start` succeeds, any of its DHCPv4 listeners, any datagram that
parses to a request `req` the server prepares a reply `r0` for.  Let `hs` be the configured chain: what `loadChain`
yields for the plugin list of the server4 section of the --conf file, with main's registry (by
`SERVER_listeners_get_configured_chain`: the listed plugins with a `Setup4`, in file order).  Then what the listener
does with the datagram is `HandleMsg4` over `hs`; the handlers invoked are positions 0 … k-1 of `hs`, in order, each
once, each given `req` and the response its predecessor returned; k ≤ the length of `hs`, none of the first k-1
signalled stop, and if k is less than the length then the k-th did; and what is sent is the response returned last
(nothing when that is nil). -/
theorem SERVER_C13_end_to_end4 {H6 : Type} (f : Flags) (e : Env Handler4 H6) (st : St)
    (hs : (runGen f e).start = some (.ok st)) (l : Listener) (hl : l ∈ (runGen f e).listeners) (hp : l.proto = .v4)
    (oob : Option Nat) (req : Req4) (r0 : Resp4) (h0 : stub4 req = some r0) :
    ∃ c cfg s, e.file f.conf = some c ∧ cfgOf e c = some cfg ∧ cfg.2 = some s ∧
      loadChain (Reg.view4 e.setup4 theReg) s.plugins = .ok (runGen f e).chain4 ∧
      recv4 e (runGen f e) l oob (some req) = dispatch4 (bound e l) oob (runGen f e).chain4 (some req) ∧
      (runChain (runGen f e).chain4 req 0 (some r0)).2 =
        (List.range (chainLen (runGen f e).chain4 req (some r0))).map (fun i => (i, chainIn (runGen f e).chain4 req (some r0) i)) ∧
      chainLen (runGen f e).chain4 req (some r0) ≤ (runGen f e).chain4.length ∧
      (∀ i, i + 1 < chainLen (runGen f e).chain4 req (some r0) → chainStops (runGen f e).chain4 req (some r0) i = false) ∧
      (chainLen (runGen f e).chain4 req (some r0) < (runGen f e).chain4.length →
        chainStops (runGen f e).chain4 req (some r0) (chainLen (runGen f e).chain4 req (some r0) - 1) = true ∧
        0 < chainLen (runGen f e).chain4 req (some r0)) ∧
      (match recv4 e (runGen f e) l oob (some req) with
       | .send resp _ _ _ _ => chainIn (runGen f e).chain4 req (some r0) (chainLen (runGen f e).chain4 req (some r0)) = some resp
       | .drop => chainIn (runGen f e).chain4 req (some r0) (chainLen (runGen f e).chain4 req (some r0)) = none
       | .panicNoIf => chainIn (runGen f e).chain4 req (some r0) (chainLen (runGen f e).chain4 req (some r0)) ≠ none) := by
  obtain ⟨c, cfg, s, hfile, hcfg, hsec, hload, hh⟩ := Server.listener4 f e st hs l hl hp
  have hrecv : recv4 e (runGen f e) l oob (some req) = dispatch4 (bound e l) oob (runGen f e).chain4 (some req) := by
    unfold recv4; rw [hh]
  obtain ⟨ho1, ho2⟩ := C13_order (runGen f e).chain4 req (some r0)
  obtain ⟨hs1, hs2, hs3⟩ := C13_stop (runGen f e).chain4 req (some r0)
  have hsend := C13_sends_last4 (bound e l) oob (runGen f e).chain4 req r0 h0
  rw [ho2] at hsend
  refine ⟨c, cfg, s, hfile, hcfg, hsec, hload, hrecv, ho1, hs1, hs2, hs3, ?_⟩
  rw [hrecv]
  exact hsend

/-- **C13 end to end, DHCPv6**: the same for a DHCPv6 listener, the server6 section and `HandleMsg6`; a reply that the
chain returned is not sent only when the outermost relay layer of the datagram is not a Relay-Forward. -/
theorem SERVER_C13_end_to_end6 {H4 : Type} (f : Flags) (e : Env H4 Handler6) (st : St)
    (hs : (runGen f e).start = some (.ok st)) (l : Listener) (hl : l ∈ (runGen f e).listeners) (hp : l.proto = .v6)
    (oob : Option Nat) (src : Addr) (d : Pkt6) (m : Msg6) (r0 : Resp6) (hm : d.msg = some m) (h0 : stub6 m = some r0) :
    ∃ c cfg s, e.file f.conf = some c ∧ cfgOf e c = some cfg ∧ cfg.1 = some s ∧
      loadChain (Reg.view6 e.setup6 theReg) s.plugins = .ok (runGen f e).chain6 ∧
      recv6 e (runGen f e) l oob src (some d) = dispatch6 (bound e l) oob src (runGen f e).chain6 (some d) ∧
      (runChain (runGen f e).chain6 d 0 (some r0)).2 =
        (List.range (chainLen (runGen f e).chain6 d (some r0))).map (fun i => (i, chainIn (runGen f e).chain6 d (some r0) i)) ∧
      chainLen (runGen f e).chain6 d (some r0) ≤ (runGen f e).chain6.length ∧
      (∀ i, i + 1 < chainLen (runGen f e).chain6 d (some r0) → chainStops (runGen f e).chain6 d (some r0) i = false) ∧
      (chainLen (runGen f e).chain6 d (some r0) < (runGen f e).chain6.length →
        chainStops (runGen f e).chain6 d (some r0) (chainLen (runGen f e).chain6 d (some r0) - 1) = true ∧
        0 < chainLen (runGen f e).chain6 d (some r0)) ∧
      (match recv6 e (runGen f e) l oob src (some d) with
       | .send _ resp _ => chainIn (runGen f e).chain6 d (some r0) (chainLen (runGen f e).chain6 d (some r0)) = some resp
       | .drop => chainIn (runGen f e).chain6 d (some r0) (chainLen (runGen f e).chain6 d (some r0)) = none ∨
           ∃ l rest, d.layers = l :: rest ∧ l.mt ≠ 12) := by
  obtain ⟨c, cfg, s, hfile, hcfg, hsec, hload, hh⟩ := Server.listener6 f e st hs l hl hp
  have hrecv : recv6 e (runGen f e) l oob src (some d) = dispatch6 (bound e l) oob src (runGen f e).chain6 (some d) := by
    unfold recv6; rw [hh]
  obtain ⟨ho1, ho2⟩ := C13_order (runGen f e).chain6 d (some r0)
  obtain ⟨hs1, hs2, hs3⟩ := C13_stop (runGen f e).chain6 d (some r0)
  have hsend := C13_sends_last6 (bound e l) oob src (runGen f e).chain6 d m r0 hm h0
  rw [ho2] at hsend
  refine ⟨c, cfg, s, hfile, hcfg, hsec, hload, hrecv, ho1, hs1, hs2, hs3, ?_⟩
  rw [hrecv]
  exact hsend

/-- scripted handlers in the style of the conformance run: append a tag; `stop` ends the chain -/
def Server.tagger (tag : Nat) (stop : Bool) : Handler4 := fun _ r => (r.map (fun x => { x with tags := x.tags ++ [tag] }), stop)

/-- the example file again, with handlers that are functions: `server_id` tags 1, `dns` tags 2 and stops, `router` tags 3 -/
def Server.exFileH : RawFile :=
  ⟨none, some { plugins := some [.one "server_id" ["10.0.0.1"], .one "prefix" [], .one "dns" ["8.8.8.8"], .one "router" ["10.0.0.254"]],
                iface := none, listen := none, oracles := [] }⟩

def Server.exEnvH : Env Handler4 Handler6 :=
  { file := fun p => if p = "/etc/coredhcp.yml" then some 7 else none,
    content := fun _ => Server.exFileH,
    ifs := [],
    setup4 := fun p _ => .ok (some (if p.name = "server_id" then Server.tagger 1 false else if p.name = "dns" then Server.tagger 2 true else Server.tagger 3 false)),
    setup6 := fun _ _ => .error (),
    net := fun _ => ⟨true, true, true, true⟩, ifIndex := fun _ => 2 }

-- the hypotheses of `SERVER_C13_end_to_end4` are satisfiable: the run starts, it has a DHCPv4 listener, and a
-- broadcast DISCOVER handed to it is answered by an OFFER that went through server_id and dns (which stopped the
-- chain: router's tag 3 is missing) — three handlers configured, two invoked
example :
    let r := runGen (Server.exFlags "/etc/coredhcp.yml") Server.exEnvH
    let req : Req4 := ⟨1, 1, 7, 1, [2, 0, 0, 0, 0, 1], 32768, 0#32, 0#32, none, none⟩
    (∃ st, r.start = some (.ok st)) ∧ r.chain4.length = 3 ∧
    r.listeners.map (fun l => decide (l.proto = .v4)) = [true] ∧
    r.listeners.map (fun l => match recv4 Server.exEnvH r l (some 2) (some req) with
      | .send resp peer port ifidx l2 => resp.mt == 2 && resp.tags == [1, 2] && peer == bcast4 && port == 68 && ifidx == some 2 && !l2
      | _ => false) = [true] ∧
    (stub4 req).isSome = true ∧ chainLen r.chain4 req (stub4 req) = 2 := by
  refine ⟨Server.ok_of_startOk _ (by decide), by decide, by decide, by decide, by decide, by decide⟩


/-! ## 4. option plugins only: the running server is `Sys.serve4/6` of the configured list -/

/-- the configured built-in plugins a DHCPv4 plugin list stands for: per listed name with a DHCPv4 option-plugin
set-up (`Plug.plugSetup4`), the configuration it makes of the listed arguments -/
def Server.elems4 (oracle : String → Plug.ArgOracle) (ps : List (String × List String)) : List Sys.Elem4 :=
  ps.filterMap (fun q => match Plug.plugSetup4 q.1 (q.2.map oracle) with
    | some (.ok c) => some (.plug c)
    | _ => none)

def Server.elems6 (oracle : String → Plug.ArgOracle) (ps : List (String × List String)) : List Sys.Elem6 :=
  ps.filterMap (fun q => match Plug.plugSetup6 q.1 (q.2.map oracle) with
    | some (.ok c) => some (.plug c)
    | _ => none)

/-- for the declarations of `desiredPlugins` other than `file` and `range`: the declaration has a `Setup4` exactly
when the option-plugin model has a DHCPv4 set-up of that name -/
theorem Server.has4_iff_model (args : List Plug.ArgOracle) : ∀ p ∈ GenMainReg.desired, p.name ≠ "file" → p.name ≠ "range" →
    (Plug.plugSetup4 p.name args).isSome = p.has4 := by
  simp only [MainReg.plugSetup4_isSome]
  decide

theorem Server.has6_iff_model (args : List Plug.ArgOracle) : ∀ p ∈ GenMainReg.desired, p.name ≠ "file" → p.name ≠ "prefix" →
    (Plug.plugSetup6 p.name args).isSome = p.has6 := by
  simp only [MainReg.plugSetup6_isSome]
  decide

theorem Server.optChain4 (oracle : String → Plug.ArgOracle) (other : PluginDecl → Setup Sys.Elem4)
    (ps : List (String × List String)) (hs : List Sys.Elem4)
    (hopt : ∀ q ∈ ps, q.1 ≠ "file" ∧ q.1 ≠ "range")
    (hl : loadChain (Reg.view4 (optSetup4 oracle other) theReg) ps = .ok hs) :
    hs = Server.elems4 oracle ps ∧ ∀ q ∈ ps, Plug.plugSetup4 q.1 (q.2.map oracle) ≠ some (.error ()) := by
  have hreg := Server.theReg_ok.1
  induction ps generalizing hs with
  | nil =>
    simp only [loadChain, Except.ok.injEq] at hl
    subst hl
    exact ⟨rfl, fun q hq => by cases hq⟩
  | cons q rest ih =>
    obtain ⟨name, args⟩ := q
    have hrest : ∀ q ∈ rest, q.1 ≠ "file" ∧ q.1 ≠ "range" := fun q hq => hopt q (List.mem_cons_of_mem _ hq)
    obtain ⟨hn1, hn2⟩ := hopt (name, args) (List.mem_cons_self ..)
    simp only at hn1 hn2
    unfold loadChain at hl
    rw [MAINREG_view4 _ theReg hreg name] at hl
    cases hf : GenMainReg.desired.find? (fun p => decide (p.name = name)) with
    | none => rw [hf] at hl; cases hl
    | some d =>
      rw [hf] at hl
      have hm := List.mem_of_find?_eq_some hf
      have hdn : d.name = name := by simpa using List.find?_some hf
      have hk := Server.has4_iff_model (args.map oracle) d hm (by rw [hdn]; exact hn1) (by rw [hdn]; exact hn2)
      rw [hdn] at hk
      cases h4 : d.has4 with
      | false =>
        rw [h4] at hk
        simp only [h4, Bool.false_eq_true, if_false] at hl
        obtain ⟨i1, i2⟩ := ih hs hrest hl
        have hnone : Plug.plugSetup4 name (args.map oracle) = none := by
          cases hp : Plug.plugSetup4 name (args.map oracle) with
          | none => rfl
          | some x => rw [hp] at hk; cases hk
        refine ⟨?_, ?_⟩
        · rw [i1]
          simp only [Server.elems4, List.filterMap_cons, hnone]
        · intro q hq
          rcases List.mem_cons.mp hq with rfl | hq
          · simp only [hnone]
            intro h; cases h
          · exact i2 q hq
      | true =>
        rw [h4] at hk
        simp only [h4, if_true] at hl
        cases hp : Plug.plugSetup4 name (args.map oracle) with
        | none => rw [hp] at hk; cases hk
        | some x =>
          cases x with
          | error u =>
            have : optSetup4 oracle other d args = .error () := by
              simp only [optSetup4, hdn, hp]
            rw [this] at hl
            cases hl
          | ok c =>
            have : optSetup4 oracle other d args = .ok (some (.plug c)) := by
              simp only [optSetup4, hdn, hp]
            rw [this] at hl
            simp only at hl
            cases hr : loadChain (Reg.view4 (optSetup4 oracle other) theReg) rest with
            | error err => rw [hr] at hl; cases hl
            | ok hs' =>
              rw [hr] at hl
              simp only [Except.ok.injEq] at hl
              subst hl
              obtain ⟨i1, i2⟩ := ih hs' hrest hr
              refine ⟨?_, ?_⟩
              · rw [i1]
                simp only [Server.elems4, List.filterMap_cons, hp]
              · intro q hq
                rcases List.mem_cons.mp hq with rfl | hq
                · simp only [hp]
                  intro h; cases h
                · exact i2 q hq

theorem Server.optChain6 (oracle : String → Plug.ArgOracle) (other : PluginDecl → Setup Sys.Elem6)
    (ps : List (String × List String)) (hs : List Sys.Elem6)
    (hopt : ∀ q ∈ ps, q.1 ≠ "file" ∧ q.1 ≠ "prefix")
    (hl : loadChain (Reg.view6 (optSetup6 oracle other) theReg) ps = .ok hs) :
    hs = Server.elems6 oracle ps ∧ ∀ q ∈ ps, Plug.plugSetup6 q.1 (q.2.map oracle) ≠ some (.error ()) := by
  have hreg := Server.theReg_ok.1
  induction ps generalizing hs with
  | nil =>
    simp only [loadChain, Except.ok.injEq] at hl
    subst hl
    exact ⟨rfl, fun q hq => by cases hq⟩
  | cons q rest ih =>
    obtain ⟨name, args⟩ := q
    have hrest : ∀ q ∈ rest, q.1 ≠ "file" ∧ q.1 ≠ "prefix" := fun q hq => hopt q (List.mem_cons_of_mem _ hq)
    obtain ⟨hn1, hn2⟩ := hopt (name, args) (List.mem_cons_self ..)
    simp only at hn1 hn2
    unfold loadChain at hl
    rw [MAINREG_view6 _ theReg hreg name] at hl
    cases hf : GenMainReg.desired.find? (fun p => decide (p.name = name)) with
    | none => rw [hf] at hl; cases hl
    | some d =>
      rw [hf] at hl
      have hm := List.mem_of_find?_eq_some hf
      have hdn : d.name = name := by simpa using List.find?_some hf
      have hk := Server.has6_iff_model (args.map oracle) d hm (by rw [hdn]; exact hn1) (by rw [hdn]; exact hn2)
      rw [hdn] at hk
      cases h6 : d.has6 with
      | false =>
        rw [h6] at hk
        simp only [h6, Bool.false_eq_true, if_false] at hl
        obtain ⟨i1, i2⟩ := ih hs hrest hl
        have hnone : Plug.plugSetup6 name (args.map oracle) = none := by
          cases hp : Plug.plugSetup6 name (args.map oracle) with
          | none => rfl
          | some x => rw [hp] at hk; cases hk
        refine ⟨?_, ?_⟩
        · rw [i1]
          simp only [Server.elems6, List.filterMap_cons, hnone]
        · intro q hq
          rcases List.mem_cons.mp hq with rfl | hq
          · simp only [hnone]
            intro h; cases h
          · exact i2 q hq
      | true =>
        rw [h6] at hk
        simp only [h6, if_true] at hl
        cases hp : Plug.plugSetup6 name (args.map oracle) with
        | none => rw [hp] at hk; cases hk
        | some x =>
          cases x with
          | error u =>
            have : optSetup6 oracle other d args = .error () := by
              simp only [optSetup6, hdn, hp]
            rw [this] at hl
            cases hl
          | ok c =>
            have : optSetup6 oracle other d args = .ok (some (.plug c)) := by
              simp only [optSetup6, hdn, hp]
            rw [this] at hl
            simp only at hl
            cases hr : loadChain (Reg.view6 (optSetup6 oracle other) theReg) rest with
            | error err => rw [hr] at hl; cases hl
            | ok hs' =>
              rw [hr] at hl
              simp only [Except.ok.injEq] at hl
              subst hl
              obtain ⟨i1, i2⟩ := ih hs' hrest hr
              refine ⟨?_, ?_⟩
              · rw [i1]
                simp only [Server.elems6, List.filterMap_cons, hp]
              · intro q hq
                rcases List.mem_cons.mp hq with rfl | hq
                · simp only [hp]
                  intro h; cases h
                · exact i2 q hq

/-- **The running server is `Sys.serve4`.**  Let the DHCPv4 set-up functions of the environment be those of the
option-plugin models (`optSetup4`: `Plug.plugSetup4` on what the standard library answers for the argument strings;
unit `setups` ties these to the Go set-up functions) — whatever the set-up functions of `file` and `range` are.  Take
a run whose `server.Start` succeeds and one of its DHCPv4 listeners.  If the server4 section of the --conf file lists
neither `file` nor `range` (every listed plugin is an option plugin, `server_id`, or has no DHCPv4 side), then every
listed set-up accepted its arguments, the loaded chain is exactly `Server.elems4` of the listed plugins — in file
order — and what the listener does with ANY datagram is `Sys.serve4` over that list: every `SYS_*` theorem of
Props/System.lean is a theorem about this listener; C11 and C15 are spelled out. -/
theorem SERVER_builtin_chain_is_sys4 {H6 : Type} (f : Flags) (e : Env Sys.Elem4 H6)
    (oracle : String → Plug.ArgOracle) (other : PluginDecl → Setup Sys.Elem4) (he : e.setup4 = optSetup4 oracle other)
    (st : St) (hs : (runGen f e).start = some (.ok st)) (l : Listener) (hl : l ∈ (runGen f e).listeners)
    (hp : l.proto = .v4) :
    ∃ c cfg s, e.file f.conf = some c ∧ cfgOf e c = some cfg ∧ cfg.2 = some s ∧
      ((∀ q ∈ s.plugins, q.1 ≠ "file" ∧ q.1 ≠ "range") →
        (∀ q ∈ s.plugins, Plug.plugSetup4 q.1 (q.2.map oracle) ≠ some (.error ())) ∧
        (runGen f e).chain4 = Server.elems4 oracle s.plugins ∧
        ∀ (oob : Option Nat) (input : Option Sys.Req4),
          recvSys4 e (runGen f e) l oob input = Sys.serve4 (bound e l) oob (Server.elems4 oracle s.plugins) input ∧
          C11.holds (input.map Sys.absReq4) (Sys.absOut4 (recvSys4 e (runGen f e) l oob input)) = true ∧
          C15.holds (bound e l) oob (input.map Sys.absReq4) (Sys.absOut4 (recvSys4 e (runGen f e) l oob input)) = true) := by
  obtain ⟨c, cfg, s, hfile, hcfg, hsec, hload, hh⟩ := Server.listener4 f e st hs l hl hp
  refine ⟨c, cfg, s, hfile, hcfg, hsec, ?_⟩
  intro hopt
  rw [he] at hload
  obtain ⟨h1, h2⟩ := Server.optChain4 oracle other s.plugins _ hopt hload
  refine ⟨h2, h1, ?_⟩
  intro oob input
  have hr : recvSys4 e (runGen f e) l oob input = Sys.serve4 (bound e l) oob (Server.elems4 oracle s.plugins) input := by
    unfold recvSys4
    rw [hh, h1]
  refine ⟨hr, ?_, ?_⟩
  · rw [hr]; exact SYS_C11 _ _ _ _
  · rw [hr]; exact SYS_C15 _ _ _ _

/-- **The running server is `Sys.serve6`**: the same for DHCPv6, the server6 section, neither `file` nor `prefix`
listed; C12 spelled out. -/
theorem SERVER_builtin_chain_is_sys6 {H4 : Type} (f : Flags) (e : Env H4 Sys.Elem6)
    (oracle : String → Plug.ArgOracle) (other : PluginDecl → Setup Sys.Elem6) (he : e.setup6 = optSetup6 oracle other)
    (st : St) (hs : (runGen f e).start = some (.ok st)) (l : Listener) (hl : l ∈ (runGen f e).listeners)
    (hp : l.proto = .v6) :
    ∃ c cfg s, e.file f.conf = some c ∧ cfgOf e c = some cfg ∧ cfg.1 = some s ∧
      ((∀ q ∈ s.plugins, q.1 ≠ "file" ∧ q.1 ≠ "prefix") →
        (∀ q ∈ s.plugins, Plug.plugSetup6 q.1 (q.2.map oracle) ≠ some (.error ())) ∧
        (runGen f e).chain6 = Server.elems6 oracle s.plugins ∧
        ∀ (oob : Option Nat) (src : Addr) (input : Option Sys.Pkt6),
          recvSys6 e (runGen f e) l oob src input = Sys.serve6 (bound e l) oob src (Server.elems6 oracle s.plugins) input ∧
          C12.holds (bound e l) oob src (input.map Sys.absPkt6) (Sys.absOut6 (recvSys6 e (runGen f e) l oob src input)) = true) := by
  obtain ⟨c, cfg, s, hfile, hcfg, hsec, hload, hh⟩ := Server.listener6 f e st hs l hl hp
  refine ⟨c, cfg, s, hfile, hcfg, hsec, ?_⟩
  intro hopt
  rw [he] at hload
  obtain ⟨h1, h2⟩ := Server.optChain6 oracle other s.plugins _ hopt hload
  refine ⟨h2, h1, ?_⟩
  intro oob src input
  have hr : recvSys6 e (runGen f e) l oob src input = Sys.serve6 (bound e l) oob src (Server.elems6 oracle s.plugins) input := by
    unfold recvSys6
    rw [hh, h1]
  refine ⟨hr, ?_⟩
  rw [hr]; exact SYS_C12 _ _ _ _ _

/-- what the standard library answers for the argument strings of the example -/
def Server.exOracle : String → Plug.ArgOracle := fun s =>
  if s = "8.8.8.8" then { raw := Plug.strBytes s, ip := some (.v4 [8, 8, 8, 8]) }
  else if s = "1500" then { raw := Plug.strBytes s, int := some 1500 }
  else { raw := Plug.strBytes s }

/-- a server4 section listing `dns 8.8.8.8`, `prefix` (no DHCPv4 side) and `mtu 1500`, with the set-up functions of the
option-plugin models -/
def Server.exEnvSys : Env Sys.Elem4 Sys.Elem6 :=
  { file := fun p => if p = "/etc/coredhcp.yml" then some 7 else none,
    content := fun _ => ⟨none, some { plugins := some [.one "dns" ["8.8.8.8"], .one "prefix" [], .one "mtu" ["1500"]],
                                      iface := none, listen := none, oracles := [] }⟩,
    ifs := [],
    setup4 := optSetup4 Server.exOracle (fun _ _ => .error ()),
    setup6 := optSetup6 Server.exOracle (fun _ _ => .error ()),
    net := fun _ => ⟨true, true, true, true⟩, ifIndex := fun _ => 2 }

-- the hypotheses of `SERVER_builtin_chain_is_sys4` are satisfiable: the run starts, has one DHCPv4 listener, the
-- section lists neither file nor range, the chain is dns then mtu, and a DISCOVER asking for options 6 and 26 is
-- answered with both
example :
    let r := runGen (Server.exFlags "/etc/coredhcp.yml") Server.exEnvSys
    let req : Sys.Req4 := ⟨1, 7, 1, [2, 0, 0, 0, 0, 1], 32768, [0, 0, 0, 0], [0, 0, 0, 0], [0, 0, 0, 0], [(53, [1]), (55, [6, 26])]⟩
    (∃ st, r.start = some (.ok st)) ∧
    r.listeners.map (fun l => decide (l.proto = .v4)) = [true] ∧
    r.chain4.map (fun x => match x with | .plug c => some c | _ => none) = [some (.dns [[8, 8, 8, 8]]), some (.mtu 1500)] ∧
    r.listeners.map (fun l => match recvSys4 Server.exEnvSys r l (some 2) (some req) with
      | .send resp _ port _ _ => Plug.lookup 6 resp.opts == some [8, 8, 8, 8] && Plug.lookup 26 resp.opts == some [5, 220] && port == 68
      | _ => false) = [true] := by
  refine ⟨Server.ok_of_startOk _ (by decide), by decide, by decide, by decide⟩

end CoreDhcp
