/-
GEN (range plugin, the lease table) — the definitions regenerated from the Go source on every run
(Generated/Storage.lean, written by `harness gen -unit storage` from the go/ast of
plugins/range/storage.go: `loadDB`, `parseHWAddr`, `loadRecords`, `saveIPAddress`, `registerBackingDB`)
against the hand-written models and specs.

* `GEN_storage_parseHWAddr_eq`: the generated `parseHWAddr` (empty-string case, `strings.Split(s, ":")`,
  `len(part) > 2`, `strconv.ParseUint(part, 16, 8)`, `hwaddr[i] = byte(b)`) is `CoreDhcp.parseHWAddr` of
  Model/HwKey.lean on EVERY string; `GEN_storage_parseHWAddr_nopanic`: the index is always in range.
* `GEN_storage_parseUint_probes`, `GEN_storage_split_probes`: the two hand-written text primitives agree
  with the REAL Go functions on the probe strings (the translator calls them when it runs).
* `GEN_storage_loadRecords_spec`: the generated loader is `Storage.loadSpec` (rows one after the other
  in the order delivered; scan error, malformed address, non-IPv4 address, `rows.Err()` fail the load; the
  entry is keyed by `HardwareAddr.String()` of the PARSED address and carries IP, expiry, hostname).
  `GEN_storage_loadRecords_eq`: on a table whose mac texts are `text m`, delivered oldest first, that is
  `loadRecords (fun m => parseHWAddr (text m))` of Model/Range.lean on the model's table (newest first =
  the reverse), both maps seen as lists of (key text, IP, expiry); `GEN_storage_loadRecords_concrete`
  instantiates `text` with `sqliteAffinity ∘ macString`, which gives `loadKeyConcrete`.
* `GEN_storage_save_eq`: what `saveIPAddress` executes is, with the generated primary key, the upsert
  `Storage.saveSpec (macString mac) (record.IP.String()) record.expires record.hostname`.
* `GEN_storage_schema`: columns mac/ip/expiry/hostname, primary key (mac, ip), `mac` declared `string`,
  hence NUMERIC affinity — what `sqliteAffinity` of Model/HwKey.lean models.
* `GEN_storage_loadDB_eq`, `GEN_storage_register_eq`: against their specs.
* `GEN_storage_key_roundtrip`: generated save ▸ `sqliteAffinity` ▸ generated parse is the identity on
  hardware addresses, and the generated loader files the row under `macString m`.

An edit of the Go logic changes the generated text, makes a statement below false and breaks this file (or is
rejected by the translator); renaming, reformatting, comments regenerate the same text.
-/
import CoreDhcp.Generated.Storage
import CoreDhcp.Props.C03Key
set_option linter.unusedSimpArgs false
namespace CoreDhcp
open Storage

/-! ## the text primitives against the model's -/

theorem Storage.splitOn_colon (s : List Char) : splitOn ':' s = splitColon s := by
  induction s with
  | nil => rfl
  | cons c cs ih => simp only [splitOn, splitColon, ih]; rfl

/-- a character is a base-16 digit for `strconv.ParseUint` exactly when the model's `parseHexDigit` reads it,
with the same value -/
theorem Storage.digit16 (c : Char) :
    (parseHexDigit c = none ∧ ∀ d, digitVal c = some d → ¬ d < 16) ∨
    (∃ d, parseHexDigit c = some d ∧ digitVal c = some d ∧ d < 16 ∧ c.toNat ≤ 127) := by
  unfold parseHexDigit digitVal
  simp only []
  generalize c.toNat = n
  by_cases h1 : 48 ≤ n ∧ n ≤ 57
  · right; exact ⟨n - 48, by simp [h1], by simp [h1], by omega, by omega⟩
  · by_cases h2 : 97 ≤ n ∧ n ≤ 102
    · have h2' : 97 ≤ n ∧ n ≤ 122 := by omega
      right; exact ⟨n - 87, by simp [h1, h2], by simp [h1, h2'], by omega, by omega⟩
    · by_cases h3 : 97 ≤ n ∧ n ≤ 122
      · left
        have h4 : ¬ (65 ≤ n ∧ n ≤ 70) := by omega
        refine ⟨by simp [h1, h2, h4], ?_⟩
        intro d hd
        simp [h1, h3] at hd
        omega
      · by_cases h4 : 65 ≤ n ∧ n ≤ 70
        · have h4' : 65 ≤ n ∧ n ≤ 90 := by omega
          right; exact ⟨n - 55, by simp [h1, h2, h4], by simp [h1, h3, h4'], by omega, by omega⟩
        · left
          refine ⟨by simp [h1, h2, h4], ?_⟩
          intro d hd
          by_cases h5 : 65 ≤ n ∧ n ≤ 90
          · simp [h1, h3, h5] at hd; omega
          · simp [h1, h3, h5] at hd

theorem Storage.hexDigit_lt (c : Char) (d : Nat) (h : parseHexDigit c = some d) : d < 16 := by
  rcases digit16 c with ⟨hn, _⟩ | ⟨d', hd, _, hlt, _⟩
  · rw [hn] at h; cases h
  · rw [hd] at h; cases h; exact hlt

theorem Storage.hexDigit_ascii (c : Char) (d : Nat) (h : parseHexDigit c = some d) : c.utf8Size = 1 := by
  rcases digit16 c with ⟨hn, _⟩ | ⟨_, _, _, _, ha⟩
  · rw [hn] at h; cases h
  · exact Char.utf8Size_eq_one_iff.mpr ha

/-- one step of ParseUint in base 16 is one step of the model's digit reader -/
theorem Storage.aux16_cons (acc : Nat) (c : Char) (cs : List Char) :
    parseUintAux 16 acc (c :: cs) =
      match parseHexDigit c with
      | some d => parseUintAux 16 (acc * 16 + d) cs
      | none => none := by
  rcases digit16 c with ⟨hn, hno⟩ | ⟨d, hd, hv, hlt, _⟩
  · rw [hn]
    cases hdv : digitVal c with
    | none => simp only [parseUintAux, hdv]
    | some d => simp only [parseUintAux, hdv, hno d hdv, if_false]
  · rw [hd]
    simp only [parseUintAux, hv, hlt, if_true]

/-- on one or two characters `strconv.ParseUint(_, 16, 8)` is the model's `parsePart` (the range check of
bit size 8 never fires) -/
theorem Storage.parseUint_16_8_short (p : List Char) (hl : p.length ≤ 2) : parseUint 16 8 p = parsePart p := by
  match p, hl with
  | [], _ => rfl
  | [a], _ =>
    unfold parseUint parsePart
    simp only [aux16_cons]
    cases ha : parseHexDigit a with
    | none => rfl
    | some x =>
      have := hexDigit_lt a x ha
      simp only [parseUintAux]
      have h : 0 * 16 + x < 2 ^ (if (8 : Nat) = 0 then 64 else 8) := by simp; omega
      simp only [h, if_true]
      congr 1; omega
  | [a, b], _ =>
    unfold parseUint parsePart
    simp only [aux16_cons]
    cases ha : parseHexDigit a with
    | none => rfl
    | some x =>
      cases hb : parseHexDigit b with
      | none => rfl
      | some y =>
        have := hexDigit_lt a x ha
        have := hexDigit_lt b y hb
        simp only [parseUintAux]
        have h : (0 * 16 + x) * 16 + y < 2 ^ (if (8 : Nat) = 0 then 64 else 8) := by simp; omega
        simp only [h, if_true]
        congr 1; omega
  | _ :: _ :: _ :: _, hl => simp at hl

theorem Storage.length_le_byteLen (p : List Char) : p.length ≤ byteLen p := by
  induction p with
  | nil => simp [byteLen]
  | cons c cs ih =>
    have := Char.utf8Size_pos c
    simp only [byteLen, List.map_cons, List.sum_cons, List.length_cons] at ih ⊢
    omega

/-- a part the model accepts is one or two ASCII characters: `len(part) > 2` does not refuse it -/
theorem Storage.parsePart_byteLen (p : List Char) (b : Nat) (h : parsePart p = some b) : byteLen p ≤ 2 ∧ b < 256 := by
  match p, h with
  | [a], h =>
    simp only [parsePart] at h
    have h1 := hexDigit_ascii a b h
    have h2 := hexDigit_lt a b h
    simp only [byteLen, List.map_cons, List.map_nil, List.sum_cons, List.sum_nil, h1]
    omega
  | [a, c], h =>
    simp only [parsePart] at h
    cases ha : parseHexDigit a with
    | none => rw [ha] at h; cases h
    | some x =>
      cases hc : parseHexDigit c with
      | none => rw [ha, hc] at h; cases h
      | some y =>
        rw [ha, hc] at h
        simp only [Option.some.injEq] at h
        have h1 := hexDigit_ascii a x ha
        have h2 := hexDigit_ascii c y hc
        have h3 := hexDigit_lt a x ha
        have h4 := hexDigit_lt c y hc
        simp only [byteLen, List.map_cons, List.map_nil, List.sum_cons, List.sum_nil, h1, h2]
        omega

/-! ## parseHWAddr -/

/-- the generated loop body in terms of the model's `parsePart` -/
theorem GenStorage.body_spec (h : List Nat) (i : Nat) (p : List Char) :
    GenStorage.parseHWAddrBody h i p =
      match parsePart p with
      | none => if byteLen p > 2 then .error (.new "invalid hardware address byte %q")
                else .error (.lib "strconv.ParseUint")
      | some b =>
        match storeAt h i b with
        | none => .error .indexPanic
        | some h' => .ok h' := by
  unfold GenStorage.parseHWAddrBody
  cases hp : parsePart p with
  | none =>
    by_cases hl : byteLen p > 2
    · simp only [hl, if_true]
    · have hlen : p.length ≤ 2 := by have := length_le_byteLen p; omega
      simp only [hl, if_false, parseUint_16_8_short p hlen, hp]
  | some b =>
    obtain ⟨hl, hb⟩ := parsePart_byteLen p b hp
    have hl' : ¬ byteLen p > 2 := by omega
    have hlen : p.length ≤ 2 := by have := length_le_byteLen p; omega
    simp only [hl', if_false, parseUint_16_8_short p hlen, hp, Nat.mod_eq_of_lt hb]
    cases storeAt h i b <;> rfl

theorem Storage.storeAt_append (pre : List Nat) (n b : Nat) :
    storeAt (pre ++ List.replicate (n + 1) 0) pre.length b = some ((pre ++ [b]) ++ List.replicate n 0) := by
  unfold storeAt
  have hlt : pre.length < (pre ++ List.replicate (n + 1) 0).length := by simp
  simp only [hlt, if_true, Option.some.injEq]
  induction pre with
  | nil => simp [List.replicate_succ]
  | cons x xs ih => simpa using ih (by simp)

/-- the generated loop from index `pre.length` on, `pre` being the bytes stored so far: it never panics and
computes the model's `parseParts` -/
theorem GenStorage.loop_spec (ps : List (List Char)) (pre : List Nat) :
    forIdxFrom GenStorage.parseHWAddrBody pre.length (pre ++ List.replicate ps.length 0) ps ≠ .error .indexPanic ∧
    (forIdxFrom GenStorage.parseHWAddrBody pre.length (pre ++ List.replicate ps.length 0) ps).toOption
      = (parseParts ps).map (pre ++ ·) := by
  induction ps generalizing pre with
  | nil => simp [forIdxFrom, parseParts, Except.toOption]
  | cons p ps ih =>
    unfold forIdxFrom
    rw [GenStorage.body_spec]
    cases hp : parsePart p with
    | none =>
      have hm : parseParts (p :: ps) = none := by simp [parseParts, hp]
      rw [hm]
      by_cases hl : byteLen p > 2 <;> simp [hl, Except.toOption]
    | some b =>
      simp only [List.length_cons, storeAt_append]
      have hlen : (pre ++ [b]).length = pre.length + 1 := by simp
      have := ih (pre ++ [b])
      rw [hlen] at this
      refine ⟨this.1, ?_⟩
      rw [this.2]
      simp only [parseParts, hp]
      cases parseParts ps with
      | none => rfl
      | some bs => simp

/-- G-storage-1: the generated `parseHWAddr` is the model's, on every string. -/
theorem GEN_storage_parseHWAddr_eq (s : String) :
    (GenStorage.parseHWAddr s).toOption = CoreDhcp.parseHWAddr s := by
  unfold GenStorage.parseHWAddr CoreDhcp.parseHWAddr parseChars
  by_cases he : s = ""
  · subst he; rfl
  · have hne : s.toList ≠ [] := fun h => he (String.toList_eq_nil_iff.mp h)
    simp only [he, if_false, forIdx, splitOn_colon]
    have h := GenStorage.loop_spec (splitColon s.toList) []
    simp only [List.length_nil, List.nil_append] at h
    cases hf : forIdxFrom GenStorage.parseHWAddrBody 0 (List.replicate (splitColon s.toList).length 0) (splitColon s.toList) with
    | error e => rw [hf] at h; simpa [Except.toOption] using h.2
    | ok v => rw [hf] at h; simpa [Except.toOption] using h.2

/-- the byte store of the generated `parseHWAddr` is always in range: no panic, whatever the string -/
theorem GEN_storage_parseHWAddr_nopanic (s : String) : GenStorage.parseHWAddr s ≠ .error .indexPanic := by
  unfold GenStorage.parseHWAddr
  by_cases he : s = ""
  · simp [he]
  · simp only [he, if_false, forIdx]
    have h := (GenStorage.loop_spec (splitOn ':' s.toList) []).1
    simp only [List.length_nil, List.nil_append] at h
    cases hf : forIdxFrom GenStorage.parseHWAddrBody 0 (List.replicate (splitOn ':' s.toList).length 0) (splitOn ':' s.toList) with
    | error e => rw [hf] at h; simpa using h
    | ok v => simp

example : GenStorage.parseHWAddr "07" = .ok [7] := by decide
example : GenStorage.parseHWAddr "0a:1b" = .ok [10, 27] := by decide
example : GenStorage.parseHWAddr "" = .ok [] := by decide
example : GenStorage.parseHWAddr "7" = .ok [7] := by decide
example : GenStorage.parseHWAddr "1:2" = .ok [1, 2] := by decide
example : GenStorage.parseHWAddr "g1" = .error (.lib "strconv.ParseUint") := by decide
example : GenStorage.parseHWAddr "001" = .error (.new "invalid hardware address byte %q") := by decide
example : GenStorage.parseHWAddr "1ff" = .error (.new "invalid hardware address byte %q") := by decide
example : GenStorage.parseHWAddr "01:" = .error (.lib "strconv.ParseUint") := by decide
example : CoreDhcp.parseHWAddr "1ff" = none := by decide

/-- the hand-written `parseUint` against the real `strconv.ParseUint`, with the base and bit size of the source,
on the probe strings -/
theorem GEN_storage_parseUint_probes :
    ∀ p ∈ GenStorage.parseUintProbes, parseUint GenStorage.parseUintArgs.1 GenStorage.parseUintArgs.2 p.1.toList = p.2 := by
  decide

/-- the hand-written `splitOn` against the real `strings.Split`, with the separator of the source, on the probe
strings -/
theorem GEN_storage_split_probes :
    ∀ p ∈ GenStorage.splitProbes, (splitOn GenStorage.splitSep p.1.toList).map String.ofList = p.2 := by
  decide

example : ("1ff", none) ∈ GenStorage.parseUintProbes := by decide
example : ("07", some 7) ∈ GenStorage.parseUintProbes := by decide
example : ("0a:1b", ["0a", "1b"]) ∈ GenStorage.splitProbes := by decide

/-! ## loadRecords -/

theorem GenStorage.parse_cases (s : String) :
    (∃ e, GenStorage.parseHWAddr s = .error e ∧ CoreDhcp.parseHWAddr s = none) ∨
    (∃ m, GenStorage.parseHWAddr s = .ok m ∧ CoreDhcp.parseHWAddr s = some m) := by
  have h := GEN_storage_parseHWAddr_eq s
  cases hg : GenStorage.parseHWAddr s with
  | error e => left; rw [hg] at h; exact ⟨e, rfl, by simpa [Except.toOption] using h.symm⟩
  | ok m => right; rw [hg] at h; exact ⟨m, rfl, by simpa [Except.toOption] using h.symm⟩

/-- one round of the generated loop against the spec's `entryOf` -/
theorem GenStorage.loadBody_spec (parseIP : String → NetIP) (m : RecMap) (row : RawRow) :
    (GenStorage.loadRecordsBody parseIP m row).toOption
      = (entryOf parseIP row).map (fun kv => mapStore m kv.1 kv.2) := by
  unfold GenStorage.loadRecordsBody entryOf
  cases hs : row.scanErr with
  | true => simp [Except.toOption]
  | false =>
    simp only [Bool.false_eq_true, if_false]
    rcases GenStorage.parse_cases row.mac with ⟨e, hg, hm⟩ | ⟨a, hg, hm⟩
    · rw [hg, hm]; simp [Except.toOption]
    · rw [hg, hm]
      cases hip : parseIP row.ip with
      | nil => simp [NetIP.to4, Except.toOption]
      | v4 x => simp [NetIP.to4, Except.toOption]
      | other t => simp [NetIP.to4, Except.toOption]

theorem GenStorage.loadLoop_spec (parseIP : String → NetIP) (rows : List RawRow) (m : RecMap) :
    (forEach (GenStorage.loadRecordsBody parseIP) m rows).toOption = loadRows parseIP m rows := by
  induction rows generalizing m with
  | nil => rfl
  | cons r rs ih =>
    have hb := GenStorage.loadBody_spec parseIP m r
    unfold forEach loadRows
    cases hg : GenStorage.loadRecordsBody parseIP m r with
    | error e =>
      rw [hg] at hb
      cases he : entryOf parseIP r with
      | none => rfl
      | some kv => rw [he] at hb; simp [Except.toOption] at hb
    | ok m' =>
      rw [hg] at hb
      cases he : entryOf parseIP r with
      | none => rw [he] at hb; simp [Except.toOption] at hb
      | some kv =>
        rw [he] at hb
        simp only [Except.toOption, Option.map_some, Option.some.injEq] at hb
        obtain ⟨k, v⟩ := kv
        simp only [ih, hb]

/-- G-storage-2a: the generated `loadRecords` is the spec `Storage.loadSpec`, for every answer of the driver
and every `net.ParseIP`. -/
theorem GEN_storage_loadRecords_spec (parseIP : String → NetIP) (q : QueryResult) :
    (GenStorage.loadRecords parseIP q).toOption = loadSpec parseIP q := by
  unfold GenStorage.loadRecords loadSpec
  cases hq : q.queryErr with
  | true => simp [Except.toOption]
  | false =>
    simp only [Bool.false_eq_true, if_false]
    have h := GenStorage.loadLoop_spec parseIP q.rows []
    cases hf : forEach (GenStorage.loadRecordsBody parseIP) [] q.rows with
    | error e => rw [hf] at h; rw [← h]; rfl
    | ok m =>
      rw [hf] at h; rw [← h]
      cases q.iterErr <;> rfl

/-! ### against Model/Range.lean -/

/-- the rows of the model, oldest first, one after the other (the model's `loadRecords` takes them newest first) -/
def Storage.loadFold (key : Mac → Option Mac) : List (Mac × Rec) → List Row → Option (List (Mac × Rec))
  | acc, [] => some acc
  | acc, r :: rs =>
    match key r.mac with
    | none => none
    | some k => loadFold key (recsPut acc k ⟨r.ip, r.expiry⟩) rs

theorem Storage.loadRecords_reverse_append (key : Mac → Option Mac) (rows done : List Row) :
    CoreDhcp.loadRecords key (rows.reverse ++ done)
      = (CoreDhcp.loadRecords key done).bind (fun acc => loadFold key acc rows) := by
  induction rows generalizing done with
  | nil => cases h : CoreDhcp.loadRecords key done <;> simp [loadFold, h]
  | cons r rs ih =>
    have : (r :: rs).reverse ++ done = rs.reverse ++ (r :: done) := by simp
    rw [this, ih (r :: done)]
    simp only [CoreDhcp.loadRecords, loadFold]
    cases hk : key r.mac <;> cases hd : CoreDhcp.loadRecords key done <;> simp

/-- the model's `loadRecords` on its table (newest first) is the fold over the rows oldest first -/
theorem Storage.loadRecords_reverse (key : Mac → Option Mac) (rows : List Row) :
    CoreDhcp.loadRecords key rows.reverse = loadFold key [] rows := by
  have h := loadRecords_reverse_append key rows []
  simpa [CoreDhcp.loadRecords] using h

/-- a map of the generated loader as a list of (key text, IP, expiry) -/
def Storage.viewG (m : RecMap) : List (String × NetIP × Int) := m.map (fun p => (p.1, p.2.IP, p.2.expires))

/-- a map of the model as a list of (key text, IP, expiry): the key of the Go map is `HardwareAddr.String()` -/
def Storage.viewM (m : List (Mac × Rec)) : List (String × NetIP × Int) :=
  m.map (fun p => (macString p.1, NetIP.v4 p.2.ip, p.2.expires))

/-- what `rows.Scan` delivers (`raw`) for a row `r` of the model's table: the mac column holds `text r.mac`,
the ip column a text that net.ParseIP reads as `r.ip`, the expiry column `r.expiry`; any hostname -/
def Storage.Delivers (text : Mac → String) (parseIP : String → NetIP) (raw : RawRow) (r : Row) : Prop :=
  raw.scanErr = false ∧ raw.mac = text r.mac ∧ parseIP raw.ip = .v4 r.ip ∧ raw.expiry = r.expiry

theorem Storage.parseParts_lt : ∀ (ps : List (List Char)) (m : List Nat), parseParts ps = some m → ∀ b ∈ m, b < 256
  | [], m, h => by simp [parseParts] at h; subst h; simp
  | p :: ps, m, h => by
    simp only [parseParts] at h
    cases hp : parsePart p with
    | none => rw [hp] at h; simp at h
    | some x =>
      cases hps : parseParts ps with
      | none => rw [hp, hps] at h; simp at h
      | some bs =>
        rw [hp, hps] at h
        simp only [Option.some.injEq] at h
        subst h
        intro b hb
        rcases List.mem_cons.mp hb with rfl | hb
        · exact (parsePart_byteLen p b hp).2
        · exact parseParts_lt ps bs hps b hb

/-- what `parseHWAddr` returns is a list of bytes -/
theorem Storage.parseHWAddr_lt (s : String) (m : List Nat) (h : CoreDhcp.parseHWAddr s = some m) : ∀ b ∈ m, b < 256 := by
  unfold CoreDhcp.parseHWAddr parseChars at h
  cases hs : s.toList with
  | nil => rw [hs] at h; simp at h; subst h; simp
  | cons c cs =>
    rw [hs] at h
    exact parseParts_lt _ m h

theorem Storage.sim_step (M : RecMap) (A : List (Mac × Rec)) (m : Mac) (g : GRecord) (r : Rec)
    (hA : ∀ p ∈ A, ∀ b ∈ p.1, b < 256) (hm : ∀ b ∈ m, b < 256)
    (hv : viewG M = viewM A) (hip : g.IP = .v4 r.ip) (hex : g.expires = r.expires) :
    viewG (mapStore M (macString m) g) = viewM (recsPut A m r) := by
  unfold viewG viewM mapStore recsPut at *
  simp only [List.map_cons, hip, hex, List.cons.injEq, true_and]
  have e1 : (M.filter (fun p => !(p.1 == macString m))).map (fun p => (p.1, p.2.IP, p.2.expires))
      = (M.map (fun p => (p.1, p.2.IP, p.2.expires))).filter (fun x => !(x.1 == macString m)) := by
    rw [List.filter_map]; rfl
  have e2 : (A.filter (fun p => !(p.1 == m))).map (fun p => (macString p.1, NetIP.v4 p.2.ip, p.2.expires))
      = (A.map (fun p => (macString p.1, NetIP.v4 p.2.ip, p.2.expires))).filter (fun x => !(x.1 == macString m)) := by
    rw [List.filter_map]
    congr 1
    apply List.filter_congr
    intro p hp
    simp only [Function.comp]
    by_cases hpm : p.1 = m
    · simp [hpm]
    · have : macString p.1 ≠ macString m := fun h => hpm (C03_macString_injective p.1 m (hA p hp) hm h)
      rw [beq_eq_false_iff_ne.mpr hpm, beq_eq_false_iff_ne.mpr this]
  rw [e1, e2, hv]

/-- the spec's loader and the model's fold, row by row -/
theorem Storage.sim (text : Mac → String) (parseIP : String → NetIP) :
    ∀ (l : List (RawRow × Row)) (M : RecMap) (A : List (Mac × Rec)),
      (∀ p ∈ l, Delivers text parseIP p.1 p.2) → (∀ p ∈ A, ∀ b ∈ p.1, b < 256) → viewG M = viewM A →
      (loadRows parseIP M (l.map Prod.fst)).map viewG
        = (loadFold (fun m => CoreDhcp.parseHWAddr (text m)) A (l.map Prod.snd)).map viewM
  | [], M, A, _, _, hv => by simp [loadRows, loadFold, hv]
  | (raw, r) :: l, M, A, hl, hA, hv => by
    have hd : Delivers text parseIP raw r := hl (raw, r) (by simp)
    obtain ⟨h1, h2, h3, h4⟩ := hd
    simp only [List.map_cons, loadRows, loadFold, entryOf, h1, Bool.false_eq_true, if_false, h2, h3]
    cases hk : CoreDhcp.parseHWAddr (text r.mac) with
    | none => rfl
    | some m =>
      have hm := parseHWAddr_lt _ m hk
      simp only []
      apply sim text parseIP l
      · intro p hp; exact hl p (List.mem_cons_of_mem _ hp)
      · intro p hp
        unfold recsPut at hp
        rcases List.mem_cons.mp hp with rfl | hp
        · exact hm
        · exact hA p (List.mem_filter.mp hp).1
      · exact sim_step M A m _ _ hA hm hv rfl h4

/-- G-storage-2b: the generated loader against the model's `loadRecords`, with `loadKey` := parse the stored text.
`l` lists the table OLDEST FIRST (the order in which sqlite delivers the rows: rowid order, `insert or replace`
gives the row it writes the largest rowid): per row what Scan delivers and the model's row. The model keeps its
table newest first, hence the `reverse`. Both results are seen as lists of (key text, IP, expiry): the Go map is
keyed by `HardwareAddr.String()`, the model's by the bytes. In particular BOTH let the newest of two rows with
the same hardware address win. -/
theorem GEN_storage_loadRecords_eq (text : Mac → String) (parseIP : String → NetIP) (l : List (RawRow × Row))
    (hl : ∀ p ∈ l, Delivers text parseIP p.1 p.2) :
    (GenStorage.loadRecords parseIP ⟨false, l.map Prod.fst, false⟩).toOption.map viewG
      = (CoreDhcp.loadRecords (fun m => CoreDhcp.parseHWAddr (text m)) (l.map Prod.snd).reverse).map viewM := by
  rw [GEN_storage_loadRecords_spec, loadRecords_reverse]
  have h := sim text parseIP l [] [] hl (by simp) rfl
  simp only [loadSpec, Bool.false_eq_true, if_false]
  rw [← h]
  cases loadRows parseIP [] (l.map Prod.fst) <;> rfl

/-- the same with the texts the table really holds: `HardwareAddr.String()` through the column's NUMERIC
affinity; the model's loader is then `loadRecords loadKeyConcrete`. -/
theorem GEN_storage_loadRecords_concrete (parseIP : String → NetIP) (l : List (RawRow × Row))
    (hl : ∀ p ∈ l, Delivers (fun m => sqliteAffinity (macString m)) parseIP p.1 p.2) :
    (GenStorage.loadRecords parseIP ⟨false, l.map Prod.fst, false⟩).toOption.map viewG
      = (CoreDhcp.loadRecords loadKeyConcrete (l.map Prod.snd).reverse).map viewM :=
  GEN_storage_loadRecords_eq _ parseIP l hl

/-- the query reads the table `loadDB` creates: every column of it, and only columns it has (in whatever order:
the generated loader names the columns, not the positions) -/
theorem GEN_storage_query_cols :
    GenStorage.loadQuery.table = GenStorage.schema.table ∧
    (∀ c ∈ GenStorage.loadQuery.columns, c ∈ GenStorage.schema.columns.map (·.name)) ∧
    (∀ c ∈ GenStorage.schema.columns.map (·.name), c ∈ GenStorage.loadQuery.columns) := by
  decide

-- two rows for the same hardware address, the older one first: the newer wins, in the code and in the model
example :
    (GenStorage.loadRecords (fun t => if t = "10.0.0.5" then .v4 0x0a000005#32 else if t = "10.0.0.9" then .v4 0x0a000009#32 else .nil)
      ⟨false, [⟨"7", "10.0.0.5", 100, "h", false⟩, ⟨"0a:1b", "10.0.0.9", 150, "k", false⟩, ⟨"7", "10.0.0.9", 200, "h2", false⟩], false⟩).toOption.map viewG
    = some [("07", .v4 0x0a000009#32, 200), ("0a:1b", .v4 0x0a000009#32, 150)] := by decide
example :
    (CoreDhcp.loadRecords loadKeyConcrete [⟨[7], 0x0a000009#32, 200⟩, ⟨[10, 27], 0x0a000009#32, 150⟩, ⟨[7], 0x0a000005#32, 100⟩]).map viewM
    = some [("07", .v4 0x0a000009#32, 200), ("0a:1b", .v4 0x0a000009#32, 150)] := by decide
-- the failures
example : (GenStorage.loadRecords (fun _ => .v4 1#32) ⟨false, [⟨"g1", "x", 1, "h", false⟩], false⟩).toOption = none := by decide
example : (GenStorage.loadRecords (fun _ => .other "::1") ⟨false, [⟨"07", "::1", 1, "h", false⟩], false⟩).toOption = none := by decide
example : (GenStorage.loadRecords (fun _ => .v4 1#32) ⟨false, [⟨"07", "x", 1, "h", false⟩], true⟩).toOption = none := by decide
example : (GenStorage.loadRecords (fun _ => .v4 1#32) ⟨false, [⟨"07", "x", 1, "h", true⟩], false⟩).toOption = none := by decide
example : (GenStorage.loadRecords (fun _ => .v4 1#32) ⟨false, [⟨"7", "x", 1, "h", false⟩], false⟩)
    = .ok [("07", ⟨.v4 1#32, 1, "h"⟩)] := by decide

/-! ## saveIPAddress, loadDB, registerBackingDB -/

/-- G-storage-3: what `saveIPAddress` executes is one upsert on the key (mac text, ip text) writing
(expiry, hostname); a failing Prepare or Exec is an error. The key is the GENERATED primary key. -/
theorem GEN_storage_save_eq (prepareErr execErr : Bool) (mac : List Nat) (rec : GRecord) :
    (GenStorage.saveIPAddress prepareErr execErr mac rec).toOption.bind (Insert.asUpsert GenStorage.schema.primaryKey)
      = if prepareErr || execErr then none
        else some (saveSpec (macString mac) rec.IP.string rec.expires rec.hostname) := by
  cases prepareErr <;> cases execErr <;> rfl

example : (GenStorage.saveIPAddress false false [7] ⟨.v4 0x0a000005#32, 100, "h"⟩).toOption.bind (Insert.asUpsert ["mac", "ip"])
    = some ⟨"leases4", [("mac", .text "07"), ("ip", .text "10.0.0.5")], [("expiry", .int 100), ("hostname", .text "h")]⟩ := by decide
example : (GenStorage.saveIPAddress false true [7] ⟨.v4 5#32, 100, "h"⟩).toOption = none := by decide

/-- G-storage-4: the table `loadDB` creates: columns mac, ip, expiry, hostname; primary key (mac, ip); `mac` is
declared `string`, which gives the column NUMERIC affinity — what `sqliteAffinity` (Model/HwKey.lean) models.
Should the declared type change (e.g. to `text`: TEXT affinity, texts kept as they are) this fails and the
affinity model has to be revisited. -/
theorem GEN_storage_schema :
    GenStorage.schema.table = "leases4" ∧
    GenStorage.schema.columns.map (·.name) = ["mac", "ip", "expiry", "hostname"] ∧
    GenStorage.schema.primaryKey = ["mac", "ip"] ∧
    (GenStorage.schema.columns.find? (·.name == "mac")).map (·.type) = some "string" ∧
    (GenStorage.schema.columns.find? (·.name == "mac")).map (fun c => affinityOfType c.type) = some .numeric := by
  decide

example : affinityOfType "string" = .numeric := by decide
example : affinityOfType "text" = .text := by decide
example : affinityOfType "int" = .integer := by decide
example : affinityOfType "VARCHAR(17)" = .text := by decide

/-- `loadDB`: sqlite3 on "file:" ++ path, the table created through it; either error fails it. -/
theorem GEN_storage_loadDB_eq (o : DbOracle) (path : String) :
    (GenStorage.loadDB o path).toOption
      = if o.openErr || o.createErr then none
        else some { driver := "sqlite3", dsn := "file:" ++ path, created := [GenStorage.schema] } := by
  unfold GenStorage.loadDB
  cases o.openErr <;> cases o.createErr <;> rfl

example : (GenStorage.loadDB ⟨false, false⟩ "leases.db").toOption = some ⟨"sqlite3", "file:leases.db", [GenStorage.schema]⟩ := by decide

/-- G-storage-5: `registerBackingDB` against `Storage.registerSpec`: a registered database is never swapped;
otherwise the database is loaded (the generated `loadDB`) and registered iff that succeeded. -/
theorem GEN_storage_register_eq (cur : Option Db) (o : DbOracle) (filename : String) :
    ((GenStorage.registerBackingDB cur o filename).1, (GenStorage.registerBackingDB cur o filename).2.toOption.isSome)
      = registerSpec cur (GenStorage.loadDB o filename) := by
  unfold GenStorage.registerBackingDB registerSpec
  cases cur with
  | some d => simp [Except.toOption]
  | none =>
    simp only [ne_eq, not_true_eq_false, if_false]
    cases GenStorage.loadDB o filename <;> simp [Except.toOption]

example : (GenStorage.registerBackingDB none ⟨false, false⟩ "l.db").1 = some ⟨"sqlite3", "file:l.db", [GenStorage.schema]⟩ := by decide
example : (GenStorage.registerBackingDB (some ⟨"x", "y", []⟩) ⟨false, false⟩ "l.db").1 = some ⟨"x", "y", []⟩ := by decide
example : (GenStorage.registerBackingDB none ⟨false, true⟩ "l.db") = (none, .error (.new "failed to open lease database %s: %w")) := by decide

/-! ## the key through the table -/

/-- G-storage-6: for every hardware address `m` (any length, bytes), the text the GENERATED `saveIPAddress`
binds to the column `mac`, passed through the column's affinity, is parsed back to `m` by the GENERATED
`parseHWAddr`, and the GENERATED loader files the row under `macString m` — the key `Handler4` looks up. -/
theorem GEN_storage_key_roundtrip (m : List Nat) (hb : ∀ b ∈ m, b < 256) (rec : GRecord) :
    ∃ t, (GenStorage.saveStmt m rec).bind.lookup "mac" = some (.text t) ∧
      GenStorage.parseHWAddr (sqliteAffinity t) = .ok m ∧
      ∀ (parseIP : String → NetIP) (recs : RecMap) (ipText : String) (a : BitVec 32) (e : Int) (h : String),
        parseIP ipText = .v4 a →
        GenStorage.loadRecordsBody parseIP recs ⟨sqliteAffinity t, ipText, e, h, false⟩
          = .ok (mapStore recs (macString m) ⟨.v4 a, e, h⟩) := by
  have hp : GenStorage.parseHWAddr (sqliteAffinity (macString m)) = .ok m := by
    have h1 := GEN_storage_parseHWAddr_eq (sqliteAffinity (macString m))
    have h2 : CoreDhcp.parseHWAddr (sqliteAffinity (macString m)) = some m := C03_key_roundtrip m hb
    rw [h2] at h1
    cases hg : GenStorage.parseHWAddr (sqliteAffinity (macString m)) with
    | error e => rw [hg] at h1; simp [Except.toOption] at h1
    | ok v => rw [hg] at h1; simp [Except.toOption] at h1; rw [h1]
  refine ⟨macString m, rfl, hp, ?_⟩
  intro parseIP recs ipText a e h hip
  unfold GenStorage.loadRecordsBody
  simp only [Bool.false_eq_true, if_false, hp, hip, NetIP.to4]
  simp

example : (GenStorage.saveStmt [7] ⟨.v4 5#32, 1, "h"⟩).bind.lookup "mac" = some (.text "07") := by decide
example : GenStorage.parseHWAddr (sqliteAffinity "07") = .ok [7] := by decide
example : GenStorage.parseHWAddr (sqliteAffinity "0a:1b") = .ok [10, 27] := by decide
example : GenStorage.loadRecordsBody (fun _ => .v4 5#32) [] ⟨sqliteAffinity "07", "0.0.0.5", 1, "h", false⟩
    = .ok [("07", ⟨.v4 5#32, 1, "h"⟩)] := by decide

end CoreDhcp
