/-
GEN — the definitions regenerated from the Go source (Generated/IPCalc.lean, written by
`harness gen` from the go/ast of plugins/allocators/ipcalc.go on every run) are equal to the
hand-written model (Model/IPCalc.lean) that every IPCalc/allocator theorem is about.

An edit of `Offset` / `AddPrefixes` that changes their behaviour changes the generated
definition, makes the corresponding statement below false, and so breaks this file.

Proof shape: unfold both sides, split on the guards of the *model*, rewrite every `if` with
`if_pos` / `if_neg` of exactly those guards, and close by `rfl`.  No proof search.  The only
arithmetic is in the `cnt*` lemmas: the generated code keeps Go's wrapping unsigned arithmetic
for the shift counts (`(64#64 - BitVec.ofInt 64 p).toNat`), the model uses `Nat` subtraction
(`64 - p.toNat`); they agree under the guards that dominate each use.
-/
import CoreDhcp.Generated.IPCalc
import CoreDhcp.Model.IPCalc
namespace CoreDhcp

/-- `64 - uint(p)` for `0 ≤ p ≤ 64`. -/
theorem Gen.cnt64 (p : Int) (h0 : ¬ p < 0) (h : p ≤ 64) :
    (64#64 - BitVec.ofInt 64 p).toNat = 64 - p.toNat := by
  simp only [BitVec.toNat_sub, BitVec.toNat_ofInt, BitVec.toNat_ofNat]
  omega

/-- `128 - uint(p)` for `64 < p ≤ 128`. -/
theorem Gen.cnt128 (p : Int) (h0 : ¬ p ≤ 64) (h : ¬ p > 128) :
    (128#64 - BitVec.ofInt 64 p).toNat = 128 - p.toNat := by
  simp only [BitVec.toNat_sub, BitVec.toNat_ofInt, BitVec.toNat_ofNat]
  omega

/-- `uint(p) - 64` for `64 < p ≤ 128`. -/
theorem Gen.cntSub (p : Int) (h0 : ¬ p ≤ 64) (h : ¬ p > 128) :
    (BitVec.ofInt 64 p - 64#64).toNat = p.toNat - 64 := by
  simp only [BitVec.toNat_sub, BitVec.toNat_ofInt, BitVec.toNat_ofNat]
  omega

/-- `64 - unit` (uint64) for `unit ≤ 64`. -/
theorem Gen.cntU64 (u : BitVec 64) (h : u.toNat ≤ 64) : (64#64 - u).toNat = 64 - u.toNat := by
  simp only [BitVec.toNat_sub, BitVec.toNat_ofNat]
  omega

theorem GEN_offset_eq : ∀ a b p, Generated.offset a b p = offset a b p := by
  intro a b p
  unfold Generated.offset offset Generated.bytesCompare
  have m1 : ¬ ((-1 : Int) = 0) := by decide
  have m2 : (-1 : Int) < 0 := by decide
  have p1 : ¬ ((1 : Int) = 0) := by decide
  have p2 : ¬ ((1 : Int) < 0) := by decide
  by_cases hr : p > 128 ∨ p < 0
  · simp only [if_pos hr]
  · have h128 : ¬ p > 128 := fun h => hr (Or.inl h)
    have h0 : ¬ p < 0 := fun h => hr (Or.inr h)
    by_cases hab : a = b
    · simp only [if_neg hr, if_pos hab, if_true]
    · by_cases h64 : p ≤ 64
      · have h64' : p.toNat ≤ 64 := by omega
        by_cases hlt : a.val < b.val
        · simp only [if_neg hr, if_neg hab, if_pos hlt, if_neg m1, if_pos m2, if_pos h64, if_pos h64',
            Gen.cnt64 p h0 h64]
        · simp only [if_neg hr, if_neg hab, if_neg hlt, if_neg p1, if_neg p2, if_pos h64, if_pos h64',
            Gen.cnt64 p h0 h64]
      · have h64' : ¬ p.toNat ≤ 64 := by omega
        by_cases hlt : a.val < b.val
        · simp only [if_neg hr, if_neg hab, if_pos hlt, if_neg m1, if_pos m2, if_neg h64, if_neg h64',
            Gen.cnt128 p h64 h128, Gen.cntSub p h64 h128, ge_iff_le]
        · simp only [if_neg hr, if_neg hab, if_neg hlt, if_neg p1, if_neg p2, if_neg h64, if_neg h64',
            Gen.cnt128 p h64 h128, Gen.cntSub p h64 h128, ge_iff_le]

theorem GEN_addPrefixes_eq : ∀ ip n unit, Generated.addPrefixes ip n unit = addPrefixes ip n unit := by
  intro ip n unit
  unfold Generated.addPrefixes addPrefixes Generated.ipLen
  have h16 : ¬ ((16 : Int) ≠ 16) := by decide
  by_cases h1 : unit = 0#64 ∧ n ≠ 0#64
  · simp only [if_pos h1]
  · by_cases h2 : n = 0#64
    · simp only [if_neg h1, if_pos h2]
    · by_cases h3 : unit.toNat ≤ 64
      · by_cases h4 : unit.toNat < 64 ∧ n >>> unit.toNat ≠ 0#64
        · simp only [if_neg h1, if_neg h2, if_neg h16, if_pos h3, if_pos h4]
        · simp only [if_neg h1, if_neg h2, if_neg h16, if_pos h3, if_neg h4, Gen.cntU64 unit h3]
      · have h4 : ¬ (unit.toNat < 64 ∧ n >>> unit.toNat ≠ 0#64) := fun h => h3 (Nat.le_of_lt h.1)
        simp only [if_neg h1, if_neg h2, if_neg h16, if_neg h3, if_neg h4]

end CoreDhcp
