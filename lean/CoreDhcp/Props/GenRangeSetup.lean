/-
GEN (set-up of the range plugin: the argument and start-up part of `setupRange`, and `var Plugin`) — the definitions
regenerated from the Go source on every run (Generated/RangeSetup.lean, written by `harness gen -unit rangesetup` from
the go/ast of plugins/range/plugin.go) are equal to the hand-written model (Model/RangeSetup.lean), and the facts the
properties C19 ("a configuration that is accepted satisfies the preconditions of the handler theorems, one that is
rejected never serves"), C02 and C03 (their hypotheses `start < stop`, `RState.setup … = .ok s0` and
"the lease time is a whole number of seconds") rely on are proved about the generated definitions.

What the allocator, `registerBackingDB`, `loadRecords`, the re-marking loop and `Handler4` DO is in the units alloc4,
storage and range4; here their outcomes are the answers of a `World`, each a function of the call's arguments, so that
the statements say WHICH argument goes to WHICH call.  The last section plugs the models of those units in
(`World.ofModel`) and obtains the `RState.setup … = .ok s0` that `C02_holds` / `C03_holds` start from.

Since the repair of D21 (a negative lease time, or one of more than 2^32 − 1 seconds, was accepted and announced as a
different lease than the one stored) the set-up tests the rounded lease time; `RANGESETUP_accepted_lease_fits_wire` is
about that, the code before the repair is `RangeSetup.setupOld`.  `Round(time.Second)` is `goRoundSecond` (halves away
from zero, as Go rounds), which is `keptLease` of Model/Range.lean on everything that is accepted.

An edit of the Go logic changes the generated text, makes a statement below false and breaks this file (or is rejected
by the translator); a renamed variable, a comment, a changed error text or log line regenerate the same text.
-/
import CoreDhcp.Generated.RangeSetup
import CoreDhcp.Model.RangeSetup
import CoreDhcp.Props.C02
import CoreDhcp.Props.C03
set_option linter.unusedSimpArgs false
namespace CoreDhcp
open RangeSetup

/-! ## generated = model -/

/-- generated `setupRange` = the model's `setup`, for all argument lists and all answers of the calls it makes -/
theorem GEN_rangesetup_setup_eq (args : List String) (w : World) :
    GenRangeSetup.setupRange args w = RangeSetup.setup args w := by
  unfold GenRangeSetup.setupRange RangeSetup.setup RangeSetup.fail
  rcases args with _ | ⟨file, _ | ⟨a, _ | ⟨b, _ | ⟨d, rest⟩⟩⟩⟩
  · rfl
  · rfl
  · rfl
  · rfl
  · have hlen : ¬ ((file :: a :: b :: d :: rest).length < 4) := by simp only [List.length_cons]; omega
    simp only [hlen, ↓reduceIte, List.getD_cons_zero, List.getD_cons_succ]
    by_cases hf : file = ""
    · simp only [hf, ↓reduceIte]
    · simp only [hf, ↓reduceIte]
      cases ha : w.ip4 a with
      | none => simp only [↓reduceIte]
      | some start =>
        cases hb : w.ip4 b with
        | none => simp only [reduceCtorEq, ↓reduceIte]
        | some stop =>
          simp only [reduceCtorEq, ↓reduceIte, Option.getD_some]
          by_cases hlt : start.toNat ≥ stop.toNat
          · simp only [hlt, ↓reduceIte]
          · simp only [hlt, ↓reduceIte]
            cases hn : w.newAlloc (some start) (some stop) with
            | false => simp only [↓reduceIte, Bool.not_false]
            | true =>
              simp only [Bool.true_eq_false, ↓reduceIte, Bool.not_true]
              cases hd : w.duration d with
              | none => simp only [↓reduceIte, Bool.false_eq_true]
              | some ns =>
                simp only [reduceCtorEq, ↓reduceIte, Option.getD_some, Bool.false_eq_true]
                by_cases hk : goRoundSecond ns < 0 ∨ goRoundSecond ns > 4294967295000000000
                · simp only [hk, ↓reduceIte]
                · simp only [hk, ↓reduceIte]
                  cases hr : w.register file <;> cases hl : w.loadOk <;> cases hm : w.remarkOk <;>
                    simp only [↓reduceIte, Bool.not_false, Bool.not_true, Bool.true_eq_false, Bool.false_eq_true]

/-- the generated registration = the model's: the plugin is named "range", has no DHCPv6 set-up, and its DHCPv4
set-up is the function translated above -/
theorem GEN_rangesetup_plugin_eq : GenRangeSetup.plugin = RangeSetup.plugin := rfl


/-! a world in which everything succeeds, for the examples: addresses are looked up in a small table -/
private def okWorld : World where
  ip4 := fun s => if s = "10.0.0.1" then some 0x0a000001#32 else if s = "10.0.0.9" then some 0x0a000009#32
    else if s = "::ffff:10.0.0.9" then some 0x0a000009#32 else none
  newAlloc := fun _ _ => true
  duration := fun s => if s = "1h" then some 3600000000000 else if s = "1500ms" then some 1500000000
    else if s = "-1h" then some (-3600000000000) else if s = "1193047h" then some 4294969200000000000
    else if s = "-500ms" then some (-500000000) else if s = "-499999999ns" then some (-499999999)
    else if s = "4294967295499999999ns" then some 4294967295499999999
    else if s = "4294967295500ms" then some 4294967295500000000 else none
  register := fun _ => true
  loadOk := true
  remarkOk := true

example : GenRangeSetup.setupRange ["leases.db", "10.0.0.1", "10.0.0.9", "1h"] okWorld
    = ⟨some ⟨"leases.db", 0x0a000001#32, 0x0a000009#32, 3600000000000⟩, none⟩ := by decide
example : GenRangeSetup.setupRange ["leases.db", "10.0.0.1", "10.0.0.9"] okWorld = ⟨none, some .arity⟩ := by decide
example : GenRangeSetup.setupRange ["", "10.0.0.1", "10.0.0.9", "1h"] okWorld = ⟨none, some .emptyFileName⟩ := by decide
example : GenRangeSetup.setupRange ["f", "fe80::1", "10.0.0.9", "1h"] okWorld = ⟨none, some (.notIPv4 1)⟩ := by decide
example : GenRangeSetup.setupRange ["f", "10.0.0.1", "ten", "1h"] okWorld = ⟨none, some (.notIPv4 2)⟩ := by decide
example : GenRangeSetup.setupRange ["f", "10.0.0.9", "10.0.0.1", "1h"] okWorld = ⟨none, some .badRange⟩ := by decide
example : GenRangeSetup.setupRange ["f", "10.0.0.1", "10.0.0.9", "soon"] okWorld = ⟨none, some .badDuration⟩ := by decide
-- each call is asked about ITS argument: a world that knows only the start address refuses the end, and the other way round
example : GenRangeSetup.setupRange ["f", "10.0.0.1", "10.0.0.9", "1h"] { okWorld with ip4 := fun s => if s = "10.0.0.1" then some 1#32 else none }
    = ⟨none, some (.notIPv4 2)⟩ := by decide
example : GenRangeSetup.setupRange ["f", "10.0.0.1", "10.0.0.9", "1h"] { okWorld with register := fun f => f == "10.0.0.1" }
    = ⟨none, some .storage⟩ := by decide
-- the allocator is given (start, end) in this order
example : GenRangeSetup.setupRange ["f", "10.0.0.1", "10.0.0.9", "1h"]
    { okWorld with newAlloc := fun a b => a == some 0x0a000009#32 && b == some 0x0a000001#32 } = ⟨none, some .allocator⟩ := by decide

/-! ## what is accepted -/

/-- the model's `setup` on an accepted argument list, spelled out: the shape of the arguments, the answers, the
configuration -/
theorem RangeSetup.setup_handler (args : List String) (w : World) (c : Config)
    (h : (GenRangeSetup.setupRange args w).handler = some c) :
    ∃ file a b d rest ns, args = file :: a :: b :: d :: rest ∧ file ≠ "" ∧ w.ip4 a = some c.start ∧ w.ip4 b = some c.stop ∧
      c.start.toNat < c.stop.toNat ∧ w.newAlloc (some c.start) (some c.stop) = true ∧ w.duration d = some ns ∧
      0 ≤ goRoundSecond ns ∧ goRoundSecond ns ≤ 4294967295000000000 ∧
      w.register file = true ∧ w.loadOk = true ∧ w.remarkOk = true ∧ c = ⟨file, c.start, c.stop, goRoundSecond ns⟩ := by
  rw [GEN_rangesetup_setup_eq] at h
  rcases args with _ | ⟨file, _ | ⟨a, _ | ⟨b, _ | ⟨d, rest⟩⟩⟩⟩
  · simp [RangeSetup.setup, RangeSetup.fail] at h
  · simp [RangeSetup.setup, RangeSetup.fail] at h
  · simp [RangeSetup.setup, RangeSetup.fail] at h
  · simp [RangeSetup.setup, RangeSetup.fail] at h
  · by_cases hf : file = ""
    · simp [RangeSetup.setup, RangeSetup.fail, hf] at h
    · cases ha : w.ip4 a with
      | none => simp [RangeSetup.setup, RangeSetup.fail, hf, ha] at h
      | some start =>
        cases hb : w.ip4 b with
        | none => simp [RangeSetup.setup, RangeSetup.fail, hf, ha, hb] at h
        | some stop =>
          by_cases hlt : stop.toNat ≤ start.toNat
          · simp [RangeSetup.setup, RangeSetup.fail, hf, ha, hb, hlt] at h
          · cases hn : w.newAlloc (some start) (some stop) with
            | false => simp [RangeSetup.setup, RangeSetup.fail, hf, ha, hb, hlt, hn] at h
            | true =>
              cases hd : w.duration d with
              | none => simp [RangeSetup.setup, RangeSetup.fail, hf, ha, hb, hlt, hn, hd] at h
              | some ns =>
                have hlt' : ¬ start.toNat ≥ stop.toNat := by omega
                simp only [RangeSetup.setup, RangeSetup.fail, hf, ha, hb, hlt', hn, hd, ↓reduceIte, Bool.not_true,
                  Bool.false_eq_true] at h
                by_cases hk : goRoundSecond ns < 0 ∨ goRoundSecond ns > 4294967295000000000
                · simp only [hk, ↓reduceIte] at h
                  cases h
                · simp only [hk, ↓reduceIte] at h
                  cases hr : w.register file <;> cases hl : w.loadOk <;> cases hm : w.remarkOk <;>
                    simp [hr, hl, hm] at h
                  subst h
                  exact ⟨file, a, b, d, rest, ns, rfl, hf, ha, hb, by simp only; omega, hn, hd, by omega, by omega, hr, rfl, rfl, rfl⟩

/-- NO PARTIAL STATE: the pair returned has a handler or an error, never both and never neither — on every error path
the handler is nil, so a configuration that is rejected never serves (C19) -/
theorem RANGESETUP_no_partial_state (args : List String) (w : World) :
    ((GenRangeSetup.setupRange args w).err ≠ none → (GenRangeSetup.setupRange args w).handler = none) ∧
    ((GenRangeSetup.setupRange args w).err = none → (GenRangeSetup.setupRange args w).handler ≠ none) := by
  rw [GEN_rangesetup_setup_eq]
  rcases args with _ | ⟨file, _ | ⟨a, _ | ⟨b, _ | ⟨d, rest⟩⟩⟩⟩
  · simp [RangeSetup.setup, RangeSetup.fail]
  · simp [RangeSetup.setup, RangeSetup.fail]
  · simp [RangeSetup.setup, RangeSetup.fail]
  · simp [RangeSetup.setup, RangeSetup.fail]
  · by_cases hf : file = ""
    · simp [RangeSetup.setup, RangeSetup.fail, hf]
    · cases ha : w.ip4 a with
      | none => simp [RangeSetup.setup, RangeSetup.fail, hf, ha]
      | some start =>
        cases hb : w.ip4 b with
        | none => simp [RangeSetup.setup, RangeSetup.fail, hf, ha, hb]
        | some stop =>
          by_cases hlt : start.toNat ≥ stop.toNat
          · simp [RangeSetup.setup, RangeSetup.fail, hf, ha, hb, hlt]
          · cases hn : w.newAlloc (some start) (some stop) with
            | false => simp [RangeSetup.setup, RangeSetup.fail, hf, ha, hb, hlt, hn]
            | true =>
              cases hd : w.duration d with
              | none => simp [RangeSetup.setup, RangeSetup.fail, hf, ha, hb, hlt, hn, hd]
              | some ns =>
                simp only [RangeSetup.setup, RangeSetup.fail, hf, ha, hb, hlt, hn, hd, ↓reduceIte, Bool.not_true,
                  Bool.false_eq_true]
                by_cases hk : goRoundSecond ns < 0 ∨ goRoundSecond ns > 4294967295000000000
                · simp only [hk, ↓reduceIte]; simp
                · simp only [hk, ↓reduceIte]
                  cases hr : w.register file <;> cases hl : w.loadOk <;> cases hm : w.remarkOk <;> simp

-- a variant that hands the handler out next to an error is another function
example : (⟨some ⟨"f", 1#32, 2#32, 0⟩, some .load⟩ : Out) ≠ GenRangeSetup.setupRange ["f", "10.0.0.1", "10.0.0.9", "1h"] { okWorld with loadOk := false } := by decide

/-- `setupRange` returns a nil error EXACTLY when: there are at least four arguments, the file name is not empty, the
second and the third argument parse as IPv4 addresses, the first is below the second (as 32-bit numbers), the
allocator can be made of these two, the fourth argument parses as a duration which, rounded to whole seconds as Go does
(`goRoundSecond`), is at least 0 and at most 2^32 − 1 seconds, the lease database opens under the file name, its
records load and are all re-marked.  And whenever it returns an error, that error is the one of the
FIRST test, in source order, that fails (`firstFailure` walks the list `checks`). -/
theorem RANGESETUP_accepts_iff (args : List String) (w : World) :
    ((GenRangeSetup.setupRange args w).err = none ↔
      ∃ file a b d rest start stop ns, args = file :: a :: b :: d :: rest ∧ file ≠ "" ∧
        w.ip4 a = some start ∧ w.ip4 b = some stop ∧ start.toNat < stop.toNat ∧
        w.newAlloc (some start) (some stop) = true ∧ w.duration d = some ns ∧
        0 ≤ goRoundSecond ns ∧ goRoundSecond ns ≤ 4294967295 * nsPerSec ∧
        w.register file = true ∧ w.loadOk = true ∧ w.remarkOk = true) ∧
    (GenRangeSetup.setupRange args w).err = firstFailure args w := by
  refine ⟨⟨?_, ?_⟩, ?_⟩
  · intro h
    have hne := (RANGESETUP_no_partial_state args w).2 h
    cases hh : (GenRangeSetup.setupRange args w).handler with
    | none => exact absurd hh hne
    | some c =>
      obtain ⟨file, a, b, d, rest, ns, rfl, hf, ha, hb, hlt, hn, hd, hk0, hk1, hr, hl, hm, -⟩ := RangeSetup.setup_handler args w c hh
      exact ⟨file, a, b, d, rest, c.start, c.stop, ns, rfl, hf, ha, hb, hlt, hn, hd, hk0, by unfold nsPerSec; omega, hr, hl, hm⟩
  · rintro ⟨file, a, b, d, rest, start, stop, ns, rfl, hf, ha, hb, hlt, hn, hd, hk0, hk1, hr, hl, hm⟩
    have hge : ¬ start.toNat ≥ stop.toNat := by omega
    have hk : ¬ (goRoundSecond ns < 0 ∨ goRoundSecond ns > 4294967295000000000) := by unfold nsPerSec at hk1; omega
    rw [GEN_rangesetup_setup_eq]
    simp only [RangeSetup.setup, RangeSetup.fail, hf, ha, hb, hge, hn, hd, hk, hr, hl, hm, ↓reduceIte, Bool.not_true,
      Bool.false_eq_true]
  · rw [GEN_rangesetup_setup_eq]
    rcases args with _ | ⟨file, _ | ⟨a, _ | ⟨b, _ | ⟨d, rest⟩⟩⟩⟩
    · simp [RangeSetup.setup, RangeSetup.fail, firstFailure, checks]
    · simp [RangeSetup.setup, RangeSetup.fail, firstFailure, checks]
    · simp [RangeSetup.setup, RangeSetup.fail, firstFailure, checks]
    · simp [RangeSetup.setup, RangeSetup.fail, firstFailure, checks]
    · by_cases hf : file = ""
      · simp [RangeSetup.setup, RangeSetup.fail, firstFailure, checks, hf]
      · cases ha : w.ip4 a with
        | none => simp [RangeSetup.setup, RangeSetup.fail, firstFailure, checks, hf, ha]
        | some start =>
          cases hb : w.ip4 b with
          | none => simp [RangeSetup.setup, RangeSetup.fail, firstFailure, checks, hf, ha, hb]
          | some stop =>
            by_cases hlt : stop.toNat ≤ start.toNat
            · simp [RangeSetup.setup, RangeSetup.fail, firstFailure, checks, hf, ha, hb, hlt]
            · cases hn : w.newAlloc (some start) (some stop) with
              | false => simp [RangeSetup.setup, RangeSetup.fail, firstFailure, checks, hf, ha, hb, hlt, hn]
              | true =>
                cases hd : w.duration d with
                | none => simp [RangeSetup.setup, RangeSetup.fail, firstFailure, checks, hf, ha, hb, hlt, hn, hd]
                | some ns =>
                  have hge : ¬ start.toNat ≥ stop.toNat := by omega
                  by_cases hk : goRoundSecond ns < 0 ∨ goRoundSecond ns > 4294967295000000000
                  · simp only [RangeSetup.setup, RangeSetup.fail, hf, ha, hb, hge, hn, hd, hk, ↓reduceIte, Bool.not_true,
                      Bool.false_eq_true, firstFailure, checks, List.length_cons, List.getD_cons_zero, List.getD_cons_succ,
                      Option.getD_some, Option.isNone_some, decide_true, decide_false]
                    simp [hf, hlt]
                  · cases hr : w.register file <;> cases hl : w.loadOk <;> cases hm : w.remarkOk <;>
                      simp only [RangeSetup.setup, RangeSetup.fail, hf, ha, hb, hge, hn, hd, hk, hr, hl, hm, ↓reduceIte,
                        Bool.not_true, Bool.not_false, Bool.false_eq_true, firstFailure, checks, List.length_cons,
                        List.getD_cons_zero, List.getD_cons_succ, Option.getD_some, Option.isNone_some, decide_true,
                        decide_false] <;>
                      simp [hf, hlt]

-- the first failing test wins: an empty file name AND a bad address AND a bad duration is reported as the empty file name
example : (GenRangeSetup.setupRange ["", "x", "10.0.0.9", "soon"] okWorld).err = some .emptyFileName := by decide
example : (GenRangeSetup.setupRange ["f", "x", "y", "soon"] okWorld).err = some (.notIPv4 1) := by decide
-- the duration is looked at only after the allocator was made, the database only after the duration
example : (GenRangeSetup.setupRange ["f", "10.0.0.1", "10.0.0.9", "soon"] { okWorld with newAlloc := fun _ _ => false, register := fun _ => false }).err
    = some .allocator := by decide
example : (GenRangeSetup.setupRange ["f", "10.0.0.1", "10.0.0.9", "soon"] { okWorld with register := fun _ => false }).err
    = some .badDuration := by decide

/-- which argument plays which role: the handler's state has the database of the FIRST argument, an allocator over
[second argument, third argument] (each through `net.ParseIP(·).To4()`), and the lease time parsed from the FOURTH -/
theorem RANGESETUP_argument_roles (args : List String) (w : World) (c : Config)
    (h : (GenRangeSetup.setupRange args w).handler = some c) :
    4 ≤ args.length ∧ c.file = args.getD 0 "" ∧ w.ip4 (args.getD 1 "") = some c.start ∧
    w.ip4 (args.getD 2 "") = some c.stop ∧ (w.duration (args.getD 3 "")).map goRoundSecond = some c.lease ∧
    w.register c.file = true ∧ w.newAlloc (some c.start) (some c.stop) = true := by
  obtain ⟨file, a, b, d, rest, ns, rfl, hf, ha, hb, hlt, hn, hd, hk0, hk1, hr, hl, hm, hc⟩ := RangeSetup.setup_handler args w c h
  have h1 : c.file = file := by rw [hc]
  have h2 : c.lease = goRoundSecond ns := by rw [hc]
  simp [ha, hb, hd, hn, h1, h2, hr]

/-- an accepted configuration is a proper range: start < end.  This is the guard of `RState.setup` (Model/Range.lean)
and the requirement of `A4.new` (Model/Alloc4.lean): for accepted arguments the model's allocator exists, and
`RState.setup` never answers `.badRange`, whatever the lease table, the key loader and the iteration order are -/
theorem RANGESETUP_range_wellformed (args : List String) (w : World) (c : Config)
    (h : (GenRangeSetup.setupRange args w).handler = some c) :
    c.start.toNat < c.stop.toNat ∧
    A4.new (some c.start) (some c.stop) = .ok ⟨c.start, c.stop, Bits.new (A4.size c.start c.stop)⟩ ∧
    ∀ lease db loadKey order, RState.setup c.start c.stop lease db loadKey order ≠ .error .badRange := by
  obtain ⟨file, a, b, d, rest, ns, rfl, hf, ha, hb, hlt, -⟩ := RangeSetup.setup_handler args w c h
  have hnew : A4.new (some c.start) (some c.stop) = .ok ⟨c.start, c.stop, Bits.new (A4.size c.start c.stop)⟩ := by
    unfold A4.new
    have : ¬ c.start.toNat > c.stop.toNat := by omega
    simp only [this, ↓reduceIte]
  refine ⟨hlt, hnew, ?_⟩
  intro lease db loadKey order
  unfold RState.setup
  have hge : ¬ c.start.toNat ≥ c.stop.toNat := by omega
  simp only [hge, ↓reduceIte, hnew]
  cases loadRecords loadKey db with
  | none => simp
  | some recs =>
    simp only
    cases remark _ (order recs) <;> simp

-- the guard is needed: the reversed range IS `.badRange` for the handler model, and `setupRange` refuses it
example : RState.setup 0x0a000009#32 0x0a000001#32 0 [] some id = .error .badRange := by simp [RState.setup]

/-- a range of ONE address cannot be configured: equal start and end are refused (`>=`, not `>`), although the
allocator itself (`A4.new`) accepts start = end.  A fact of the code. -/
theorem RANGESETUP_one_address_range_rejected (file a b d : String) (rest : List String) (w : World) (x : BitVec 32)
    (hf : file ≠ "") (ha : w.ip4 a = some x) (hb : w.ip4 b = some x) :
    GenRangeSetup.setupRange (file :: a :: b :: d :: rest) w = ⟨none, some .badRange⟩ ∧
    ∃ al, A4.new (some x) (some x) = .ok al := by
  rw [GEN_rangesetup_setup_eq]
  constructor
  · simp [RangeSetup.setup, RangeSetup.fail, hf, ha, hb]
  · exact ⟨⟨x, x, Bits.new (A4.size x x)⟩, by simp [A4.new]⟩

example : GenRangeSetup.setupRange ["f", "10.0.0.9", "10.0.0.9", "1h"] okWorld = ⟨none, some .badRange⟩ := by decide
-- the same address in its two spellings is the same address
example : GenRangeSetup.setupRange ["f", "10.0.0.9", "::ffff:10.0.0.9", "1h"] okWorld = ⟨none, some .badRange⟩ := by decide

/-! ## the lease time -/

/-- Go's rounding of a duration that is not negative is `keptLease` of Model/Range.lean -/
theorem RangeSetup.goRoundSecond_of_nonneg (d : Int) (h : 0 ≤ d) : goRoundSecond d = keptLease d := by
  unfold goRoundSecond
  have : ¬ d < 0 := by omega
  simp only [this, ↓reduceIte]

/-- … and so is every rounded value that is not negative (the parsed duration may be a little below zero: it is more
than −0.5 s then, and both roundings give 0) -/
theorem RangeSetup.goRoundSecond_of_accepted (d : Int) (h : 0 ≤ goRoundSecond d) : goRoundSecond d = keptLease d := by
  unfold goRoundSecond keptLease unixRound nsPerSec at *
  split at h
  · rename_i hneg
    simp only [hneg, ↓reduceIte]
    omega
  · rename_i hneg
    simp only [hneg, ↓reduceIte]

/-- the rounded value is a whole number of seconds -/
theorem RangeSetup.goRoundSecond_whole (d : Int) : goRoundSecond d % nsPerSec = 0 := by
  unfold goRoundSecond keptLease unixRound nsPerSec
  split <;> omega

-- `time.Duration.Round` rounds halves AWAY FROM ZERO (the real code was run on these four values)
example : goRoundSecond (-500000000) = -1000000000 := by decide
example : goRoundSecond (-499999999) = 0 := by decide
example : goRoundSecond 4294967295499999999 = 4294967295000000000 := by decide
example : goRoundSecond 4294967295500000000 = 4294967296000000000 := by decide
-- … where `keptLease` alone would round −0.5 s up to 0
example : keptLease (-500000000) = 0 := by decide
-- and the set-up decides accordingly: −0.5 s refused, −0.499999999 s a lease of zero, the largest lease is 2^32 − 1 s
example : GenRangeSetup.setupRange ["f", "10.0.0.1", "10.0.0.9", "-500ms"] okWorld = ⟨none, some .leaseOutOfRange⟩ := by decide
example : (GenRangeSetup.setupRange ["f", "10.0.0.1", "10.0.0.9", "-499999999ns"] okWorld).handler.map (·.lease) = some 0 := by decide
example : (GenRangeSetup.setupRange ["f", "10.0.0.1", "10.0.0.9", "4294967295499999999ns"] okWorld).handler.map (·.lease)
    = some 4294967295000000000 := by decide
example : GenRangeSetup.setupRange ["f", "10.0.0.1", "10.0.0.9", "4294967295500ms"] okWorld = ⟨none, some .leaseOutOfRange⟩ := by decide

/-- the lease time the handler's state carries is the parsed duration rounded as Go rounds it, which — because the
set-up refuses a negative result — is `keptLease` of the parsed duration (the value `RState.lease` stands for in
Model/Range.lean): a whole number of seconds, at least 0 and at most 2^32 − 1 seconds -/
theorem RANGESETUP_lease_is_kept_lease (args : List String) (w : World) (c : Config)
    (h : (GenRangeSetup.setupRange args w).handler = some c) :
    ∃ ns, w.duration (args.getD 3 "") = some ns ∧ c.lease = goRoundSecond ns ∧ c.lease = keptLease ns ∧
      c.lease % nsPerSec = 0 ∧ 0 ≤ c.lease ∧ c.lease ≤ 4294967295 * nsPerSec := by
  obtain ⟨file, a, b, d, rest, ns, rfl, hf, ha, hb, hlt, hn, hd, hk0, hk1, hr, hl, hm, hc⟩ := RangeSetup.setup_handler args w c h
  have h2 : c.lease = goRoundSecond ns := by rw [hc]
  refine ⟨ns, by simpa using hd, h2, ?_, ?_, ?_, ?_⟩
  · rw [h2]; exact RangeSetup.goRoundSecond_of_accepted ns hk0
  · rw [h2]; exact RangeSetup.goRoundSecond_whole ns
  · rw [h2]; exact hk0
  · rw [h2]; unfold nsPerSec; omega

/-- ACCEPTED ⇒ THE LEASE FITS THE WIRE (D21).  From acceptance alone — no hypothesis on the configured duration is left:
the lease time is a whole number of seconds from 0 to 2^32 − 1, so option 51 (`leaseOpt`, a 32-bit number of seconds)
is lease / 1 s exactly, without wrap; what is announced, times one second, IS the duration the stored expiry is
computed from (`RState.handle`: `unixFloor (now + lease)` = the second of `now` plus the announced seconds); and the
lease is its own `keptLease`, so the conclusions of `C03_promise_is_kept_lease` hold for it — including at the upper
bound, which that theorem's strict hypothesis leaves out -/
theorem RANGESETUP_accepted_lease_fits_wire (args : List String) (w : World) (c : Config)
    (h : (GenRangeSetup.setupRange args w).handler = some c) :
    c.lease % nsPerSec = 0 ∧ 0 ≤ c.lease / nsPerSec ∧ c.lease / nsPerSec ≤ 4294967295 ∧
    (leaseOpt c.lease : Int) = c.lease / nsPerSec ∧
    (leaseOpt c.lease : Int) * nsPerSec = c.lease ∧
    keptLease c.lease = c.lease ∧
    (leaseOpt (keptLease c.lease) : Int) * nsPerSec = keptLease c.lease ∧
    ∀ now, unixFloor (now + c.lease) = unixFloor now + leaseOpt c.lease := by
  obtain ⟨ns, -, -, -, hmod, h0, h1⟩ := RANGESETUP_lease_is_kept_lease args w c h
  have hkept : keptLease c.lease = c.lease := by
    unfold keptLease unixRound nsPerSec at *; omega
  have hopt : (leaseOpt c.lease : Int) = c.lease / nsPerSec := by
    unfold leaseOpt unixRound nsPerSec at *
    have e1 : (c.lease + 500000000) / 1000000000 = c.lease / 1000000000 := by omega
    have e2 : c.lease / 1000000000 % 4294967296 = c.lease / 1000000000 := by omega
    have hk : 0 ≤ c.lease / 1000000000 := by omega
    rw [e1, e2, Int.toNat_of_nonneg hk]
  have hmul : (leaseOpt c.lease : Int) * nsPerSec = c.lease := by
    rw [hopt]; unfold nsPerSec at *; omega
  refine ⟨hmod, by unfold nsPerSec at *; omega, by unfold nsPerSec at *; omega, hopt, hmul, hkept, by rw [hkept]; exact hmul, ?_⟩
  intro now
  rw [hopt]
  unfold unixFloor nsPerSec at *
  omega

-- 1500 ms is kept as 2 s, which is what option 51 says
example : (GenRangeSetup.setupRange ["f", "10.0.0.1", "10.0.0.9", "1500ms"] okWorld).handler.map (·.lease) = some 2000000000 := by decide
example : leaseOpt 2000000000 = 2 := by decide
-- the two failing inputs of D21 are now REFUSED
example : GenRangeSetup.setupRange ["f", "10.0.0.1", "10.0.0.9", "-1h"] okWorld = ⟨none, some .leaseOutOfRange⟩ := by decide
example : GenRangeSetup.setupRange ["f", "10.0.0.1", "10.0.0.9", "1193047h"] okWorld = ⟨none, some .leaseOutOfRange⟩ := by decide
-- D21, the counter-example: the set-up BEFORE the repair (`setupOld`: the same function without the test) accepted "-1h";
-- the client was then promised 4294963696 s while the stored expiry is computed from −3600 s (one hour in the past) …
example : (RangeSetup.setupOld ["f", "10.0.0.1", "10.0.0.9", "-1h"] okWorld).handler.map (·.lease) = some (-3600000000000) := by decide
example : leaseOpt (-3600000000000) = 4294963696 ∧ (leaseOpt (-3600000000000) : Int) * nsPerSec ≠ -3600000000000 := by
  refine ⟨by decide, by decide⟩
-- … and "1193047h" (more than 2^32 s) was announced modulo 2^32: 1904 s
example : (RangeSetup.setupOld ["f", "10.0.0.1", "10.0.0.9", "1193047h"] okWorld).handler.map (·.lease) = some 4294969200000000000 := by decide
example : leaseOpt 4294969200000000000 = 1904 := by decide
-- the old and the new set-up differ ONLY there: whatever the new one accepts, the old one accepted with the same result
example : RangeSetup.setupOld ["f", "10.0.0.1", "10.0.0.9", "1h"] okWorld = GenRangeSetup.setupRange ["f", "10.0.0.1", "10.0.0.9", "1h"] okWorld := by decide

/-- arguments beyond the fourth do not influence the result -/
theorem RANGESETUP_extra_args_ignored (file a b d : String) (rest : List String) (w : World) :
    GenRangeSetup.setupRange (file :: a :: b :: d :: rest) w = GenRangeSetup.setupRange [file, a, b, d] w := by
  rw [GEN_rangesetup_setup_eq, GEN_rangesetup_setup_eq]
  rfl

example : GenRangeSetup.setupRange ["leases.db", "10.0.0.1", "10.0.0.9", "1h", "autorefresh", ""] okWorld
    = GenRangeSetup.setupRange ["leases.db", "10.0.0.1", "10.0.0.9", "1h"] okWorld := by decide

/-- the registered plugin is named "range", has no DHCPv6 set-up, and its DHCPv4 set-up is the function translated
above (`setupRange`) -/
theorem RANGESETUP_plugin_decl :
    GenRangeSetup.plugin.name = "range" ∧ GenRangeSetup.plugin.setup6 = none ∧ GenRangeSetup.plugin.setup4 = some .setupRange := by
  rw [GEN_rangesetup_plugin_eq]
  exact ⟨rfl, rfl, rfl⟩

/-! ## with the models of the other units plugged in -/

/-- `Allocate` never changes the bounds of the allocator -/
theorem A4.allocate_keeps_bounds (a : A4) (hint : Option (BitVec 32)) (choice : Option Nat) (a' : A4) (r : A4Res)
    (h : a.allocate hint choice = some (a', r)) : a'.start = a.start ∧ a'.stop = a.stop := by
  unfold A4.allocate at h
  simp only at h
  split at h
  · cases h
  · simp only [Option.some.injEq, Prod.mk.injEq] at h
    obtain ⟨rfl, _⟩ := h
    exact ⟨rfl, rfl⟩
  · split at h <;>
      (simp only [Option.some.injEq, Prod.mk.injEq] at h
       obtain ⟨rfl, _⟩ := h
       exact ⟨rfl, rfl⟩)

/-- the re-marking loop never changes the bounds of the allocator -/
theorem remark_keeps_bounds (l : List (Mac × Rec)) : ∀ (a a' : A4), remark a l = some a' →
    a'.start = a.start ∧ a'.stop = a.stop := by
  induction l with
  | nil => intro a a' h; simp only [remark, Option.some.injEq] at h; subst h; exact ⟨rfl, rfl⟩
  | cons p rest ih =>
    intro a a' h
    obtain ⟨m, r⟩ := p
    unfold remark at h
    split at h
    · rename_i a1 ip hal
      split at h
      · obtain ⟨h1, h2⟩ := ih a1 a' h
        obtain ⟨h3, h4⟩ := A4.allocate_keeps_bounds a _ _ a1 _ hal
        exact ⟨h1.trans h3, h2.trans h4⟩
      · cases h
    · cases h

/-- when the allocator is the one of Model/Alloc4.lean, the error "could not create an allocator" is never returned:
the range test before it has established what `A4.new` asks for -/
theorem RANGESETUP_allocator_never_refuses (args : List String) (w : World)
    (hw : ∀ a b, w.newAlloc a b = match A4.new a b with | .ok _ => true | .error _ => false) :
    (GenRangeSetup.setupRange args w).err ≠ some .allocator := by
  rw [GEN_rangesetup_setup_eq]
  rcases args with _ | ⟨file, _ | ⟨a, _ | ⟨b, _ | ⟨d, rest⟩⟩⟩⟩
  · simp [RangeSetup.setup, RangeSetup.fail]
  · simp [RangeSetup.setup, RangeSetup.fail]
  · simp [RangeSetup.setup, RangeSetup.fail]
  · simp [RangeSetup.setup, RangeSetup.fail]
  · by_cases hf : file = ""
    · simp [RangeSetup.setup, RangeSetup.fail, hf]
    · cases ha : w.ip4 a with
      | none => simp [RangeSetup.setup, RangeSetup.fail, hf, ha]
      | some start =>
        cases hb : w.ip4 b with
        | none => simp [RangeSetup.setup, RangeSetup.fail, hf, ha, hb]
        | some stop =>
          by_cases hlt : stop.toNat ≤ start.toNat
          · simp [RangeSetup.setup, RangeSetup.fail, hf, ha, hb, hlt]
          · have hn : w.newAlloc (some start) (some stop) = true := by
              rw [hw]; unfold A4.new
              have : ¬ start.toNat > stop.toNat := by omega
              simp only [this, ↓reduceIte]
            cases hd : w.duration d <;> cases hr : w.register file <;> cases hl : w.loadOk <;> cases hm : w.remarkOk <;>
              simp [RangeSetup.setup, RangeSetup.fail, hf, ha, hb, hlt, hn, hd, hr, hl, hm] <;>
              split <;> simp

/-- ACCEPTED ⇒ THE HANDLER MODEL STARTS.  With the allocator, the record loader and the re-marking loop of the models
(`World.ofModel`, on the lease table `db`), an accepted argument list yields a configuration `c` for which
`RState.setup c.start c.stop c.lease db loadKey order` is `.ok s0` — the hypothesis `hs0` of `C02_holds` and
`C03_holds` — and the state carries the lease time of the configuration -/
theorem RANGESETUP_accepted_starts_handler (args : List String) (ip4 : String → Option (BitVec 32))
    (duration : String → Option Int) (db : List Row) (loadKey : Mac → Option Mac)
    (order : List (Mac × Rec) → List (Mac × Rec)) (c : Config)
    (h : (GenRangeSetup.setupRange args (World.ofModel ip4 duration db loadKey order c.start c.stop)).handler = some c) :
    ∃ s0, RState.setup c.start c.stop c.lease db loadKey order = .ok s0 ∧ s0.lease = c.lease ∧ s0.db = db ∧
      s0.alloc.start = c.start ∧ s0.alloc.stop = c.stop := by
  obtain ⟨file, a, b, d, rest, ns, rfl, hf, ha, hb, hlt, hn, hd, hk0, hk1, hr, hl, hm, hc⟩ := RangeSetup.setup_handler _ _ c h
  have hnew : A4.new (some c.start) (some c.stop) = .ok ⟨c.start, c.stop, Bits.new (A4.size c.start c.stop)⟩ := by
    unfold A4.new
    have : ¬ c.start.toNat > c.stop.toNat := by omega
    simp only [this, ↓reduceIte]
  have hge : ¬ c.start.toNat ≥ c.stop.toNat := by omega
  simp only [World.ofModel, hnew] at hl hm
  unfold RState.setup
  simp only [hge, ↓reduceIte, hnew]
  cases hrec : loadRecords loadKey db with
  | none => simp [hrec] at hl
  | some recs =>
    simp only [hrec] at hm
    cases hrm : remark ⟨c.start, c.stop, Bits.new (A4.size c.start c.stop)⟩ (order recs) with
    | none => simp [hrm] at hm
    | some a' =>
      exact ⟨⟨a', recs, db, c.lease⟩, by simp only [hrm], rfl, rfl, remark_keeps_bounds _ _ _ hrm⟩

/-- ACCEPTED ⇒ C02 AND C03 HOLD.  A first start (empty lease table) with accepted arguments: every history of requests
and restarts of the handler state it yields satisfies the monitors of C02 (addresses in the configured range, one client
per address, stable per client) and C03 (restart restores the bindings) FOR THE CONFIGURED RANGE AND LEASE TIME -/
theorem RANGESETUP_accepted_serves_C02_C03 (args : List String) (ip4 : String → Option (BitVec 32))
    (duration : String → Option Int) (loadKey : Mac → Option Mac) (order : List (Mac × Rec) → List (Mac × Rec))
    (hkey : ∀ m, loadKey m = some m) (hperm : ∀ l, (order l).Perm l) (c : Config)
    (h : (GenRangeSetup.setupRange args (World.ofModel ip4 duration [] loadKey order c.start c.stop)).handler = some c) :
    ∃ s0, RState.setup c.start c.stop c.lease [] loadKey order = .ok s0 ∧
      ∀ ops cs evs z, RState.run loadKey order s0 ops cs = some (evs, z) →
        C02.holds ⟨c.start, c.stop, c.lease⟩ evs = true ∧ C03.holds ⟨c.start, c.stop, c.lease⟩ evs = true := by
  obtain ⟨s0, hs0, -⟩ := RANGESETUP_accepted_starts_handler args ip4 duration [] loadKey order c h
  exact ⟨s0, hs0, fun ops cs evs z hrun =>
    ⟨C02_holds c.start c.stop c.lease loadKey order hkey hperm s0 hs0 ops cs evs z hrun,
     C03_holds c.start c.stop c.lease loadKey order hkey hperm s0 hs0 ops cs evs z hrun⟩⟩

end CoreDhcp
