/-
C16 — Concurrent datagram handling is race-free and equivalent to a serial order.

What Lean carries: every handler of the stateful plugins runs as ONE atomic step (its mutex is
held from a top-level `Lock()` to the deferred `Unlock()` — fact F1, checked on the source on every
run; after the D14 repair this includes the prefix plugin, one step per message). Any concurrent
execution of k goroutines is then an interleaving of their atomic steps, i.e. *some* operation
list, and that list is itself the one-at-a-time order whose replies are observed. The lease
guarantees C02/C03, C04–C07, C08/C09 and C10 are proved for ALL operation lists, hence for every
interleaving. Data-race freedom and buffer recycling are about memory, not logic: supported by the
race-detector run and fact F4, not by a theorem.
-/
import CoreDhcp.Props.C02
import CoreDhcp.Props.C03
import CoreDhcp.Props.C04
import CoreDhcp.Props.C05
import CoreDhcp.Props.C06
import CoreDhcp.Props.C07
import CoreDhcp.Props.C08
import CoreDhcp.Props.C09
import CoreDhcp.Props.C10
namespace CoreDhcp

/-- `Interleave ts l`: `l` is a schedule of the per-goroutine operation sequences `ts`
(repeatedly: some goroutine performs its next atomic step) -/
inductive Interleave {α : Type} : List (List α) → List α → Prop
  | done (ts : List (List α)) (h : ∀ t ∈ ts, t = []) : Interleave ts []
  | step (pre : List (List α)) (x : α) (t : List α) (post : List (List α)) (l : List α) :
      Interleave (pre ++ [t] ++ post) l → Interleave (pre ++ [x :: t] ++ post) (x :: l)

/-- what holds of every step of every goroutine holds of every step of the schedule -/
theorem Interleave.all {α : Type} (p : α → Bool) {ts : List (List α)} {l : List α}
    (h : Interleave ts l) (hp : ∀ t ∈ ts, t.all p = true) : l.all p = true := by
  induction h with
  | done ts _ => rfl
  | step pre x t post l _ ih =>
    have hx : (x :: t).all p = true := hp (x :: t) (by simp)
    simp only [List.all_cons, Bool.and_eq_true] at hx
    simp only [List.all_cons, Bool.and_eq_true]
    refine ⟨hx.1, ih ?_⟩
    intro u hu
    simp only [List.mem_append, List.mem_cons, List.not_mem_nil, or_false] at hu
    rcases hu with (hu | hu) | hu
    · exact hp u (by simp [hu])
    · subst hu; exact hx.2
    · exact hp u (by simp [hu])

/-- every schedule of two goroutines exists: the model of concurrency is not vacuous -/
example : Interleave [[1, 2], [3]] [1, 3, 2] :=
  .step [] 1 [2] [[3]] [3, 2] (.step [[2]] 3 [] [] [2] (.step [] 2 [] [[]] [] (.done _ (by simp))))

/-- Allocators under any schedule of concurrent callers: C04–C07 hold at every step. -/
theorem C16_alloc6_any_schedule (p : Pool6) (hp : p.WF) (a : A6) (hnew : A6.new p = .ok a)
    (threads : List (List Op6)) (sched : List Op6) (hs : Interleave threads sched)
    (hdom : ∀ t ∈ threads, t.all (Op6.inDomain p) = true)
    (cs : List (Option Nat)) (evs : List Ev6) (z : A6) (hrun : A6.run a sched cs = some (evs, z)) :
    C04.holds6 p evs = true ∧ C05.holds6 p evs = true ∧ C06.holds6 p evs = true ∧ C07.holds6 p evs = true :=
  have hd := hs.all (Op6.inDomain p) hdom
  ⟨C04_alloc6 p hp a hnew sched cs evs z hd hrun, C05_alloc6 p hp a hnew sched cs evs z hd hrun,
   C06_alloc6 p hp a hnew sched cs evs z hd hrun, C07_alloc6 p hp a hnew sched cs evs z hd hrun⟩

theorem C16_alloc4_any_schedule (s e : BitVec 32) (a : A4) (hnew : A4.new (some s) (some e) = .ok a)
    (threads : List (List Op4)) (sched : List Op4) (_hs : Interleave threads sched)
    (cs : List (Option Nat)) (evs : List Ev4) (z : A4) (hrun : A4.run a sched cs = some (evs, z)) :
    C04.holds4 s e evs = true ∧ C05.holds4 s e evs = true ∧ C06.holds4 s e evs = true ∧ C07.holds4 s e evs = true :=
  ⟨C04_alloc4 s e a hnew sched cs evs z hrun, C05_alloc4 s e a hnew sched cs evs z hrun,
   C06_alloc4 s e a hnew sched cs evs z hrun, C07_alloc4 s e a hnew sched cs evs z hrun⟩

/-- DHCPv4 dynamic leases under any schedule of concurrent requests (and restarts). -/
theorem C16_range_any_schedule (start stop : BitVec 32) (lease : Int)
    (loadKey : Mac → Option Mac) (order : List (Mac × Rec) → List (Mac × Rec))
    (hkey : ∀ m, loadKey m = some m) (hperm : ∀ l, (order l).Perm l)
    (s0 : RState) (hs0 : RState.setup start stop lease [] loadKey order = .ok s0)
    (threads : List (List ROp)) (sched : List ROp) (_hs : Interleave threads sched)
    (cs : List (Option Nat)) (evs : List REv) (z : RState)
    (hrun : RState.run loadKey order s0 sched cs = some (evs, z)) :
    C02.holds ⟨start, stop, lease⟩ evs = true ∧ C03.holds ⟨start, stop, lease⟩ evs = true :=
  ⟨C02_holds start stop lease loadKey order hkey hperm s0 hs0 sched cs evs z hrun,
   C03_holds start stop lease loadKey order hkey hperm s0 hs0 sched cs evs z hrun⟩

/-- Prefix delegation under any schedule of concurrent messages (one atomic step per message). -/
theorem C16_prefix_any_schedule (pool : Pool6) (hp : pool.WF) (a : A6) (hnew : A6.new pool = .ok a)
    (threads : List (List POp)) (sched : List POp) (hs : Interleave threads sched)
    (hwf : ∀ t ∈ threads, t.all (fun op => op.iapds.all IAPDReq.wf) = true)
    (hmono : POp.monotone sched = true)
    (cs : List (Option Nat)) (evs : List PEv) (z : PState)
    (hrun : PState.run ⟨a, []⟩ sched cs = some (evs, z)) :
    C08.holds pool evs = true ∧ C09.holds pool evs = true :=
  have hw := hs.all (fun op => op.iapds.all IAPDReq.wf) hwf
  ⟨C08_holds pool hp a hnew sched hw hmono cs evs z hrun, C09_holds pool hp a hnew sched hw hmono cs evs z hrun⟩

/-- Static leases under any schedule of lookups and file refreshes: every answer comes from the
file in force at its step — the old or the new table, never a mixture. -/
theorem C16_file_any_schedule (threads : List (List FOp)) (sched : List FOp) (_hs : Interleave threads sched) :
    C10.holds (FState.run {} sched) = true := C10_holds sched

end CoreDhcp
