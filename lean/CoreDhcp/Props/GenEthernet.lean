/-
GEN (link-level unicast, C15's last destination clause) — the definitions regenerated from the Go source on
every run (Generated/Ethernet.lean, written by `harness gen -unit ethernet` from the go/ast of
server/sendEthernet.go) against the hand-written model Model/Ethernet.lean.

* `GEN_eth_layers`: the three layer literals, the serialisation options, the order of the layers, the checksum
  layer, the socket and its address, FIELD BY FIELD as the source writes them (a field the source does not set is
  the zero value): every header field `Eth.Frame` has no name for is pinned here.
* `GEN_eth_sendEthernet_eq`: the generated `sendEthernet` is `Eth.sendEthernet` on every argument.
* `C15_frame`, `C15_frame_fields`, `C15_frame_none_iff`: the link-level clause of C15 on the model: a frame that is
  sent goes to the client's hardware address and the offered address, from port 67 to port 68, carries the reply
  and leaves on the interface given; nothing is sent exactly when one of the two hardware addresses is not six
  bytes long.
* `GEN_eth_frame`: the same for the generated definition (transfer).
* `GEN_eth_payload_probes`: `Eth.dhcpLayerBytes` (what `Args.wire` stands for) agrees with the REAL gopacket on the
  replies the translator ran it on; `GEN_eth_payload_not_toBytes`: and that is not `resp.ToBytes()`.

An edit of the Go logic changes the generated text, makes a statement below false and breaks this file (or is
rejected by the translator); renaming, reformatting, comments, another order of the fields in a literal or of the
three literals regenerate the same text.
-/
import CoreDhcp.Generated.Ethernet
namespace CoreDhcp

/-- everything the source writes into the layers, the options, the socket and its address -/
theorem GEN_eth_layers (a : Eth.Args) :
    GenEth.eth a = { srcMAC := a.ifMac, dstMAC := a.chaddr, ethernetType := 0x0800, length := 0 } ∧
    GenEth.ip a = { version := 4, ihl := 0, tos := 0, length := 0, id := 0, flags := 2, fragOffset := 0, ttl := 64,
                    protocol := 17, checksum := 0, srcIP := a.siaddr, dstIP := a.yiaddr } ∧
    GenEth.udp a = { srcPort := 67, dstPort := 68, length := 0, checksum := 0 } ∧
    GenEth.options = { fixLengths := true, computeChecksums := true } ∧
    GenEth.layerOrder = ["Ethernet", "IPv4", "UDP", "DHCPv4"] ∧ GenEth.checksumLayer = "IPv4" ∧
    GenEth.payload a = a.wire ∧
    GenEth.socketArgs = ("AF_PACKET", "SOCK_RAW", 0) ∧
    GenEth.sockaddr a = { protocol := 0, ifindex := a.ifIndex, hatype := 0, pkttype := 0, halen := 6,
                          addr := a.chaddr.take 6 ++ [0, 0] } ∧
    GenEth.ipv4DontFragment = 2 :=
  ⟨rfl, rfl, rfl, rfl, rfl, rfl, rfl, rfl, rfl, rfl⟩

/-- the generated `sendEthernet` is the model's, on every argument -/
theorem GEN_eth_sendEthernet_eq : ∀ a, GenEth.sendEthernet a = Eth.sendEthernet a := by
  intro a
  unfold GenEth.sendEthernet Eth.sendEthernet
  have he : (GenEth.eth a).dstMAC = a.chaddr ∧ (GenEth.eth a).srcMAC = a.ifMac := ⟨rfl, rfl⟩
  rw [he.1, he.2]
  have hf : GenEth.frame (GenEth.eth a) (GenEth.ip a) (GenEth.udp a) (GenEth.payload a) (GenEth.sockaddr a) =
      { dstMac := a.chaddr, srcMac := a.ifMac, etherType := 0x0800, ipVersion := 4, ttl := 64, dontFrag := true, proto := 17,
        srcIp := a.siaddr, dstIp := a.yiaddr, srcPort := 67, dstPort := 68, payload := a.wire, outIf := a.ifIndex } := by
    simp [GenEth.frame, GenEth.eth, GenEth.ip, GenEth.udp, GenEth.payload, GenEth.sockaddr, GenEth.ipv4DontFragment]
  rw [hf]
  by_cases h1 : a.chaddr.length = 6 <;> by_cases h2 : a.ifMac.length = 6 <;> simp [h1, h2]

example : GenEth.sendEthernet
    { ifIndex := 3, ifMac := [2, 0, 0, 0, 0, 1], chaddr := [2, 0, 0, 0, 0, 9], siaddr := [0, 0, 0, 0],
      yiaddr := [192, 0, 2, 77], wire := [2, 1, 6, 0] } =
    some { dstMac := [2, 0, 0, 0, 0, 9], srcMac := [2, 0, 0, 0, 0, 1], etherType := 0x0800, ipVersion := 4, ttl := 64,
           dontFrag := true, proto := 17, srcIp := [0, 0, 0, 0], dstIp := [192, 0, 2, 77], srcPort := 67, dstPort := 68,
           payload := [2, 1, 6, 0], outIf := 3 } := by decide
example : GenEth.sendEthernet
    { ifIndex := 3, ifMac := [2, 0, 0, 0, 0, 1], chaddr := [1, 2, 3, 4, 5, 6, 7, 8], siaddr := [0, 0, 0, 0],
      yiaddr := [192, 0, 2, 77], wire := [2, 1, 6, 0] } = none := by decide

/-- C15, link-level clause, on the model: what is sent satisfies `frameOK` -/
theorem C15_frame : ∀ a f, Eth.sendEthernet a = some f → Eth.frameOK a f = true := by
  intro a f h
  unfold Eth.sendEthernet at h
  split at h
  · cases h
  · cases h
    simp [Eth.frameOK]

/-- an OFFER to 02:00:00:00:00:09 / 192.0.2.77 on interface 3: the frame that is sent, and it is accepted -/
example :
    let a : Eth.Args := { ifIndex := 3, ifMac := [2, 0, 0, 0, 0, 1], chaddr := [2, 0, 0, 0, 0, 9], siaddr := [192, 0, 2, 1],
                          yiaddr := [192, 0, 2, 77], wire := [2, 1, 6, 0, 1, 2, 3, 4] }
    ∃ f, Eth.sendEthernet a = some f ∧ Eth.frameOK a f = true ∧ f.dstMac = [2, 0, 0, 0, 0, 9] ∧ f.dstIp = [192, 0, 2, 77] := by
  exact ⟨_, rfl, by decide, rfl, rfl⟩
/-- `frameOK` is not trivially true: the same frame sent to the broadcast address is refused -/
example :
    let a : Eth.Args := { ifIndex := 3, ifMac := [2, 0, 0, 0, 0, 1], chaddr := [2, 0, 0, 0, 0, 9], siaddr := [192, 0, 2, 1],
                          yiaddr := [192, 0, 2, 77], wire := [2, 1, 6, 0, 1, 2, 3, 4] }
    ∀ f, Eth.sendEthernet a = some f → Eth.frameOK a { f with dstIp := [255, 255, 255, 255] } = false := by
  intro a f h; cases h; decide

theorem C15_frame_fields : ∀ a f, Eth.sendEthernet a = some f →
    f.dstMac = a.chaddr ∧ f.dstIp = a.yiaddr ∧ f.srcPort = 67 ∧ f.dstPort = 68 ∧ f.payload = a.wire ∧ f.outIf = a.ifIndex := by
  intro a f h
  unfold Eth.sendEthernet at h
  split at h
  · cases h
  · cases h
    exact ⟨rfl, rfl, rfl, rfl, rfl, rfl⟩

example : ∃ a f, Eth.sendEthernet a = some f ∧ f.dstMac = [2, 0, 0, 0, 0, 9] ∧ f.dstIp = [192, 0, 2, 77] ∧ f.outIf = 3 :=
  ⟨{ ifIndex := 3, ifMac := [2, 0, 0, 0, 0, 1], chaddr := [2, 0, 0, 0, 0, 9], siaddr := [192, 0, 2, 1],
     yiaddr := [192, 0, 2, 77], wire := [2, 1, 6, 0] }, _, rfl, rfl, rfl, rfl⟩

/-- nothing is sent exactly when one of the two hardware addresses is not six bytes long -/
theorem C15_frame_none_iff (a : Eth.Args) :
    Eth.sendEthernet a = none ↔ (a.ifMac.length ≠ 6 ∨ a.chaddr.length ≠ 6) := by
  unfold Eth.sendEthernet
  by_cases h : a.ifMac.length ≠ 6 ∨ a.chaddr.length ≠ 6
  · simp [h]
  · rw [if_neg h]; simp [h]

/-- an 8-byte chaddr (hlen 8 in the request): nothing is sent; a 6-byte one: something is -/
example : Eth.sendEthernet { ifIndex := 3, ifMac := [2, 0, 0, 0, 0, 1], chaddr := [1, 2, 3, 4, 5, 6, 7, 8], siaddr := [0, 0, 0, 0],
                             yiaddr := [192, 0, 2, 77], wire := [2, 1, 6, 0] } = none := by decide
example : Eth.sendEthernet { ifIndex := 3, ifMac := [2, 0, 0, 0, 0, 1], chaddr := [2, 0, 0, 0, 0, 9], siaddr := [0, 0, 0, 0],
                             yiaddr := [192, 0, 2, 77], wire := [2, 1, 6, 0] } ≠ none := by decide

/-- C15, link-level clause, on the definition generated from the source -/
theorem GEN_eth_frame : ∀ a f, GenEth.sendEthernet a = some f → Eth.frameOK a f = true := by
  intro a f h
  rw [GEN_eth_sendEthernet_eq] at h
  exact C15_frame a f h

example : ∃ a f, GenEth.sendEthernet a = some f ∧ Eth.frameOK a f = true ∧ f.dstMac = [2, 0, 0, 0, 0, 9] ∧ f.dstIp = [192, 0, 2, 77] :=
  ⟨{ ifIndex := 3, ifMac := [2, 0, 0, 0, 0, 1], chaddr := [2, 0, 0, 0, 0, 9], siaddr := [192, 0, 2, 1],
     yiaddr := [192, 0, 2, 77], wire := [2, 1, 6, 0] }, _, rfl, by decide, rfl, rfl⟩

/-! ## what `Args.wire` stands for -/

set_option maxRecDepth 100000 in
/-- `Eth.dhcpLayerBytes` is what the real gopacket makes of the real `ToBytes()` on the translator's replies -/
theorem GEN_eth_payload_probes : ∀ p ∈ GenEth.payloadProbes, Eth.dhcpLayerBytes p.1 = p.2 := by decide

set_option maxRecDepth 100000 in
/-- the translator did run the libraries (three replies), and the payload is NOT `resp.ToBytes()`: the padding
after the End option is gone (first two), only a reply longer than 300 bytes is sent whole -/
theorem GEN_eth_payload_not_toBytes :
    GenEth.payloadProbes.map (fun p => (p.1.length, p.2.length, decide (p.1 = p.2))) =
      [(300, 256, false), (300, 241, false), (336, 336, true)] := by decide

end CoreDhcp
