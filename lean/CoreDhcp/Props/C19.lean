/-
C19 — What a built-in plugin accepts at start-up it can put on the wire: setup returns an error
or a handler whose replies serialise and parse back to the same options.
Property theorems only (proofs in Proofs/OptPlug.lean). The model's handlers are total functions:
"returns without panicking" is checked on the implementation by the conformance run.
-/
import CoreDhcp.Proofs.OptPlug
namespace CoreDhcp
open Plug

/-- Every argument vector (with well-formed standard-library answers) that a built-in plugin's
setup accepts yields a configuration satisfying `C19.wireOK` — IPv4 static routes with a prefix
length ≤ 32 and no stray bits, search domains of 1..63 byte labels and ≤ 253 bytes, four byte
addresses, … — provided the DHCPv6 option bodies fit their 16-bit length field (`C19.fits`): no
plugin checks that (see `C19_oversize6_refuted`). -/
theorem C19_setup_wireOK (proto : Nat) (name : String) (args : List ArgOracle) (cfg : PlugCfg)
    (hwf : ∀ a ∈ args, a.wf = true) (h : plugSetup proto name args = some (.ok cfg))
    (hfit : C19.fits cfg = true) : C19.wireOK cfg = true := c19_setup_wireOK proto name args cfg hwf h hfit

/-- for DHCPv4 there is no such proviso -/
theorem C19_setup_wireOK4 (name : String) (args : List ArgOracle) (cfg : Cfg4)
    (hwf : ∀ a ∈ args, a.wf = true) (h : plugSetup4 name args = some (.ok cfg)) : C19.wireOK (.v4 cfg) = true :=
  setup4_wireOK name args cfg hwf h

/-- "Arguments that cannot be honoured on the wire are rejected at start-up": a destination that
is not an IPv4 network (mask of 128 bits), or a gateway that is not an IPv4 address, anywhere in
the argument list makes staticroute's setup fail. -/
theorem C19_staticroute_rejects_non_ipv4 (args : List ArgOracle) (a : ArgOracle) (ha : a ∈ args)
    (hbad : (∃ c, a.sr.cidr = some c ∧ c.bits ≠ 32) ∨ (∃ b, a.sr.router = some (.v6 b))) :
    staticroute.setup args = .error () := by
  have hr : staticroute.route a = none := by
    unfold staticroute.route
    rcases hbad with ⟨c, hc, hb⟩ | ⟨b, hb⟩
    · simp only [hc]
      split
      · rfl
      · split
        · rfl
        · simp
    · split
      · rfl
      · split
        · rfl
        · split
          · rfl
          · split
            · rfl
            · simp [hb, IpLit.to4]
  unfold staticroute.setup
  split
  · rfl
  · rw [allSome_none _ _ a ha hr]

/-- "Arguments that cannot be honoured on the wire are rejected at start-up" (D22): an MTU that does
not fit the two bytes of option 26 makes mtu's set-up fail. -/
theorem C19_mtu_rejects_out_of_range (args : List ArgOracle) (a : ArgOracle) (n : Int) (ha : a ∈ args)
    (hn : a.int = some n) (hbad : n < 0 ∨ 65535 < n) : mtu.setup args = .error () := by
  cases h : mtu.setup args with
  | error e => rfl
  | ok c =>
    unfold mtu.setup single at h
    split at h
    · rename_i a' heq
      split at heq
      · cases heq
        simp only [List.mem_singleton] at ha
        subst ha
        rw [hn] at h
        simp only at h
        split at h
        · cases h
        · cases h <;> omega
      · cases heq
    · cases h

/-- (D23) a lease time that is negative or longer than 2^32-1 seconds makes lease_time's set-up fail
(the first argument counts; further ones are ignored) -/
theorem C19_leasetime_rejects_out_of_range (a : ArgOracle) (rest : List ArgOracle) (d : Int)
    (hd : a.dur = some d) (hbad : d < 0 ∨ 4294967295 * 1000000000 < d) : leasetime.setup (a :: rest) = .error () := by
  unfold leasetime.setup
  simp only [hd]
  rw [if_pos (by omega)]

/-- (D24) a V6ONLY_WAIT that is negative or longer than 2^32-1 seconds makes ipv6only's set-up fail -/
theorem C19_ipv6only_rejects_out_of_range (a : ArgOracle) (rest : List ArgOracle) (d : Int)
    (hd : a.dur = some d) (hbad : d < 0 ∨ 4294967295 * 1000000000 < d) : ipv6only.setup (a :: rest) = .error () := by
  unfold ipv6only.setup
  simp only [hd]
  rw [if_pos (by omega)]

/-- RFC 3442 routes satisfying `wireOK` decode (dhcpv4 `Routes.FromBytes`) to themselves -/
theorem C19_routes_roundtrip (rs : List Route) (h : rs.all C19.routeOK = true) :
    decodeRoutes (encRoutes rs) = some rs := decRoutes_enc rs h _ (Nat.le_refl _)

/-- a search list satisfying `wireOK` — every name made of labels of 1 to 63 bytes — decodes
(rfc1035label `labelsFromBytes`) to itself: the full list, any number of names -/
theorem C19_labels_roundtrip (names : List Bytes) (h : names.all C19.nameOK = true) :
    decodeLabels (encLabels names) = some names :=
  labels_roundtrip names (fun n hn => nameParts_of_nameOK n (List.all_eq_true.mp h n hn))

/-- DHCPv4 address lists (DNS, routers) decode to themselves -/
theorem C19_ips_roundtrip (ips : List Bytes) (h : (!ips.isEmpty && ips.all (·.length == 4)) = true) :
    decIPs4 (encIPs ips) = some ips := by
  simp only [Bool.and_eq_true, Bool.not_eq_true', List.all_eq_true, beq_iff_eq] at h
  exact ips4_roundtrip ips (by intro hn; subst hn; simp at h) h.2

/-- RFC 5970 boot file parameters decode to themselves -/
theorem C19_bootparams_roundtrip (ps : List Bytes) (h : ∀ p ∈ ps, p.length < 65536) :
    decodeBootParams (encBootParams ps) = some ps := bootParams_roundtrip ps h

/-- Finding (not repaired; extreme): the proviso of `C19_setup_wireOK` is needed. A boot file URL
of more than 65535 bytes is accepted by the DHCPv6 nbp plugin although option 59 cannot carry it;
likewise ≥ 4096 DNS servers or search domains adding up to more than 64 KiB. The implementation
then sends a reply whose option length wrapped around (`rt fail:unparsable` in the corpus). -/
theorem C19_oversize6_refuted (u : Bytes) (hu : 65535 < u.length) :
    let a : ArgOracle := { raw := u, url := some ⟨[], [], [], u, []⟩ }
    a.wf = true ∧ plugSetup 6 "nbp" [a] = some (.ok (.v6 (.nbp ⟨u, none⟩))) ∧
    C19.wireOK (.v6 (.nbp ⟨u, none⟩)) = false := c19_oversize6 u hu

end CoreDhcp
