/-
GEN (the front of `config.Load`) — the definitions regenerated from the Go source on every run
(Generated/ConfigLoad.lean, written by `harness gen -unit configload` from the go/ast of config/config.go: `New`,
the field `v` of `Config`, and `Load` from its first statement through the test of the error of
`c.v.ReadInConfig()`) are equal to the hand-written model (Model/ConfigLoad.lean); and, composed with unit
`config` (Generated/Config.lean, Props/GenConfig.lean: `Load` from the next statement on), ALL of `Load` is the
model C18 is about, applied to what viper read with the settings stated here.

  GEN_configload_load_eq   GenConfigLoad.load = ConfigLoad.load  (∀ path, ∀ world, ∀ rest-of-Load)
  GEN_configload_tail_eq   the `c.parseConfig(K)` calls of the rest of Load, on the same configuration: 6, then 4

  CONFIGLOAD_asked, _type_is_yaml_always, _explicit_path_verbatim, _search_order, _reads_once_with_these_settings,
  _read_error_aborts, _parses_what_was_read, _fresh_instance, _tail_is_unit_config,
  _load_is_C18_model, _C18, _never_panics, _main_reads_conf_flag

What viper does with the settings (search, `$HOME` expansion, YAML decoding) is out of the repository and stays
an input (`World.readInConfig`); the statements are about WHICH settings the code hands to WHICH instance, in
which order, and what it does with the answer.  They tie C18 ("loading a configuration file yields …" — for the
file NAMED, decoded as YAML) to the source where the `config` engine only samples file names.

An edit of the Go logic changes the generated text and breaks `GEN_configload_load_eq` (or is rejected by the
translator); a renamed local, a moved log line, or the type set after the branch instead of before it (still on
every path, still before the read) leave it provable.
-/
import CoreDhcp.Generated.ConfigLoad
import CoreDhcp.Model.ConfigLoad
import CoreDhcp.Props.GenConfig
import CoreDhcp.Props.C18
import CoreDhcp.Props.GenMainReg
namespace CoreDhcp
open ConfigLoad
open GenCfg (Out Env RawConfig Servers)

/-! ## the generated definitions are the model -/

/-- The generated front of `Load` is the model's: a new instance, the type "yml", then by `path ≠ ""` the file
or name + search directories, one read, its error or the rest of `Load` on what was read. -/
theorem GEN_configload_load_eq {ρ τ : Type} (path : String) (w : World ρ) (tail : ρ → τ) :
    GenConfigLoad.load path w tail = ConfigLoad.load path w tail := by
  unfold GenConfigLoad.load ConfigLoad.load ConfigLoad.loadOn ConfigLoad.settingsFrom
  by_cases h : path ≠ ""
  · simp only [if_pos h]
    rfl
  · simp only [if_neg h]
    rfl

/-- The rest of `Load` calls `parseConfig` on the configuration whose instance read the file: for DHCPv6, then
for DHCPv4 — the two calls unit `config` translates. -/
theorem GEN_configload_tail_eq : GenConfigLoad.tailCalls = ConfigLoad.tailCalls := rfl

/-! ## closed forms of the settings -/

/-- with a path: type "yml", that file, no name, no search directory -/
theorem ConfigLoad.settingsFor_explicit (path : String) (h : path ≠ "") :
    settingsFor path = ⟨some "yml", some path, none, []⟩ := by
  unfold settingsFor settingsFrom
  simp only [if_pos h]
  rfl

/-- without one: type "yml", no file, the name "config", the four directories in their order -/
theorem ConfigLoad.settingsFor_search :
    settingsFor "" = ⟨some "yml", none, some "config",
      [".", "$XDG_CONFIG_HOME/coredhcp/", "$HOME/.coredhcp/", "/etc/coredhcp/"]⟩ := by
  unfold settingsFor settingsFrom
  simp only [if_neg (Classical.not_not.mpr rfl)]
  rfl

/-! ## properties (of the generated code, through the equality) -/

/-- For every path, world and rest-of-Load: the ONE `ReadInConfig()` of `Load` is made on an instance that was
told exactly `settingsFor path`. -/
theorem CONFIGLOAD_asked {ρ τ : Type} (path : String) (w : World ρ) (tail : ρ → τ) :
    (GenConfigLoad.load path w tail).asked = settingsFor path := by
  rw [GEN_configload_load_eq]
  unfold ConfigLoad.load ConfigLoad.loadOn settingsFor
  cases w.readInConfig (settingsFrom Settings.fresh path) <;> rfl

/-- On BOTH branches — a path given with -c or not — the instance has been told `SetConfigType("yml")` when it
reads: the file is decoded as YAML whatever its name or extension (`-c coredhcp.json` is not decoded as JSON). -/
theorem CONFIGLOAD_type_is_yaml_always {ρ τ : Type} (path : String) (w : World ρ) (tail : ρ → τ) :
    (GenConfigLoad.load path w tail).asked.configType = some "yml" := by
  rw [CONFIGLOAD_asked]
  by_cases h : path ≠ ""
  · rw [settingsFor_explicit path h]
  · have : path = "" := Classical.not_not.mp h
    subst this
    rw [settingsFor_search]

/-- A non-empty path reaches viper's `SetConfigFile` unchanged — the very string, nothing computed from it — and
then nothing is searched: no name, no search directory has been given to the instance. -/
theorem CONFIGLOAD_explicit_path_verbatim {ρ τ : Type} (path : String) (h : path ≠ "") (w : World ρ) (tail : ρ → τ) :
    (GenConfigLoad.load path w tail).asked.configFile = some path ∧
    (GenConfigLoad.load path w tail).asked.searchPaths = [] ∧
    (GenConfigLoad.load path w tail).asked.configName = none := by
  rw [CONFIGLOAD_asked, settingsFor_explicit path h]
  exact ⟨rfl, rfl, rfl⟩

/-- Without a path (the empty string, the default of --conf): no file is named; viper is told to look for the
name "config" in ".", then "$XDG_CONFIG_HOME/coredhcp/", then "$HOME/.coredhcp/", then "/etc/coredhcp/" — the
literal directories of the source, in source order (the order viper searches them in). -/
theorem CONFIGLOAD_search_order {ρ τ : Type} (w : World ρ) (tail : ρ → τ) :
    (GenConfigLoad.load "" w tail).asked.configFile = none ∧
    (GenConfigLoad.load "" w tail).asked.configName = some "config" ∧
    (GenConfigLoad.load "" w tail).asked.searchPaths =
      [".", "$XDG_CONFIG_HOME/coredhcp/", "$HOME/.coredhcp/", "/etc/coredhcp/"] := by
  rw [CONFIGLOAD_asked, settingsFor_search]
  exact ⟨rfl, rfl, rfl⟩

/-- viper is consulted once, with these settings and no others: two worlds that answer alike for
`settingsFor path` give the same run of `Load(path)`. -/
theorem CONFIGLOAD_reads_once_with_these_settings {ρ τ : Type} (path : String) (w w' : World ρ) (tail : ρ → τ)
    (h : w.readInConfig (settingsFor path) = w'.readInConfig (settingsFor path)) :
    GenConfigLoad.load path w tail = GenConfigLoad.load path w' tail := by
  rw [GEN_configload_load_eq, GEN_configload_load_eq]
  unfold ConfigLoad.load ConfigLoad.loadOn
  unfold settingsFor at h
  simp only [h]

/-- When `ReadInConfig()` fails, `Load` returns a nil configuration and the error at once: whatever the rest of
`Load` is, it has no part in the outcome — nothing is parsed. -/
theorem CONFIGLOAD_read_error_aborts {ρ τ : Type} (path : String) (w : World ρ)
    (h : w.readInConfig (settingsFor path) = none) :
    (∀ tail : ρ → τ, (GenConfigLoad.load path w tail).result = .readErr) ∧
    (∀ tail tail' : ρ → τ, GenConfigLoad.load path w tail = GenConfigLoad.load path w tail') := by
  unfold settingsFor at h
  refine ⟨?_, ?_⟩
  · intro tail
    rw [GEN_configload_load_eq]
    unfold ConfigLoad.load ConfigLoad.loadOn
    simp only [h]
  · intro tail tail'
    rw [GEN_configload_load_eq, GEN_configload_load_eq]
    unfold ConfigLoad.load ConfigLoad.loadOn
    simp only [h]

/-- When `ReadInConfig()` succeeds, the rest of `Load` runs on what viper delivered FOR THESE SETTINGS (on the
instance that read it), and what it makes of it is what `Load` returns. -/
theorem CONFIGLOAD_parses_what_was_read {ρ τ : Type} (path : String) (w : World ρ) (tail : ρ → τ) (raw : ρ)
    (h : w.readInConfig (settingsFor path) = some raw) :
    (GenConfigLoad.load path w tail).result = .parsed (tail raw) := by
  unfold settingsFor at h
  rw [GEN_configload_load_eq]
  unfold ConfigLoad.load ConfigLoad.loadOn
  simp only [h]

/-- Every call of `Load` starts from an instance of its own (`c := New()`, `New` = `&Config{v: viper.New()}`):
the call is the model's `loadOn` at the FRESH instance, so what a second call tells viper does not depend on
what an earlier call — with whatever path, world, outcome — told its instance. (As far as the source shows:
what `viper.New()` itself shares between instances is viper's.) -/
theorem CONFIGLOAD_fresh_instance {ρ τ : Type} (p1 p2 : String) (w1 w2 : World ρ) (t1 t2 : ρ → τ) :
    GenConfigLoad.load p2 w2 t2 = ConfigLoad.loadOn Settings.fresh p2 w2 t2 ∧
    (let _first := GenConfigLoad.load p1 w1 t1
     (GenConfigLoad.load p2 w2 t2).asked = settingsFor p2) := by
  exact ⟨GEN_configload_load_eq p2 w2 t2, CONFIGLOAD_asked p2 w2 t2⟩

/-! ## the seam with unit `config`, and all of `Load` -/

/-- The `parseConfig` calls this unit sees behind the read are the ones unit `config` translates, in its order:
version 6 first (a DHCPv6 error ends `Load` before DHCPv4 is looked at), then version 4. -/
theorem CONFIGLOAD_tail_is_unit_config :
    GenConfigLoad.tailCalls = [Gen10.ver true, Gen10.ver false] ∧
    ∀ (env : Env) (cfg : RawConfig),
      GenCfg.load env cfg =
        (match GenCfg.parseConfig 6 env cfg ⟨none, none⟩ with
         | .error e => .error e
         | .panic => .panic
         | .ok st => match GenCfg.parseConfig 4 env cfg st with
           | .error e => .error e
           | .panic => .panic
           | .ok st' => if st'.s6.isNone = true ∧ st'.s4.isNone = true then .error .needOne else .ok st') := by
  refine ⟨rfl, ?_⟩
  intro env cfg
  unfold GenCfg.load
  dsimp only
  cases h6 : GenCfg.parseConfig 6 env cfg ⟨none, none⟩ with
  | error e => rfl
  | panic => rfl
  | ok st =>
    dsimp only
    cases h4 : GenCfg.parseConfig 4 env cfg st <;> rfl

/-- ALL of `config.Load`: the generated front (this unit) with the generated rest (unit `config`) as its tail;
`w` = viper, `env` = the standard library's answers to the rest. -/
def GenConfigLoad.fullLoad (env : Env) (path : String) (w : World RawConfig) : Run (Out Servers) :=
  GenConfigLoad.load path w (GenCfg.load env)

/-- the configuration `Load` returns next to a nil error (DHCPv6 section, DHCPv4 section); `none` = an error -/
def ConfigLoad.returned : Run (Out Servers) → Option (Option ServerConfig × Option ServerConfig)
  | ⟨_, .parsed (.ok st)⟩ => some (st.s6, st.s4)
  | _ => none

/-- `Load path` = C18's model applied to what viper read: with the settings `settingsFor path` (type "yml"; the
file named, or "config" in the four directories) viper either fails — `Load` fails — or delivers a document, and
`Load` returns exactly `loadConfig` (Model/Config.lean, the function `C18_holds` is about) of the two sections of
THAT document as viper/cast present them (`Gen10.view`). -/
theorem CONFIGLOAD_load_is_C18_model (env : Env) (ifs : List Iface) (h : env.ifs = some ifs) (path : String)
    (w : World RawConfig) :
    returned (GenConfigLoad.fullLoad env path w) =
      (w.readInConfig (settingsFor path)).bind
        (fun raw => loadConfig ifs (raw.s6.map (Gen10.view env)) (raw.s4.map (Gen10.view env))) := by
  unfold GenConfigLoad.fullLoad
  cases hr : w.readInConfig (settingsFor path) with
  | none =>
    have hres := (CONFIGLOAD_read_error_aborts (τ := Out Servers) path w hr).1 (GenCfg.load env)
    generalize GenConfigLoad.load path w (GenCfg.load env) = r at hres
    cases r with
    | mk a res => cases hres; rfl
  | some raw =>
    have hres := CONFIGLOAD_parses_what_was_read path w (GenCfg.load env) raw hr
    have e := GEN_cfg_load_eq env raw ifs h
    generalize GenConfigLoad.load path w (GenCfg.load env) = r at hres
    cases r with
    | mk a res =>
      cases hres
      rw [Option.bind_some, ← e]
      cases GenCfg.load env raw <;> rfl

/-- C18 for the file named: whatever document viper delivers for `settingsFor path`, what `Load path` returns
satisfies the C18 predicate for that document. -/
theorem CONFIGLOAD_C18 (env : Env) (ifs : List Iface) (h : env.ifs = some ifs) (path : String)
    (w : World RawConfig) (raw : RawConfig) (hr : w.readInConfig (settingsFor path) = some raw) :
    C18.holds ifs (raw.s6.map (Gen10.view env)) (raw.s4.map (Gen10.view env))
      (returned (GenConfigLoad.fullLoad env path w)) = true := by
  rw [CONFIGLOAD_load_is_C18_model env ifs h path w, hr, Option.bind_some]
  exact C18_holds ifs _ _

/-- `Load` never panics: whatever viper answers, the outcome is the read error, a configuration error or a
configuration. -/
theorem CONFIGLOAD_never_panics (env : Env) (path : String) (w : World RawConfig) :
    (GenConfigLoad.fullLoad env path w).result ≠ .parsed .panic := by
  unfold GenConfigLoad.fullLoad
  rw [GEN_configload_load_eq]
  unfold ConfigLoad.load ConfigLoad.loadOn
  cases w.readInConfig (settingsFrom Settings.fresh path) with
  | none => intro h; cases h
  | some raw =>
    intro h
    have hp := GEN_cfg_load_no_panic env raw
    simp only [Result.parsed.injEq] at h
    exact hp h

/-- With unit `mainreg`: when `config.Load` in `main`'s world is this `Load` (`code` names a configuration),
every server start in every run of `main` is with the configuration parsed from what viper delivered for the
settings of the --conf value: decoded as "yml", and — when --conf is not empty — read from exactly that file,
nothing searched. -/
theorem CONFIGLOAD_main_reads_conf_flag (levels : List String) (desired : List PluginDecl) (reg0 : MainReg.Reg)
    (f : MainReg.Flags) (mw : MainReg.World) (env : Env) (vw : World RawConfig)
    (code : Option ServerConfig × Option ServerConfig → MainReg.Cfg)
    (hw : ∀ p, mw.load p = (returned (GenConfigLoad.fullLoad env p vw)).map code)
    (c : MainReg.Cfg) (hc : MainReg.Step.start c ∈ MainReg.main levels desired reg0 f mw) :
    (∃ raw cfg, vw.readInConfig (settingsFor f.conf) = some raw ∧
        returned (GenConfigLoad.fullLoad env f.conf vw) = some cfg ∧ c = code cfg) ∧
    (settingsFor f.conf).configType = some "yml" ∧
    (f.conf ≠ "" → (settingsFor f.conf).configFile = some f.conf ∧ (settingsFor f.conf).searchPaths = []) := by
  have hl := ((MAINREG_config_before_sockets levels desired reg0 f mw).2.2.2 c hc).1
  rw [hw] at hl
  refine ⟨?_, ?_, ?_⟩
  · cases hret : returned (GenConfigLoad.fullLoad env f.conf vw) with
    | none => rw [hret] at hl; cases hl
    | some cfg =>
      rw [hret, Option.map_some, Option.some.injEq] at hl
      cases hr : vw.readInConfig (settingsFor f.conf) with
      | none =>
        have hres := (CONFIGLOAD_read_error_aborts (τ := Out Servers) f.conf vw hr).1 (GenCfg.load env)
        unfold GenConfigLoad.fullLoad at hret
        generalize GenConfigLoad.load f.conf vw (GenCfg.load env) = r at hres hret
        cases r with
        | mk a res => cases hres; cases hret
      | some raw => exact ⟨raw, cfg, rfl, rfl, hl.symm⟩
  · have := CONFIGLOAD_type_is_yaml_always f.conf vw (GenCfg.load env)
    rw [CONFIGLOAD_asked] at this
    exact this
  · intro hne
    rw [settingsFor_explicit f.conf hne]
    exact ⟨rfl, rfl⟩

/-! ## the statements are not vacuous; broken variants violate them -/

/-- a viper that decodes by what it was told, and by the extension when it was told nothing -/
def ConfigLoad.exWorld : World String :=
  ⟨fun s => match s.configFile, s.configType with
    | some _, some t => some ("decoded as " ++ t)
    | some _, none => some "decoded by extension"
    | none, _ => none⟩

/-- `-c coredhcp.json`: read from that file, as YAML, and the rest of `Load` gets that document -/
example : GenConfigLoad.load "coredhcp.json" exWorld id =
    ⟨⟨some "yml", some "coredhcp.json", none, []⟩, .parsed "decoded as yml"⟩ := by decide
/-- no -c and nothing found: the read error, with the search settings -/
example : GenConfigLoad.load "" exWorld id =
    ⟨⟨some "yml", none, some "config", [".", "$XDG_CONFIG_HOME/coredhcp/", "$HOME/.coredhcp/", "/etc/coredhcp/"]⟩,
      .readErr⟩ := by decide
/-- the hypotheses of `CONFIGLOAD_parses_what_was_read` / `_read_error_aborts` are satisfiable -/
example : exWorld.readInConfig (settingsFor "coredhcp.json") = some "decoded as yml" := by decide
example : exWorld.readInConfig (settingsFor "") = none := by decide

/-- The variant of round 5 of the seeded changes (C18): `SetConfigType("yml")` moved into the search branch —
another function; with an explicit path the instance has been told no type … -/
def ConfigLoad.loadR5 {ρ τ : Type} (path : String) (w : World ρ) (tail : ρ → τ) : Run τ :=
  let v0 := Settings.fresh
  if path ≠ "" then
    let v1 := v0.setConfigFile path
    match w.readInConfig v1 with
    | none => ⟨v1, .readErr⟩
    | some raw => ⟨v1, .parsed (tail raw)⟩
  else
    let v1 := v0.setConfigType "yml"
    let v2 := v1.setConfigName "config"
    let v3 := searchDirs.foldl Settings.addConfigPath v2
    match w.readInConfig v3 with
    | none => ⟨v3, .readErr⟩
    | some raw => ⟨v3, .parsed (tail raw)⟩

/-- … which violates `CONFIGLOAD_type_is_yaml_always` … -/
example : (loadR5 "coredhcp.json" exWorld id).asked.configType ≠ some "yml" := by decide
/-- … and `-c coredhcp.json` is then decoded by its extension, where `Load` decodes it as YAML. -/
example : (loadR5 "coredhcp.json" exWorld id).result = .parsed "decoded by extension" ∧
    (GenConfigLoad.load "coredhcp.json" exWorld id).result = .parsed "decoded as yml" := by decide
/-- (without a path the variant and `Load` agree: the `config` engine's default-path samples cannot tell) -/
example : loadR5 "" exWorld id = GenConfigLoad.load "" exWorld id := by decide

/-- A `Load` on a SHARED instance (the package-global viper, or a `Config` reused): after `Load("/x.yml")` a
`Load("")` would still carry the explicit file — `CONFIGLOAD_search_order` (no file named) fails for it. -/
example : (loadOn (GenConfigLoad.load "/x.yml" exWorld id).asked "" exWorld id).asked.configFile = some "/x.yml" := by
  decide
/-- and the search directories would pile up from call to call -/
example : (loadOn (GenConfigLoad.load "" exWorld id).asked "" exWorld id).asked.searchPaths.length = 8 := by decide

/-- the search order is part of the statement: the reversed list is another list -/
example : searchDirs.reverse ≠ searchDirs := by decide

end CoreDhcp
