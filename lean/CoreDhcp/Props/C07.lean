/-
C07 — A hint naming a free block is honoured exactly.
Property theorems only; invariant proofs are in Proofs/Alloc6.lean and Proofs/Alloc4.lean.
The monitor this theorem is about is the `c07` component of `Mon6.step` / `Mon4.step` (Spec/Alloc.lean).
-/
import CoreDhcp.Proofs.Alloc6
import CoreDhcp.Proofs.Alloc4
import CoreDhcp.Proofs.MonLemmas
namespace CoreDhcp

theorem C07_alloc6 (p : Pool6) (hp : p.WF) (a : A6) (hnew : A6.new p = .ok a)
    (ops : List Op6) (cs : List (Option Nat)) (evs : List Ev6) (z : A6)
    (hdom : ops.all (Op6.inDomain p) = true) (hrun : A6.run a ops cs = some (evs, z)) :
    C07.holds6 p evs = true := by
  unfold C07.holds6
  exact all_of_all_imp (A6.run_verdicts p hp a hnew ops cs evs z hdom hrun)
    (fun v hv => by unfold Verdict.all at hv; simp only [Bool.and_eq_true] at hv; exact hv.2)

theorem C07_alloc4 (s e : BitVec 32) (a : A4) (hnew : A4.new (some s) (some e) = .ok a)
    (ops : List Op4) (cs : List (Option Nat)) (evs : List Ev4) (z : A4)
    (hrun : A4.run a ops cs = some (evs, z)) :
    C07.holds4 s e evs = true := by
  unfold C07.holds4
  exact all_of_all_imp (A4.run_verdicts s e a hnew ops cs evs z hrun)
    (fun v hv => by unfold Verdict.all at hv; simp only [Bool.and_eq_true] at hv; exact hv.2)

end CoreDhcp
