/-
C18 — Config loading: exact plugin lists and listen addresses; errors, not panics.
Property theorems only (proofs in Proofs/Config.lean). Partial: the YAML reader, viper and cast
are third-party and outside the model, which starts from what they deliver.
-/
import CoreDhcp.Proofs.Config
namespace CoreDhcp

/-- For every document as viper/cast deliver it, every interface list and every answer of the
stdlib parsers, `Load` returns exactly what the property demands: per protocol the listed one-key
items in order with their whitespace-separated arguments; each listen string as
[address][%zone][:port] with the wildcard address and default port filled in; unzoned link-local
multicast addresses expanded per suitable interface; an error for every listed error case. -/
theorem C18_holds (ifs : List Iface) (s6 s4 : Option SectionView) :
    C18.holds ifs s6 s4 (loadConfig ifs s6 s4) = true := C18_load ifs s6 s4

theorem C18_plugin_list_exact (v6 : Bool) (ifs : List Iface) (sec : SectionView) (cfg : ServerConfig)
    (h : parseSection v6 ifs sec = some cfg) :
    ∃ items, sec.plugins = some items ∧ itemsOk items = true ∧ cfg.plugins = itemsList items :=
  C18_plugins_exact v6 ifs sec cfg h

theorem C18_rejects_bad_plugins (v6 : Bool) (ifs : List Iface) (sec : SectionView)
    (h : sec.plugins = none ∨ ∃ items, sec.plugins = some items ∧ itemsOk items = false) :
    parseSection v6 ifs sec = none := C18_bad_plugins v6 ifs sec h

theorem C18_rejects_listen_and_interface (v6 : Bool) (ifs : List Iface) (sec : SectionView)
    (hi : sec.iface.isSome = true) (hl : sec.listen.isSome = true) : parseSection v6 ifs sec = none :=
  C18_listen_and_interface v6 ifs sec hi hl

theorem C18_address_form (v6 : Bool) (o : AddrOracle) (a : UDPAddr) (h : getListenAddress v6 o = some a) :
    (match a.ip with | .v4 _ => v6 = false | .v6 _ => v6 = true | .none => False) ∧
    specAddr v6 o = some a := C18_listen_address v6 o a h

theorem C18_rejects_bad_address (v6 : Bool) (o : AddrOracle) (h : specAddr v6 o = none) :
    getListenAddress v6 o = none := C18_listen_rejects v6 o h

theorem C18_needs_a_protocol (ifs : List Iface) : loadConfig ifs none none = none := C18_needs_one ifs

/-- non-vacuity: "[fe80::1%lo]:5470" for DHCPv6 -/
example : getListenAddress true ⟨"[fe80::1%lo]:5470", some ("fe80::1%lo", "5470"), none,
    [("fe80::1", .v6 ⟨0xfe80000000000000#64, 1#64⟩)], some 5470⟩ =
    some ⟨.v6 ⟨0xfe80000000000000#64, 1#64⟩, 5470, "lo"⟩ := by decide

end CoreDhcp
